/- Proofs/Id3More.lean — C12: nested frames to any depth (the recursion of `readTagN` / `writeTagN` closed); the
ID3v2.2 upgrade on read. -/
import MutagenModel.Proofs.C01Files
set_option linter.unusedVariables false
set_option linter.unusedSimpArgs false
namespace Mutagen.C01F
open Mutagen Mutagen.Id3

/-! ## the writer: more levels of nesting change nothing -/

/-- whatever `a` writes, `b` writes the same -/
def RefW (a b : Cfg → List Val → Except PyErr Bytes) : Prop := ∀ cfg fs x, a cfg fs = .ok x → b cfg fs = .ok x

theorem writeSpec_mono (a b : Cfg → List Val → Except PyErr Bytes) (hab : RefW a b) (cfg : Cfg) (k : SpecKind) (c : Ctx)
    (v : Val) (x : Bytes) (h : writeSpec a cfg k c v = .ok x) : writeSpec b cfg k c v = .ok x := by
  cases k with
  | frames =>
    cases v with
    | list fs => exact hab cfg fs x h
    | _ => exact h
  | _ => exact h

theorem writeReq_mono (a b : Cfg → List Val → Except PyErr Bytes) (hab : RefW a b) (cfg : Cfg) (c : Ctx) :
    ∀ (specs : List FieldSpec) (vals : List Val) (x : Bytes × List Val), writeReq a cfg c specs vals = .ok x →
      writeReq b cfg c specs vals = .ok x := by
  intro specs
  induction specs with
  | nil => intro vals x h; exact h
  | cons s ss ih =>
    intro vals x h
    cases vals with
    | nil => exact h
    | cons v vs =>
      simp only [writeReq] at h ⊢
      cases h1 : writeSpec a cfg s.kind c v with
      | error e => rw [h1] at h; cases h
      | ok y =>
        rw [h1] at h
        rw [writeSpec_mono a b hab cfg s.kind c v y h1]
        cases h2 : writeReq a cfg c ss vs with
        | error e => rw [h2] at h; cases h
        | ok z =>
          rw [h2] at h
          rw [ih vs z h2]
          exact h

theorem writeOpt_mono (a b : Cfg → List Val → Except PyErr Bytes) (hab : RefW a b) (cfg : Cfg) (c : Ctx) :
    ∀ (specs : List FieldSpec) (vals : List Val) (x : Bytes), writeOpt a cfg c specs vals = .ok x →
      writeOpt b cfg c specs vals = .ok x := by
  intro specs
  induction specs with
  | nil => intro vals x h; cases vals <;> exact h
  | cons s ss ih =>
    intro vals x h
    cases vals with
    | nil => exact h
    | cons v vs =>
      simp only [writeOpt] at h ⊢
      cases h1 : writeSpec a cfg s.kind c v with
      | error e => rw [h1] at h; cases h
      | ok y =>
        rw [h1] at h
        rw [writeSpec_mono a b hab cfg s.kind c v y h1]
        cases h2 : writeOpt a cfg c ss vs with
        | error e => rw [h2] at h; cases h
        | ok z =>
          rw [h2] at h
          rw [ih vs z h2]
          exact h

theorem writeFrame_mono (a b : Cfg → List Val → Except PyErr Bytes) (hab : RefW a b) (cfg : Cfg) (cls : FrameClass)
    (vals : List Val) (x : Bytes) (h : writeFrame a cfg cls vals = .ok x) : writeFrame b cfg cls vals = .ok x := by
  unfold writeFrame at h ⊢
  cases hv : (if cfg.version = 3 then toV23 cfg.sep (cls.required ++ cls.optional) vals else .ok vals) with
  | error e => rw [hv] at h; cases h
  | ok vals' =>
    rw [hv] at h
    simp only at h ⊢
    cases h1 : writeReq a cfg (frameCtx (cls.required ++ cls.optional) vals' (initCtx cls.required {})) cls.required vals' with
    | error e => rw [h1] at h; cases h
    | ok y =>
      rw [h1] at h
      rw [writeReq_mono a b hab cfg _ _ _ y h1]
      obtain ⟨y1, y2⟩ := y
      simp only at h ⊢
      cases h2 : writeOpt a cfg (frameCtx (cls.required ++ cls.optional) vals' (initCtx cls.required {})) cls.optional y2 with
      | error e => rw [h2] at h; cases h
      | ok z =>
        rw [h2] at h
        rw [writeOpt_mono a b hab cfg _ _ _ z h2]
        exact h

theorem saveFrame_mono (a b : Cfg → List Val → Except PyErr Bytes) (hab : RefW a b) (tbl : Table) (cfg : Cfg) (f : Val)
    (x : Bytes) (h : saveFrame a tbl cfg f = .ok x) : saveFrame b tbl cfg f = .ok x := by
  cases f with
  | frame id vals =>
    simp only [saveFrame] at h ⊢
    cases hf : tbl.find (nameBytes id) with
    | none => rw [hf] at h; cases h
    | some cls =>
      rw [hf] at h
      simp only at h ⊢
      by_cases he : (cls.isText && textEmpty cls.required vals) = true
      · simp only [he, ↓reduceIte] at h ⊢; exact h
      · simp only [he, Bool.false_eq_true, ↓reduceIte] at h ⊢
        cases hw : writeFrame a cfg cls vals with
        | error e => rw [hw] at h; cases h
        | ok d => rw [hw] at h; rw [writeFrame_mono a b hab cfg cls vals d hw]; exact h
  | _ => exact h

theorem saveFrames_mono (a b : Cfg → List Val → Except PyErr Bytes) (hab : RefW a b) (tbl : Table) (cfg : Cfg) :
    ∀ (fs : List Val) (x : Bytes), saveFrames a tbl cfg fs = .ok x → saveFrames b tbl cfg fs = .ok x := by
  intro fs
  induction fs with
  | nil => intro x h; exact h
  | cons f r ih =>
    intro x h
    simp only [saveFrames] at h ⊢
    cases h1 : saveFrame a tbl cfg f with
    | error e => rw [h1] at h; cases h
    | ok y =>
      rw [h1] at h
      rw [saveFrame_mono a b hab tbl cfg f y h1]
      cases h2 : saveFrames a tbl cfg r with
      | error e => rw [h2] at h; cases h
      | ok z => rw [h2] at h; rw [ih z h2]; exact h

theorem writeTagN_succ (tbl : Table) : ∀ m, RefW (writeTagN tbl m) (writeTagN tbl (m + 1)) := by
  intro m
  induction m with
  | zero =>
    intro cfg fs x h
    simp only [writeTagN] at h
    cases fs with
    | nil => simp at h; subst h; rfl
    | cons f r => simp at h
  | succ k ih =>
    intro cfg fs x h
    exact saveFrames_mono _ _ ih tbl cfg fs x h

/-- what `ID3Tags._write` renders with `m` levels of nesting allowed, it renders with more -/
theorem writeTagN_le (tbl : Table) (m m' : Nat) (hle : m ≤ m') : RefW (writeTagN tbl m) (writeTagN tbl m') := by
  induction hle with
  | refl => intro cfg fs x h; exact h
  | step _ ih => intro cfg fs x h; exact writeTagN_succ tbl _ cfg fs x (ih cfg fs x h)

/-! ## nesting closed -/

/-- the header the saved tag is read under: the version written, no unsynchronisation -/
def hdrOf (cfg : Cfg) : Hdr := { version := cfg.version, unsynch := false }

/-- the codec `n` / `m` levels down: `ID3Tags._read` / `ID3Tags._write` with that much nesting left -/
def envAt (tbl : Table) (cfg : Cfg) (n m : Nat) : Id3.Env := ⟨readTagN tbl n, writeTagN tbl m, cfg, hdrOf cfg⟩

/-- for v2.4: `determine_bpi` recognises what is written for `s` as syncsafe (cf. `hbpi` of `C01.id3_tag_roundtrip`;
`C01.determine_bpi_syncsafe` gives it from the body lengths) -/
def SubBpi (tbl : Table) (cfg : Cfg) (s : List Val) : Prop :=
  cfg.version = 4 → ∀ m b, writeTagN tbl m cfg s = .ok b → determineBpi tbl b = true

/-- a frame list that round-trips to itself with at most `d` levels of CHAP / CTOC nesting below it.
Level 0: `TagRT` (every frame satisfies the conclusion of `C12.frame_roundtrip`, empty text frames aside) whatever the
nested codec is.  Level `d + 1`: there are sub-frame lists `subs` (the `sub_frames` of the CHAP / CTOC frames in `fs`),
each of level `d`, and `TagRT` holds for the codec at any depth that round-trips these lists — which is what
`C12.frame_roundtrip` needs for the `ID3FramesSpec` values (`Valid … .frames`).  No reader or writer is a parameter:
`nested_core` discharges the hypothesis with `readTagN` / `writeTagN` themselves. -/
def NestedRT (tbl : Table) (cfg : Cfg) : Nat → List Val → Prop
  | 0, fs => ∀ E : Id3.Env, E.cfg = cfg → E.h = hdrOf cfg → TagRT E tbl fs fs
  | d + 1, fs => ∃ subs : List (List Val), (∀ s ∈ subs, NestedRT tbl cfg d s ∧ SubBpi tbl cfg s) ∧
      ∀ n m, (∀ s ∈ subs, ∃ b, writeTagN tbl m cfg s = .ok b ∧ readTagN tbl n (hdrOf cfg) b = .ok (s, [])) →
        TagRT (envAt tbl cfg n m) tbl fs fs

theorem NestedRT.succ (tbl : Table) (cfg : Cfg) : ∀ d fs, NestedRT tbl cfg d fs → NestedRT tbl cfg (d + 1) fs := by
  intro d
  induction d with
  | zero => intro fs h; exact ⟨[], by simp, fun n m _ => h _ rfl rfl⟩
  | succ k ih =>
    intro fs h
    obtain ⟨subs, h1, h2⟩ := h
    exact ⟨subs, fun s hs => ⟨ih s (h1 s hs).1, (h1 s hs).2⟩, h2⟩

/-- THE recursion: with more than `d` levels allowed on both sides, `ID3Tags._write` renders the frames and
`read_frames` reads them (and any padding behind them) back -/
theorem nested_core (tbl : Table) (cfg : Cfg) (hv : cfg.version = 3 ∨ cfg.version = 4) : ∀ (d : Nat) (fs : List Val),
    NestedRT tbl cfg d fs → ∀ n m, d + 1 ≤ n → d + 1 ≤ m →
    ∃ b, writeTagN tbl m cfg fs = .ok b ∧
      ∀ p, (cfg.version = 4 → determineBpi tbl (b ++ zeros p) = true) →
        readTagN tbl n (hdrOf cfg) (b ++ zeros p) = .ok (fs, zeros p) := by
  intro d
  induction d with
  | zero =>
    intro fs H n m hn hm
    obtain ⟨n', rfl⟩ : ∃ n', n = n' + 1 := ⟨n - 1, by omega⟩
    obtain ⟨m', rfl⟩ : ∃ m', m = m' + 1 := ⟨m - 1, by omega⟩
    have hrt : TagRT (envAt tbl cfg n' m') tbl fs fs := H _ rfl rfl
    obtain ⟨w, hw, _⟩ := tag_roundtrip34 (envAt tbl cfg n' m') tbl rfl (decide (cfg.version = 4)) rfl fs fs hrt
    refine ⟨w, hw, fun p hb => ?_⟩
    exact readFramesWith_roundtrip (envAt tbl cfg n' m') tbl hv rfl fs fs hrt w hw p hb
  | succ k ih =>
    intro fs H n m hn hm
    obtain ⟨n', rfl⟩ : ∃ n', n = n' + 1 := ⟨n - 1, by omega⟩
    obtain ⟨m', rfl⟩ : ∃ m', m = m' + 1 := ⟨m - 1, by omega⟩
    obtain ⟨subs, hs, hrel⟩ := H
    have hrt : TagRT (envAt tbl cfg n' m') tbl fs fs := by
      apply hrel
      intro s hs'
      obtain ⟨b, hw, hr⟩ := ih s (hs s hs').1 n' m' (by omega) (by omega)
      refine ⟨b, hw, ?_⟩
      have := hr 0 (fun h4 => by simpa [zeros] using (hs s hs').2 h4 m' b hw)
      simpa [zeros] using this
    obtain ⟨w, hw, _⟩ := tag_roundtrip34 (envAt tbl cfg n' m') tbl rfl (decide (cfg.version = 4)) rfl fs fs hrt
    refine ⟨w, hw, fun p hb => ?_⟩
    exact readFramesWith_roundtrip (envAt tbl cfg n' m') tbl hv rfl fs fs hrt w hw p hb

/-- through `ID3Tags._write` / `ID3Tags._read` themselves (`writeTag` allows as many levels as the frames are deep,
`readTag` as many as there are bytes) -/
theorem nested_tag (tbl : Table) (cfg : Cfg) (hv : cfg.version = 3 ∨ cfg.version = 4) (d : Nat) (fs : List Val)
    (H : NestedRT tbl cfg d fs) (hd : d ≤ Val.depthList fs) :
    ∃ frames, writeTag tbl cfg fs = .ok frames ∧
      ∀ p, d ≤ frames.length + p → (cfg.version = 4 → determineBpi tbl (frames ++ zeros p) = true) →
        readTag tbl (hdrOf cfg) (frames ++ zeros p) = .ok (fs, zeros p) := by
  obtain ⟨b, hw, _⟩ := nested_core tbl cfg hv d fs H (d + 1) (Val.depthList fs + 1) (by omega) (by omega)
  refine ⟨b, hw, fun p hp hb => ?_⟩
  obtain ⟨b', hw', hr'⟩ := nested_core tbl cfg hv d fs H ((b ++ zeros p).length + 1) (Val.depthList fs + 1)
    (by simp; omega) (by omega)
  have : b' = b := by
    have h1 : writeTagN tbl (Val.depthList fs + 1) cfg fs = .ok b := hw
    rw [h1] at hw'; cases hw'; rfl
  subst this
  exact hr' p hb

/-- the bytes do not depend on the number of levels allowed, once it is enough -/
theorem nested_write_stable (tbl : Table) (cfg : Cfg) (hv : cfg.version = 3 ∨ cfg.version = 4) (d : Nat) (fs : List Val)
    (H : NestedRT tbl cfg d fs) : ∃ b, ∀ m, d + 1 ≤ m → writeTagN tbl m cfg fs = .ok b := by
  obtain ⟨b, hw, _⟩ := nested_core tbl cfg hv d fs H (d + 1) (d + 1) (by omega) (by omega)
  exact ⟨b, fun m hm => writeTagN_le tbl (d + 1) m hm cfg fs b hw⟩

end Mutagen.C01F

namespace Mutagen.Id3
open Mutagen

/-! ## the ID3v2.2 upgrade -/

mutual
theorem Val.beq_sound : ∀ (a b : Val), Val.beq a b = true → a = b
  | .int a, .int b, h => by simp [Val.beq] at h; rw [h]
  | .bytes a, .bytes b, h => by simp [Val.beq] at h; rw [h]
  | .text a, .text b, h => by simp [Val.beq] at h; rw [h]
  | .list a, .list b, h => by simp only [Val.beq] at h; rw [Val.beqList_sound a b h]
  | .frame i a, .frame j b, h => by
    simp only [Val.beq, Bool.and_eq_true, beq_iff_eq] at h
    rw [h.1, Val.beqList_sound a b h.2]
  | .int _, .bytes _, h | .int _, .text _, h | .int _, .list _, h | .int _, .frame _ _, h
  | .bytes _, .int _, h | .bytes _, .text _, h | .bytes _, .list _, h | .bytes _, .frame _ _, h
  | .text _, .int _, h | .text _, .bytes _, h | .text _, .list _, h | .text _, .frame _ _, h
  | .list _, .int _, h | .list _, .bytes _, h | .list _, .text _, h | .list _, .frame _ _, h
  | .frame _ _, .int _, h | .frame _ _, .bytes _, h | .frame _ _, .text _, h | .frame _ _, .list _, h => by
    simp [Val.beq] at h
theorem Val.beqList_sound : ∀ (a b : List Val), Val.beqList a b = true → a = b
  | [], [], _ => rfl
  | x :: xs, y :: ys, h => by
    simp only [Val.beqList, Bool.and_eq_true] at h
    rw [Val.beq_sound x y h.1, Val.beqList_sound xs ys h.2]
  | [], _ :: _, h | _ :: _, [], h => by simp [Val.beqList] at h
end

def specEq (a b : FieldSpec) : Bool := decide (a.kind = b.kind) && (a.name == b.name) && Val.beq a.dflt b.dflt

def specsEq : List FieldSpec → List FieldSpec → Bool
  | [], [] => true
  | a :: as, b :: bs => specEq a b && specsEq as bs
  | _, _ => false

theorem specsEq_sound : ∀ (a b : List FieldSpec), specsEq a b = true → a = b
  | [], [], _ => rfl
  | x :: xs, y :: ys, h => by
    simp only [specsEq, specEq, Bool.and_eq_true, decide_eq_true_eq, beq_iff_eq] at h
    obtain ⟨⟨⟨h1, h2⟩, h3⟩, h4⟩ := h
    have : x = y := by
      cases x; cases y
      simp only at h1 h2
      subst h1; subst h2
      have := Val.beq_sound _ _ h3
      simp only at this
      rw [this]
    rw [this, specsEq_sound xs ys h4]
  | [], _ :: _, h | _ :: _, [], h => by simp [specsEq] at h

/-- a v2.2 class whose specs are those of its v2.3/2.4 base class (`class TT2(TIT2)` and the like) -/
def sameAsBase (tbl : Table) (cls : FrameClass) : Bool :=
  match tbl.find (nameBytes cls.base) with
  | some b => specsEq cls.required b.required && specsEq cls.optional b.optional
  | none => false

/-- every v2.2 class other than CRM (no equivalent), PIC, LNK and RVA (own specs) has the specs of its base class -/
def v22Plain (tbl : Table) : Bool :=
  tbl.all fun cls => decide (cls.name.length ≠ 3) || cls.base == "Frame" || cls.name == "PIC" || cls.name == "LNK" || cls.name == "RVA" || sameAsBase tbl cls

set_option maxRecDepth 100000 in
theorem v22_table_plain : v22Plain Id3Table.frames = true := by decide +kernel

theorem readFrame_specs (sub : Hdr → Bytes → Except PyErr (List Val × Bytes)) (h : Hdr) (a b : FrameClass)
    (h1 : a.required = b.required) (h2 : a.optional = b.optional) (d : Bytes) : readFrame sub h a d = readFrame sub h b d := by
  unfold readFrame; rw [h1, h2]

theorem writeFrame_specs (subw : Cfg → List Val → Except PyErr Bytes) (cfg : Cfg) (a b : FrameClass)
    (h1 : a.required = b.required) (h2 : a.optional = b.optional) (vals : List Val) :
    writeFrame subw cfg a vals = writeFrame subw cfg b vals := by
  unfold writeFrame; rw [h1, h2]

/-- a v2.2 class with the specs of its base: the base class, found in the table -/
theorem v22_base (cls : FrameClass) (hmem : cls ∈ Id3Table.frames) (h3 : cls.name.length = 3) (hb : cls.base ≠ "Frame")
    (hn : cls.name ≠ "PIC" ∧ cls.name ≠ "LNK" ∧ cls.name ≠ "RVA") :
    ∃ base, Id3Table.frames.find (nameBytes cls.base) = some base ∧ base ∈ Id3Table.frames ∧
      cls.required = base.required ∧ cls.optional = base.optional := by
  have := v22_table_plain
  simp only [v22Plain, List.all_eq_true] at this
  have hc := this cls hmem
  simp only [Bool.or_eq_true, decide_eq_true_eq, beq_iff_eq] at hc
  have hs : sameAsBase Id3Table.frames cls = true := by
    rcases hc with ((((h | h) | h) | h) | h) | h
    · exact absurd h3 h
    · exact absurd h hb
    · exact absurd h hn.1
    · exact absurd h hn.2.1
    · exact absurd h hn.2.2
    · exact h
  unfold sameAsBase at hs
  cases hf : Id3Table.frames.find (nameBytes cls.base) with
  | none => simp [hf] at hs
  | some base =>
    simp only [hf, Bool.and_eq_true] at hs
    exact ⟨base, rfl, List.mem_of_find?_eq_some hf, specsEq_sound _ _ hs.1, specsEq_sound _ _ hs.2⟩

/-! ### PIC → APIC: the three-character image format becomes the MIME-type text -/

theorem valid_string3_latin1 (E : Env) (c : Ctx) (v : Val) (h : Valid E c (.string 3) v)
    (hnz : ∀ t, v = .text t → ∀ x ∈ t, x ≠ 0) : Valid E c .latin1Text v := by
  obtain ⟨t, rfl, _, _, ht⟩ := h
  exact ⟨t, rfl, fun x hx => ⟨by have := ht x hx; omega, hnz t rfl x hx⟩⟩

/-! ### RVA → RVAD: at most four values are at most twelve -/

theorem rvaOK_mono (m m' : Nat) (h : m ≤ m') (vals : List Int) (ok : RvaOK m vals) : RvaOK m' vals :=
  ⟨ok.1, by have := ok.2.1; omega, ok.2.2⟩

/-! ### LNK → LINK: the three-character frame id is replaced by the id of the v2.3/2.4 equivalent -/

/-- `LNK._to_other`: `Frames_2_2[frameid].__bases__[0].__name__`, else `frameid.ljust(4)` -/
def lnkUpgradeId (tbl : Table) (t : Text) : Text :=
  match tbl.find (t.map b8) with
  | some c22 => c22.base.toList.map Char.toNat
  | none => t ++ List.replicate (4 - t.length) 32

/-- the ids of the table are ASCII and those of the base classes have four characters — except "Frame" (CRM) -/
def basesOK (tbl : Table) : Bool :=
  tbl.all fun cls => decide (cls.name.length ≠ 3) || cls.base == "Frame" ||
    (decide (cls.base.length = 4) && cls.base.toList.all fun ch => decide (ch.toNat < 128))

set_option maxRecDepth 100000 in
theorem bases_ok : basesOK Id3Table.frames = true := by decide +kernel

theorem length_nameBytes (n : String) : (nameBytes n).length = n.length := by
  simp [nameBytes, String.length_toList]

/-- the id `LNK._to_other` puts into the LINK frame is a four-character ASCII id, unless the v2.2 id is CRM's (whose
base class is `Frame` itself: the id becomes "Frame") -/
theorem lnkUpgradeId_ok (t : Text) (hl : t.length = 3) (ha : ∀ x ∈ t, x < 128)
    (hcrm : ∀ c22, Id3Table.frames.find (t.map b8) = some c22 → c22.base ≠ "Frame") :
    (lnkUpgradeId Id3Table.frames t).length = 4 ∧ ∀ x ∈ lnkUpgradeId Id3Table.frames t, x < 128 := by
  unfold lnkUpgradeId
  cases hf : Id3Table.frames.find (t.map b8) with
  | none =>
    simp only [hl]
    refine ⟨by simp [hl], ?_⟩
    intro x hx
    rcases List.mem_append.mp hx with h | h
    · exact ha x h
    · rw [(List.mem_replicate.mp h).2]; decide
  | some c22 =>
    simp only
    have hmem : c22 ∈ Id3Table.frames := List.mem_of_find?_eq_some hf
    have hname : c22.name.length = 3 := by
      have := List.find?_some hf
      simp only [beq_iff_eq] at this
      have hl' := congrArg List.length this
      rw [length_nameBytes] at hl'
      simpa [hl] using hl'
    have := bases_ok
    simp only [basesOK, List.all_eq_true] at this
    have hc := this c22 hmem
    simp only [Bool.or_eq_true, decide_eq_true_eq, beq_iff_eq, Bool.and_eq_true, List.all_eq_true] at hc
    rcases hc with (h | h) | h
    · exact absurd hname h
    · exact absurd h (hcrm c22 hf)
    · refine ⟨by rw [List.length_map, String.length_toList]; exact h.1, ?_⟩
      intro x hx
      obtain ⟨ch, hch, rfl⟩ := List.mem_map.mp hx
      exact h.2 ch hch

end Mutagen.Id3
