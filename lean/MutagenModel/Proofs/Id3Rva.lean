/- Proofs/Id3Rva.lean — RVASpec (the RVAD / RVA frames): `read(write(values)) = values` -/
import MutagenModel.Model.Id3Spec
import MutagenModel.Proofs.IntCodec
import MutagenModel.Proofs.Id3Util
import MutagenModel.Props.C14
set_option linter.unusedVariables false
set_option linter.unusedSimpArgs false
namespace Mutagen.Id3
open Mutagen

/-- the values `RVASpec.write` accepts — and then `read` gives them back: two to `_max_values` integers; only the six
positions that have a sign bit (0, 1, 4, 5, 8, 10: the volume adjustments; the others are peaks) may be negative; every
magnitude fits into 31 bytes (the byte that holds the number of bits can say 248 at most) -/
def RvaOK (maxValues : Nat) (vals : List Int) : Prop :=
  2 ≤ vals.length ∧ vals.length ≤ maxValues ∧
  ∀ p ∈ vals.zipIdx, (rvaSignIdx.contains p.2 = false → 0 ≤ p.1) ∧ p.1.natAbs < 256 ^ 31

instance (m : Nat) (vals : List Int) : Decidable (RvaOK m vals) := by unfold RvaOK; infer_instance

theorem ofBE_bp (b : Bytes) : bpFromBytes 8 true b = ofBE b := by
  simp only [bpFromBytes, ofBE, ↓reduceIte]
  generalize b.reverse = l
  induction l with
  | nil => simp [fromLE, ofLE]
  | cons x r ih =>
    simp only [List.map_cons, fromLE, ofLE, ih]
    have := x.toNat_lt
    omega

theorem ofBE_zeros_append (k : Nat) (b : Bytes) : ofBE (zeros k ++ b) = ofBE b := by
  induction k with
  | zero => simp [zeros]
  | succ n ih =>
    have : zeros (n + 1) ++ b = 0 :: (zeros n ++ b) := by simp [zeros, List.replicate_succ]
    rw [this]
    simp only [ofBE, List.reverse_cons] at ih ⊢
    have hl : ∀ l : Bytes, ofLE (l ++ [0]) = ofLE l := by
      intro l
      induction l with
      | nil => simp [ofLE]
      | cons x r ihr => simp only [List.cons_append, ofLE, ihr]
    rw [hl, ih]

/-- the growing digits are no more than the value needs -/
theorem digitsGrow_length (bits : Nat) (hb : 0 < bits) : ∀ (w v : Nat) (ds : List Nat), digitsGrow bits v = some ds →
    v < 2 ^ (bits * w) → ds.length ≤ w := by
  intro w
  induction w with
  | zero =>
    intro v ds h hv
    have : v = 0 := by simp at hv; omega
    subst this
    unfold digitsGrow at h
    simp at h; subst h; simp
  | succ w ih =>
    intro v ds h hv
    unfold digitsGrow at h
    by_cases h0 : v = 0
    · simp [h0] at h; subst h; simp
    · have hb0 : ¬ bits = 0 := by omega
      simp only [h0, hb0, ↓reduceDIte, Option.map_eq_some_iff] at h
      obtain ⟨ds', h1, rfl⟩ := h
      have hp : 0 < 2 ^ bits := Nat.pow_pos (by decide)
      have : v / 2 ^ bits < 2 ^ (bits * w) := by
        rw [Nat.div_lt_iff_lt_mul hp, ← Nat.pow_add]
        have : bits * w + bits = bits * (w + 1) := by rw [Nat.mul_succ]
        rw [this]; exact hv
      have := ih _ _ h1 this
      simp; omega

/-- one magnitude: at least two bytes, at most 31 -/
theorem rva_to_str (v : Nat) (hv : v < 256 ^ 31) :
    ∃ b, bpToStr (v : Int) 8 true (-1) 2 = .ok b ∧ 2 ≤ b.length ∧ b.length ≤ 31 ∧ ofBE b = v := by
  obtain ⟨ds, h1, h2, h3, _, _⟩ := digitsGrow_some 8 (by decide) v
  have hlen : ds.length ≤ 31 := digitsGrow_length 8 (by decide) 31 v ds h1 (by rw [Nat.pow_mul]; exact hv)
  obtain ⟨b, hb, hl, hval, _, _⟩ := Mutagen.C14.to_str_growing_roundtrip v 8 2 true (by decide) (by decide)
  refine ⟨b, hb, hl, ?_, by rw [← ofBE_bp]; exact hval⟩
  -- the length: max 2 (number of digits)
  unfold bpToStr at hb
  have c1 : ¬ ((v : Int) < 0) := by omega
  simp only [c1, ↓reduceIte, Int.toNat_natCast, h1] at hb
  unfold digitsToBytes at hb
  split at hb
  · cases hb
  · rename_i bb hbb
    split at hbb
    · cases hbb
      cases hb
      simp; omega
    · cases hbb

theorem bytesAll_rva (mags : List Nat) (h : ∀ m ∈ mags, m < 256 ^ 31) :
    ∃ bvs, bytesAll (mags.map (fun (m : Nat) => bpToStr (m : Int) 8 true (-1) 2)) = .ok bvs ∧ bvs.map ofBE = mags ∧
      ∀ b ∈ bvs, 2 ≤ b.length ∧ b.length ≤ 31 := by
  induction mags with
  | nil => exact ⟨[], rfl, rfl, by simp⟩
  | cons m r ih =>
    obtain ⟨bvs, h1, h2, h3⟩ := ih (fun x hx => h x (by simp [hx]))
    obtain ⟨b, hb, hl2, hl31, hv⟩ := rva_to_str m (h m (by simp))
    refine ⟨b :: bvs, ?_, by simp [hv, h2], ?_⟩
    · simp only [List.map_cons, hb, bytesAll, h1]
    · intro x hx
      rcases List.mem_cons.mp hx with rfl | hx
      · exact ⟨hl2, hl31⟩
      · exact h3 x hx

theorem foldl_max_ge (bvs : List Bytes) : ∀ (init : Nat),
    init ≤ bvs.foldl (fun m b => max m b.length) init ∧ ∀ b ∈ bvs, b.length ≤ bvs.foldl (fun m b => max m b.length) init := by
  induction bvs with
  | nil => intro init; simp
  | cons x r ih =>
    intro init
    obtain ⟨h1, h2⟩ := ih (max init x.length)
    simp only [List.foldl_cons]
    refine ⟨by omega, ?_⟩
    intro b hb
    rcases List.mem_cons.mp hb with rfl | hb
    · omega
    · exact h2 b hb

theorem foldl_max_le (bvs : List Bytes) (B : Nat) (h : ∀ b ∈ bvs, b.length ≤ B) : ∀ (init : Nat), init ≤ B →
    bvs.foldl (fun m b => max m b.length) init ≤ B := by
  induction bvs with
  | nil => intro init hi; simpa using hi
  | cons x r ih =>
    intro init hi
    simp only [List.foldl_cons]
    have := h x (by simp)
    exact ih (fun b hb => h b (by simp [hb])) _ (by omega)

/-- reading back values that are all `M` bytes wide -/
theorem readRvaValues_flat (M : Nat) (hM : 1 ≤ M) (ps : List Bytes) (hp : ∀ p ∈ ps, p.length = M) : ∀ (k : Nat), ps.length ≤ k →
    readRvaValues M k ps.flatten = (ps.map ofBE, []) := by
  induction ps with
  | nil =>
    intro k hk
    cases k with
    | zero => rfl
    | succ n =>
      simp only [List.flatten_nil, readRvaValues, List.length_nil, List.map_nil]
      rw [if_neg (by omega)]
  | cons p r ih =>
    intro k hk
    cases k with
    | zero => simp at hk
    | succ n =>
      have hpl := hp p (by simp)
      have ihr := ih (fun x hx => hp x (by simp [hx])) n (by simp at hk; omega)
      simp only [List.flatten_cons, readRvaValues, List.length_append]
      rw [if_pos (by omega)]
      have e1 : (p ++ r.flatten).take M = p := List.take_left' hpl
      have e2 : (p ++ r.flatten).drop M = r.flatten := List.drop_left' hpl
      rw [e1, e2, ihr]
      rfl

/-! ### the signs -/

/-- 1 for a value that is there and not negative -/
def sgn (o : Option Int) : Nat := match o with
  | some v => if v < 0 then 0 else 1
  | none => 0

theorem sgn_le (o : Option Int) : sgn o ≤ 1 := by
  cases o with
  | none => simp [sgn]
  | some v => simp only [sgn]; split <;> omega

theorem beq1 (n : Nat) (h : n ≤ 1) : (n == 1) = decide (n = 1) := by
  match n, h with
  | 0, _ => rfl
  | 1, _ => rfl

theorem rvaFlags_cons (vals : List Int) (idx : Nat) (r : List Nat) (bit : Nat) :
    rvaFlags vals (idx :: r) bit = 2 ^ bit * sgn vals[idx]? + rvaFlags vals r (bit + 1) := by
  simp only [rvaFlags, sgn]
  cases vals[idx]? with
  | none => simp
  | some v => by_cases h : v < 0 <;> simp [h]

theorem rvaFlags_eq (vals : List Int) :
    rvaFlags vals rvaSignIdx 0 = sgn vals[0]? + 2 * sgn vals[1]? + 4 * sgn vals[4]? + 8 * sgn vals[5]? + 16 * sgn vals[8]? + 32 * sgn vals[10]? := by
  simp only [rvaSignIdx]
  rw [rvaFlags_cons, rvaFlags_cons, rvaFlags_cons, rvaFlags_cons, rvaFlags_cons, rvaFlags_cons]
  simp only [rvaFlags, Nat.zero_add, Nat.reduceAdd, Nat.reducePow, Nat.one_mul, Nat.add_zero]
  omega

/-- the flag bits: bit `b` is set iff the value at the `b`-th sign position exists and is not negative -/
theorem rva_testBit (vals : List Int) (bit idx : Nat) (h : rvaSignIdx[bit]? = some idx) :
    testBit (rvaFlags vals rvaSignIdx 0) bit = decide (sgn vals[idx]? = 1) := by
  rw [rvaFlags_eq]
  have s0 := sgn_le vals[0]?
  have s1 := sgn_le vals[1]?
  have s2 := sgn_le vals[4]?
  have s3 := sgn_le vals[5]?
  have s4 := sgn_le vals[8]?
  have s5 := sgn_le vals[10]?
  simp only [testBit]
  match bit, h with
  | 0, h =>
    simp [rvaSignIdx] at h; subst h
    have : (sgn vals[0]? + 2 * sgn vals[1]? + 4 * sgn vals[4]? + 8 * sgn vals[5]? + 16 * sgn vals[8]? + 32 * sgn vals[10]?) / 2 ^ 0 % 2 = sgn vals[0]? := by omega
    rw [this]; exact beq1 _ (by assumption)
  | 1, h =>
    simp [rvaSignIdx] at h; subst h
    have : (sgn vals[0]? + 2 * sgn vals[1]? + 4 * sgn vals[4]? + 8 * sgn vals[5]? + 16 * sgn vals[8]? + 32 * sgn vals[10]?) / 2 ^ 1 % 2 = sgn vals[1]? := by omega
    rw [this]; exact beq1 _ (by assumption)
  | 2, h =>
    simp [rvaSignIdx] at h; subst h
    have : (sgn vals[0]? + 2 * sgn vals[1]? + 4 * sgn vals[4]? + 8 * sgn vals[5]? + 16 * sgn vals[8]? + 32 * sgn vals[10]?) / 2 ^ 2 % 2 = sgn vals[4]? := by omega
    rw [this]; exact beq1 _ (by assumption)
  | 3, h =>
    simp [rvaSignIdx] at h; subst h
    have : (sgn vals[0]? + 2 * sgn vals[1]? + 4 * sgn vals[4]? + 8 * sgn vals[5]? + 16 * sgn vals[8]? + 32 * sgn vals[10]?) / 2 ^ 3 % 2 = sgn vals[5]? := by omega
    rw [this]; exact beq1 _ (by assumption)
  | 4, h =>
    simp [rvaSignIdx] at h; subst h
    have : (sgn vals[0]? + 2 * sgn vals[1]? + 4 * sgn vals[4]? + 8 * sgn vals[5]? + 16 * sgn vals[8]? + 32 * sgn vals[10]?) / 2 ^ 4 % 2 = sgn vals[8]? := by omega
    rw [this]; exact beq1 _ (by assumption)
  | 5, h =>
    simp [rvaSignIdx] at h; subst h
    have : (sgn vals[0]? + 2 * sgn vals[1]? + 4 * sgn vals[4]? + 8 * sgn vals[5]? + 16 * sgn vals[8]? + 32 * sgn vals[10]?) / 2 ^ 5 % 2 = sgn vals[10]? := by omega
    rw [this]; exact beq1 _ (by assumption)
  | n + 6, h => simp [rvaSignIdx] at h

theorem rvaFlags_lt (vals : List Int) : rvaFlags vals rvaSignIdx 0 < 64 := by
  rw [rvaFlags_eq]
  have s0 := sgn_le vals[0]?
  have s1 := sgn_le vals[1]?
  have s2 := sgn_le vals[4]?
  have s3 := sgn_le vals[5]?
  have s4 := sgn_le vals[8]?
  have s5 := sgn_le vals[10]?
  omega

theorem idx_cases (i : Nat) :
    (∃ bit, rvaSignIdx.idxOf? i = some bit ∧ rvaSignIdx[bit]? = some i ∧ rvaSignIdx.contains i = true) ∨
    (rvaSignIdx.idxOf? i = none ∧ rvaSignIdx.contains i = false) := by
  by_cases h0 : i = 0
  · subst h0; exact .inl ⟨0, rfl, rfl, rfl⟩
  by_cases h1 : i = 1
  · subst h1; exact .inl ⟨1, rfl, rfl, rfl⟩
  by_cases h4 : i = 4
  · subst h4; exact .inl ⟨2, rfl, rfl, rfl⟩
  by_cases h5 : i = 5
  · subst h5; exact .inl ⟨3, rfl, rfl, rfl⟩
  by_cases h8 : i = 8
  · subst h8; exact .inl ⟨4, rfl, rfl, rfl⟩
  by_cases h10 : i = 10
  · subst h10; exact .inl ⟨5, rfl, rfl, rfl⟩
  right
  constructor
  · have g0 : ¬ 0 = i := fun h => h0 h.symm
    have g1 : ¬ 1 = i := fun h => h1 h.symm
    have g4 : ¬ 4 = i := fun h => h4 h.symm
    have g5 : ¬ 5 = i := fun h => h5 h.symm
    have g8 : ¬ 8 = i := fun h => h8 h.symm
    have g10 : ¬ 10 = i := fun h => h10 h.symm
    simp [rvaSignIdx, List.idxOf?, List.findIdx?_cons, g0, g1, g4, g5, g8, g10]
  · simp [rvaSignIdx, h0, h1, h4, h5, h8, h10]

theorem bchr_nat (n : Nat) (h : n < 256) : bchr (n : Int) = .ok [b8 n] := by
  have h1 : (0 : Int) ≤ (n : Int) := by omega
  have h2 : (n : Int) < 256 := by omega
  simp [bchr, h1, h2]

theorem intsOf_map (vals : List Int) : intsOf (vals.map Val.int) = .ok vals := by
  induction vals with
  | nil => rfl
  | cons v r ih => simp only [List.map_cons, intsOf, ih]

/-- under `RvaOK` the serialised magnitudes are the absolute values -/
theorem rvaAbs_ok (m : Nat) (vals : List Int) (ok : RvaOK m vals) :
    rvaAbs vals = (vals.map Int.natAbs).map (fun (n : Nat) => (n : Int)) := by
  have e : (vals.map Int.natAbs).map (fun (n : Nat) => (n : Int)) = vals.zipIdx.map (fun p => ((p.1.natAbs : Nat) : Int)) := by
    rw [List.map_map]
    conv => lhs; rw [← List.zipIdx_map_fst 0 vals]
    rw [List.map_map]; rfl
  rw [e]
  unfold rvaAbs
  apply List.map_congr_left
  intro p hp
  obtain ⟨h1, _⟩ := ok.2.2 p hp
  obtain ⟨v, i⟩ := p
  simp only at h1 ⊢
  by_cases hc : rvaSignIdx.contains i = true
  · by_cases hv : v < 0
    · simp only [hc, hv, decide_true, Bool.and_self, ↓reduceIte]; omega
    · simp only [hc, hv, decide_false, Bool.and_false, Bool.false_eq_true, ↓reduceIte]; omega
  · have hc' : rvaSignIdx.contains i = false := by simpa using hc
    have := h1 hc'
    simp only [hc', Bool.false_and, Bool.false_eq_true, ↓reduceIte]; omega

/-- the signs come back -/
theorem rvaSigns_ok (m : Nat) (vals : List Int) (ok : RvaOK m vals) :
    rvaSigns (rvaFlags vals rvaSignIdx 0) (vals.map Int.natAbs) = vals := by
  apply List.ext_getElem?
  intro i
  unfold rvaSigns
  rw [List.getElem?_map, List.getElem?_zipIdx, List.getElem?_map]
  cases hv : vals[i]? with
  | none => simp
  | some v =>
    simp only [Option.map_some, Nat.zero_add]
    have hmem : (v, i) ∈ vals.zipIdx := List.mk_mem_zipIdx_iff_getElem?.mpr hv
    obtain ⟨h1, _⟩ := ok.2.2 (v, i) hmem
    rcases idx_cases i with ⟨bit, hb1, hb2, hb3⟩ | ⟨hn1, hn2⟩
    · rw [hb1]
      simp only [rva_testBit vals bit i hb2, hv, sgn]
      by_cases hneg : v < 0
      · simp [hneg]; omega
      · simp [hneg]; omega
    · rw [hn1]
      have := h1 hn2
      simp; omega

theorem readRva_writeRva (m : Nat) (vals : List Int) (ok : RvaOK m vals) :
    ∃ b, writeRva m (.list (vals.map Val.int)) = .ok b ∧ readRva m b = .ok (.list (vals.map Val.int), []) ∧ b ≠ [] := by
  obtain ⟨hl2, hlm, hall⟩ := ok
  have ok' : RvaOK m vals := ⟨hl2, hlm, hall⟩
  have hmag : ∀ n ∈ vals.map Int.natAbs, n < 256 ^ 31 := by
    intro n hn
    obtain ⟨v, hv, rfl⟩ := List.mem_map.mp hn
    obtain ⟨i, hi⟩ := List.getElem?_of_mem hv
    exact (hall (v, i) (List.mk_mem_zipIdx_iff_getElem?.mpr hi)).2
  obtain ⟨bvs, hb1, hb2, hb3⟩ := bytesAll_rva (vals.map Int.natAbs) hmag
  have hbl : bvs.length = vals.length := by
    have := congrArg List.length hb2; simpa using this
  generalize hM : bvs.foldl (fun m b => max m b.length) 0 = M
  obtain ⟨_, hge⟩ := foldl_max_ge bvs 0
  rw [hM] at hge
  have hM31 : M ≤ 31 := by rw [← hM]; exact foldl_max_le bvs 31 (fun b hb => (hb3 b hb).2) 0 (by omega)
  have hM2 : 2 ≤ M := by
    cases bvs with
    | nil => simp at hbl; omega
    | cons x r => have := hge x (by simp); have := (hb3 x (by simp)).1; omega
  have hflags := rvaFlags_lt vals
  have hw : writeRva m (.list (vals.map Val.int)) =
      .ok ([b8 (rvaFlags vals rvaSignIdx 0)] ++ [b8 (M * 8)] ++ (bvs.map (fun b => zeros (M - b.length) ++ b)).flatten) := by
    unfold writeRva
    simp only [intsOf_map]
    rw [if_neg (by omega)]
    rw [rvaAbs_ok m vals ok', List.map_map]
    have : ((fun m => bpToStr m 8 true (-1) 2) ∘ fun (n : Nat) => (n : Int)) = fun (m : Nat) => bpToStr (m : Int) 8 true (-1) 2 := rfl
    rw [this, hb1]
    simp only [hM]
    have f1 := bchr_nat (rvaFlags vals rvaSignIdx 0) (by omega)
    have f2 := bchr_nat (M * 8) (by omega)
    rw [f1, f2]
  refine ⟨_, hw, ?_, by simp⟩
  have hbits : (b8 (M * 8)).toNat = M * 8 := by
    simp [b8, UInt8.toNat_ofNat']; omega
  have hfl : (b8 (rvaFlags vals rvaSignIdx 0)).toNat = rvaFlags vals rvaSignIdx 0 := by
    simp [b8, UInt8.toNat_ofNat']; omega
  have hne0 : ¬ (b8 (M * 8) = 0) := by
    intro h
    have := congrArg UInt8.toNat h
    rw [hbits] at this
    simp at this; omega
  simp only [List.cons_append, List.nil_append, readRva, hne0, ↓reduceIte, hbits, hfl]
  have hbpv : (M * 8 + 7) / 8 = M := by omega
  rw [hbpv]
  have hflat := readRvaValues_flat M (by omega) (bvs.map (fun b => zeros (M - b.length) ++ b))
    (by
      intro p hp
      obtain ⟨b, hb, rfl⟩ := List.mem_map.mp hp
      have := hge b hb
      simp; omega) m (by simp; omega)
  rw [hflat]
  have hvals : (bvs.map (fun b => zeros (M - b.length) ++ b)).map ofBE = vals.map Int.natAbs := by
    rw [List.map_map, ← hb2]
    apply List.map_congr_left
    intro b _
    exact ofBE_zeros_append _ _
  rw [hvals]
  simp only [List.length_map]
  rw [if_neg (by omega), rvaSigns_ok m vals ok']

/-! ### … and nothing else is written -/

theorem bytesAll_mem {α : Type} (f : α → Except PyErr Bytes) : ∀ (xs : List α) (bvs : List Bytes),
    bytesAll (xs.map f) = .ok bvs → ∀ x ∈ xs, ∃ b ∈ bvs, f x = .ok b := by
  intro xs
  induction xs with
  | nil => intro bvs h x hx; simp at hx
  | cons a r ih =>
    intro bvs h x hx
    simp only [List.map_cons] at h
    cases hfa : f a with
    | error e => rw [hfa] at h; simp [bytesAll] at h
    | ok b =>
      rw [hfa] at h
      simp only [bytesAll] at h
      cases hr : bytesAll (r.map f) with
      | error e => rw [hr] at h; cases h
      | ok bs =>
        rw [hr] at h
        cases h
        rcases List.mem_cons.mp hx with rfl | hx
        · exact ⟨b, by simp, hfa⟩
        · obtain ⟨b', hb', hf'⟩ := ih bs hr x hx
          exact ⟨b', by simp [hb'], hf'⟩

theorem rva_to_str_inv (a : Int) (b : Bytes) (h : bpToStr a 8 true (-1) 2 = .ok b) : 0 ≤ a ∧ ofBE b = a.toNat := by
  by_cases hn : a < 0
  · simp [bpToStr, hn] at h
  · obtain ⟨b', hb', _, hv, _, _⟩ := Mutagen.C14.to_str_growing_roundtrip a.toNat 8 2 true (by decide) (by decide)
    have ha : ((a.toNat : Nat) : Int) = a := by omega
    rw [ha, h] at hb'
    cases hb'
    exact ⟨by omega, by rw [← ofBE_bp]; exact hv⟩

theorem ofBE_lt (b : Bytes) : ofBE b < 256 ^ b.length := by
  have := ofLE_lt b.reverse
  simpa [ofBE] using this

/-- `RvaOK` is exactly what `RVASpec.write` accepts (for a list of integers) -/
theorem writeRva_ok_iff (m : Nat) (vals : List Int) :
    (∃ b, writeRva m (.list (vals.map Val.int)) = .ok b) ↔ RvaOK m vals := by
  constructor
  · rintro ⟨out, h⟩
    unfold writeRva at h
    simp only [intsOf_map] at h
    by_cases hlen : vals.length < 2 ∨ vals.length > m
    · simp [hlen] at h
    · rw [if_neg hlen] at h
      cases hb : bytesAll ((rvaAbs vals).map (fun m => bpToStr m 8 true (-1) 2)) with
      | error e => rw [hb] at h; cases h
      | ok bvs =>
        rw [hb] at h
        simp only at h
        generalize hM : bvs.foldl (fun m b => max m b.length) 0 = M at h
        have hM31 : M ≤ 31 := by
          cases hc : bchr ((M * 8 : Nat) : Int) with
          | error e =>
            rw [hc] at h
            cases hf : bchr ((rvaFlags vals rvaSignIdx 0 : Nat) : Int) <;> rw [hf] at h <;> cases h
          | ok x =>
            unfold bchr at hc
            split at hc
            · rename_i hlt; omega
            · cases hc
        refine ⟨by omega, by omega, ?_⟩
        intro p hp
        obtain ⟨v, i⟩ := p
        have hmem : (if rvaSignIdx.contains i && decide (v < 0) then -v else v) ∈ rvaAbs vals := by
          unfold rvaAbs
          exact List.mem_map.mpr ⟨(v, i), hp, rfl⟩
        obtain ⟨b, hbm, hbs⟩ := bytesAll_mem _ _ _ hb _ hmem
        obtain ⟨h0, hval⟩ := rva_to_str_inv _ _ hbs
        have hbl : b.length ≤ M := by rw [← hM]; exact (foldl_max_ge bvs 0).2 b hbm
        have hlt := ofBE_lt b
        have hpow : 256 ^ b.length ≤ 256 ^ 31 := Nat.pow_le_pow_right (by decide) (by omega)
        simp only
        by_cases hc : rvaSignIdx.contains i = true
        · by_cases hv : v < 0
          · simp only [hc, hv, decide_true, Bool.and_self, ↓reduceIte] at h0 hval
            exact ⟨fun hcf => by rw [hc] at hcf; exact absurd hcf (by decide), by omega⟩
          · simp only [hc, hv, decide_false, Bool.and_false, Bool.false_eq_true, ↓reduceIte] at h0 hval
            exact ⟨fun _ => h0, by omega⟩
        · have hc' : rvaSignIdx.contains i = false := by simpa using hc
          simp only [hc', Bool.false_and, Bool.false_eq_true, ↓reduceIte] at h0 hval
          exact ⟨fun _ => h0, by omega⟩
  · intro ok
    obtain ⟨b, hw, _⟩ := readRva_writeRva m vals ok
    exact ⟨b, hw⟩


end Mutagen.Id3
