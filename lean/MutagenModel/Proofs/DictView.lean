/- Proofs/DictView.lean — a view given by `keys()` and `__getitem__` refines the dictionary of its own items
(`viewAbs`) as soon as it satisfies `ViewLaws`; used for EasyID3 (C16). -/
import MutagenModel.Proofs.DictK
set_option linter.unusedVariables false
set_option linter.unusedSimpArgs false
set_option linter.unusedSectionVars false
namespace Mutagen.Dict
open Mutagen

/-! ### a view given by `keys` and `__getitem__` refines the dictionary of its own items -/

section view
variable {S K V : Type} [DecidableEq K]

/-- the items of the view: its keys with what `__getitem__` returns for them -/
def viewAbs (m : MapImpl S K V) (s : S) : RefDict K V :=
  (m.keys s).filterMap (fun k => match m.getitem s k with
    | .ok v => some (k, v)
    | .error _ => none)

/-- what a store has to satisfy to refine the dictionary of its own items (`viewAbs`):
`keys()` lists, once each, exactly the normal-form keys for which `__getitem__` succeeds;
`__getitem__` depends on the key only through its normal form and fails only with `KeyError`;
`__setitem__` / `__delitem__` change the reading of the key concerned and of no other. -/
structure ViewLaws (m : MapImpl S K V) (P : KPolicy K V) (inv : S → Prop) : Prop where
  keys_nodup : ∀ s, inv s → (m.keys s).Nodup
  keys_normal : ∀ s, inv s → ∀ κ ∈ m.keys s, P.norm κ = .ok κ
  keys_get : ∀ s, inv s → ∀ κ, P.norm κ = .ok κ → (κ ∈ m.keys s ↔ ∃ v, m.getitem s κ = .ok v)
  get_err : ∀ s, inv s → ∀ κ e, P.norm κ = .ok κ → m.getitem s κ = .error e → e = .key
  norm_idem : ∀ k κ, P.norm k = .ok κ → P.norm κ = .ok κ
  get_norm : ∀ s k κ, inv s → P.norm k = .ok κ → m.getitem s k = m.getitem s κ
  bad_key : ∀ s k e, inv s → P.norm k = .error e →
    m.getitem s k = .error e ∧ (∀ v, m.setitem s k v = .error e) ∧ m.delitem s k = .error e
  set_err : ∀ s k κ v e, inv s → P.norm k = .ok κ → P.coerce k v = .error e → m.setitem s k v = .error e
  set_some : ∀ s k κ v v', inv s → P.norm k = .ok κ → P.coerce k v = .ok (some v') →
    ∃ s', m.setitem s k v = .ok s' ∧ inv s' ∧
      ∀ κ2, P.norm κ2 = .ok κ2 → m.getitem s' κ2 = if κ = κ2 then .ok v' else m.getitem s κ2
  set_none : ∀ s k κ v, inv s → P.norm k = .ok κ → P.coerce k v = .ok none →
    ∃ s', m.setitem s k v = .ok s' ∧ inv s' ∧
      ∀ κ2, P.norm κ2 = .ok κ2 → m.getitem s' κ2 = if κ = κ2 then .error .key else m.getitem s κ2
  del_absent : ∀ s k κ, inv s → P.norm k = .ok κ → m.getitem s κ = .error .key → m.delitem s k = .error .key
  del_present : ∀ s k κ v, inv s → P.norm k = .ok κ → m.getitem s κ = .ok v →
    ∃ s', m.delitem s k = .ok s' ∧ inv s' ∧
      ∀ κ2, P.norm κ2 = .ok κ2 → m.getitem s' κ2 = if κ = κ2 then .error .key else m.getitem s κ2

theorem lookup_filterMap_view (L : List K) (g : K → Option V) (hn : L.Nodup) (κ : K) :
    lookup κ (L.filterMap (fun k => (g k).map (fun v => (k, v)))) = if κ ∈ L then g κ else none := by
  induction L with
  | nil => simp
  | cons a t ih =>
    simp only [List.nodup_cons] at hn
    by_cases h : a = κ
    · subst h
      cases hg : g a with
      | some v => simp [List.filterMap_cons, hg]
      | none => simp [List.filterMap_cons, hg, ih hn.2, hn.1]
    · have h' : ¬ κ = a := fun e => h e.symm
      cases hg : g a with
      | some v => simp [List.filterMap_cons, hg, h, h', ih hn.2]
      | none => simp [List.filterMap_cons, hg, h', ih hn.2]

theorem viewAbs_eq (m : MapImpl S K V) (s : S) :
    viewAbs m s = (m.keys s).filterMap (fun k => ((m.getitem s k).toOption).map (fun v => (k, v))) := by
  unfold viewAbs
  congr 1
  funext k
  cases m.getitem s k <;> rfl

variable {m : MapImpl S K V} {P : KPolicy K V} {inv : S → Prop}

theorem view_lookup (h : ViewLaws m P inv) (s : S) (hs : inv s) (κ : K) (hκ : P.norm κ = .ok κ) :
    lookup κ (viewAbs m s) = (m.getitem s κ).toOption := by
  rw [viewAbs_eq, lookup_filterMap_view _ _ (h.keys_nodup s hs)]
  by_cases hm : κ ∈ m.keys s
  · simp [hm]
  · have : ¬ ∃ v, m.getitem s κ = .ok v := fun hv => hm ((h.keys_get s hs κ hκ).2 hv)
    cases hg : m.getitem s κ with
    | ok v => exact absurd ⟨v, hg⟩ this
    | error e => simp [hm, Except.toOption]

theorem view_lookup_nonnormal (h : ViewLaws m P inv) (s : S) (hs : inv s) (κ : K) (hκ : P.norm κ ≠ .ok κ) :
    lookup κ (viewAbs m s) = none := by
  rw [viewAbs_eq, lookup_filterMap_view _ _ (h.keys_nodup s hs)]
  have : κ ∉ m.keys s := fun hm => hκ (h.keys_normal s hs κ hm)
  simp [this]

theorem view_sameMap (h : ViewLaws m P inv) (s s' : S) (hs : inv s) (hs' : inv s') (κ : K) (r : RefDict K V)
    (now : Option V)
    (hr : ∀ κ2, lookup κ2 r = if κ = κ2 then now else lookup κ2 (viewAbs m s))
    (hκ : P.norm κ = .ok κ)
    (hg : ∀ κ2, P.norm κ2 = .ok κ2 → (m.getitem s' κ2).toOption = if κ = κ2 then now else (m.getitem s κ2).toOption) :
    SameMap (viewAbs m s') r := by
  intro κ2
  rw [hr κ2]
  by_cases hn : P.norm κ2 = .ok κ2
  · rw [view_lookup h s' hs' κ2 hn, hg κ2 hn, view_lookup h s hs κ2 hn]
  · rw [view_lookup_nonnormal h s' hs' κ2 hn, view_lookup_nonnormal h s hs κ2 hn]
    have : ¬ κ = κ2 := fun e => hn (e ▸ hκ)
    simp [this]

theorem view_keysOf (h : ViewLaws m P inv) (s : S) (hs : inv s) : keysOf (viewAbs m s) = m.keys s := by
  have hall : ∀ k ∈ m.keys s, ∃ v, m.getitem s k = .ok v :=
    fun k hk => (h.keys_get s hs k (h.keys_normal s hs k hk)).1 hk
  unfold viewAbs
  generalize m.keys s = L at hall
  induction L with
  | nil => rfl
  | cons a t ih =>
    obtain ⟨v, hv⟩ := hall a (by simp)
    simp only [List.filterMap_cons, hv, keysOf_cons]
    rw [ih (fun k hk => hall k (by simp [hk]))]

theorem view_nodup (h : ViewLaws m P inv) (s : S) (hs : inv s) : NodupKeys (viewAbs m s) := by
  unfold NodupKeys; rw [view_keysOf h s hs]; exact h.keys_nodup s hs

theorem view_refines (h : ViewLaws m P inv) : KRefines m P inv (viewAbs m) where
  nodup := fun s hs => view_nodup h s hs
  keys := fun s hs => by
    rw [view_keysOf h s hs]
    exact List.map_congr_left (fun k hk => h.keys_normal s hs k hk)
  get := fun s k hs => by
    simp only [Ref.get, KPolicy.keys]
    cases hn : P.norm k with
    | error e => exact (h.bad_key s k e hs hn).1
    | ok κ =>
      have hκ := h.norm_idem k κ hn
      simp only [lookupE, view_lookup h s hs κ hκ, h.get_norm s k κ hs hn]
      cases hg : m.getitem s κ with
      | ok v => rfl
      | error e => simp [Except.toOption, h.get_err s hs κ e hκ hg]
  set := fun s k v hs => by
    simp only [KRef.set]
    cases hn : P.norm k with
    | error e => simp [(h.bad_key s k e hs hn).2.1 v, SimStep]
    | ok κ =>
      have hκ := h.norm_idem k κ hn
      cases hc : P.coerce k v with
      | error e => simp [h.set_err s k κ v e hs hn hc, SimStep]
      | ok ov =>
        cases ov with
        | some v' =>
          obtain ⟨s', h1, h2, h3⟩ := h.set_some s k κ v v' hs hn hc
          simp only [h1, SimStep]
          refine ⟨h2, view_sameMap h s s' hs h2 κ _ (some v') (fun κ2 => by rw [lookup_insert]) hκ ?_⟩
          intro κ2 hn2
          rw [h3 κ2 hn2]; by_cases e : κ = κ2 <;> simp [e, Except.toOption]
        | none =>
          obtain ⟨s', h1, h2, h3⟩ := h.set_none s k κ v hs hn hc
          simp only [h1, SimStep]
          have nd : NodupKeys (viewAbs m s) := view_nodup h s hs
          refine ⟨h2, view_sameMap h s s' hs h2 κ _ none (fun κ2 => by rw [lookup_erase _ _ _ nd]) hκ ?_⟩
          intro κ2 hn2
          rw [h3 κ2 hn2]; by_cases e : κ = κ2 <;> simp [e, Except.toOption]
  del := fun s k hs => by
    simp only [Ref.del, KPolicy.keys]
    cases hn : P.norm k with
    | error e => simp [(h.bad_key s k e hs hn).2.2, SimStep]
    | ok κ =>
      have hκ := h.norm_idem k κ hn
      simp only [view_lookup h s hs κ hκ]
      cases hg : m.getitem s κ with
      | error e =>
        have := h.get_err s hs κ e hκ hg
        subst this
        simp [Except.toOption, h.del_absent s k κ hs hn hg, SimStep]
      | ok v =>
        obtain ⟨s', h1, h2, h3⟩ := h.del_present s k κ v hs hn hg
        simp only [Except.toOption, h1, SimStep]
        have nd : NodupKeys (viewAbs m s) := view_nodup h s hs
        refine ⟨h2, view_sameMap h s s' hs h2 κ _ none (fun κ2 => by rw [lookup_erase _ _ _ nd]) hκ ?_⟩
        intro κ2 hn2
        rw [h3 κ2 hn2]; by_cases e : κ = κ2 <;> simp [e, Except.toOption]

end view
end Mutagen.Dict
