/- Proofs/Id3Convert.lean — update_to_v23 / update_to_v24 on the tag dictionary -/
import MutagenModel.Model.Id3Convert
set_option linter.unusedVariables false
set_option linter.unusedSimpArgs false
namespace Mutagen.Id3Conv
open Mutagen Mutagen.Id3v1

theorem mem_del (t : Tag) (k : String) (f : Frame) : f ∈ t.del k ↔ f ∈ t ∧ f.key ≠ k := by
  simp [Tag.del, List.mem_filter, bne_iff_ne]

theorem mem_delKeys (ks : List String) : ∀ (t : Tag) (f : Frame), f ∈ delKeys t ks ↔ f ∈ t ∧ ∀ k ∈ ks, f.key ≠ k := by
  induction ks with
  | nil => intro t f; simp [delKeys]
  | cons k r ih =>
    intro t f
    have := ih (t.del k) f
    simp only [delKeys, List.foldl_cons] at this ⊢
    rw [this, mem_del]
    constructor
    · rintro ⟨⟨h1, h2⟩, h3⟩
      exact ⟨h1, fun x hx => by rcases List.mem_cons.mp hx with rfl | hx; exact h2; exact h3 x hx⟩
    · rintro ⟨h1, h2⟩
      exact ⟨⟨h1, h2 k List.mem_cons_self⟩, fun x hx => h2 x (List.mem_cons_of_mem _ hx)⟩

/-- after the flat part of `update_to_v23` no KEY of the dictionary is one of `v24_frames` -/
theorem toV23Flat_keys (t : Tag) (f : Frame) (h : f ∈ toV23Flat t) : f.key ∉ Generated.v24Frames := by
  unfold toV23Flat at h
  simp only [] at h
  rw [mem_delKeys] at h
  intro hk
  exact h.2 f.key hk rfl

theorem toV24Flat_keys (t : Tag) (f : Frame) (h : f ∈ toV24Flat t) : f.key ∉ Generated.v24Deleted := by
  unfold toV24Flat at h
  simp only [] at h
  rw [mem_delKeys] at h
  intro hk
  exact h.2 f.key hk rfl

/-- the recursion into chapters keeps the keys of the level it works on -/
theorem recurse_keys (flat : Tag → Tag) (n : Nat) (t : Tag) : (recurse flat n t).map (·.key) = (flat t).map (·.key) := by
  cases n with
  | zero => rfl
  | succ n =>
    simp only [recurse, List.map_map]
    apply List.map_congr_left
    intro f _
    simp only [Function.comp]
    cases f with
    | chap id key sub => simp only []; split <;> rfl
    | _ => rfl

theorem updateToV23_keys (t : Tag) (k : String) (h : k ∈ (updateToV23 t).map (·.key)) : k ∉ Generated.v24Frames := by
  unfold updateToV23 at h
  rw [recurse_keys] at h
  obtain ⟨f, hf, rfl⟩ := List.mem_map.mp h
  exact toV23Flat_keys t f hf

/-! ### joining with the separator and splitting again -/

theorem splitSep_append (sep : Nat) (a : Str) (ha : sep ∉ a) (r cur : Str) :
    splitSep sep (a ++ sep :: r) cur = (cur.reverse ++ a) :: splitSep sep r [] := by
  induction a generalizing cur with
  | nil => simp [splitSep]
  | cons c t ih =>
    have hc : (c == sep) = false := by
      simp only [beq_eq_false_iff_ne, ne_eq]; intro h; exact ha (by simp [h])
    simp only [List.cons_append, splitSep, hc, Bool.false_eq_true, ↓reduceIte]
    rw [ih (fun h => ha (List.mem_cons_of_mem _ h))]
    simp

theorem splitSep_last (sep : Nat) (a : Str) (ha : sep ∉ a) (cur : Str) : splitSep sep a cur = [cur.reverse ++ a] := by
  induction a generalizing cur with
  | nil => simp [splitSep]
  | cons c t ih =>
    have hc : (c == sep) = false := by
      simp only [beq_eq_false_iff_ne, ne_eq]; intro h; exact ha (by simp [h])
    simp only [splitSep, hc, Bool.false_eq_true, ↓reduceIte]
    rw [ih (fun h => ha (List.mem_cons_of_mem _ h))]
    simp

/-- values joined with a one-character separator that occurs in none of them split back into the same values -/
theorem split_join (sep : Nat) (vs : List Str) (hne : vs ≠ []) (h : ∀ v ∈ vs, sep ∉ v) :
    splitSep sep (joinSep [sep] vs) [] = vs := by
  induction vs with
  | nil => exact absurd rfl hne
  | cons v r ih =>
    cases r with
    | nil => simpa [joinSep] using splitSep_last sep v (h v List.mem_cons_self) []
    | cons w r' =>
      have : joinSep [sep] (v :: w :: r') = v ++ sep :: joinSep [sep] (w :: r') := by
        simp [joinSep, List.intersperse]
      rw [this, splitSep_append sep v (h v List.mem_cons_self)]
      simp only [List.reverse_nil, List.nil_append]
      rw [ih (by simp) (fun x hx => h x (List.mem_cons_of_mem _ hx))]

end Mutagen.Id3Conv
