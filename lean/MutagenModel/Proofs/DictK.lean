/- Proofs/DictK.lean — DictMixin over a store that refines a key-dependent policy (`KRefines`).

The operations that never call `__setitem__` are taken from Proofs/Dict.lean through a proof
device: the same store with a `__setitem__` that always raises (`noSet`) refines the plain
policy `noSetPolicy`; `set` / `update` / `setdefault` are proved here. -/
import MutagenModel.Model.DictK
import MutagenModel.Proofs.Dict
set_option linter.unusedVariables false
set_option linter.unusedSectionVars false
set_option linter.unusedSimpArgs false
namespace Mutagen.Dict
open Mutagen

section generic
variable {S K V : Type} [DecidableEq K] {m : MapImpl S K V} {P : KPolicy K V} {inv : S → Prop}
  {abs : S → RefDict K V}

/-- proof device: `m` with a `__setitem__` that always raises -/
def noSet (m : MapImpl S K V) (P : KPolicy K V) : MapImpl S K V where
  keys := m.keys
  getitem := m.getitem
  delitem := m.delitem
  setitem s k v := match P.norm k with
    | .error e => .error e
    | .ok _ => .error .value

/-- the plain policy `noSet m P` refines -/
def noSetPolicy (P : KPolicy K V) : Policy K V where
  norm := P.norm
  coerce _ := .error .value

theorem KRefines.toNoSet (h : KRefines m P inv abs) : Refines (noSet m P) (noSetPolicy P) inv abs where
  nodup := h.nodup
  keys := h.keys
  get := h.get
  set := fun s k v hs => by
    simp only [noSet, Ref.set, noSetPolicy]
    cases P.norm k <;> simp [SimStep]
  del := h.del

theorem noSet_delAll (ks : List K) : ∀ s : S, (noSet m P).delAll ks s = m.delAll ks s := by
  induction ks with
  | nil => intro s; rfl
  | cons k t ih =>
    intro s
    show (match m.delitem s k with
      | .ok s' => (noSet m P).delAll t s'
      | .error e => (.error e, s)) = _
    simp only [MapImpl.delAll]
    cases m.delitem s k with
    | error e => rfl
    | ok s' => exact ih s'

theorem noSet_clear (s : S) : (noSet m P).clear s = m.clear s := noSet_delAll _ s

theorem kget_sim (h : KRefines m P inv abs) (s : S) (r : RefDict K V) (hs : inv s)
    (hr : SameMap (abs s) r) (k : K) : m.getitem s k = Ref.get P.keys r k :=
  get_sim h.toNoSet s r hs hr k

theorem kset_sim (h : KRefines m P inv abs) (s : S) (r : RefDict K V) (hs : inv s)
    (hr : SameMap (abs s) r) (nr : NodupKeys r) (k : K) (v : V) :
    (∃ e, m.setitem s k v = .error e ∧ KRef.set P r k v = .error e) ∨
    (∃ s' r', m.setitem s k v = .ok s' ∧ KRef.set P r k v = .ok r' ∧ inv s' ∧ SameMap (abs s') r' ∧
      NodupKeys r') := by
  have hsim := h.set s k v hs
  have na := h.nodup s hs
  unfold KRef.set at hsim ⊢
  cases hn : P.norm k with
  | error e =>
    simp only [hn] at hsim
    cases hset : m.setitem s k v with
    | error e' => simp only [hset, SimStep] at hsim; exact Or.inl ⟨e', rfl, by simp_all⟩
    | ok s' => simp [hset, SimStep] at hsim
  | ok k' =>
    simp only [hn] at hsim
    cases hc : P.coerce k v with
    | error e =>
      simp only [hc] at hsim
      cases hset : m.setitem s k v with
      | error e' => simp only [hset, SimStep] at hsim; exact Or.inl ⟨e', rfl, by simp_all⟩
      | ok s' => simp [hset, SimStep] at hsim
    | ok ov =>
      cases ov with
      | some v' =>
        simp only [hc] at hsim
        cases hset : m.setitem s k v with
        | error e' => simp [hset, SimStep] at hsim
        | ok s' =>
          simp only [hset, SimStep] at hsim
          exact Or.inr ⟨s', insert k' v' r, rfl, by simp, hsim.1, hsim.2.trans (hr.insert k' v'), nodup_insert _ _ _ nr⟩
      | none =>
        simp only [hc] at hsim
        cases hset : m.setitem s k v with
        | error e' => simp [hset, SimStep] at hsim
        | ok s' =>
          simp only [hset, SimStep] at hsim
          exact Or.inr ⟨s', erase k' r, rfl, by simp, hsim.1, hsim.2.trans (hr.erase na nr k'), nodup_erase _ _ nr⟩

theorem kupdate_sim (h : KRefines m P inv abs) (l : List (K × V)) : ∀ (s : S) (r : RefDict K V), inv s →
    SameMap (abs s) r → NodupKeys r → ResSim inv abs (m.update l s) (KRef.update P l r) := by
  induction l with
  | nil => intro s r hs hr nr; simp [MapImpl.update, KRef.update, ResSim, hs, hr, nr]
  | cons p t ih =>
    obtain ⟨k, v⟩ := p
    intro s r hs hr nr
    rcases kset_sim h s r hs hr nr k v with ⟨e, h1, h2⟩ | ⟨s', r', h1, h2, h3, h4, h5⟩
    · simp [MapImpl.update, KRef.update, h1, h2, ResSim, hs, hr, nr]
    · simp only [MapImpl.update, KRef.update, h1, h2]
      exact ih s' r' h3 h4 h5

theorem ksetdefault_sim (h : KRefines m P inv abs) (s : S) (r : RefDict K V) (hs : inv s)
    (hr : SameMap (abs s) r) (nr : NodupKeys r) (k : K) (d : V) :
    ResSim inv abs (m.setdefault s k d) (KRef.setdefault P r k d) := by
  unfold MapImpl.setdefault KRef.setdefault
  rw [kget_sim h s r hs hr k]
  have hset := kset_sim h s r hs hr nr k d
  unfold KRef.set at hset
  unfold Ref.get lookupE
  simp only [KPolicy.keys]
  cases hn : P.norm k with
  | error e =>
    simp only [hn] at hset
    by_cases he : e = .key
    · rcases hset with ⟨e', h1, h2⟩ | ⟨s', r', h1, h2, _⟩
      · simp only [Except.error.injEq] at h2; subst h2
        simp [he, h1, ResSim, hs, hr, nr]
      · simp at h2
    · simp [he, ResSim, hs, hr, nr]
  | ok k' =>
    simp only [hn] at hset
    cases hl : lookup k' r with
    | some v => simp [hl, ResSim, hs, hr, nr]
    | none =>
      simp only [hl, ↓reduceIte]
      cases hc : P.coerce k d with
      | error e =>
        simp only [hc] at hset
        rcases hset with ⟨e', h1, h2⟩ | ⟨s', r', h1, h2, _⟩
        · simp only [Except.error.injEq] at h2; subst h2
          simp [h1, ResSim, hs, hr, nr]
        · simp at h2
      | ok ov =>
        cases ov with
        | some v' =>
          simp only [hc] at hset
          rcases hset with ⟨e', h1, h2⟩ | ⟨s', r', h1, h2, h3, h4, h5⟩
          · simp at h2
          · simp only [Except.ok.injEq] at h2; subst h2
            simp [h1, ResSim, h3, h4, h5]
        | none =>
          simp only [hc] at hset
          rcases hset with ⟨e', h1, h2⟩ | ⟨s', r', h1, h2, h3, h4, h5⟩
          · simp at h2
          · simp only [Except.ok.injEq] at h2; subst h2
            rw [erase_of_not_mem k' r ((lookup_eq_none_iff k' r).1 hl)] at h4
            simp [h1, ResSim, h3, h4, nr]

/-- operations that call `__setitem__` -/
def Op.isSetty : Op K V → Bool
  | .set _ _ => true | .update _ => true | .setdefault _ _ => true
  | _ => false

theorem kstep_nonlist (h : KRefines m P inv abs) (s : S) (r : RefDict K V) (hs : inv s)
    (hr : SameMap (abs s) r) (nr : NodupKeys r) (op : Op K V) (hop : Op.isListy op = false) :
    OutMatch P.keys (m.step s op).1 (KRef.step P r op).1 ∧ inv (m.step s op).2 ∧
      SameMap (abs (m.step s op).2) (KRef.step P r op).2 ∧ NodupKeys (KRef.step P r op).2 := by
  cases hst : Op.isSetty op with
  | true =>
    cases op <;> simp [Op.isSetty] at hst
    · rename_i k v
      rcases kset_sim h s r hs hr nr k v with ⟨e, h1, h2⟩ | ⟨s', r', h1, h2, h3, h4, h5⟩
      · simp only [MapImpl.step, KRef.step, h1, h2]; exact ⟨rfl, hs, hr, nr⟩
      · simp only [MapImpl.step, KRef.step, h1, h2]; exact ⟨trivial, h3, h4, h5⟩
    · rename_i l
      obtain ⟨h1, h2, h3, h4⟩ := kupdate_sim h l s r hs hr nr
      simp only [MapImpl.step, KRef.step, h1]
      exact ⟨outMatch_unit _, h2, h3, h4⟩
    · rename_i k d
      obtain ⟨h1, h2, h3, h4⟩ := ksetdefault_sim h s r hs hr nr k d
      simp only [MapImpl.step, KRef.step, h1]
      exact ⟨outMatch_val _, h2, h3, h4⟩
  | false =>
    have := step_nonlist h.toNoSet s r hs hr nr op hop
    cases op <;> simp [Op.isSetty] at hst <;> first
      | exact this
      | (simp only [MapImpl.step, noSet_clear] at this; exact this)

theorem kstep_exact (h : KRefines m P inv abs) (s : S) (hs : inv s) (op : Op K V) :
    OutMatch P.keys (m.step s op).1 (KRef.step P (abs s) op).1 ∧ inv (m.step s op).2 ∧
      SameMap (abs (m.step s op).2) (KRef.step P (abs s) op).2 := by
  cases hop : Op.isListy op with
  | false =>
    obtain ⟨h1, h2, h3, _⟩ := kstep_nonlist h s (abs s) hs (SameMap.refl _) (h.nodup s hs) op hop
    exact ⟨h1, h2, h3⟩
  | true =>
    have := step_exact h.toNoSet s hs op
    cases op <;> simp [Op.isListy] at hop <;> exact this

theorem kstep_sim (h : KRefines m P inv abs) (s : S) (r : RefDict K V) (hs : inv s)
    (hr : SameMap (abs s) r) (nr : NodupKeys r) (op : Op K V) (hop : Op.isPopitem op = false) :
    OutEquiv P.keys (m.step s op).1 (KRef.step P r op).1 ∧ inv (m.step s op).2 ∧
      SameMap (abs (m.step s op).2) (KRef.step P r op).2 ∧ NodupKeys (KRef.step P r op).2 := by
  cases hl : Op.isListy op with
  | false =>
    obtain ⟨h1, h2, h3, h4⟩ := kstep_nonlist h s r hs hr nr op hl
    exact ⟨h1.toEquiv, h2, h3, h4⟩
  | true =>
    have := step_sim h.toNoSet s r hs hr nr op hop
    cases op <;> simp [Op.isListy] at hl <;> exact this

theorem krefStep_of_not_popitem (r : RefDict K V) (op : Op K V) (o : Out K V) (r' : RefDict K V)
    (hop : Op.isPopitem op = false) :
    KRefStep P r op o r' ↔ (OutEquiv P.keys o (KRef.step P r op).1 ∧ r' = (KRef.step P r op).2) := by
  cases op <;> simp [Op.isPopitem] at hop <;> simp [KRefStep]

theorem ktrace_sim (h : KRefines m P inv abs) (ops : List (Op K V)) : ∀ (s : S) (r : RefDict K V), inv s →
    SameMap (abs s) r → NodupKeys r → KAccepts P r ops (m.run ops s) := by
  induction ops with
  | nil => intro s r _ _ _; simp [MapImpl.run, KAccepts]
  | cons op ops ih =>
    intro s r hs hr nr
    have na := h.nodup s hs
    simp only [MapImpl.run, KAccepts]
    cases hop : Op.isPopitem op with
    | false =>
      obtain ⟨h1, h2, h3, h4⟩ := kstep_sim h s r hs hr nr op hop
      exact ⟨_, (krefStep_of_not_popitem r op _ _ hop).2 ⟨h1, rfl⟩, ih _ _ h2 h3 h4⟩
    | true =>
      cases op <;> simp [Op.isPopitem] at hop
      rcases popitem_exact h.toNoSet s hs with ⟨ha, hp⟩ | ⟨k, k', v, t, s', ha, hn, hp, hs', hr'⟩
      · have hrn : r = [] := by
          apply SameMap.eq_nil; rw [ha] at hr; exact hr.symm
        have hp' : m.popitem s = (.error .key, s) := hp
        simp only [MapImpl.step, hp', outOf]
        exact ⟨r, Or.inl ⟨hrn, rfl, rfl⟩, ih s r hs hr nr⟩
      · have hp' : m.popitem s = (.ok (k, v), s') := hp
        simp only [MapImpl.step, hp', outOf]
        have hlk : lookup k' r = some v := by rw [← hr k', ha]; simp
        have he : SameMap t (erase k' r) := by
          have := hr.erase na nr k'
          rw [ha] at this
          simpa [erase] using this
        exact ⟨erase k' r, Or.inr ⟨k, k', v, rfl, hn, hlk, rfl⟩,
          ih s' (erase k' r) hs' (hr'.trans he) (nodup_erase _ _ nr)⟩

theorem ktrace_det (h : KRefines m P inv abs) (ops : List (Op K V)) : ∀ (s : S) (r : RefDict K V), inv s →
    SameMap (abs s) r → NodupKeys r → (∀ op ∈ ops, Op.isPopitem op = false) →
    OutsEquiv P.keys (m.run ops s) (KRef.run P ops r) := by
  induction ops with
  | nil => intro s r _ _ _ _; simp [MapImpl.run, KRef.run, OutsEquiv]
  | cons op ops ih =>
    intro s r hs hr nr hall
    simp only [MapImpl.run, KRef.run, OutsEquiv]
    obtain ⟨h1, h2, h3, h4⟩ := kstep_sim h s r hs hr nr op (hall op (by simp))
    exact And.intro h1 (ih _ _ h2 h3 h4 (fun o ho => hall o (by simp [ho])))

theorem kexec_inv (h : KRefines m P inv abs) (ops : List (Op K V)) : ∀ s, inv s → inv (m.exec ops s) := by
  induction ops with
  | nil => intro s hs; exact hs
  | cons op ops ih => intro s hs; exact ih _ (kstep_exact h s hs op).2.1

/-- a plain `Refines` is a `KRefines` for the policy that ignores the key -/
def Policy.toK (P : Policy K V) : KPolicy K V where
  norm := P.norm
  coerce _ v := P.coerce v

end generic

end Mutagen.Dict
