/- Proofs/AsfAttr.lean — ASF attribute record round trips -/
import MutagenModel.Model.AsfAttr
import MutagenModel.Proofs.IntCodec
set_option linter.unusedVariables false
namespace Mutagen.AsfAttr
open Mutagen

theorem take_of_len (a b : Bytes) (n : Nat) (h : a.length = n) : (a ++ b).take n = a := by
  subst h; exact List.take_left' rfl
theorem drop_of_len (a b : Bytes) (n : Nat) (h : a.length = n) : (a ++ b).drop n = b := by
  subst h; exact List.drop_left' rfl

theorem stripZ_append (name : Bytes) : stripZ (name ++ nul2) = some name := by
  unfold stripZ
  have hl : (name ++ nul2).length = name.length + 2 := by simp [nul2]
  have e1 : (name ++ nul2).drop (name.length + 2 - 2) = nul2 := by
    rw [Nat.add_sub_cancel]; exact drop_of_len _ _ _ rfl
  have e2 : (name ++ nul2).take (name.length + 2 - 2) = name := by
    rw [Nat.add_sub_cancel]; exact take_of_len _ _ _ rfl
  have c : ¬ (name.length + 2 < 2) := by omega
  simp only [hl, e1, e2, c, ne_eq, not_true_eq_false, or_self, ↓reduceIte]

def ECDOK (a : Attr) : Prop :=
  a.language = 0 ∧ a.stream = 0 ∧ a.name.length + 2 < 65536 ∧ a.typ < 65536 ∧ a.data.length < 65536 ∧
    sizeOK a.typ a.data.length 4 = true

theorem p2 : (256 : Nat) ^ 2 = 65536 := by decide
theorem p4 : (256 : Nat) ^ 4 = 4294967296 := by decide

theorem decodeECDRecs_encode (as : List Attr) (h : ∀ a ∈ as, ECDOK a) (tail : Bytes) :
    decodeECDRecs as.length ((as.map renderECD).flatten ++ tail) = some (as, tail) := by
  induction as with
  | nil => simp [decodeECDRecs]
  | cons a r ih =>
    obtain ⟨hlang, hstream, hn, ht, hd, hs⟩ := h a List.mem_cons_self
    have ih' := ih (fun x hx => h x (List.mem_cons_of_mem _ hx))
    simp only [List.length_cons, List.map_cons, List.flatten_cons, decodeECDRecs]
    generalize hR : (r.map renderECD).flatten ++ tail = R at ih'
    have hshape : renderECD a ++ (r.map renderECD).flatten ++ tail =
        toLE 2 (a.name.length + 2) ++ ((a.name ++ nul2) ++ (toLE 2 a.typ ++ (toLE 2 a.data.length ++ (a.data ++ R)))) := by
      rw [← hR]; simp only [renderECD, List.append_assoc]
    rw [hshape]
    have l2 : ∀ n, (toLE 2 n).length = 2 := fun n => length_toLE 2 n
    have ln : (a.name ++ nul2).length = a.name.length + 2 := by simp [nul2]
    have e1 : (toLE 2 (a.name.length + 2) ++ ((a.name ++ nul2) ++ (toLE 2 a.typ ++ (toLE 2 a.data.length ++ (a.data ++ R))))).take 2 =
        toLE 2 (a.name.length + 2) := take_of_len _ _ 2 (l2 _)
    have e2 : (toLE 2 (a.name.length + 2) ++ ((a.name ++ nul2) ++ (toLE 2 a.typ ++ (toLE 2 a.data.length ++ (a.data ++ R))))).drop 2 =
        (a.name ++ nul2) ++ (toLE 2 a.typ ++ (toLE 2 a.data.length ++ (a.data ++ R))) := drop_of_len _ _ 2 (l2 _)
    have e3 : ((a.name ++ nul2) ++ (toLE 2 a.typ ++ (toLE 2 a.data.length ++ (a.data ++ R)))).take (a.name.length + 2) =
        a.name ++ nul2 := take_of_len _ _ _ ln
    have e4 : ((a.name ++ nul2) ++ (toLE 2 a.typ ++ (toLE 2 a.data.length ++ (a.data ++ R)))).drop (a.name.length + 2) =
        toLE 2 a.typ ++ (toLE 2 a.data.length ++ (a.data ++ R)) := drop_of_len _ _ _ ln
    have e5 : (toLE 2 a.typ ++ (toLE 2 a.data.length ++ (a.data ++ R))).take 2 = toLE 2 a.typ := take_of_len _ _ 2 (l2 _)
    have e6 : ((toLE 2 a.typ ++ (toLE 2 a.data.length ++ (a.data ++ R))).drop 2).take 2 = toLE 2 a.data.length := by
      rw [drop_of_len _ _ 2 (l2 _)]; exact take_of_len _ _ 2 (l2 _)
    have e7 : (toLE 2 a.typ ++ (toLE 2 a.data.length ++ (a.data ++ R))).drop 4 = a.data ++ R := by
      rw [show (4 : Nat) = 2 + 2 from rfl, ← List.drop_drop, drop_of_len _ _ 2 (l2 _)]; exact drop_of_len _ _ 2 (l2 _)
    have e8 : (a.data ++ R).take a.data.length = a.data := take_of_len _ _ _ rfl
    have e9 : (a.data ++ R).drop a.data.length = R := drop_of_len _ _ _ rfl
    have c1 : ¬ ((toLE 2 (a.name.length + 2) ++ ((a.name ++ nul2) ++ (toLE 2 a.typ ++ (toLE 2 a.data.length ++ (a.data ++ R))))).length < 2) := by
      simp [l2]
    have c2 : ¬ (((a.name ++ nul2) ++ (toLE 2 a.typ ++ (toLE 2 a.data.length ++ (a.data ++ R)))).length < a.name.length + 2 + 4) := by
      simp only [List.length_append, ln, l2]; omega
    have c3 : ¬ ((a.data ++ R).length < a.data.length ∨ (!sizeOK a.typ a.data.length 4) = true) := by
      simp [hs]
    simp only [c1, ↓reduceIte, e1, e2, ofLE_toLE 2 _ (by rw [p2]; exact hn), c2, e3, stripZ_append, e4, e5, e6, e7,
      ofLE_toLE 2 _ (by rw [p2]; exact ht), ofLE_toLE 2 _ (by rw [p2]; exact hd), c3, e8, e9, ih', Option.map_some]
    have : a = { language := 0, stream := 0, name := a.name, typ := a.typ, data := a.data } := by
      cases a; simp_all
    rw [← this]

/-- the descriptors ASF.save writes into the Extended Content Description Object decode to the same
(name, type, value bytes) list in order, and fill the object exactly -/
theorem decodeECD_encodeECD (as : List Attr) (h : ∀ a ∈ as, ECDOK a) (hc : as.length < 65536) :
    decodeECD (encodeECD as) = some as := by
  unfold decodeECD encodeECD
  have l2 : (toLE 2 as.length).length = 2 := length_toLE 2 _
  have e1 : (toLE 2 as.length ++ (as.map renderECD).flatten).take 2 = toLE 2 as.length := take_of_len _ _ 2 l2
  have e2 : (toLE 2 as.length ++ (as.map renderECD).flatten).drop 2 = (as.map renderECD).flatten := drop_of_len _ _ 2 l2
  have c : ¬ ((toLE 2 as.length ++ (as.map renderECD).flatten).length < 2) := by simp [l2]
  have hdec := decodeECDRecs_encode as h []
  rw [List.append_nil] at hdec
  simp only [c, ↓reduceIte, e1, e2, ofLE_toLE 2 _ (by rw [p2]; exact hc), hdec]

def MLOK (a : Attr) : Prop :=
  a.language < 65536 ∧ a.stream < 65536 ∧ a.name.length + 2 < 65536 ∧ a.typ < 65536 ∧ a.data.length < 4294967296 ∧
    sizeOK a.typ a.data.length 2 = true

theorem decodeMLRecs_encode (as : List Attr) (h : ∀ a ∈ as, MLOK a) (tail : Bytes) :
    decodeMLRecs as.length ((as.map renderML).flatten ++ tail) = some (as, tail) := by
  induction as with
  | nil => simp [decodeMLRecs]
  | cons a r ih =>
    obtain ⟨hlang, hstream, hn, ht, hd, hs⟩ := h a List.mem_cons_self
    have ih' := ih (fun x hx => h x (List.mem_cons_of_mem _ hx))
    simp only [List.length_cons, List.map_cons, List.flatten_cons, decodeMLRecs]
    generalize hR : (r.map renderML).flatten ++ tail = R at ih'
    generalize hT : (a.name ++ nul2) ++ (a.data ++ R) = T
    have hshape : renderML a ++ (r.map renderML).flatten ++ tail =
        toLE 2 a.language ++ (toLE 2 a.stream ++ (toLE 2 (a.name.length + 2) ++ (toLE 2 a.typ ++ (toLE 4 a.data.length ++ T)))) := by
      rw [← hT, ← hR]; simp only [renderML, List.append_assoc]
    rw [hshape]
    have l2 : ∀ n, (toLE 2 n).length = 2 := fun n => length_toLE 2 n
    have l4 : ∀ n, (toLE 4 n).length = 4 := fun n => length_toLE 4 n
    have ln : (a.name ++ nul2).length = a.name.length + 2 := by simp [nul2]
    generalize hD : toLE 2 a.language ++ (toLE 2 a.stream ++ (toLE 2 (a.name.length + 2) ++ (toLE 2 a.typ ++ (toLE 4 a.data.length ++ T)))) = D
    have d2 : D.drop 2 = toLE 2 a.stream ++ (toLE 2 (a.name.length + 2) ++ (toLE 2 a.typ ++ (toLE 4 a.data.length ++ T))) := by
      rw [← hD]; exact drop_of_len _ _ 2 (l2 _)
    have d4 : D.drop 4 = toLE 2 (a.name.length + 2) ++ (toLE 2 a.typ ++ (toLE 4 a.data.length ++ T)) := by
      rw [show (4 : Nat) = 2 + 2 from rfl, ← List.drop_drop, d2]; exact drop_of_len _ _ 2 (l2 _)
    have d6 : D.drop 6 = toLE 2 a.typ ++ (toLE 4 a.data.length ++ T) := by
      rw [show (6 : Nat) = 4 + 2 from rfl, ← List.drop_drop, d4]; exact drop_of_len _ _ 2 (l2 _)
    have d8 : D.drop 8 = toLE 4 a.data.length ++ T := by
      rw [show (8 : Nat) = 6 + 2 from rfl, ← List.drop_drop, d6]; exact drop_of_len _ _ 2 (l2 _)
    have d12 : D.drop 12 = T := by
      rw [show (12 : Nat) = 8 + 4 from rfl, ← List.drop_drop, d8]; exact drop_of_len _ _ 4 (l4 _)
    have t0 : D.take 2 = toLE 2 a.language := by rw [← hD]; exact take_of_len _ _ 2 (l2 _)
    have t2 : (D.drop 2).take 2 = toLE 2 a.stream := by rw [d2]; exact take_of_len _ _ 2 (l2 _)
    have t4 : (D.drop 4).take 2 = toLE 2 (a.name.length + 2) := by rw [d4]; exact take_of_len _ _ 2 (l2 _)
    have t6 : (D.drop 6).take 2 = toLE 2 a.typ := by rw [d6]; exact take_of_len _ _ 2 (l2 _)
    have t8 : (D.drop 8).take 4 = toLE 4 a.data.length := by rw [d8]; exact take_of_len _ _ 4 (l4 _)
    have lT : T.length = a.name.length + 2 + (a.data.length + R.length) := by
      rw [← hT]; simp only [List.length_append, ln]
    have lD : D.length = 12 + T.length := by
      rw [← hD]; simp only [List.length_append, l2, l4]; omega
    have n1 : T.take (a.name.length + 2) = a.name ++ nul2 := by rw [← hT]; exact take_of_len _ _ _ ln
    have n2 : T.drop (a.name.length + 2) = a.data ++ R := by rw [← hT]; exact drop_of_len _ _ _ ln
    have v1 : (a.data ++ R).take a.data.length = a.data := take_of_len _ _ _ rfl
    have v2 : (a.data ++ R).drop a.data.length = R := drop_of_len _ _ _ rfl
    have c1 : ¬ (D.length < 12) := by omega
    have c2 : ¬ (T.length < a.name.length + 2 + a.data.length ∨ (!sizeOK a.typ a.data.length 2) = true) := by
      simp [hs]; omega
    simp only [c1, ↓reduceIte, t0, t2, t4, t6, t8, d12, ofLE_toLE 2 _ (by rw [p2]; exact hlang),
      ofLE_toLE 2 _ (by rw [p2]; exact hstream), ofLE_toLE 2 _ (by rw [p2]; exact hn), ofLE_toLE 2 _ (by rw [p2]; exact ht),
      ofLE_toLE 4 _ (by rw [p4]; exact hd), c2, n1, n2, stripZ_append, v1, v2, ih', Option.map_some]

/-- the records ASF.save writes into the Metadata / Metadata Library Objects decode to the same
(language, stream, name, type, value bytes) list in order, and fill the object exactly -/
theorem decodeML_encodeML (as : List Attr) (h : ∀ a ∈ as, MLOK a) (hc : as.length < 65536) :
    decodeML (encodeML as) = some as := by
  unfold decodeML encodeML
  have l2 : (toLE 2 as.length).length = 2 := length_toLE 2 _
  have e1 : (toLE 2 as.length ++ (as.map renderML).flatten).take 2 = toLE 2 as.length := take_of_len _ _ 2 l2
  have e2 : (toLE 2 as.length ++ (as.map renderML).flatten).drop 2 = (as.map renderML).flatten := drop_of_len _ _ 2 l2
  have c : ¬ ((toLE 2 as.length ++ (as.map renderML).flatten).length < 2) := by simp [l2]
  have hdec := decodeMLRecs_encode as h []
  rw [List.append_nil] at hdec
  simp only [c, ↓reduceIte, e1, e2, ofLE_toLE 2 _ (by rw [p2]; exact hc), hdec]

/-! ## typed values -/

theorem parseBool_renderBool (v dword : Bool) : parseBool (renderBool v dword) = v := by
  cases v <;> cases dword <;> decide

theorem parseUInt_renderUInt (w v : Nat) (h : v < 256 ^ w) : parseUInt (renderUInt w v) = v := ofLE_toLE w v h

/-! ## UTF-16 -/

def Scalar (c : Nat) : Prop := c < 0x110000 ∧ ¬ (0xD800 ≤ c ∧ c < 0xE000)

theorem fromUnits_single (u : Nat) (r : List Nat) (h1 : ¬ (0xD800 ≤ u ∧ u < 0xDC00)) (h2 : ¬ (0xDC00 ≤ u ∧ u < 0xE000)) :
    fromUnits (u :: r) = (fromUnits r).map (fun cs => u :: cs) := by
  cases r with
  | nil => simp only [fromUnits, h1, h2, ↓reduceIte]
  | cons v r' => rw [fromUnits]; simp only [h1, h2, ↓reduceIte]

theorem fromUnits_pair (u v : Nat) (r : List Nat) (h1 : 0xD800 ≤ u ∧ u < 0xDC00) (h2 : 0xDC00 ≤ v ∧ v < 0xE000) :
    fromUnits (u :: v :: r) = (fromUnits r).map (fun cs => (0x10000 + (u - 0xD800) * 1024 + (v - 0xDC00)) :: cs) := by
  rw [fromUnits]; simp only [h1, h2, and_self, ↓reduceIte]

theorem fromUnits_toUnits (cs : List Nat) (h : ∀ c ∈ cs, Scalar c) : fromUnits (toUnits cs) = some cs := by
  induction cs with
  | nil => rfl
  | cons c r ih =>
    obtain ⟨h1, h2⟩ := h c List.mem_cons_self
    have ih' := ih (fun x hx => h x (List.mem_cons_of_mem _ hx))
    simp only [toUnits, List.map_cons, List.flatten_cons] at ih' ⊢
    by_cases hc : c < 0x10000
    · have hu : units1 c = [c] := by simp [units1, hc]
      rw [hu]
      simp only [List.cons_append, List.nil_append]
      rw [fromUnits_single c _ (by omega) (by omega), ih']; rfl
    · have hu : units1 c = [0xD800 + (c - 0x10000) / 1024, 0xDC00 + (c - 0x10000) % 1024] := by simp [units1, hc]
      rw [hu]
      simp only [List.cons_append, List.nil_append]
      rw [fromUnits_pair _ _ _ (by omega) (by omega), ih']
      have e : 0x10000 + (0xD800 + (c - 0x10000) / 1024 - 0xD800) * 1024 + (0xDC00 + (c - 0x10000) % 1024 - 0xDC00) = c := by
        omega
      simp only [Option.map_some, e]

theorem units_lt (cs : List Nat) (h : ∀ c ∈ cs, Scalar c) : ∀ u ∈ toUnits cs, u < 65536 := by
  induction cs with
  | nil => intro u hu; simp [toUnits] at hu
  | cons c r ih =>
    obtain ⟨h1, h2⟩ := h c List.mem_cons_self
    intro u hu
    simp only [toUnits, List.map_cons, List.flatten_cons, List.mem_append] at hu
    rcases hu with hu | hu
    · by_cases hc : c < 0x10000
      · have e : units1 c = [c] := by simp [units1, hc]
        rw [e] at hu; simp only [List.mem_cons, List.not_mem_nil, or_false] at hu; omega
      · have e : units1 c = [0xD800 + (c - 0x10000) / 1024, 0xDC00 + (c - 0x10000) % 1024] := by simp [units1, hc]
        rw [e] at hu; simp only [List.mem_cons, List.not_mem_nil, or_false] at hu
        rcases hu with hu | hu <;> omega
    · exact ih (fun x hx => h x (List.mem_cons_of_mem _ hx)) u hu

theorem bytesToUnits_unitsLE (us : List Nat) (h : ∀ u ∈ us, u < 65536) : bytesToUnits (unitsLE us) = some us := by
  induction us with
  | nil => rfl
  | cons u r ih =>
    have hu := h u List.mem_cons_self
    have ih' := ih (fun x hx => h x (List.mem_cons_of_mem _ hx))
    simp only [unitsLE, List.map_cons, List.flatten_cons] at ih' ⊢
    have : toLE 2 u = [UInt8.ofNat (u % 256), UInt8.ofNat (u / 256 % 256)] := by simp [toLE]
    rw [this]
    simp only [List.cons_append, List.nil_append, bytesToUnits, ih', Option.map_some]
    have b1 : (UInt8.ofNat (u % 256)).toNat = u % 256 := by simp [UInt8.toNat_ofNat']
    have b2 : (UInt8.ofNat (u / 256 % 256)).toNat = u / 256 % 256 := by simp [UInt8.toNat_ofNat']
    rw [b1, b2]
    congr 2
    omega

/-- UTF-16-LE: full Unicode range incl. astral planes (surrogate pairs) -/
theorem decodeUtf16_encodeUtf16 (cs : List Nat) (h : ∀ c ∈ cs, Scalar c) : decodeUtf16 (encodeUtf16 cs) = some cs := by
  unfold decodeUtf16 encodeUtf16
  rw [bytesToUnits_unitsLE _ (units_lt cs h)]
  simp only [Option.bind_some, fromUnits_toUnits cs h]

theorem stripNul_append_zero (cs : List Nat) (h : ∀ c ∈ cs, c ≠ 0) : stripNul (cs ++ [0]) = cs := by
  unfold stripNul stripFront
  cases cs with
  | nil => simp [List.dropWhile]
  | cons c r =>
    have hc := h c List.mem_cons_self
    have e1 : ((c :: r) ++ [0]).dropWhile (· == 0) = (c :: r) ++ [0] := by simp [hc]
    rw [e1]
    have e2 : ((c :: r) ++ [0]).reverse = 0 :: (c :: r).reverse := by simp
    rw [e2]
    have e3 : (0 :: (c :: r).reverse).dropWhile (· == 0) = (c :: r).reverse.dropWhile (· == 0) := by simp [List.dropWhile]
    rw [e3]
    -- the reversed list starts with the last element of c :: r, which is not 0
    have hne : (c :: r).reverse ≠ [] := by simp
    obtain ⟨x, xs, hx⟩ := List.exists_cons_of_ne_nil hne
    have hxm : x ∈ c :: r := by
      have : x ∈ (c :: r).reverse := by rw [hx]; exact List.mem_cons_self
      exact List.mem_reverse.mp this
    have hx0 := h x hxm
    rw [hx]
    have hb : (x == 0) = false := by simp [hx0]
    have e4 : (x :: xs).dropWhile (· == 0) = x :: xs := by simp [List.dropWhile, hb]
    rw [e4, ← hx, List.reverse_reverse]

/-- ASF text values: NUL-free text of Unicode scalars reads back as the same text -/
theorem parseText_renderText (cs : List Nat) (h : ∀ c ∈ cs, Scalar c) (hz : ∀ c ∈ cs, c ≠ 0) :
    parseText (renderText cs) = some cs := by
  unfold parseText renderText
  have hz0 : Scalar 0 := by unfold Scalar; omega
  have : encodeUtf16 cs ++ nul2 = encodeUtf16 (cs ++ [0]) := by
    simp [encodeUtf16, toUnits, unitsLE, units1, nul2, toLE]
  rw [this, decodeUtf16_encodeUtf16 (cs ++ [0]) (by
    intro c hc
    rcases List.mem_append.mp hc with hc | hc
    · exact h c hc
    · simp at hc; subst hc; exact hz0)]
  simp only [Option.map_some, stripNul_append_zero cs hz]

end Mutagen.AsfAttr
