/-
Model/Basic.lean — shared vocabulary of the model (import-free).

Bytes are `List UInt8`; Python exceptions are data.
-/
namespace Mutagen

abbrev Bytes := List UInt8

/-- Python exception classes as they matter to the properties.  `mutagen` stands for
`MutagenError` and every subclass.  `diverge` is not a Python exception: it marks the
inputs on which the faithful Python loop does not terminate (the model stays total and
says so instead of looping). -/
inductive PyErr
  | io | enospc | value | key | type_ | index | struct_ | unicode | overflow | zeroDiv
  | eof | assertion | attribute | memory | mutagen | systemExit | notImplemented | diverge
deriving DecidableEq, Repr, Inhabited

deriving instance DecidableEq for Except

def PyErr.name : PyErr → String
  | .io => "io" | .enospc => "enospc" | .value => "value" | .key => "key"
  | .type_ => "type" | .index => "index" | .struct_ => "struct" | .unicode => "unicode"
  | .overflow => "overflow" | .zeroDiv => "zerodiv" | .eof => "eof"
  | .assertion => "assertion" | .attribute => "attribute" | .memory => "memory"
  | .mutagen => "mutagen" | .systemExit => "systemexit"
  | .notImplemented => "notimplemented" | .diverge => "diverge"

/-- `IOError`/`OSError` family: what `except IOError` catches. -/
def PyErr.isIO : PyErr → Bool
  | .io => true | .enospc => true | _ => false

def zeros (n : Nat) : Bytes := List.replicate n 0

@[simp] theorem length_zeros (n : Nat) : (zeros n).length = n := by simp [zeros]

/-- `f[pos : pos+n]` -/
def readAt (f : Bytes) (pos n : Nat) : Bytes := (f.drop pos).take n

/-- overwrite inside the file -/
def writeAt (f : Bytes) (pos : Nat) (buf : Bytes) : Bytes :=
  f.take pos ++ buf ++ f.drop (pos + buf.length)

end Mutagen
