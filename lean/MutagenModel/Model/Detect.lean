/-
Model/Detect.lean — mutagen.File's choice: `results.sort(); results[-1]` over
`(score, Kind.__name__)`, and the feature model of well-formed files of every concrete
format before/after tag edits made through the detected type.
-/
import MutagenModel.Generated.Scores
set_option linter.unusedVariables false
namespace Mutagen.Detect
open Mutagen Mutagen.Generated

/-- sort key `(score, name-rank)`; `rank` is the position of the class name in sorted order -/
structure Key where
  score : Int
  rank : Nat
deriving DecidableEq, Repr

def Key.le (a b : Key) : Bool := decide (a.score < b.score) || (decide (a.score = b.score) && decide (a.rank ≤ b.rank))

/-- the last element after sorting = the maximum; later elements win ties (there are none
when ranks are distinct) -/
def maxBy (key : Kind → Key) : List Kind → Option Kind
  | [] => none
  | k :: ks =>
    match maxBy key ks with
    | none => some k
    | some m => if (key m).le (key k) && !((key k).le (key m)) then some k else some m

/-- `File(...)`'s selection: the best-scoring option, or None when its score is not positive -/
def pick (v : Atom → Bool) (rank : Kind → Nat) (opts : List Kind) : Option Kind :=
  match maxBy (fun k => ⟨score v k, rank k⟩) opts with
  | none => none
  | some k => if score v k > 0 then some k else none

/-! ### feature model -/

/-- what is known about a file: a pattern for its first bytes (`none` = a byte that varies),
the markers occurring in the first 128 bytes beyond that pattern, the extension of its
name (lower-case form, and whether the name spells it exactly so), and whether the last
160 bytes contain an APEv2 footer/header -/
structure Feat where
  P : List (Option UInt8)
  M : List Bytes
  ext : Option (String × Bool)
  trailer : Bool
deriving Repr

def matchAt : List (Option UInt8) → Bytes → Bool
  | _, [] => true
  | [], _ :: _ => false
  | p :: ps, c :: cs => p == some c && matchAt ps cs

def infixKnown (c : Bytes) : List (Option UInt8) → Bool
  | [] => c.isEmpty
  | p :: ps => matchAt (p :: ps) c || infixKnown c ps

def apeMagic : Bytes := [65, 80, 69, 84, 65, 71, 69, 88]

/-- the valuation of the atoms *derived* from a feature state -/
def valOf (st : Feat) : Atom → Bool
  | .starts c => matchAt st.P c
  | .contains c => st.M.contains c || infixKnown c st.P
  | .sliceEq lo hi c => decide (c.length = hi - lo) && matchAt (st.P.drop lo) c
  | .extCI s => match st.ext with | some (e, _) => e == s | none => false
  | .extCS s => match st.ext with | some (e, exact) => exact && e == s | none => false
  | .trailerHas c => st.trailer && c == apeMagic
  | .trailerIOError => false

def known (b : Bytes) : List (Option UInt8) := b.map some
def unk (n : Nat) : List (Option UInt8) := List.replicate n none
def ascii (s : String) : Bytes := s.toList.map fun c => UInt8.ofNat c.toNat

def id3P : List (Option UInt8) := known (ascii "ID3")

/-- marker constants -/
def mVorbis : Bytes := 1 :: ascii "vorbis"
def mTheora80 : Bytes := 0x80 :: ascii "theora"
def mTheora81 : Bytes := 0x81 :: ascii "theora"
def mSpeex : Bytes := ascii "Speex   "
def mOpus : Bytes := ascii "OpusHead"
def mFLAC : Bytes := ascii "FLAC"
def mfLaC : Bytes := ascii "fLaC"
def mFtyp : Bytes := ascii "ftyp"
def mMp4 : Bytes := ascii "mp4"
def mADIF : Bytes := ascii "ADIF"

/-- (prefix patterns, marker-set variants, may be nameless) of each concrete format, before
and after edits through that format.  Written from the formats' own specifications, not
from the score functions; validated against real files by the correspondence check. -/
def shapes : Kind → List (List (Option UInt8)) × List (List Bytes) × Bool
  | .MP3 => ([known [0xFF, 0xFB], known [0xFF, 0xFA], known [0xFF, 0xF3], known [0xFF, 0xF2],
              [some 0xFF, none], unk 2, id3P], [[]], false)
  | .TrueAudio => ([known (ascii "TTA"), id3P], [[]], false)
  | .FLAC => ([known mfLaC], [[], [mFLAC]], true)   -- "FLAC" in the window: the vendor string "reference libFLAC" when the comment block follows STREAMINFO
  | .OggVorbis => ([known (ascii "OggS")], [[mVorbis]], true)
  | .OggOpus => ([known (ascii "OggS")], [[mOpus]], true)
  | .OggSpeex => ([known (ascii "OggS")], [[mSpeex]], true)
  | .OggFLAC => ([known (ascii "OggS")], [[mFLAC, mfLaC], [mFLAC], [mfLaC]], true)
  | .OggTheora => ([known (ascii "OggS")],
                   [[mTheora80], [mTheora80, mTheora81], [mTheora80, mVorbis], [mTheora80, mTheora81, mVorbis],
                    [mTheora80, mSpeex], [mTheora80, mFLAC, mfLaC]], true)
  | .MP4 => ([unk 4 ++ known mFtyp ++ unk 4], [[], [mMp4]], true)
  | .ASF => ([known [48, 38, 178, 117, 142, 102, 207, 17, 166, 217, 0, 170, 0, 98, 206, 108]], [[]], true)
  | .WavPack => ([known (ascii "wvpk")], [[]], true)
  | .Musepack => ([known (ascii "MP+"), known (ascii "MPCK")], [[]], true)
  | .MonkeysAudio => ([known (ascii "MAC ")], [[]], true)
  | .OptimFROG => ([known (ascii "OFR")], [[]], true)
  | .TAK => ([known (ascii "tBaK")], [[]], true)
  | .AIFF => ([known (ascii "FORM") ++ unk 4 ++ known (ascii "AIFF"),
               known (ascii "FORM") ++ unk 4 ++ known (ascii "AIFC")], [[]], true)
  | .WAVE => ([known (ascii "RIFF") ++ unk 4 ++ known (ascii "WAVE")], [[]], true)
  | .DSF => ([known (ascii "DSD ")], [[]], true)
  | .DSDIFF => ([known (ascii "FRM8")], [[]], true)
  | .AC3 => ([known [0x0B, 0x77]], [[]], true)
  | .AAC => ([known [0xFF, 0xF1], known [0xFF, 0xF9], known [0xFF, 0xF0], known [0xFF, 0xF8]], [[]], false)
  | .SMF => ([known (ascii "MThd")], [[]], false)
  | .APEv2File => ([], [], false)     -- generic fallbacks: outside the property
  | .ID3FileType => ([], [], false)

/-- FLAC behind an ID3v2 prefix (written by other tools; mutagen's FLAC reads through it):
the name is needed, the `fLaC` marker may or may not be inside the 128-byte window -/
def extraShapes : Kind → List (List (Option UInt8) × List Bytes)
  | .FLAC => [(id3P, []), (id3P, [mfLaC]), (id3P, [mfLaC, mFLAC])]
  | .AAC => [(known mADIF, [])]
  | .Musepack => [(unk 4, [])]      -- SV4-SV6 streams have no magic: recognised by name only
  | _ => []

/-- may the last 160 bytes hold an APEv2 tag?  Yes for every format (its own APEv2 tag for the
APEv2-tagged formats, a foreign one elsewhere) except raw AAC: mutagen's AAC type has no
tags at all, so no edit through it creates one, and an ADTS file that already carries an
APEv2 tag is (by one point, via the name tie-break) the generic "APEv2File" fallback the
property excludes. -/
def trailerVariants : Kind → List Bool
  | .AAC => [false]
  | _ => [false, true]

def concreteKinds : List Kind := options.filter fun k => k != .APEv2File && k != .ID3FileType

/-- all feature states of well-formed `k` files: every prefix pattern × marker variant ×
(every extension of the type in exact lower case and in another letter case, plus nameless
where the magic stays at offset 0) × with and without an APEv2 trailer -/
def reach (k : Kind) : List Feat :=
  let (ps, ms, nameless) := shapes k
  let exts : List (Option (String × Bool)) :=
    ((Kind.exts k).flatMap fun (e, _) => [some (e, true), some (e, false)])
  let named (P : List (Option UInt8)) (M : List Bytes) : List Feat :=
    exts.flatMap fun x => (trailerVariants k).map fun t => ⟨P, M, x, t⟩
  let base := ps.flatMap fun P => ms.flatMap fun M =>
    named P M ++
      (if nameless || (Kind.exts k).isEmpty then (trailerVariants k).map fun t => ⟨P, M, none, t⟩ else [])
  base ++ (extraShapes k).flatMap fun (P, M) => named P M

end Mutagen.Detect
