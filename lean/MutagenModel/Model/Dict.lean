/-
Model/Dict.lean — the dictionary side of mutagen's tag objects (property C16).

* `MapImpl`  — the four primitives a class hands to `mutagen/_util.py: DictMixin`
  (`keys`, `__getitem__`, `__setitem__`, `__delitem__`), exceptions as data;
* the `DictMixin` operations, defined ONCE over a `MapImpl`, statement by statement as
  `_util.py` defines them (`pop` = getitem then delitem, `clear` = loop over `keys()`,
  `update` = loop of `__setitem__`, `__contains__`/`get`/`setdefault`/`pop` catch `KeyError`
  and nothing else, …);
* concrete stores: `DictProxy` (`_util.py`), `_CIDictProxy` + `APEv2` key/value rules
  (`apev2.py`), `VCommentDict` (`_vorbis.py`);
* the reference: `RefDict`, an association list with unique normalised keys, a `Policy`
  (key normalisation / rejection, value coercion) and the obvious dictionary operations
  (`Ref.*`), written without looking at `DictMixin`.

Text (keys) is a list of Unicode code points (`List Nat`); `str.lower()` is modelled on
ASCII only — both `APEv2` and `VCommentDict` validate the key (ASCII ranges) *before* they
lower-case it, so the non-ASCII branch of `str.lower` is never reached with a key that
survives validation.  Values are a small Python value type (`Val`).
-/
import MutagenModel.Model.Basic
set_option linter.unusedVariables false
namespace Mutagen.Dict
open Mutagen

/-- text = list of Unicode code points -/
abbrev Text := List Nat

/-! ### association lists: Python's builtin `dict` (insertion ordered) and the reference -/

/-- association list; as a *reference dictionary* the keys are unique and normalised -/
abbrev RefDict (K V : Type) := List (K × V)

section alist
variable {K V : Type} [DecidableEq K]

/-- `d.get(k)` -/
def lookup (k : K) : RefDict K V → Option V
  | [] => none
  | (k', v) :: t => if k' = k then some v else lookup k t

/-- `d[k] = v`: an existing key keeps its position, a new key goes last -/
def insert (k : K) (v : V) : RefDict K V → RefDict K V
  | [] => [(k, v)]
  | (k', v') :: t => if k' = k then (k', v) :: t else (k', v') :: insert k v t

/-- remove the (first) entry of `k`; no-op when absent -/
def erase (k : K) : RefDict K V → RefDict K V
  | [] => []
  | (k', v') :: t => if k' = k then t else (k', v') :: erase k t

def keysOf (r : RefDict K V) : List K := r.map Prod.fst

/-- every key occurs once -/
def NodupKeys (r : RefDict K V) : Prop := (keysOf r).Nodup

/-- `d[k]` with `KeyError` -/
def lookupE (k : K) (r : RefDict K V) : Except PyErr V :=
  match lookup k r with
  | some v => .ok v
  | none => .error .key

/-- `dict(pairs)`: later pairs overwrite earlier ones -/
def fromItems (l : List (K × V)) : RefDict K V := l.foldl (fun acc p => insert p.1 p.2 acc) []

/-- `==` of two Python dicts (as association lists with unique keys) -/
def dictEq [DecidableEq V] (a b : RefDict K V) : Bool :=
  a.length == b.length && a.all (fun p => decide (lookup p.1 b = some p.2))

end alist

/-! ### the four primitives and `DictMixin` -/

/-- what a class must provide to `DictMixin`.  A primitive that raises leaves the state as it
was (true of every store below; the harness checks it on the real objects). -/
structure MapImpl (S K V : Type) where
  keys : S → List K
  getitem : S → K → Except PyErr V
  setitem : S → K → V → Except PyErr S
  delitem : S → K → Except PyErr S

/-- `[f(x) for x in l]` where `f` may raise -/
def mapE {α β : Type} (f : α → Except PyErr β) : List α → Except PyErr (List β)
  | [] => .ok []
  | a :: t =>
    match f a with
    | .error e => .error e
    | .ok b =>
      match mapE f t with
      | .error e => .error e
      | .ok bs => .ok (b :: bs)

namespace MapImpl
variable {S K V : Type} (m : MapImpl S K V)

/-- `__contains__`: `try: self[key] except KeyError: return False else: return True` -/
def contains (s : S) (k : K) : Except PyErr Bool :=
  match m.getitem s k with
  | .ok _ => .ok true
  | .error e => if e = .key then .ok false else .error e

/-- `get(key, default)` -/
def getD (s : S) (k : K) (d : V) : Except PyErr V :=
  match m.getitem s k with
  | .ok v => .ok v
  | .error e => if e = .key then .ok d else .error e

/-- `values()`: `[self[k] for k in self.keys()]` -/
def values (s : S) : Except PyErr (List V) := mapE (m.getitem s) (m.keys s)

/-- `items()`: `list(zip(self.keys(), self.values()))` -/
def items (s : S) : Except PyErr (List (K × V)) :=
  match m.values s with
  | .ok vs => .ok ((m.keys s).zip vs)
  | .error e => .error e

/-- `__len__`: `len(self.keys())` -/
def len (s : S) : Nat := (m.keys s).length

/-- the loop of `clear`; a raising `__delitem__` stops it and the deletions made so far stay -/
def delAll : List K → S → Except PyErr Unit × S
  | [], s => (.ok (), s)
  | k :: ks, s =>
    match m.delitem s k with
    | .ok s' => delAll ks s'
    | .error e => (.error e, s)

/-- `clear()`: `for key in list(self.keys()): self.__delitem__(key)` -/
def clear (s : S) : Except PyErr Unit × S := m.delAll (m.keys s) s

/-- `pop(key[, default])`: `value = self[key]` (KeyError → default or re-raise); `del self[key]` -/
def pop (s : S) (k : K) (d : Option V) : Except PyErr V × S :=
  match m.getitem s k with
  | .ok v =>
    match m.delitem s k with
    | .ok s' => (.ok v, s')
    | .error e => (.error e, s)
  | .error e =>
    if e = .key then
      match d with
      | some dv => (.ok dv, s)
      | none => (.error .key, s)
    else (.error e, s)

/-- `popitem()`: first key of `keys()`, `KeyError` when there is none; `(key, self.pop(key))` -/
def popitem (s : S) : Except PyErr (K × V) × S :=
  match m.keys s with
  | [] => (.error .key, s)
  | k :: _ =>
    match (m.pop s k none).1 with
    | .ok v => (.ok (k, v), (m.pop s k none).2)
    | .error e => (.error e, (m.pop s k none).2)

/-- `update(other)` / `update(**kw)` / `update(pairs)`: all three are a loop of
`self[key] = value` over pairs; a raising `__setitem__` stops it, earlier ones stay -/
def update : List (K × V) → S → Except PyErr Unit × S
  | [], s => (.ok (), s)
  | (k, v) :: l, s =>
    match m.setitem s k v with
    | .ok s' => update l s'
    | .error e => (.error e, s)

/-- `setdefault(key, default)`: returns `default` itself (not the stored, possibly coerced,
value) when the key was absent -/
def setdefault (s : S) (k : K) (d : V) : Except PyErr V × S :=
  match m.getitem s k with
  | .ok v => (.ok v, s)
  | .error e =>
    if e = .key then
      match m.setitem s k d with
      | .ok s' => (.ok d, s')
      | .error e' => (.error e', s)
    else (.error e, s)

/-- `__eq__`: `dict(self.items()) == other` -/
def eq [DecidableEq K] [DecidableEq V] (s : S) (o : RefDict K V) : Except PyErr Bool :=
  match m.items s with
  | .ok it => .ok (dictEq (fromItems it) o)
  | .error e => .error e

end MapImpl

/-! ### operations and outputs -/

inductive Op (K V : Type)
  | get (k : K) | set (k : K) (v : V) | del (k : K) | contains (k : K)
  | keys | values | items | len | clear
  | pop (k : K) | popD (k : K) (d : V) | popitem
  | update (l : List (K × V)) | setdefault (k : K) (d : V) | getD (k : K) (d : V)
deriving DecidableEq, Repr

inductive Out (K V : Type)
  | unit | bool (b : Bool) | val (v : V) | keys (l : List K) | vals (l : List V)
  | items (l : List (K × V)) | nat (n : Nat) | item (k : K) (v : V) | err (e : PyErr)
deriving DecidableEq, Repr

def outOf {K V α : Type} (f : α → Out K V) : Except PyErr α → Out K V
  | .ok a => f a
  | .error e => .err e

namespace MapImpl
variable {S K V : Type} (m : MapImpl S K V)

/-- one operation: what Python returns (or raises) and the state afterwards -/
def step (s : S) : Op K V → Out K V × S
  | .get k => (outOf .val (m.getitem s k), s)
  | .set k v =>
    match m.setitem s k v with
    | .ok s' => (.unit, s')
    | .error e => (.err e, s)
  | .del k =>
    match m.delitem s k with
    | .ok s' => (.unit, s')
    | .error e => (.err e, s)
  | .contains k => (outOf .bool (m.contains s k), s)
  | .keys => (.keys (m.keys s), s)
  | .values => (outOf .vals (m.values s), s)
  | .items => (outOf .items (m.items s), s)
  | .len => (.nat (m.len s), s)
  | .clear => (outOf (fun _ => .unit) (m.clear s).1, (m.clear s).2)
  | .pop k => (outOf .val (m.pop s k none).1, (m.pop s k none).2)
  | .popD k d => (outOf .val (m.pop s k (some d)).1, (m.pop s k (some d)).2)
  | .popitem => (outOf (fun p => .item p.1 p.2) (m.popitem s).1, (m.popitem s).2)
  | .update l => (outOf (fun _ => .unit) (m.update l s).1, (m.update l s).2)
  | .setdefault k d => (outOf .val (m.setdefault s k d).1, (m.setdefault s k d).2)
  | .getD k d => (outOf .val (m.getD s k d), s)

/-- outputs of a whole operation sequence -/
def run : List (Op K V) → S → List (Out K V)
  | [], _ => []
  | op :: ops, s => (m.step s op).1 :: run ops (m.step s op).2

/-- state after a whole operation sequence -/
def exec : List (Op K V) → S → S
  | [], s => s
  | op :: ops, s => exec ops (m.step s op).2

end MapImpl

/-! ### Python values -/

/-- a non-list Python value -/
inductive Atom
  | str (s : String) | bytes (b : String) | int (n : Int) | none
deriving DecidableEq, Repr, Inhabited

/-- a value handed to / returned by a tag object -/
inductive Val
  | atom (a : Atom) | list (l : List Atom)
deriving DecidableEq, Repr, Inhabited

/-! ### ASCII lower-casing -/

def lowerC (c : Nat) : Nat := if 65 ≤ c ∧ c ≤ 90 then c + 32 else c
def lower (k : Text) : Text := k.map lowerC

/-! ### DictProxy (`_util.py`): a wrapped builtin dict -/

abbrev Proxy (K V : Type) := RefDict K V

def proxyImpl (K V : Type) [DecidableEq K] : MapImpl (Proxy K V) K V where
  keys s := keysOf s
  getitem s k := lookupE k s
  setitem s k v := .ok (insert k v s)
  delitem s k := match lookup k s with
    | some _ => .ok (erase k s)
    | none => .error .key

/-! ### `_CIDictProxy` and `APEv2` (`apev2.py`) -/

/-- the two private dicts of `_CIDictProxy` -/
structure CI where
  casemap : RefDict Text Text     -- lower-cased key → key as last set
  dict : RefDict Text Val         -- lower-cased key → value
deriving DecidableEq, Repr, Inhabited

def CI.empty : CI := ⟨[], []⟩

/-- `self.__dict[key.lower()]` -/
def ciGet (s : CI) (k : Text) : Except PyErr Val := lookupE (lower k) s.dict

def ciSet (s : CI) (k : Text) (v : Val) : CI :=
  { casemap := insert (lower k) k s.casemap, dict := insert (lower k) v s.dict }

/-- `del self.__casemap[lower]; del self.__dict[lower]`.  (If only the second `del` raised,
Python would keep the first deletion; the two dicts always have the same keys — `CIInv` in
Proofs/Dict.lean — so that branch is unreachable and is given the plain `KeyError`.) -/
def ciDel (s : CI) (k : Text) : Except PyErr CI :=
  match lookup (lower k) s.casemap, lookup (lower k) s.dict with
  | some _, some _ => .ok { casemap := erase (lower k) s.casemap, dict := erase (lower k) s.dict }
  | _, _ => .error .key

/-- `[self.__casemap.get(key, key) for key in self.__dict.keys()]` -/
def ciKeys (s : CI) : List Text := (keysOf s.dict).map (fun lk => (lookup lk s.casemap).getD lk)

/-- "OggS", "TAG", "ID3", "MP+" -/
def apeForbidden : List Text := [[79, 103, 103, 83], [84, 65, 71], [73, 68, 51], [77, 80, 43]]

/-- `is_valid_apev2_key` for a `str` key: 2–255 characters, all in U+0020..U+007E, and not one
of the four forbidden words (compared case-sensitively, as the code does) -/
def apeValid (k : Text) : Bool :=
  decide (2 ≤ k.length) && decide (k.length ≤ 255) && k.all (fun c => decide (32 ≤ c) && decide (c ≤ 126)) &&
    !(apeForbidden.contains k)

def isStr : Atom → Bool
  | .str _ => true
  | _ => false

def atomStr : Atom → String
  | .str s => s
  | _ => ""

/-- the value guessing of `APEv2.__setitem__`: `str` → text value; `list` of `str` → text value
joined by NUL (`TypeError` if an item is not `str`); `bytes` → binary value; anything else is
handed to `APEBinaryValue` which raises `TypeError`.  The stored `APETextValue(s)` /
`APEBinaryValue(b)` is written `atom (str s)` / `atom (bytes b)`.  (Ready-made `APEValue`
objects, e.g. EXTERNAL ones, are not modelled.) -/
def apeCoerce : Val → Except PyErr Val
  | .atom (.str s) => .ok (.atom (.str s))
  | .atom (.bytes b) => .ok (.atom (.bytes b))
  | .atom _ => .error .type_
  | .list l => if l.all isStr then .ok (.atom (.str ("\x00".intercalate (l.map atomStr)))) else .error .type_

def apeGet (s : CI) (k : Text) : Except PyErr Val :=
  if apeValid k then ciGet s k else .error .key

def apeSet (s : CI) (k : Text) (v : Val) : Except PyErr CI :=
  if apeValid k then
    match apeCoerce v with
    | .ok v' => .ok (ciSet s k v')
    | .error e => .error e
  else .error .key

def apeDel (s : CI) (k : Text) : Except PyErr CI :=
  if apeValid k then ciDel s k else .error .key

def apeImpl : MapImpl CI Text Val where
  keys := ciKeys
  getitem := apeGet
  setitem := apeSet
  delitem := apeDel

/-! ### `VCommentDict` (`_vorbis.py`): a Python list of (key, value) pairs -/

abbrev VC := List (Text × Atom)

/-- `is_valid_key` for a `str` key: non-empty, every character in U+0020..U+007D except `=` -/
def vcValid (k : Text) : Bool :=
  k.all (fun c => decide (32 ≤ c) && decide (c ≤ 125) && decide (c ≠ 61)) && !k.isEmpty

/-- `[value for (k, value) in self if k.lower() == key]` -/
def vcValuesOf (lk : Text) (s : VC) : List Atom :=
  s.filterMap (fun p => if lower p.1 = lk then some p.2 else none)

/-- all pairs of another key: what `for item in to_delete: self.remove(item)` leaves (every
removed element has the key being deleted because tuples compare key first, and as many
elements are removed as there are matching ones) -/
def vcWithout (lk : Text) (s : VC) : VC := s.filter (fun p => decide (lower p.1 ≠ lk))

/-- first occurrences, in order -/
def dedup {α : Type} [DecidableEq α] : List α → List α
  | [] => []
  | a :: t => a :: (dedup t).filter (fun b => decide (b ≠ a))

/-- `list(set(k.lower() for k, v in self))`; Python's order is that of a hash set (arbitrary),
the model lists first occurrences — consumers sort -/
def vcKeys (s : VC) : List Text := dedup (s.map (fun p => lower p.1))

def vcGet (s : VC) (k : Text) : Except PyErr Val :=
  if vcValid k then
    match vcValuesOf (lower k) s with
    | [] => .error .key
    | vs => .ok (.list vs)
  else .error .value

/-- `if not isinstance(values, list): values = [values]` -/
def vcAsList : Val → List Atom
  | .list l => l
  | .atom a => [a]

/-- `__setitem__`: validate, delete all old values (KeyError ignored), append one pair per value
under the key *as given* -/
def vcSet (s : VC) (k : Text) (v : Val) : Except PyErr VC :=
  if vcValid k then .ok (vcWithout (lower k) s ++ (vcAsList v).map (fun a => (k, a)))
  else .error .value

def vcDel (s : VC) (k : Text) : Except PyErr VC :=
  if vcValid k then
    match vcValuesOf (lower k) s with
    | [] => .error .key
    | _ => .ok (vcWithout (lower k) s)
  else .error .value

def vcImpl : MapImpl VC Text Val where
  keys := vcKeys
  getitem := vcGet
  setitem := vcSet
  delitem := vcDel

/-- `VCommentDict.__contains__` (its own method, not `DictMixin`'s) -/
def vcContains (s : VC) (k : Text) : Except PyErr Bool :=
  if vcValid k then .ok (s.any (fun p => decide (lower p.1 = lower k))) else .error .value

/-- `len()` is `list.__len__`: the number of values, not of keys (documented) -/
def vcLen (s : VC) : Nat := s.length

/-- `clear()` is `VComment.clear`: remove every pair -/
def vcClear (s : VC) : VC := []

/-- `VCommentDict.pop` is `list.pop` (MRO: list before DictMixin): a `str` argument, or two
arguments, is a `TypeError`; so `DictMixin.popitem` raises `TypeError` too unless the
comment is empty (`KeyError`).  pop/popitem are therefore outside C16 for this class. -/
def vcStep (s : VC) : Op Text Val → Out Text Val × VC
  | .contains k => (outOf .bool (vcContains s k), s)
  | .len => (.nat (vcLen s), s)
  | .clear => (.unit, vcClear s)
  | .pop _ => (.err .type_, s)
  | .popD _ _ => (.err .type_, s)
  | .popitem => (match vcKeys s with | [] => .err .key | _ => .err .type_, s)
  | op => vcImpl.step s op

def vcRun : List (Op Text Val) → VC → List (Out Text Val)
  | [], _ => []
  | op :: ops, s => (vcStep s op).1 :: vcRun ops (vcStep s op).2

/-! ### the reference dictionary -/

/-- what an object documents about its keys and values: `norm` maps a key to the key it is
filed under or to the documented error for an invalid key; `coerce` maps a value to the
value that is stored (`none`: "no values", i.e. the key is removed — `VCommentDict`'s
`d[k] = []`) or to the documented error for a rejected value.  The key is checked first. -/
structure Policy (K V : Type) where
  norm : K → Except PyErr K
  coerce : V → Except PyErr (Option V)

namespace Ref
variable {K V : Type} [DecidableEq K] (P : Policy K V)

def get (r : RefDict K V) (k : K) : Except PyErr V :=
  match P.norm k with
  | .ok k' => lookupE k' r
  | .error e => .error e

def set (r : RefDict K V) (k : K) (v : V) : Except PyErr (RefDict K V) :=
  match P.norm k with
  | .error e => .error e
  | .ok k' =>
    match P.coerce v with
    | .error e => .error e
    | .ok (some v') => .ok (insert k' v' r)
    | .ok none => .ok (erase k' r)

def del (r : RefDict K V) (k : K) : Except PyErr (RefDict K V) :=
  match P.norm k with
  | .error e => .error e
  | .ok k' =>
    match lookup k' r with
    | some _ => .ok (erase k' r)
    | none => .error .key

/-- `k in d`: an invalid key whose documented error is `KeyError` is simply not there -/
def contains (r : RefDict K V) (k : K) : Except PyErr Bool :=
  match P.norm k with
  | .ok k' => .ok (lookup k' r).isSome
  | .error e => if e = .key then .ok false else .error e

def getD (r : RefDict K V) (k : K) (d : V) : Except PyErr V :=
  match P.norm k with
  | .ok k' => .ok ((lookup k' r).getD d)
  | .error e => if e = .key then .ok d else .error e

def keys (r : RefDict K V) : List K := keysOf r
def values (r : RefDict K V) : List V := r.map Prod.snd
def items (r : RefDict K V) : List (K × V) := r
def len (r : RefDict K V) : Nat := r.length
def clear (r : RefDict K V) : RefDict K V := []

def pop (r : RefDict K V) (k : K) (d : Option V) : Except PyErr V × RefDict K V :=
  match P.norm k with
  | .ok k' =>
    match lookup k' r with
    | some v => (.ok v, erase k' r)
    | none => (match d with | some dv => .ok dv | none => .error .key, r)
  | .error e =>
    if e = .key then (match d with | some dv => .ok dv | none => .error .key, r) else (.error e, r)

/-- deterministic `popitem` (first entry); the theorems treat `popitem` angelically instead:
any present key is accepted (`RefStep`) -/
def popitem (r : RefDict K V) : Except PyErr (K × V) × RefDict K V :=
  match r with
  | [] => (.error .key, r)
  | (k, v) :: t => (.ok (k, v), t)

def update : List (K × V) → RefDict K V → Except PyErr Unit × RefDict K V
  | [], r => (.ok (), r)
  | (k, v) :: l, r =>
    match set P r k v with
    | .ok r' => update l r'
    | .error e => (.error e, r)

def setdefault (r : RefDict K V) (k : K) (d : V) : Except PyErr V × RefDict K V :=
  match P.norm k with
  | .error e => (.error e, r)
  | .ok k' =>
    match lookup k' r with
    | some v => (.ok v, r)
    | none =>
      match P.coerce d with
      | .error e => (.error e, r)
      | .ok (some v') => (.ok d, insert k' v' r)
      | .ok none => (.ok d, r)

def eq [DecidableEq V] (r o : RefDict K V) : Bool := dictEq r o

def step (r : RefDict K V) : Op K V → Out K V × RefDict K V
  | .get k => (outOf .val (get P r k), r)
  | .set k v =>
    match set P r k v with
    | .ok r' => (.unit, r')
    | .error e => (.err e, r)
  | .del k =>
    match del P r k with
    | .ok r' => (.unit, r')
    | .error e => (.err e, r)
  | .contains k => (outOf .bool (contains P r k), r)
  | .keys => (.keys (keys r), r)
  | .values => (.vals (values r), r)
  | .items => (.items (items r), r)
  | .len => (.nat (len r), r)
  | .clear => (.unit, clear r)
  | .pop k => (outOf .val (pop P r k none).1, (pop P r k none).2)
  | .popD k d => (outOf .val (pop P r k (some d)).1, (pop P r k (some d)).2)
  | .popitem => (outOf (fun p => .item p.1 p.2) (popitem r).1, (popitem r).2)
  | .update l => (outOf (fun _ => .unit) (update P l r).1, (update P l r).2)
  | .setdefault k d => (outOf .val (setdefault P r k d).1, (setdefault P r k d).2)
  | .getD k d => (outOf .val (getD P r k d), r)

def run : List (Op K V) → RefDict K V → List (Out K V)
  | [], _ => []
  | op :: ops, r => (step P r op).1 :: run ops (step P r op).2

end Ref

/-! ### the three policies -/

/-- `DictProxy`: keys as they are, values as they are -/
def proxyPolicy (K V : Type) : Policy K V where
  norm k := .ok k
  coerce v := .ok (some v)

/-- `APEv2`: invalid key → `KeyError`; valid keys are filed under their lower-cased form -/
def apePolicy : Policy Text Val where
  norm k := if apeValid k then .ok (lower k) else .error .key
  coerce v := match apeCoerce v with
    | .ok v' => .ok (some v')
    | .error e => .error e

/-- `VCommentDict`: invalid key → `ValueError`; case-insensitive; every value is a list of
values, a single value is a one-element list, the empty list removes the key -/
def vcPolicy : Policy Text Val where
  norm k := if vcValid k then .ok (lower k) else .error .value
  coerce v := match vcAsList v with
    | [] => .ok none
    | l => .ok (some (.list l))

/-! ### vocabulary of the C16 theorems (definitions only; the theorems are in Props/C16.lean) -/

section vocab
variable {S K V : Type} [DecidableEq K]

/-- two association lists are the same dictionary: every key looks up the same.  (The order
of a Python dict / set is not part of the mapping contract; `VCommentDict.keys()` comes
out of a hash set.) -/
def SameMap (r1 r2 : RefDict K V) : Prop := ∀ k, lookup k r1 = lookup k r2

/-- a state-changing primitive against the reference: both raise the same exception class,
or both succeed and the new state (which satisfies the invariant again) abstracts to the
same dictionary as the reference's new state -/
def SimStep (inv : S → Prop) (abs : S → RefDict K V) :
    Except PyErr S → Except PyErr (RefDict K V) → Prop
  | .ok s', .ok r' => inv s' ∧ SameMap (abs s') r'
  | .error e, .error e' => e = e'
  | _, _ => False

/-- the four primitives of store `m` refine the reference dictionary with policy `P` under
the abstraction function `abs`, on the states satisfying `inv` -/
structure Refines (m : MapImpl S K V) (P : Policy K V) (inv : S → Prop) (abs : S → RefDict K V) : Prop where
  /-- the abstraction of a good state has unique keys -/
  nodup : ∀ s, inv s → NodupKeys (abs s)
  /-- `keys()` lists, in the order of `abs`, keys whose normal forms are the reference's keys -/
  keys : ∀ s, inv s → (m.keys s).map P.norm = (keysOf (abs s)).map Except.ok
  /-- `__getitem__`: same value, same exception class -/
  get : ∀ s k, inv s → m.getitem s k = Ref.get P (abs s) k
  set : ∀ s k v, inv s → SimStep inv abs (m.setitem s k v) (Ref.set P (abs s) k v)
  del : ∀ s k, inv s → SimStep inv abs (m.delitem s k) (Ref.del P (abs s) k)

/-- an output of the store against the output of the reference run on `abs s` itself:
equal, where keys that the store returns are compared after normalisation -/
def OutMatch (P : Policy K V) : Out K V → Out K V → Prop
  | .unit, .unit => True
  | .bool b, .bool b' => b = b'
  | .val v, .val v' => v = v'
  | .keys l, .keys l' => l.map P.norm = l'.map Except.ok
  | .vals l, .vals l' => l = l'
  | .items l, .items l' => l.map (fun p => (P.norm p.1, p.2)) = l'.map (fun p => (Except.ok p.1, p.2))
  | .nat n, .nat n' => n = n'
  | .item k v, .item k' v' => P.norm k = .ok k' ∧ v = v'
  | .err e, .err e' => e = e'
  | _, _ => False

/-- an output of the store against the output of the reference run on any association list
that is the same dictionary: as `OutMatch`, but key / value / item lists only up to order -/
def OutEquiv (P : Policy K V) : Out K V → Out K V → Prop
  | .keys l, .keys l' => ∃ n : List K, l.map P.norm = n.map Except.ok ∧ n.Perm l'
  | .vals l, .vals l' => l.Perm l'
  | .items l, .items l' =>
    ∃ n : List (K × V), l.map (fun p => (P.norm p.1, p.2)) = n.map (fun p => (Except.ok p.1, p.2)) ∧ n.Perm l'
  | o, o' => OutMatch P o o'

/-- the reference accepts output `o` for operation `op` in state `r` and moves to `r'`.
`popitem` is angelic: any present key may come out (which one is an accident of the
store's iteration order), `KeyError` exactly when the dictionary is empty. -/
def RefStep (P : Policy K V) (r : RefDict K V) (op : Op K V) (o : Out K V) (r' : RefDict K V) : Prop :=
  match op with
  | .popitem =>
    (r = [] ∧ o = .err .key ∧ r' = r) ∨
    (∃ k k' v, o = .item k v ∧ P.norm k = .ok k' ∧ lookup k' r = some v ∧ r' = erase k' r)
  | op => OutEquiv P o (Ref.step P r op).1 ∧ r' = (Ref.step P r op).2

/-- the reference accepts the whole list of outputs for the whole list of operations -/
def Accepts (P : Policy K V) : RefDict K V → List (Op K V) → List (Out K V) → Prop
  | _, [], [] => True
  | r, op :: ops, o :: os => ∃ r', RefStep P r op o r' ∧ Accepts P r' ops os
  | _, _, _ => False

/-- output lists of equal length, related position by position -/
def OutsEquiv (P : Policy K V) : List (Out K V) → List (Out K V) → Prop
  | [], [] => True
  | o :: os, o' :: os' => OutEquiv P o o' ∧ OutsEquiv P os os'
  | _, _ => False

/-- the operations `VCommentDict` (a Python list of pairs) offers as a dictionary: all but
`pop`/`popitem` (which are `list.pop`) and `len` (number of values, `vc_len`) -/
def Op.isVcDict : Op K V → Bool
  | .pop _ => false | .popD _ _ => false | .popitem => false | .len => false
  | _ => true

def Op.isPopitem : Op K V → Bool
  | .popitem => true
  | _ => false

end vocab

end Mutagen.Dict
