/- Model/Padding.lean — PaddingInfo._get_padding: the callback or the default policy -/
import MutagenModel.Generated.Padding
namespace Mutagen

/-- what `save(padding=...)` was given: nothing (default policy) or a callback, modelled as a
function of `(info.padding, info.size)` -/
inductive PadChoice
  | default
  | callback (f : Int → Nat → Int)

/-- PaddingInfo(padding, size)._get_padding(user_func) -/
def getPadding (c : PadChoice) (padding : Int) (size : Nat) : Int :=
  match c with
  | .default => Generated.defaultPadding padding size
  | .callback f => f padding size

end Mutagen
