/-
Model/Ape.lean — APEv2 tag at byte level (APEv2 specification: "APE Tags Header / Footer",
"APE Tag Item"): what APEv2.save writes (`encodeTag`: header, items sorted by (size, bytes),
footer) and a strict decoder written from the specification.
-/
import MutagenModel.Model.IntCodec
set_option linter.unusedVariables false
namespace Mutagen.Ape
open Mutagen

structure Item where
  key : Bytes
  /-- 0 text (UTF-8), 1 binary, 2 external -/
  kind : Nat
  value : Bytes
deriving DecidableEq, Repr

def encodeItem (i : Item) : Bytes :=
  toLE 4 i.value.length ++ toLE 4 (i.kind * 2) ++ i.key ++ [0] ++ i.value

def preamble : Bytes := [0x41, 0x50, 0x45, 0x54, 0x41, 0x47, 0x45, 0x58]   -- "APETAGEX"

def hasHeader : Nat := 2 ^ 31
def isHeader : Nat := 2 ^ 29

def headerOrFooter (size count flags : Nat) : Bytes :=
  preamble ++ toLE 4 2000 ++ toLE 4 size ++ toLE 4 count ++ toLE 4 flags ++ zeros 8

/-- header + items + footer as APEv2.save writes them (items already in their final order) -/
def encodeTag (items : List Item) : Bytes :=
  let body := (items.map encodeItem).flatten
  headerOrFooter (body.length + 32) items.length (hasHeader + isHeader) ++ body ++
    headerOrFooter (body.length + 32) items.length hasHeader

/-- split at the first 0x00 -/
def splitNul : Bytes → Option (Bytes × Bytes)
  | [] => none
  | b :: r => if b = 0 then some ([], r) else (splitNul r).map fun (k, v) => (b :: k, v)

def decodeItems : Nat → Bytes → Option (List Item × Bytes)
  | 0, d => some ([], d)
  | n + 1, d =>
    if d.length < 8 then none
    else
      let vlen := ofLE (d.take 4)
      let flags := ofLE ((d.drop 4).take 4)
      match splitNul (d.drop 8) with
      | none => none
      | some (key, rest) =>
        if rest.length < vlen then none
        else (decodeItems n (rest.drop vlen)).map fun (is, tail) =>
          ({ key := key, kind := flags / 2 % 4, value := rest.take vlen } :: is, tail)

/-- strict decoder of a whole tag with header: checks preamble, version, that header and footer
agree, the flags, and that the items fill the declared size exactly -/
def decodeTag (d : Bytes) : Option (List Item) :=
  if d.length < 64 then none
  else
    let hdr := d.take 32
    let ftr := d.drop (d.length - 32)
    if hdr.take 8 ≠ preamble ∨ ftr.take 8 ≠ preamble then none
    else
      let size := ofLE ((hdr.drop 12).take 4)
      let count := ofLE ((hdr.drop 16).take 4)
      let hflags := ofLE ((hdr.drop 20).take 4)
      if (ftr.drop 8).take 12 ≠ (hdr.drop 8).take 12 then none
      else if hflags / isHeader % 2 ≠ 1 then none
      else if size + 32 ≠ d.length then none
      else match decodeItems count ((d.drop 32).take (size - 32)) with
        | some (items, []) => some items
        | _ => none

end Mutagen.Ape
