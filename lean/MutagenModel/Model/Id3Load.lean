/-
Model/Id3Load.lean — what `ID3.load` (mutagen/id3/_file.py) makes of what it has read: the frames `_read` put into the tag
dictionary, the ID3v1 merge, and `translate`.

    header found:      _read(header, data)                                  -- the v2 dictionary (a parameter here)
                       [load_v1] find_id3v1 → ParseID3v1(block, 4 if v2.4 else 3)
                                 for each v1 frame: skipped if getall(HashKey) is not empty,
                                 the COMM also if __is_v1_copy (it repeats / prefixes a v2 comment without description)
    no header:         [load_v1] find_id3v1 → ParseID3v1(block, v2_version): the v1 frames alone (version 1.1)
    translate:         update_to_v23() / update_to_v24()

The v2 dictionary is a `Id3Conv.Tag` (Model/Id3Convert.lean: frames by HashKey); what `__is_v1_copy` looks at in addition — the
COMM frames with their description and text — is `comms`.  `ParseID3v1` is Model/Id3v1.lean, `update_to_v2x` Model/Id3Convert.lean.
-/
import MutagenModel.Model.Id3Convert
set_option linter.unusedVariables false
namespace Mutagen.Id3Load
open Mutagen Mutagen.Id3v1 Mutagen.Id3Conv

/-- `getall(key)` is not empty: the key itself or a key starting with `key:` -/
def hasAll (t : Id3Conv.Tag) (key : String) : Bool := t.any (isAll key)

/-- a COMM frame as `__is_v1_copy` sees it -/
structure Comm where
  desc : Str
  text : List Str
deriving DecidableEq, Repr

def isBytesSpace' (b : UInt8) : Bool := Id3v1.isBytesSpace b

/-- `bytes.strip()` -/
def bstrip (b : Bytes) : Bytes := ((b.dropWhile Id3v1.isBytesSpace).reverse.dropWhile Id3v1.isBytesSpace).reverse

/-- `__is_v1_copy(v1_comment)`: the v1 comment text, Latin-1 encoded, is a prefix of the stripped first value of a COMM frame
without description -/
def isV1Copy (comms : List Comm) (v1text : Str) : Bool :=
  comms.any fun c =>
    c.desc.isEmpty && (match c.text with
      | t :: _ => (latin1Replace v1text).isPrefixOf (bstrip (latin1Replace t))
      | [] => false)

def v1CommKey : String := "COMM:ID3v1 Comment:eng"

/-- the frames `ParseID3v1` returns, in the order of its dictionary; `v2ver` = 3: the year is a TYER, else a TDRC -/
def v1Frames (v2ver : Nat) (v : Id3v1.Tag) : List Frame :=
  (if v.title.isEmpty then [] else [Frame.text "TIT2" 0 [v.title]]) ++
  (if v.artist.isEmpty then [] else [Frame.text "TPE1" 0 [v.artist]]) ++
  (if v.album.isEmpty then [] else [Frame.text "TALB" 0 [v.album]]) ++
  (if v.year.isEmpty then [] else
    [if v2ver = 3 then Frame.text "TYER" 0 [v.year] else Frame.stamps "TDRC" 0 [parseStamp v.year]]) ++
  (if v.comment.isEmpty then [] else [Frame.other "COMM" v1CommKey]) ++
  (match v.track with | some n => [Frame.text "TRCK" 0 [strOfNat n]] | none => []) ++
  (match v.genre with | some n => [Frame.text "TCON" 0 [strOfNat n]] | none => [])

/-- the merge loop: a v1 frame is added unless the tag has a frame under its HashKey, or it is the comment and a copy -/
def mergeV1 (t : Id3Conv.Tag) (comms : List Comm) (v1comment : Str) : List Frame → Id3Conv.Tag
  | [] => t
  | f :: r =>
    if hasAll t f.key then mergeV1 t comms v1comment r
    else if f.id == "COMM" && isV1Copy comms v1comment then mergeV1 t comms v1comment r
    else mergeV1 (t.add f) comms v1comment r

/-- the tag dictionary after `ID3.load`, header found: `v2` is what `_read` made of the body, `vmaj` the header's version, `block`
the ID3v1 block `find_id3v1` found (`none`: none, or `load_v1=False`), `translate`: `none` = `translate=False`, else `v2_version` -/
def loadedTag (v2 : Id3Conv.Tag) (comms : List Comm) (vmaj : Nat) (block : Option Bytes) (translate : Option Nat) : Id3Conv.Tag :=
  let v1ver := if vmaj = 4 then 4 else 3
  let merged := match block with
    | none => v2
    | some b => match parseID3v1 v1ver b with
      | .ok (some v) => mergeV1 v2 comms v.comment (v1Frames v1ver v)
      | _ => v2
  match translate with
  | none => merged
  | some 3 => updateToV23 merged
  | some _ => updateToV24 merged

/-- … and without a header (ID3NoHeaderError / ID3UnsupportedVersionError caught): the v1 frames alone -/
def loadedTagV1 (block : Bytes) (v2version : Nat) (translate : Bool) : Id3Conv.Tag :=
  let merged := match parseID3v1 v2version block with
    | .ok (some v) => mergeV1 [] [] v.comment (v1Frames v2version v)
    | _ => []
  if !translate then merged else if v2version = 3 then updateToV23 merged else updateToV24 merged

end Mutagen.Id3Load
