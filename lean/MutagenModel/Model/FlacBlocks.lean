/-
Model/FlacBlocks.lean — the metadata block classes of mutagen/flac.py other than STREAMINFO and the Vorbis comment:
`Picture` (also the payload of Ogg's base64 METADATA_BLOCK_PICTURE), `SeekTable`/`SeekPoint`, `CueSheet`/
`CueSheetTrack`/`CueSheetTrackIndex`, `Padding`, and `MetadataBlock` (APPLICATION and every unknown block code).

Code side (`load…`, `write…`): what `Class(data)` and `block.write()` do, statement by statement — every read through
`StrictFileObject.read` (a short read raises the module's `error`, a MutagenError), `tryread` in SeekTable's loop, the
struct formats `>QQH`, `>128sQB258xB`, `>QB12sB13xB`, `>QB3x`, `>2I`/`>I`/`>5I`, `rstrip(b"\0")`, `decode('UTF-8',
'replace')`, `struct.error` for values that do not fit their field, silent truncation by `128s`/`12s`.  Field values
are natural numbers (negative ints are a `struct.error` like too large ones; not modelled), text is a list of code
points.

Spec side (`render…`, `….OK`): the layouts of the FLAC format specification (METADATA_BLOCK_PICTURE, _SEEKTABLE,
_CUESHEET, _PADDING, _APPLICATION), written from the format document, with the constraints it states.  The strict
reader of a block, `read…`, accepts exactly the byte strings that are the rendering of a value satisfying `OK`.
-/
import MutagenModel.Model.IntCodec
import MutagenModel.Model.Utf8
set_option linter.unusedVariables false
namespace Mutagen.FlacB
open Mutagen

/-! ### helpers of the code side -/

/-- sequencing of partial results -/
def bnd (m : Except PyErr α) (f : α → Except PyErr β) : Except PyErr β :=
  match m with
  | .error e => .error e
  | .ok a => f a

/-- `StrictFileObject.read(n)` on what is left of the data: the bytes and the rest, or `error` -/
def rd (n : Nat) (b : Bytes) : Except PyErr (Bytes × Bytes) :=
  if b.length < n then .error .mutagen else .ok (b.take n, b.drop n)

/-- `struct.pack` of one unsigned big-endian field of `w` bytes -/
def packU (w n : Nat) : Except PyErr Bytes := if n < 256 ^ w then .ok (toBE w n) else .error .struct_

/-- `bytes.rstrip(b"\0")` -/
def rstrip0 (l : Bytes) : Bytes := (l.reverse.dropWhile (· == 0)).reverse

/-- the `Ns` format of struct.pack: truncated or padded with NUL bytes to `n` bytes -/
def padTo (n : Nat) (l : Bytes) : Bytes := l.take n ++ zeros (n - l.length)

/-! ### `bytes.decode('UTF-8', 'replace')` -/

/-- the number of bytes CPython's UTF-8 decoder reports as one error at the start of `d` (which does not start with
a well-formed scalar): an invalid start byte is one error; a lead byte is one error together with the continuation
bytes that are valid so far ("maximal subpart"), also at the end of the data -/
def errLen : Bytes → Nat
  | [] => 0
  | x :: r =>
    let a := x.toNat
    let c2ok (y : UInt8) : Bool :=
      Utf8.isCont y && !(a = 0xE0 && y.toNat < 0xA0) && !(a = 0xED && y.toNat > 0x9F) &&
        !(a = 0xF0 && y.toNat < 0x90) && !(a = 0xF4 && y.toNat > 0x8F)
    if a < 0xC2 ∨ a ≥ 0xF5 then 1
    else if a < 0xE0 then 1
    else if a < 0xF0 then
      match r with
      | y :: _ => if c2ok y then 2 else 1
      | [] => 1
    else
      match r with
      | y :: z :: _ => if c2ok y then (if Utf8.isCont z then 3 else 2) else 1
      | [y] => if c2ok y then 2 else 1
      | [] => 1

/-- `d.decode('UTF-8', 'replace')`: well-formed scalars as they are, one U+FFFD per error -/
def decodeReplaceFuel : Nat → Bytes → List Nat
  | _, [] => []
  | 0, _ :: _ => []
  | n + 1, d =>
    match Utf8.utf8Dec1 d with
    | some (c, rest) => c :: decodeReplaceFuel n rest
    | none => 0xFFFD :: decodeReplaceFuel n (d.drop (errLen d))

def decodeReplace (d : Bytes) : List Nat := decodeReplaceFuel d.length d

/-- `text.encode('UTF-8')`: UnicodeEncodeError for a surrogate (Python strings hold code points below 0x110000) -/
def encodeText (t : List Nat) : Except PyErr Bytes :=
  if t.all (fun c => decide (Utf8.Scalar c)) then .ok (Utf8.encode t) else .error .unicode

/-! ### PICTURE -/

structure Picture where
  type_ : Nat
  mime : List Nat
  desc : List Nat
  width : Nat
  height : Nat
  depth : Nat
  colors : Nat
  data : Bytes
deriving DecidableEq, Repr

/-- `Picture.load` on a stream: the picture and what follows it (FLAC reads PICTURE blocks this way, not trusting the
block size: `_distrust_size`) -/
def loadPictureS (b : Bytes) : Except PyErr (Picture × Bytes) :=
  bnd (rd 8 b) fun p1 =>
  bnd (rd (ofBE (p1.1.drop 4)) p1.2) fun p2 =>
  bnd (rd 4 p2.2) fun p3 =>
  bnd (rd (ofBE p3.1) p3.2) fun p4 =>
  bnd (rd 20 p4.2) fun p5 =>
  bnd (rd (ofBE (p5.1.drop 16)) p5.2) fun p6 =>
  .ok (⟨ofBE (p1.1.take 4), decodeReplace p2.1, decodeReplace p4.1, ofBE (p5.1.take 4), ofBE ((p5.1.drop 4).take 4),
        ofBE ((p5.1.drop 8).take 4), ofBE ((p5.1.drop 12).take 4), p6.1⟩, p6.2)

/-- `Picture(data)` for a byte string: what follows the picture data is ignored -/
def loadPicture (b : Bytes) : Except PyErr Picture := bnd (loadPictureS b) fun p => .ok p.1

/-- `Picture.write()` -/
def writePicture (p : Picture) : Except PyErr Bytes :=
  bnd (encodeText p.mime) fun mime =>
  bnd (packU 4 p.type_) fun a1 =>
  bnd (packU 4 mime.length) fun a2 =>
  bnd (encodeText p.desc) fun desc =>
  bnd (packU 4 desc.length) fun a3 =>
  bnd (packU 4 p.width) fun a4 =>
  bnd (packU 4 p.height) fun a5 =>
  bnd (packU 4 p.depth) fun a6 =>
  bnd (packU 4 p.colors) fun a7 =>
  bnd (packU 4 p.data.length) fun a8 =>
  .ok (a1 ++ a2 ++ mime ++ a3 ++ desc ++ (a4 ++ a5 ++ a6 ++ a7 ++ a8) ++ p.data)

/-- FLAC format, METADATA_BLOCK_PICTURE: <32> picture type, <32> length of the MIME type, the MIME type, <32> length of
the description, the description (UTF-8), <32> width, <32> height, <32> colour depth, <32> number of colours, <32>
length of the picture data, the data -/
def renderPicture (p : Picture) : Bytes :=
  toBE 4 p.type_ ++ toBE 4 (Utf8.encode p.mime).length ++ Utf8.encode p.mime ++
    toBE 4 (Utf8.encode p.desc).length ++ Utf8.encode p.desc ++
    toBE 4 p.width ++ toBE 4 p.height ++ toBE 4 p.depth ++ toBE 4 p.colors ++ toBE 4 p.data.length ++ p.data

/-- what mutagen can write: every number fits its 32-bit field, the text is Unicode scalar values -/
def Picture.Fits (p : Picture) : Prop :=
  p.type_ < 2 ^ 32 ∧ (∀ c ∈ p.mime, Utf8.Scalar c) ∧ (∀ c ∈ p.desc, Utf8.Scalar c) ∧
  (Utf8.encode p.mime).length < 2 ^ 32 ∧ (Utf8.encode p.desc).length < 2 ^ 32 ∧
  p.width < 2 ^ 32 ∧ p.height < 2 ^ 32 ∧ p.depth < 2 ^ 32 ∧ p.colors < 2 ^ 32 ∧ p.data.length < 2 ^ 32

/-- the format's constraints: picture type 0–20 (the others are reserved), the MIME type printable ASCII 0x20–0x7E -/
def Picture.OK (p : Picture) : Prop :=
  p.Fits ∧ p.type_ ≤ 20 ∧ ∀ c ∈ p.mime, 0x20 ≤ c ∧ c ≤ 0x7E

instance (p : Picture) : Decidable p.Fits := by unfold Picture.Fits; infer_instance
instance (p : Picture) : Decidable p.OK := by unfold Picture.OK; infer_instance

/-- strict reader: `b` is the rendering of a picture that satisfies the format's constraints (the candidate is found
by parsing; it is accepted only if it renders to exactly `b`) -/
def readPicture (b : Bytes) : Option Picture :=
  match loadPicture b with
  | .ok p => if p.OK ∧ renderPicture p = b then some p else none
  | .error _ => none

/-! ### SEEKTABLE -/

structure SeekPoint where
  first : Nat
  offset : Nat
  samples : Nat
deriving DecidableEq, Repr

/-- `SeekTable.load`: `sp = data.tryread(18); while len(sp) == 18: …` — a remainder of fewer than 18 bytes is dropped -/
def loadSeekFuel : Nat → Bytes → List SeekPoint
  | 0, _ => []
  | n + 1, b =>
    if b.length < 18 then []
    else ⟨ofBE (b.take 8), ofBE ((b.drop 8).take 8), ofBE ((b.drop 16).take 2)⟩ :: loadSeekFuel n (b.drop 18)

def loadSeekTable (b : Bytes) : Except PyErr (List SeekPoint) := .ok (loadSeekFuel b.length b)

/-- `SeekTable.write()`: `struct.pack('>QQH', …)` per point -/
def writeSeekTable : List SeekPoint → Except PyErr Bytes
  | [] => .ok []
  | p :: r =>
    bnd (packU 8 p.first) fun a => bnd (packU 8 p.offset) fun b => bnd (packU 2 p.samples) fun c =>
    bnd (writeSeekTable r) fun rest => .ok (a ++ b ++ c ++ rest)

/-- FLAC format, SEEKPOINT: <64> sample number of the first sample in the target frame (0xFFFFFFFFFFFFFFFF for a
placeholder), <64> offset, <16> number of samples in the target frame; METADATA_BLOCK_SEEKTABLE: the points -/
def renderSeekTable : List SeekPoint → Bytes
  | [] => []
  | p :: r => toBE 8 p.first ++ toBE 8 p.offset ++ toBE 2 p.samples ++ renderSeekTable r

def seekFits (l : List SeekPoint) : Prop := ∀ p ∈ l, p.first < 2 ^ 64 ∧ p.offset < 2 ^ 64 ∧ p.samples < 2 ^ 16

def placeholder : Nat := 2 ^ 64 - 1

/-- "Seek points within a table must be sorted in ascending order by sample number" and "unique by sample number, with
the exception of placeholder points", which "must all occur at the end of the table" -/
def seekSorted : List SeekPoint → Bool
  | a :: b :: r => (decide (a.first < b.first) || decide (b.first = placeholder)) && seekSorted (b :: r)
  | _ => true

def seekOK (l : List SeekPoint) : Prop := seekFits l ∧ seekSorted l = true

instance (l : List SeekPoint) : Decidable (seekFits l) := by unfold seekFits; infer_instance
instance (l : List SeekPoint) : Decidable (seekOK l) := by unfold seekOK; infer_instance

def readSeekTable (b : Bytes) : Option (List SeekPoint) :=
  match loadSeekTable b with
  | .ok l => if seekOK l ∧ renderSeekTable l = b then some l else none
  | .error _ => none

/-! ### CUESHEET -/

structure TrackIndex where
  number : Nat
  offset : Nat
deriving DecidableEq, Repr

structure Track where
  number : Nat
  startOffset : Nat
  isrc : Bytes
  type_ : Nat
  preEmphasis : Bool
  indexes : List TrackIndex
deriving DecidableEq, Repr

structure CueSheet where
  mcn : Bytes
  leadIn : Nat
  cd : Bool
  tracks : List Track
deriving DecidableEq, Repr

/-- `for j in range(num_indexes)`: `data.read(12)`, `'>QB3x'` -/
def loadIndexes : Nat → Bytes → Except PyErr (List TrackIndex × Bytes)
  | 0, b => .ok ([], b)
  | n + 1, b =>
    bnd (rd 12 b) fun p =>
    bnd (loadIndexes n p.2) fun q =>
    .ok (⟨ofBE ((p.1.drop 8).take 1), ofBE (p.1.take 8)⟩ :: q.1, q.2)

/-- `for i in range(num_tracks)`: `data.read(36)`, `'>QB12sB13xB'`, the indexes -/
def loadTracks : Nat → Bytes → Except PyErr (List Track × Bytes)
  | 0, b => .ok ([], b)
  | n + 1, b =>
    bnd (rd 36 b) fun p =>
    let flags := ofBE ((p.1.drop 21).take 1)
    bnd (loadIndexes (ofBE ((p.1.drop 35).take 1)) p.2) fun q =>
    bnd (loadTracks n q.2) fun r =>
    .ok (⟨ofBE ((p.1.drop 8).take 1), ofBE (p.1.take 8), rstrip0 ((p.1.drop 9).take 12), flags / 128 % 2,
          decide (flags / 64 % 2 = 1), q.1⟩ :: r.1, r.2)

/-- `CueSheet.load`: `data.read(396)`, `'>128sQB258xB'`, the tracks; what follows the last track is ignored -/
def loadCueSheet (b : Bytes) : Except PyErr CueSheet :=
  bnd (rd 396 b) fun p =>
  bnd (loadTracks (ofBE ((p.1.drop 395).take 1)) p.2) fun q =>
  .ok ⟨rstrip0 (p.1.take 128), ofBE ((p.1.drop 128).take 8), decide (ofBE ((p.1.drop 136).take 1) / 128 % 2 = 1), q.1⟩

def writeIndexes : List TrackIndex → Except PyErr Bytes
  | [] => .ok []
  | i :: r =>
    bnd (packU 8 i.offset) fun a => bnd (packU 1 i.number) fun b =>
    bnd (writeIndexes r) fun rest => .ok (a ++ b ++ zeros 3 ++ rest)

/-- the tracks of `CueSheet.write()`: flags `(type & 1) << 7 | 0x40 if pre_emphasis`, `track.isrc or b"\0"` through `12s` -/
def writeTracks : List Track → Except PyErr Bytes
  | [] => .ok []
  | t :: r =>
    bnd (packU 8 t.startOffset) fun a => bnd (packU 1 t.number) fun b =>
    bnd (packU 1 t.indexes.length) fun c =>
    bnd (writeIndexes t.indexes) fun ix =>
    bnd (writeTracks r) fun rest =>
    .ok (a ++ b ++ padTo 12 t.isrc ++ [UInt8.ofNat (t.type_ % 2 * 128 + (if t.preEmphasis then 64 else 0))] ++ zeros 13 ++ c ++ ix ++ rest)

/-- `CueSheet.write()` -/
def writeCueSheet (c : CueSheet) : Except PyErr Bytes :=
  bnd (packU 8 c.leadIn) fun a => bnd (packU 1 c.tracks.length) fun n =>
  bnd (writeTracks c.tracks) fun ts =>
  .ok (padTo 128 c.mcn ++ a ++ [if c.cd then 128 else 0] ++ zeros 258 ++ n ++ ts)

/-- FLAC format, CUESHEET_TRACK_INDEX: <64> offset in samples, <8> index point number, <3*8> reserved (zero) -/
def renderIndexes : List TrackIndex → Bytes
  | [] => []
  | i :: r => toBE 8 i.offset ++ toBE 1 i.number ++ [0, 0, 0] ++ renderIndexes r

/-- CUESHEET_TRACK: <64> track offset, <8> track number, <12*8> ISRC (12 characters, or 12 NUL bytes), <1> track type,
<1> pre-emphasis, <6+13*8> reserved (zero), <8> number of index points, the index points -/
def renderTracks : List Track → Bytes
  | [] => []
  | t :: r =>
    toBE 8 t.startOffset ++ toBE 1 t.number ++ (t.isrc ++ zeros (12 - t.isrc.length)) ++
      [UInt8.ofNat (t.type_ * 128 + (if t.preEmphasis then 64 else 0))] ++ zeros 13 ++ toBE 1 t.indexes.length ++
      renderIndexes t.indexes ++ renderTracks r

/-- METADATA_BLOCK_CUESHEET: <128*8> media catalog number (ASCII 0x20–0x7E, padded with NUL), <64> lead-in samples, <1>
compact disc, <7+258*8> reserved (zero), <8> number of tracks, the tracks -/
def renderCueSheet (c : CueSheet) : Bytes :=
  (c.mcn ++ zeros (128 - c.mcn.length)) ++ toBE 8 c.leadIn ++ [if c.cd then 128 else 0] ++ zeros 258 ++
    toBE 1 c.tracks.length ++ renderTracks c.tracks

def indexFits (i : TrackIndex) : Prop := i.number < 256 ∧ i.offset < 2 ^ 64

/-- what survives a write and a load: numbers in range, type one bit, an ISRC of at most 12 bytes that does not end in NUL -/
def Track.Fits (t : Track) : Prop :=
  t.number < 256 ∧ t.startOffset < 2 ^ 64 ∧ t.isrc.length ≤ 12 ∧ rstrip0 t.isrc = t.isrc ∧ t.type_ < 2 ∧
  t.indexes.length < 256 ∧ ∀ i ∈ t.indexes, indexFits i

def CueSheet.Fits (c : CueSheet) : Prop :=
  c.mcn.length ≤ 128 ∧ rstrip0 c.mcn = c.mcn ∧ c.leadIn < 2 ^ 64 ∧ c.tracks.length < 256 ∧ ∀ t ∈ c.tracks, t.Fits

/-- the format's constraints: the ISRC is empty or 12 alphanumeric characters, track number not 0, the catalog number
printable ASCII, at least one track (the lead-out) -/
def Track.OK (t : Track) : Prop :=
  t.Fits ∧ t.number ≠ 0 ∧ (t.isrc = [] ∨ (t.isrc.length = 12 ∧ ∀ x ∈ t.isrc, (48 ≤ x.toNat ∧ x.toNat ≤ 57) ∨ (65 ≤ x.toNat ∧ x.toNat ≤ 90) ∨ (97 ≤ x.toNat ∧ x.toNat ≤ 122)))

def CueSheet.OK (c : CueSheet) : Prop :=
  c.Fits ∧ (∀ x ∈ c.mcn, 0x20 ≤ x.toNat ∧ x.toNat ≤ 0x7E) ∧ 1 ≤ c.tracks.length ∧ ∀ t ∈ c.tracks, t.OK

instance (i : TrackIndex) : Decidable (indexFits i) := by unfold indexFits; infer_instance
instance (t : Track) : Decidable t.Fits := by unfold Track.Fits; infer_instance
instance (c : CueSheet) : Decidable c.Fits := by unfold CueSheet.Fits; infer_instance
instance (t : Track) : Decidable t.OK := by unfold Track.OK; infer_instance
instance (c : CueSheet) : Decidable c.OK := by unfold CueSheet.OK; infer_instance

def readCueSheet (b : Bytes) : Option CueSheet :=
  match loadCueSheet b with
  | .ok c => if c.OK ∧ renderCueSheet c = b then some c else none
  | .error _ => none

/-! ### PADDING, APPLICATION and unknown blocks -/

/-- `Padding.load`: `self.length = len(data.read())` — the content is not looked at -/
def loadPadding (b : Bytes) : Except PyErr Nat := .ok b.length

/-- `Padding.write()`: `b"\x00" * self.length` -/
def writePadding (n : Nat) : Except PyErr Bytes := .ok (zeros n)

/-- FLAC format, METADATA_BLOCK_PADDING: <n> zero bits -/
def renderPadding (n : Nat) : Bytes := zeros n

def readPadding (b : Bytes) : Option Nat := if b = zeros b.length then some b.length else none

/-- `MetadataBlock.load` / `.write` (code 2 APPLICATION and every unknown code): the bytes as they are -/
def loadGeneric (b : Bytes) : Except PyErr Bytes := .ok b
def writeGeneric (b : Bytes) : Except PyErr Bytes := .ok b

/-- FLAC format, METADATA_BLOCK_APPLICATION: <32> registered application id, the application data -/
structure Application where
  id : Bytes
  data : Bytes
deriving DecidableEq, Repr

def renderApplication (a : Application) : Bytes := a.id ++ a.data
def readApplication (b : Bytes) : Option Application := if b.length < 4 then none else some ⟨b.take 4, b.drop 4⟩

/-! ### the body of a metadata block as `FLAC.__read_metadata_block` reads it -/

inductive Body
  | padding (n : Nat)
  | seektable (l : List SeekPoint)
  | cuesheet (c : CueSheet)
  | picture (p : Picture)
  | generic (b : Bytes)
deriving DecidableEq, Repr

/-- the block body for block code `code` and declared size `size` at the start of `s`, and what follows it.  PICTURE
(`_distrust_size`) is parsed from the stream, the declared size is not used; every other class gets `fileobj.read(size)`
(`error` when the file is shorter).  Codes 0 (STREAMINFO) and 4 (Vorbis comment) are other models. -/
def loadBody (code size : Nat) (s : Bytes) : Except PyErr (Body × Bytes) :=
  if code = 0 ∨ code = 4 then .error .notImplemented
  else if code = 6 then bnd (loadPictureS s) fun p => .ok (.picture p.1, p.2)
  else
    bnd (rd size s) fun d =>
    if code = 1 then bnd (loadPadding d.1) fun n => .ok (.padding n, d.2)
    else if code = 3 then bnd (loadSeekTable d.1) fun l => .ok (.seektable l, d.2)
    else if code = 5 then bnd (loadCueSheet d.1) fun c => .ok (.cuesheet c, d.2)
    else bnd (loadGeneric d.1) fun b => .ok (.generic b, d.2)

end Mutagen.FlacB
