/-
Model/Ogg.lean — mutagen/ogg.py OggPage: lacing, size, write (with the RFC 3533 CRC,
computed bitwise — deliberately not mutagen's bit-swapped zlib.crc32 trick), the
constructor's parser, from_packets, to_packets, _from_packets_try_preserve, and
replace/renumber on a file that is a concatenation of rendered pages.
-/
import MutagenModel.Model.IntCodec
set_option linter.unusedVariables false
namespace Mutagen.Ogg
open Mutagen

structure Page where
  packets   : List Bytes := []
  complete  : Bool := true
  continued : Bool := false
  sequence  : Nat := 0
  position  : Int := 0
  serial    : Nat := 0
  first     : Bool := false
  last      : Bool := false
  /-- bits 3..7 of the header type byte (kept as read) -/
  flagsHi   : Nat := 0
  version   : Nat := 0
deriving Repr, DecidableEq

/-! ### lacing, size, render -/

/-- lacing values of one packet length: n/255 times 255, then n%255 -/
def lace1 (n : Nat) : List Nat := List.replicate (n / 255) 255 ++ [n % 255]

/-- OggPage.write: lacing of all packets; an incomplete page drops a trailing 0 -/
def lacing (lens : List Nat) (complete : Bool) : List Nat :=
  let l := (lens.map lace1).flatten
  if !complete && l.getLast? = some 0 then l.dropLast else l

def Page.lacing (p : Page) : List Nat := Ogg.lacing (p.packets.map List.length) p.complete

/-- OggPage.size (for pages with at least one packet or complete; the Python property
raises UnboundLocalError on an incomplete page without packets) -/
def Page.size (p : Page) : Nat :=
  27 + p.lacing.length + (p.packets.map List.length).sum

/-- RFC 3533 CRC-32: polynomial 0x04C11DB7, initial value 0, no reflection, no final xor -/
def crcByte (crc : UInt32) (b : UInt8) : UInt32 :=
  let c := crc ^^^ (b.toUInt32 <<< 24)
  let step (c : UInt32) : UInt32 :=
    if c &&& 0x80000000 != 0 then (c <<< 1) ^^^ 0x04C11DB7 else c <<< 1
  step (step (step (step (step (step (step (step c)))))))

def crc (data : Bytes) : UInt32 := data.foldl crcByte 0

def Page.flags (p : Page) : Nat :=
  (if p.continued then 1 else 0) + (if p.first then 2 else 0) + (if p.last then 4 else 0) + 8 * p.flagsHi

/-- header with a given CRC field + lacing + data -/
def Page.renderWith (p : Page) (crcField : Bytes) : Bytes :=
  [0x4F, 0x67, 0x67, 0x53] ++ [UInt8.ofNat p.version] ++ [UInt8.ofNat p.flags] ++
  toSignedLE 8 p.position ++ toLE 4 p.serial ++ toLE 4 p.sequence ++ crcField ++
  [UInt8.ofNat p.lacing.length] ++ p.lacing.map UInt8.ofNat ++ p.packets.flatten

/-- OggPage.write: ValueError (from bchr / struct) when the page has more than 255 lacing
values or a field is out of range -/
def Page.render (p : Page) : Except PyErr Bytes :=
  if p.lacing.length > 255 then .error .value
  else if p.serial ≥ 2 ^ 32 ∨ p.sequence ≥ 2 ^ 32 ∨ p.version ≥ 256 ∨ p.flags ≥ 256 ∨
          p.position ≥ 2 ^ 63 ∨ p.position < -(2 ^ 63) then .error .struct_
  else
    let zero := p.renderWith [0, 0, 0, 0]
    .ok (p.renderWith (toLE 4 (crc zero).toNat))

/-! ### parse (OggPage.__init__ on a byte string; returns the page and the rest) -/

/-- accumulate lacing values until one < 255; a leftover total is an incomplete packet -/
def unlace : Nat → List Nat → List Nat × Bool
  | total, [] => if total ≠ 0 then ([total], false) else ([], true)
  | total, c :: r =>
    if c < 255 then
      let (ls, k) := unlace 0 r
      ((total + c) :: ls, k)
    else unlace (total + c) r

def splitLens : List Nat → Bytes → Option (List Bytes × Bytes)
  | [], d => some ([], d)
  | n :: r, d =>
    if d.length < n then none
    else match splitLens r (d.drop n) with
      | none => none
      | some (ps, rest) => some (d.take n :: ps, rest)

inductive ParseErr | eof | bad
deriving DecidableEq, Repr

def parse (d : Bytes) : Except ParseErr (Page × Bytes) :=
  if d.isEmpty then .error .eof
  else if d.length < 27 then .error .bad
  else
    let hdr := d.take 27
    if hdr.take 4 ≠ [0x4F, 0x67, 0x67, 0x53] then .error .bad
    else
      let version := (hdr.drop 4).head!.toNat
      if version ≠ 0 then .error .bad
      else
        let flags := (hdr.drop 5).head!.toNat
        let position := ofSignedLE ((hdr.drop 6).take 8)
        let serial := ofLE ((hdr.drop 14).take 4)
        let sequence := ofLE ((hdr.drop 18).take 4)
        let segments := (hdr.drop 26).head!.toNat
        let body := d.drop 27
        if body.length < segments then .error .bad
        else
          let (lens, complete) := unlace 0 ((body.take segments).map UInt8.toNat)
          match splitLens lens (body.drop segments) with
          | none => .error .bad
          | some (packets, rest) =>
            .ok ({ packets := packets, complete := complete, continued := flags % 2 = 1,
                   first := flags / 2 % 2 = 1, last := flags / 4 % 2 = 1, flagsHi := flags / 8,
                   sequence := sequence, serial := serial, position := position, version := version },
                 rest)

/-! ### to_packets -/

/-- extend the last element of a list of byte strings -/
def extLast : List Bytes → Bytes → List Bytes
  | [], d => [d]
  | [x], d => [x ++ d]
  | x :: y :: r, d => x :: extLast (y :: r) d

/-- reassembly (the loop body of to_packets without its checks) -/
def reasm : List Bytes → List Page → List Bytes
  | acc, [] => acc
  | acc, p :: ps =>
    match p.packets with
    | [] => reasm acc ps
    | f :: rest =>
      if p.continued then reasm (extLast acc f ++ rest) ps
      else reasm (acc ++ f :: rest) ps

/-- the loop of to_packets with the serial / sequence checks and the IndexError of
`packets[-1]` on an empty list -/
def toPacketsLoop (serial : Nat) : Nat → List Bytes → List Page → Except PyErr (List Bytes)
  | _, acc, [] => .ok acc
  | seq, acc, p :: ps =>
    if serial ≠ p.serial then .error .value
    else if seq ≠ p.sequence then .error .value
    else match p.packets with
      | [] => toPacketsLoop serial (seq + 1) acc ps
      | f :: rest =>
        if p.continued then
          if acc = [] then .error .index
          else toPacketsLoop serial (seq + 1) (extLast acc f ++ rest) ps
        else toPacketsLoop serial (seq + 1) (acc ++ f :: rest) ps

/-- OggPage.to_packets(pages, strict).  An empty page list is accepted and gives no
packets (DESIGN §6-F4: `pages[0]` raised IndexError before the repair). -/
def toPackets (pages : List Page) (strict : Bool) : Except PyErr (List Bytes) :=
  match pages with
  | [] => .ok []
  | p0 :: _ =>
    if strict && p0.continued then .error .value
    else if strict && !(pages.getLast?.map (·.complete)).getD true then .error .value
    else
      let acc0 : List Bytes := if !strict && p0.continued then [[]] else []
      toPacketsLoop p0.serial p0.sequence acc0 pages

/-! ### from_packets -/

structure St where
  done : List Page
  cur  : Page

/-- the three decisions from_packets takes about the page being filled -/
structure Policy where
  /-- start a fresh page before beginning the next packet -/
  pre : Page → Bool
  /-- may the chunk `data` go onto the current page -/
  fits : Page → Bytes → Bool
  /-- may the short remainder of the packet (wiggle room) go onto the current page -/
  wfits : Page → Bytes → Bool

/-- inner `while packet:` loop for one packet -/
def inner (pol : Policy) (chunk wiggle : Nat) (hc : 0 < chunk) (s : St) (packet : Bytes) : St :=
  if h : packet = [] then s else
    let data := packet.take chunk
    let rest := packet.drop chunk
    let s1 : St :=
      if pol.fits s.cur data then
        { s with cur := { s.cur with packets := extLast s.cur.packets data } }
      else
        match s.cur.packets.getLast? with
        | some l =>
          if l ≠ [] then
            let old := { s.cur with complete := false,
                                    position := if s.cur.packets.length = 1 then -1 else s.cur.position }
            { done := s.done ++ [old],
              cur := { packets := [data], continued := true, sequence := s.cur.sequence + 1 } }
          else
            let old := { s.cur with packets := s.cur.packets.dropLast }
            { done := s.done ++ [old],
              cur := { packets := [data], continued := !old.complete, sequence := s.cur.sequence + 1 } }
        | none => s -- unreachable: a "" was appended before the loop
    if rest.length < wiggle ∧ pol.wfits s1.cur rest = true then
      { s1 with cur := { s1.cur with packets := extLast s1.cur.packets rest } }
    else
      inner pol chunk wiggle hc s1 rest
termination_by packet.length
decreasing_by
  have : packet.length ≠ 0 := by simpa using h
  simp [rest, List.length_drop]; omega

def outer (pol : Policy) (chunk wiggle : Nat) (hc : 0 < chunk) : St → List Bytes → St
  | s, [] => s
  | s, p :: ps =>
    let sf : St :=
      if pol.pre s.cur = true ∧ s.cur.packets ≠ [] then
        { done := s.done ++ [s.cur], cur := { sequence := s.cur.sequence + 1 } }
      else s
    let s0 : St := { sf with cur := { sf.cur with packets := sf.cur.packets ++ [[]] } }
    outer pol chunk wiggle hc (inner pol chunk wiggle hc s0 p) ps

def fromPacketsWith (pol : Policy) (chunk wiggle : Nat) (hc : 0 < chunk) (seq : Nat)
    (ps : List Bytes) : List Page :=
  let s := outer pol chunk wiggle hc { done := [], cur := { sequence := seq } } ps
  if s.cur.packets = [] then s.done else s.done ++ [s.cur]

/-- number of lacing values a complete page needs for these packets -/
def laceCount (packets : List Bytes) : Nat := (packets.map fun p => p.length / 255 + 1).sum

/-- number of lacing values with `extra` bytes added to the last packet (0 for no packets) -/
def lacings (packets : List Bytes) (extra : Nat) : Nat :=
  match packets.getLast? with
  | none => 0
  | some l => laceCount packets.dropLast + ((l.length + extra) / 255 + 1)

/-- the policy of the code: a page takes more data while `page.size < default_size` and a
lacing value is left for it; a packet is only started on a page with a free lacing value -/
def policy (defaultSize : Nat) : Policy where
  pre p := decide (lacings p.packets 0 ≥ 255)
  fits p data := decide (p.size < defaultSize) && decide (lacings p.packets data.length ≤ 255)
  wfits p rest := decide (lacings p.packets rest.length ≤ 255)

/-- OggPage.from_packets(packets, sequence, default_size, wiggle_room).  `default_size < 255`
makes `chunk_size = 0` and the Python loop spin forever on a non-empty packet: `diverge`. -/
def fromPackets (pol : Nat → Policy) (ps : List Bytes) (seq defaultSize wiggle : Nat) :
    Except PyErr (List Page) :=
  if h : 0 < defaultSize / 255 * 255 then
    .ok (fromPacketsWith (pol defaultSize) (defaultSize / 255 * 255) wiggle h seq ps)
  else if ps.all (·.isEmpty) then
    -- no packet ever enters the `while packet:` loop
    .ok (fromPacketsWith (pol defaultSize) 1 wiggle (by decide) seq ps)
  else .error .diverge

end Mutagen.Ogg
