/-
Model/Id3Text.lean — the text codecs the ID3 specs use, as Lean functions (import-free
apart from Model/Basic): Latin-1, strict UTF-8, UTF-16 LE/BE with surrogate pairs,
`encode_endian(..., le=True)` and `decode_terminated` of mutagen/_util.py.

Text is a list of code points (`Nat`).  A Python `str` may hold lone surrogates
(0xD800–0xDFFF); the UTF encoders reject them (`UnicodeEncodeError` = `.unicode`), like
CPython's strict codecs.
-/
import MutagenModel.Model.Basic
set_option linter.unusedVariables false
namespace Mutagen.Id3
open Mutagen

abbrev Text := List Nat

def b8 (n : Nat) : UInt8 := UInt8.ofNat n

/-- Unicode scalar value: below 0x110000 and not a surrogate -/
def isScalar (c : Nat) : Bool := decide (c < 0x110000) && !(decide (0xD800 ≤ c) && decide (c < 0xE000))

/-! ### Latin-1 -/

def latin1Encode (t : Text) : Except PyErr Bytes :=
  if t.all (fun c => decide (c < 256)) then .ok (t.map b8) else .error .unicode

def latin1Decode (b : Bytes) : Text := b.map UInt8.toNat

/-! ### UTF-8 (strict: no overlong forms, no surrogates, nothing above 0x10FFFF) -/

def utf8Enc1 (c : Nat) : Bytes :=
  if c < 0x80 then [b8 c]
  else if c < 0x800 then [b8 (0xC0 + c / 64), b8 (0x80 + c % 64)]
  else if c < 0x10000 then [b8 (0xE0 + c / 4096), b8 (0x80 + c / 64 % 64), b8 (0x80 + c % 64)]
  else [b8 (0xF0 + c / 262144), b8 (0x80 + c / 4096 % 64), b8 (0x80 + c / 64 % 64), b8 (0x80 + c % 64)]

def utf8EncodeRaw : Text → Bytes
  | [] => []
  | c :: r => utf8Enc1 c ++ utf8EncodeRaw r

def utf8Encode (t : Text) : Except PyErr Bytes :=
  if t.all isScalar then .ok (utf8EncodeRaw t) else .error .unicode

def isCont (x : UInt8) : Bool := decide (0x80 ≤ x.toNat) && decide (x.toNat < 0xC0)

def consOk (c : Nat) : Except PyErr Text → Except PyErr Text
  | .ok t => .ok (c :: t)
  | .error e => .error e

/-- CPython's strict UTF-8 decoder on a complete byte string -/
def utf8Decode : Bytes → Except PyErr Text
  | [] => .ok []
  | x :: r =>
    if x.toNat < 0x80 then consOk x.toNat (utf8Decode r)
    else if x.toNat < 0xC2 then .error .unicode
    else if x.toNat < 0xE0 then
      match r with
      | y :: r' =>
        if isCont y then consOk ((x.toNat - 0xC0) * 64 + (y.toNat - 0x80)) (utf8Decode r')
        else .error .unicode
      | _ => .error .unicode
    else if x.toNat < 0xF0 then
      match r with
      | y :: z :: r' =>
        if isCont y && isCont z then
          let c := (x.toNat - 0xE0) * 4096 + (y.toNat - 0x80) * 64 + (z.toNat - 0x80)
          if c < 0x800 ∨ (0xD800 ≤ c ∧ c < 0xE000) then .error .unicode
          else consOk c (utf8Decode r')
        else .error .unicode
      | _ => .error .unicode
    else if x.toNat < 0xF5 then
      match r with
      | y :: z :: w :: r' =>
        if isCont y && isCont z && isCont w then
          let c := (x.toNat - 0xF0) * 262144 + (y.toNat - 0x80) * 4096 + (z.toNat - 0x80) * 64
                    + (w.toNat - 0x80)
          if c < 0x10000 ∨ c ≥ 0x110000 then .error .unicode
          else consOk c (utf8Decode r')
        else .error .unicode
      | _ => .error .unicode
    else .error .unicode

/-! ### UTF-16 -/

def utf16Units (c : Nat) : List Nat :=
  if c < 0x10000 then [c]
  else [0xD800 + (c - 0x10000) / 0x400, 0xDC00 + (c - 0x10000) % 0x400]

def unitBytes (be : Bool) (u : Nat) : Bytes :=
  if be then [b8 (u / 256), b8 (u % 256)] else [b8 (u % 256), b8 (u / 256)]

def unitsBytes (be : Bool) : List Nat → Bytes
  | [] => []
  | u :: r => unitBytes be u ++ unitsBytes be r

def utf16EncodeRaw (be : Bool) : Text → Bytes
  | [] => []
  | c :: r => unitsBytes be (utf16Units c) ++ utf16EncodeRaw be r

/-- `text.encode("utf-16-le" / "utf-16-be")` -/
def utf16Encode (be : Bool) (t : Text) : Except PyErr Bytes :=
  if t.all isScalar then .ok (utf16EncodeRaw be t) else .error .unicode

def unitOf (be : Bool) (a b : UInt8) : Nat :=
  if be then a.toNat * 256 + b.toNat else b.toNat * 256 + a.toNat

def isHigh (u : Nat) : Bool := decide (0xD800 ≤ u) && decide (u < 0xDC00)
def isLow (u : Nat) : Bool := decide (0xDC00 ≤ u) && decide (u < 0xE000)

def consScan (c : Nat) : Except PyErr (Text × Option Bytes) → Except PyErr (Text × Option Bytes)
  | .ok (t, r) => .ok (c :: t, r)
  | .error e => .error e

/-- the incremental UTF-16 decoder fed byte by byte until it yields U+0000 (the slow path
of `decode_terminated`): the text before the first NUL code unit on a 2-byte boundary and
the bytes after it (`none` = no terminator in the data).  Errors (`UnicodeDecodeError`):
odd length, a lone low surrogate, a high surrogate not followed by a low one. -/
def utf16Scan (be : Bool) : Bytes → Except PyErr (Text × Option Bytes)
  | [] => .ok ([], none)
  | [_] => .error .unicode
  | a :: b :: r =>
    let u := unitOf be a b
    if u = 0 then .ok ([], some r)
    else if isHigh u then
      match r with
      | c :: d :: r' =>
        let u2 := unitOf be c d
        if isLow u2 then consScan (0x10000 + (u - 0xD800) * 0x400 + (u2 - 0xDC00)) (utf16Scan be r')
        else .error .unicode
      | _ => .error .unicode
    else if isLow u then .error .unicode
    else consScan u (utf16Scan be r)

/-! ### the four ID3 text encodings (`EncodedTextSpec._encodings`), `encode_endian`,
`decode_terminated` -/

/-- terminator of encoding `enc` (0 Latin-1, 1 UTF-16 with BOM, 2 UTF-16BE, 3 UTF-8);
`KeyError` for any other number (the `_encodings[frame.encoding]` lookup) -/
def termOf (enc : Nat) : Except PyErr Bytes :=
  match enc with
  | 0 => .ok [0] | 1 => .ok [0, 0] | 2 => .ok [0, 0] | 3 => .ok [0]
  | _ => .error .key

/-- `encode_endian(text, codec_of(enc), le=True)`: UTF-16 writes the little-endian BOM
`FF FE` followed by UTF-16LE -/
def encodeText (enc : Nat) (t : Text) : Except PyErr Bytes :=
  match enc with
  | 0 => latin1Encode t
  | 1 => match utf16Encode false t with
         | .ok b => .ok (0xFF :: 0xFE :: b)
         | .error e => .error e
  | 2 => utf16Encode true t
  | 3 => utf8Encode t
  | _ => .error .key

/-- bytes before the first NUL byte, and the bytes after it (`none` = no NUL) -/
def splitNul : Bytes → Bytes × Option Bytes
  | [] => ([], none)
  | x :: r => if x = 0 then ([], some r) else ((splitNul r).1.cons x, (splitNul r).2)

/-- after decoding: `strict` turns a missing terminator into `ValueError` -/
def finishTerminated (strict : Bool) : Except PyErr (Text × Option Bytes) → Except PyErr (Text × Bytes)
  | .error e => .error e
  | .ok (t, some r) => .ok (t, r)
  | .ok (t, none) => if strict then .error .value else .ok (t, [])

/-- `decode_terminated(data, codec_of(enc), strict)`.  The incremental `utf-16` decoder
insists on a BOM (`FF FE` or `FE FF`) as soon as it has two bytes (`UnicodeDecodeError`
"UTF-16 stream does not start with BOM"); `UnicodeDecodeError` (`.unicode`) and the
missing-terminator `ValueError` (`.value`) are both `ValueError`s for the callers. -/
def decodeTerminated (enc : Nat) (strict : Bool) (data : Bytes) : Except PyErr (Text × Bytes) :=
  match enc with
  | 0 => finishTerminated strict (.ok (latin1Decode (splitNul data).1, (splitNul data).2))
  | 3 => match utf8Decode (splitNul data).1 with
         | .ok t => finishTerminated strict (.ok (t, (splitNul data).2))
         | .error e => .error e
  | 2 => finishTerminated strict (utf16Scan true data)
  | 1 => match data with
         | [] => finishTerminated strict (.ok ([], none))
         | [_] => .error .unicode
         | a :: b :: r =>
           if a = 0xFF ∧ b = 0xFE then finishTerminated strict (utf16Scan false r)
           else if a = 0xFE ∧ b = 0xFF then finishTerminated strict (utf16Scan true r)
           else .error .unicode
  | _ => .error .key

end Mutagen.Id3
