/- Model/SignalBase.lean — the restricted statement language of SignalHandler's methods -/
namespace Mutagen.Signal

inductive Instr
  | setInterrupted (b : Bool)   -- self._interrupted = b
  | setNosig (b : Bool)         -- self._nosig = b
  | exitIfInterrupted           -- if self._interrupted: raise SystemExit
  | exitUnlessNosig             -- if not self._nosig: raise SystemExit
  | yield_                      -- yield (contextmanager: the with-body runs here)
deriving DecidableEq, Repr

end Mutagen.Signal
