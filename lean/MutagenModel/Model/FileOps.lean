/-
Model/FileOps.lean — mutagen/_util.py: get_size, read_full, seek_end, resize_file,
move_bytes, insert_bytes, delete_bytes, resize_bytes as FileM programs.

Arguments are `Int` where the Python code checks signs.  `B` is BUFFER_SIZE.  For `B = 0`
the Python loops never terminate (`min(0, n) = 0` bytes per round); the model returns
`diverge` there.
-/
import MutagenModel.Model.FileM
set_option linter.unusedVariables false
namespace Mutagen

/-- get_size: tell; try: seek(0,2); tell finally: seek(old_pos) -/
def getSize : FileM Nat := do
  let old ← ftell
  tryFinally (do fseekEnd; ftell) (fseek old)

/-- read_full -/
def readFull (size : Int) : FileM Bytes := do
  if size < 0 then raise .value
  let data ← fread size.toNat
  if data.length ≠ size.toNat then raise .io
  pure data

/-- seek_end(fileobj, offset) -/
def seekEndBy (offset : Int) : FileM Unit := do
  if offset < 0 then raise .value
  let sz ← getSize
  if sz < offset.toNat then fseek 0
  else do
    -- fileobj.seek(-offset, 2)
    tick .seekEnd; fun _ s => (.ok (), { s with pos := s.data.length - offset.toNat })

/-- the `while diff:` loop of resize_file -/
def growLoop (B : Nat) (diff : Nat) : FileM Unit :=
  if h : diff = 0 then pure ()
  else if hB : B = 0 then raise .diverge
  else do
    let addsize := min B diff
    fwrite (zeros addsize)
    growLoop B (diff - addsize)
termination_by diff
decreasing_by omega

def resizeFile (B : Nat) (diff : Int) : FileM Unit := do
  fseekEnd
  let filesize ← ftell
  if diff < 0 then
    if (filesize : Int) + diff < 0 then raise .value
    ftruncate ((filesize : Int) + diff).toNat
  else if diff > 0 then
    tryCatch (do growLoop B diff.toNat; fflush) PyErr.isIO (fun err => do
      if err = .enospc then ftruncate filesize
      raise err)

/-- one chunk of move_bytes: seek src; read_full; seek dest; write -/
def moveStep (a b n : Nat) : FileM Unit := do
  fseek a
  let buf ← readFull n
  fseek b
  fwrite buf

/-- forward loop (`src > dest`) -/
def moveFwdM (B dest src count : Nat) (moved : Nat) : FileM Unit :=
  if h : count - moved = 0 then pure ()
  else if hB : B = 0 then raise .diverge
  else do
    let this_move := min B (count - moved)
    moveStep (src + moved) (dest + moved) this_move
    moveFwdM B dest src count (moved + this_move)
termination_by count - moved
decreasing_by omega

/-- backward loop (`src ≤ dest`) -/
def moveBwdM (B dest src : Nat) (count : Nat) : FileM Unit :=
  if h : count = 0 then pure ()
  else if hB : B = 0 then raise .diverge
  else do
    let this_move := min B count
    moveStep (src + count - this_move) (count + dest - this_move) this_move
    moveBwdM B dest src (count - this_move)
termination_by count
decreasing_by omega

def moveBytes (B : Nat) (dest src count : Int) : FileM Unit := do
  if dest < 0 ∨ src < 0 ∨ count < 0 then raise .value
  fseekEnd
  let filesize ← ftell
  if max dest src + count > (filesize : Int) then raise .value
  if src > dest then do
    moveFwdM B dest.toNat src.toNat count.toNat 0
    fflush
  else do
    moveBwdM B dest.toNat src.toNat count.toNat
    fflush

def insertBytes (B : Nat) (size offset : Int) : FileM Unit := do
  if size < 0 ∨ offset < 0 then raise .value
  fseekEnd
  let filesize ← ftell
  let movesize : Int := (filesize : Int) - offset
  if movesize < 0 then raise .value
  resizeFile B size
  moveBytes B (offset + size) offset movesize

def deleteBytes (B : Nat) (size offset : Int) : FileM Unit := do
  if size < 0 ∨ offset < 0 then raise .value
  fseekEnd
  let filesize ← ftell
  let movesize : Int := (filesize : Int) - offset - size
  if movesize < 0 then raise .value
  moveBytes B offset (offset + size) movesize
  resizeFile B (-size)

def resizeBytes (B : Nat) (old_size new_size offset : Int) : FileM Unit :=
  if old_size < 0 ∨ new_size < 0 ∨ offset < 0 then raise .value
  else if new_size < old_size then
    deleteBytes B (old_size - new_size) (offset + new_size)
  else if new_size > old_size then
    insertBytes B (new_size - old_size) (offset + old_size)
  else pure ()

end Mutagen

namespace Mutagen

/-- the pattern every in-place saver uses: make the old region `[off, off+old)` as large as the
new content, then overwrite it (`resize_bytes; seek; write`) -/
def replaceRegion (B : Nat) (off old : Nat) (new : Bytes) : FileM Unit := do
  resizeBytes B old new.length off
  fseek off
  fwrite new

end Mutagen
