/-
Model/Id3v1.lean — the ID3v1 / ID3v1.1 codec of mutagen/id3/_id3v1.py: `MakeID3v1`, `ParseID3v1`
(`find_id3v1` is in Model/Container/Id3File.lean), with `TCON.genres` and `NumericPartTextFrame.__pos__`
of mutagen/id3/_frames.py as far as `MakeID3v1` uses them.

Code side: `makeID3v1`, `parseID3v1` — text is a list of code points, Python exceptions are `PyErr`.
Spec side (ID3v1.1: "TAG", title 30, artist 30, album 30, year 4, comment 28, a zero byte, track 1,
genre 1 = 128 bytes; fields NUL-padded): `Fields`, `render`, `field`.

Limits of the model (Python `str` methods on non-ASCII input): `int()` and `str.isdecimal()` accept
every Unicode decimal digit; here only ASCII digits count (a TRCK / TCON text in, say, Arabic-Indic
digits is taken for "not a number").  White space for `int()` is the full `str.isspace` set.
-/
import MutagenModel.Model.Basic
import MutagenModel.Generated.Genres
set_option linter.unusedVariables false
namespace Mutagen.Id3v1
open Mutagen

/-- Python `str` as code points -/
abbrev Str := List Nat

def tagMagic : Bytes := [0x54, 0x41, 0x47]

/-! ### Python string helpers -/

/-- `s.encode('latin1', 'replace')` -/
def latin1Replace (s : Str) : Bytes := s.map fun c => if c < 256 then UInt8.ofNat c else 0x3F

/-- `b.decode('latin1')` -/
def latin1Decode (b : Bytes) : Str := b.map (·.toNat)

/-- `str.isspace` for one code point (what `int()` strips) -/
def isPySpace (c : Nat) : Bool :=
  (9 ≤ c && c ≤ 13) || (28 ≤ c && c ≤ 32) || c == 0x85 || c == 0xA0 || c == 0x1680 ||
  (0x2000 ≤ c && c ≤ 0x200A) || c == 0x2028 || c == 0x2029 || c == 0x202F || c == 0x205F || c == 0x3000

def isDigit (c : Nat) : Bool := 48 ≤ c && c ≤ 57

/-- digits with single underscores between them -/
def digitsVal : Str → Bool → Nat → Option Nat
  | [], afterDigit, acc => if afterDigit then some acc else none
  | c :: r, afterDigit, acc =>
    if isDigit c then digitsVal r true (acc * 10 + (c - 48))
    else if c == 0x5F && afterDigit && (match r with | d :: _ => isDigit d | [] => false) then digitsVal r false acc
    else none

/-- `int(s)` for a `str` (`none` = ValueError) -/
def pyInt (s : Str) : Option Int :=
  let t := ((s.dropWhile isPySpace).reverse.dropWhile isPySpace).reverse
  match t with
  | [] => none
  | c :: r =>
    if c == 0x2D then (digitsVal r false 0).map fun n => -(n : Int)
    else if c == 0x2B then (digitsVal r false 0).map fun n => (n : Int)
    else (digitsVal t false 0).map fun n => (n : Int)

/-- `s.split(sep)[0]` for a one-character separator -/
def beforeSep (sep : Nat) (s : Str) : Str := s.takeWhile (· != sep)

/-- `s.isdecimal()` / `s.isdigit()` (ASCII) -/
def isDecimal (s : Str) : Bool := !s.isEmpty && s.all isDigit

def strOfNat (n : Nat) : Str := (toString n).toList.map Char.toNat

/-! ### TCON.genres -/

def sUnknown : Str := [85, 110, 107, 110, 111, 119, 110]
def sCover : Str := [67, 111, 118, 101, 114]
def sRemix : Str := [82, 101, 109, 105, 120]
def sCR : Str := [67, 82]
def sRX : Str := [82, 88]

def decVal (s : Str) : Nat := s.foldl (fun a c => a * 10 + (c - 48)) 0

/-- one `\((?P<id>[0-9]+|RX|CR)\)` at the start of `s`: the id and the rest -/
def parenGroup (s : Str) : Option (Str × Str) :=
  match s with
  | 40 :: r =>
    let ds := r.takeWhile isDigit
    if !ds.isEmpty then
      match r.dropWhile isDigit with
      | 41 :: rest => some (ds, rest)
      | _ => none
    else match r with
      | 82 :: 88 :: 41 :: rest => some (sRX, rest)
      | 67 :: 82 :: 41 :: rest => some (sCR, rest)
      | _ => none
  | _ => none

/-- `(?:\(…\))*`: the ids of the groups matched greedily, and what follows them -/
def parenGroups : Nat → Str → List Str × Str
  | 0, s => ([], s)
  | fuel + 1, s =>
    match parenGroup s with
    | none => ([], s)
    | some (g, rest) => let (gs, r) := parenGroups fuel rest; (g :: gs, r)

def gidName (gid : Str) : Str :=
  if isDecimal gid && decVal gid < Generated.genres.length then Generated.genres.getD (decVal gid) sUnknown
  else if gid == sCR then sCover
  else if gid == sRX then sRemix
  else sUnknown

/-- the genres one text value of a TCON stands for -/
def genresOfValue (value : Str) : List Str :=
  if isDecimal value && decVal value < 256 then [Generated.genres.getD (decVal value) sUnknown]
  else if value == sCR then [sCover]
  else if value == sRX then [sRemix]
  else if value.isEmpty then []
  else
    let (gids, rest) := parenGroups value.length value
    let newgenres := gids.map gidName
    -- `(?P<str>.+)?`: up to the first line feed
    let name := rest.takeWhile (· != 10)
    if name.isEmpty then newgenres
    else
      let name' := match name with | 40 :: 40 :: _ => name.drop 1 | _ => name
      if newgenres.contains name' then newgenres else newgenres ++ [name']

/-- `TCON.genres` -/
def genres (text : List Str) : List Str := (text.map genresOfValue).flatten

/-- `TCON.GENRES.index(genre)` if `genre in TCON.GENRES` -/
def genreIndex (g : Str) : Option Nat :=
  let i := Generated.genres.findIdx (· == g)
  if i < Generated.genres.length then some i else none

/-! ### MakeID3v1 -/

/-- what `MakeID3v1(id3)` looks at: the `text` of the frames it finds (`none` = frame absent), the comment frame
chosen (`id3["COMM"]`, else the first key in sorted order that starts with "COMM::"), and `str()` of the date frames -/
structure Src where
  tit2 : Option (List Str) := none
  tpe1 : Option (List Str) := none
  talb : Option (List Str) := none
  comm : Option (List Str) := none
  trck : Option (List Str) := none
  tcon : Option (List Str) := none
  tdrc : Option Str := none       -- `str(id3["TDRC"])`: the stamps joined by ","
  tyer : Option Str := none       -- `str(id3["TYER"])`: the values joined by NUL
deriving Repr

def padTo (n : Nat) (b : Bytes) : Bytes := b ++ zeros (n - b.length)

/-- `id3[v2id].text[0].encode('latin1', 'replace')[:30]` padded to 30 — IndexError for a frame without values -/
def textField (f : Option (List Str)) : Except PyErr Bytes :=
  match f with
  | none => .ok (zeros 30)
  | some [] => .error .index
  | some (t :: _) => .ok (padTo 30 ((latin1Replace t).take 30))

def commentField (f : Option (List Str)) : Bytes :=
  match f with
  | some (t :: _) => padTo 29 ((latin1Replace t).take 28)
  | _ => zeros 29

/-- `bchr(+id3["TRCK"])`, ValueError → 0 -/
def trackByte (f : Option (List Str)) : Except PyErr UInt8 :=
  match f with
  | none => .ok 0
  | some [] => .error .index
  | some (t :: _) =>
    match pyInt (beforeSep 47 t) with
    | some n => if 0 ≤ n ∧ n < 256 then .ok (UInt8.ofNat n.toNat) else .ok 0
    | none => .ok 0

def genreByte (f : Option (List Str)) : UInt8 :=
  match f with
  | none => 0xFF
  | some text =>
    match genres text with
    | [] => 0xFF
    | g :: _ => match genreIndex g with
      | some i => UInt8.ofNat i
      | none => 0xFF

/-- `str(frame).encode('ascii')` -/
def asciiEncode (s : Str) : Except PyErr Bytes :=
  if s.all (· < 128) then .ok (s.map UInt8.ofNat) else .error .unicode

def yearField (s : Src) : Except PyErr Bytes :=
  let y : Except PyErr Bytes := match s.tdrc with
    | some t => asciiEncode t
    | none => match s.tyer with
      | some t => asciiEncode t
      | none => .ok []
  match y with
  | .error e => .error e
  | .ok b => .ok ((b ++ zeros 4).take 4)

/-- `MakeID3v1(id3)` -/
def makeID3v1 (s : Src) : Except PyErr Bytes :=
  match textField s.tit2 with
  | .error e => .error e
  | .ok title =>
  match textField s.tpe1 with
  | .error e => .error e
  | .ok artist =>
  match textField s.talb with
  | .error e => .error e
  | .ok album =>
  match trackByte s.trck with
  | .error e => .error e
  | .ok track =>
  match yearField s with
  | .error e => .error e
  | .ok year =>
    .ok (tagMagic ++ title ++ artist ++ album ++ year ++ commentField s.comm ++ [track] ++ [genreByte s.tcon])

/-! ### ParseID3v1 -/

/-- `data.index(b"TAG")` -/
def findTag : Bytes → Option Nat
  | [] => none
  | d@(_ :: r) => if tagMagic.isPrefixOf d then some 0 else (findTag r).map (· + 1)

def isBytesSpace (b : UInt8) : Bool := b == 32 || (9 ≤ b.toNat && b.toNat ≤ 13)

/-- `data.split(b"\x00")[0].strip().decode('latin1')` -/
def fix (b : Bytes) : Str :=
  let cut := b.takeWhile (· != 0)
  latin1Decode ((cut.dropWhile isBytesSpace).reverse.dropWhile isBytesSpace).reverse

/-- what `ParseID3v1` returns as frames: the five texts (empty = no frame), track and genre -/
structure Tag where
  title : Str
  artist : Str
  album : Str
  year : Str            -- a TYER for `v2_version = 3`, a TDRC otherwise
  comment : Str         -- COMM(lang="eng", desc="ID3v1 Comment")
  track : Option Nat    -- TRCK text `str(track)`
  genre : Option Nat    -- TCON text `str(genre)`
deriving DecidableEq, Repr

/-- `ParseID3v1(data, v2_version)`: `ok none` = no tag -/
def parseID3v1 (v2 : Nat) (data : Bytes) : Except PyErr (Option Tag) :=
  if v2 ≠ 3 ∧ v2 ≠ 4 then .error .value
  else
    match findTag data with
    | none => .ok none
    | some i =>
      let d := data.drop i
      if 128 < d.length ∨ d.length < 124 then .ok none
      else
        let yw := d.length - 124
        let title := (d.drop 3).take 30
        let artist := (d.drop 33).take 30
        let album := (d.drop 63).take 30
        let year := (d.drop 93).take yw
        let comment := (d.drop (93 + yw)).take 29
        let track := (d.getD (122 + yw) 0).toNat
        let genre := (d.getD (123 + yw) 0).toNat
        -- "Don't read a track number if it looks like the comment was padded with spaces instead of nulls": data[-3]
        let trackOK := track ≠ 0 ∧ (track ≠ 32 ∨ d.getD (d.length - 3) 1 = 0)
        .ok (some { title := fix title, artist := fix artist, album := fix album, year := fix year, comment := fix comment
                    track := if trackOK then some track else none
                    genre := if genre ≠ 255 then some genre else none })

/-! ### specification side: the ID3v1.1 layout -/

structure Fields where
  title : Bytes
  artist : Bytes
  album : Bytes
  year : Bytes
  comment : Bytes
  track : UInt8
  genre : UInt8
deriving DecidableEq, Repr

/-- "TAG" title(30) artist(30) album(30) year(4) comment(28) 0 track genre -/
def render (f : Fields) : Bytes :=
  tagMagic ++ padTo 30 f.title ++ padTo 30 f.artist ++ padTo 30 f.album ++ padTo 4 f.year ++ padTo 28 f.comment ++
    [0, f.track, f.genre]

/-- a fixed-width field: up to the first NUL -/
def field (b : Bytes) : Bytes := b.takeWhile (· != 0)

/-- reader of the 128-byte layout -/
def read (d : Bytes) : Option Fields :=
  if d.length ≠ 128 ∨ d.take 3 ≠ tagMagic then none
  else some { title := field ((d.drop 3).take 30), artist := field ((d.drop 33).take 30), album := field ((d.drop 63).take 30),
              year := field ((d.drop 93).take 4), comment := field ((d.drop 97).take 28),
              track := d.getD 126 0, genre := d.getD 127 0 }

end Mutagen.Id3v1
