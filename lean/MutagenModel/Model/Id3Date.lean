/-
Model/Id3Date.lean — the date logic of ID3Tags.update_to_v23 / update_to_v24
(mutagen/id3/_tags.py) and ID3TimeStamp (mutagen/id3/_specs.py) on structured values:
a time stamp is up to six numeric fields, each present only if the previous one is
(`YYYY[-MM[-DD[ HH[:MM[:SS]]]]]`); the v2.3 frames hold fixed-width decimal digit strings.
-/
import MutagenModel.Model.Basic
namespace Mutagen.Id3Date

/-- ID3TimeStamp after parsing: year, month, day, hour, minute, second -/
structure Stamp where
  year : Option Nat := none
  month : Option Nat := none
  day : Option Nat := none
  hour : Option Nat := none
  minute : Option Nat := none
  second : Option Nat := none
deriving DecidableEq, Repr

/-- decimal digits of `n`, most significant first, at least `w` of them ("%0wd") -/
def digits (w n : Nat) : List Nat :=
  let rec go (fuel n : Nat) (acc : List Nat) : List Nat :=
    match fuel with
    | 0 => acc
    | fuel + 1 => if n < 10 then n :: acc else go fuel (n / 10) (n % 10 :: acc)
  let ds := go (n + 1) n []
  List.replicate (w - ds.length) 0 ++ ds

def ofDigits (ds : List Nat) : Nat := ds.foldl (fun a d => 10 * a + d) 0

/-- the v2.3 date frames, as the digit strings mutagen writes into TYER / TDAT / TIME -/
structure V23Date where
  tyer : Option (List Nat) := none    -- "%04d" % year
  tdat : Option (List Nat) := none    -- "%02d%02d" % (day, month)
  time : Option (List Nat) := none    -- "%02d%02d" % (hour, minute)
deriving DecidableEq, Repr

/-- Python truthiness of an optional int: present and non-zero -/
def truthy : Option Nat → Bool
  | some n => n != 0
  | none => false

/-- update_to_v23: TDRC -> TYER, TDAT, TIME (none of the three present before) -/
def toV23 (d : Stamp) : V23Date :=
  { tyer := if truthy d.year then some (digits 4 (d.year.getD 0)) else none
    tdat := if truthy d.month && truthy d.day then some (digits 2 (d.day.getD 0) ++ digits 2 (d.month.getD 0)) else none
    -- hour and minute may be 0 (midnight, full hour): presence is what counts
    time := if d.hour.isSome && d.minute.isSome then some (digits 2 (d.hour.getD 0) ++ digits 2 (d.minute.getD 0)) else none }

/-- update_to_v24: TYER must be exactly four digits, TDAT and TIME exactly four digits
(`[0-9]{2}[0-9]{2}\Z`); the time is only used when the date is there; seconds are ":00" -/
def toV24 (v : V23Date) : Option Stamp :=
  match v.tyer with
  | some [y3, y2, y1, y0] =>
    let year := ofDigits [y3, y2, y1, y0]
    match v.tdat with
    | some [d1, d0, m1, m0] =>
      let s : Stamp := { year := some year, month := some (ofDigits [m1, m0]), day := some (ofDigits [d1, d0]) }
      match v.time with
      | some [h1, h0, n1, n0] =>
        some { s with hour := some (ofDigits [h1, h0]), minute := some (ofDigits [n1, n0]), second := some 0 }
      | _ => some s
    | _ => some { year := some year }
  | _ => none

end Mutagen.Id3Date
