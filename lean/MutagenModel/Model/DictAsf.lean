/-
Model/DictAsf.lean — `ASFTags` (mutagen/asf/__init__.py) as a dictionary (property C16).

`ASFTags(list, DictMixin, Tags)` is a Python LIST of `(key, attribute)` pairs with its own
`__getitem__` / `__setitem__` / `__delitem__` / `__contains__` / `keys`:

* `tags[key]`: the values of the pairs whose key `== key`, in list order; `KeyError` if none;
* `tags[key] = values`: a non-list is one value; every value that is not an ASF attribute object
  is wrapped by type (`str` → Unicode, `bytes` → ByteArray, `bool` → Bool, `int` → DWord —
  `ValueError` outside 0..2^32-1 —, anything else `TypeError`), first offender wins and nothing
  has changed yet; then all old pairs of the key go and the new ones are appended;
* `del tags[key]`: all pairs of the key, `KeyError` if none;
* `keys()`: `self and set(next(zip(*self)))` — a hash set: a stored unhashable key makes it (and
  with it `values()`, `items()`, `popitem()`) raise `TypeError`; `__setitem__` does not look at
  the key at all (open finding asf-unhashable-key).  `asfKeys` is the total function (first
  occurrences), `asfKeysE` the real one.
* `len`, `clear`, `pop` are `list`'s (MRO): number of pairs, `list.clear`, `list.pop`.

The generic part (`pl*`: a list of pairs grouped by key) is written for any key / value type.
Not modelled: slice keys, `list.pop(index)` (an `int` argument of `pop`).
-/
import MutagenModel.Model.DictK
set_option linter.unusedVariables false
namespace Mutagen.Dict
open Mutagen

/-! ### a Python list of (key, value) pairs -/

section pairlist
variable {K A : Type} [DecidableEq K]

/-- `[value for (k, value) in self if k == key]` -/
def plValuesOf (k : K) (s : List (K × A)) : List A :=
  s.filterMap (fun p => if p.1 = k then some p.2 else none)

/-- what `for x in to_delete: self.remove(x)` leaves: the pairs of the other keys -/
def plWithout (k : K) (s : List (K × A)) : List (K × A) := s.filter (fun p => decide (p.1 ≠ k))

/-- the keys, first occurrences in list order (Python: a hash set, arbitrary order) -/
def plKeys (s : List (K × A)) : List K := dedup (s.map Prod.fst)

end pairlist

/-! ### ASFTags -/

/-- the list of pairs; every value is an attribute object `Item.asf TYPE value` -/
abbrev Asf := List (PKey × Item)

/-- the wrapping of one value by `ASFTags.__setitem__` (`MP4Cover` is a `bytes`) -/
def asfWrap : Item → Except PyErr Item
  | .asf ty p => .ok (.asf ty p)
  | .prim (.str t) => .ok (.asf 0 (.str t))
  | .prim (.bytes b) => .ok (.asf 1 (.bytes b))
  | .cover b _ => .ok (.asf 1 (.bytes b))
  | .prim (.bool b) => .ok (.asf 2 (.bool b))
  | .prim (.int n) => if 0 ≤ n ∧ n ≤ 4294967295 then .ok (.asf 3 (.int n)) else .error .value
  | _ => .error .type_

/-- `if not isinstance(values, list): values = [values]` -/
def asfAsList : PVal → List Item
  | .list l => l
  | .item i => [i]

/-- the whole wrapping loop: the attribute objects to append, or the first error -/
def asfWrapAll (v : PVal) : Except PyErr (List Item) := mapE asfWrap (asfAsList v)

def asfGet (s : Asf) (k : PKey) : Except PyErr PVal :=
  match plValuesOf k s with
  | [] => .error .key
  | vs => .ok (.list vs)

def asfSet (s : Asf) (k : PKey) (v : PVal) : Except PyErr Asf :=
  match asfWrapAll v with
  | .error e => .error e
  | .ok items => .ok (plWithout k s ++ items.map (fun a => (k, a)))

def asfDel (s : Asf) (k : PKey) : Except PyErr Asf :=
  match plValuesOf k s with
  | [] => .error .key
  | _ => .ok (plWithout k s)

/-- `keys()` where it does not raise -/
def asfKeys (s : Asf) : List PKey := plKeys s

def asfImpl : MapImpl Asf PKey PVal where
  keys := asfKeys
  getitem := asfGet
  setitem := asfSet
  delitem := asfDel

/-- the real `keys()`: building the set hashes every stored key -/
def asfKeysE (s : Asf) : Except PyErr (List PKey) :=
  if s.all (fun p => p.1.hashable) then .ok (asfKeys s) else .error .type_

/-- `ASFTags.__contains__` (own method; compares with `==`, hashes nothing) -/
def asfContains (s : Asf) (k : PKey) : Bool := s.any (fun p => decide (p.1 = k))

/-- one operation on the real class: `__contains__` own; `len` / `clear` / `pop` are `list`'s;
`keys` / `values` / `items` / `popitem` go through the real `keys()`; the rest is `DictMixin`
over the four primitives.  (`pop` with an `int` argument is `list.pop(index)`: not modelled.) -/
def asfStep (s : Asf) : Op PKey PVal → Out PKey PVal × Asf
  | .contains k => (.bool (asfContains s k), s)
  | .len => (.nat s.length, s)
  | .clear => (.unit, [])
  | .pop (.int _) => (.err .notImplemented, s)
  | .pop _ => (.err .type_, s)
  | .popD _ _ => (.err .type_, s)
  | .popitem => (match s with | [] => .err .key | _ => .err .type_, s)
  | .keys => (outOf .keys (asfKeysE s), s)
  | .values => (match asfKeysE s with | .ok _ => (asfImpl.step s .values).1 | .error e => .err e, s)
  | .items => (match asfKeysE s with | .ok _ => (asfImpl.step s .items).1 | .error e => .err e, s)
  | op => asfImpl.step s op

def asfRun : List (Op PKey PVal) → Asf → List (Out PKey PVal)
  | [], _ => []
  | op :: ops, s => (asfStep s op).1 :: asfRun ops (asfStep s op).2

/-- keys as they are (compared with `==`, no validation, case-sensitive); every value becomes
a list of attribute objects, the empty list removes the key -/
def asfPolicy : Policy PKey PVal where
  norm k := .ok k
  coerce v := match asfWrapAll v with
    | .error e => .error e
    | .ok [] => .ok none
    | .ok l => .ok (some (.list l))

/-- the keys an operation hands to `__setitem__` -/
def Op.setKeys {K V : Type} : Op K V → List K
  | .set k _ => [k]
  | .setdefault k _ => [k]
  | .update l => l.map Prod.fst
  | _ => []

end Mutagen.Dict
