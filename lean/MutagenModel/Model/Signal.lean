/-
Model/Signal.lean — mutagen/_tools/_util.py SignalHandler and the per-file structure of the
modifying tools.  The handler and the block context manager are *generated* from the source
(Generated/Tools.lean); this file gives them their semantics and defines tool runs with
signals delivered at arbitrary points.
-/
import MutagenModel.Generated.Tools
set_option linter.unusedVariables false
namespace Mutagen.Signal
open Mutagen.Generated

structure St where
  interrupted : Bool := false
  nosig : Bool := false
  /-- file operations performed so far: (file, k) -/
  done : List (Nat × Nat) := []
  /-- SystemExit has been raised -/
  exited : Bool := false
deriving Repr, DecidableEq

def step1 (s : St) : Instr → St
  | .setInterrupted b => { s with interrupted := b }
  | .setNosig b => { s with nosig := b }
  | .exitIfInterrupted => if s.interrupted then { s with exited := true } else s
  | .exitUnlessNosig => if !s.nosig then { s with exited := true } else s
  | .yield_ => s

/-- run a statement list until SystemExit -/
def runInstrs : St → List Instr → St
  | s, [] => s
  | s, i :: rest => if s.exited then s else runInstrs (step1 s i) rest

/-- the statements of `block` before / after its `yield` -/
def blockPre : List Instr := blockProg.takeWhile (· != .yield_)
def blockPost : List Instr := (blockProg.dropWhile (· != .yield_)).drop 1

/-- events of a tool run at the granularity the property speaks about -/
inductive Ev
  | sig               -- SIGINT/SIGTERM/SIGHUP delivered here: `_handler` runs
  | enter             -- `with _sig.block():` entered
  | op (file k : Nat) -- k-th file operation of the per-file update of `file`
  | leave             -- the with-body finished normally
  | outside           -- any statement outside a block
deriving DecidableEq, Repr

def exec (s : St) : Ev → St
  | .sig => runInstrs s handlerProg
  | .enter => runInstrs s blockPre
  | .op f k => { s with done := s.done ++ [(f, k)] }
  | .leave => runInstrs s blockPost
  | .outside => s

/-- run a trace until SystemExit -/
def run : St → List Ev → St
  | s, [] => s
  | s, e :: rest => if s.exited then s else run (exec s e) rest

/-- `Interleave prog tr`: `tr` is the program text `prog` with signal deliveries inserted at
any positions, any number of them -/
inductive Interleave : List Ev → List Ev → Prop
  | nil : Interleave [] []
  | sig {p t} : Interleave p t → Interleave p (.sig :: t)
  | step {e p t} : Interleave p t → Interleave (e :: p) (e :: t)

/-- the per-file update: bookkeeping outside, then the blocked body, then bookkeeping -/
def fileOps (f : Nat) (n : Nat) : List (Nat × Nat) := (List.range n).map fun k => (f, k)
def fileProg (f : Nat) (n : Nat) : List Ev :=
  [.outside, .enter] ++ (List.range n).map (.op f) ++ [.leave, .outside]

/-- a tool run over files 0.. with `ns[i]` operations on file i -/
def toolProg : Nat → List Nat → List Ev
  | _, [] => []
  | f, n :: ns => fileProg f n ++ toolProg (f + 1) ns

def toolOps : Nat → List Nat → List (Nat × Nat)
  | _, [] => []
  | f, n :: ns => fileOps f n ++ toolOps (f + 1) ns

end Mutagen.Signal
