/-
Model/FileTypes.lean — the FILE-TYPE level: `Type(fileobj)` for every format class, i.e. each `FileType.load`
body (a few lines of Python) as a pure function of the bytes of the file, COMPOSED from the models of the
parts: the tag/container loads (Model/Container/*) and the stream-info parsers (Model/Info/*), in the order
the Python `load` runs them, with its `except` clauses.

    ID3FileType.load (MP3, TrueAudio)  try: tags = ID3(fileobj) except ID3NoHeaderError: tags = None
                                       offset = tags.size (0 for an ID3v1-only tag) or None; info = _Info(fileobj, offset)
    APEv2File.load (WavPack, Musepack, MonkeysAudio, OptimFROG, TAK)
                                       info = _Info(fileobj); seek(0); try: tags = APEv2(fileobj) except APENoHeaderError: None
    OggFileType.load (five codecs)     try: info = _Info(fileobj); tags = _Tags(fileobj, info); info._post_tags(fileobj)
                                       except (error, IOError) / EOFError / ValueError: raise self._Error
    AIFF.load, DSDIFF.load             try: tags = _IFFID3(fileobj) except ID3NoHeaderError: None; except ID3Error: raise error
                                       seek(0); info = AIFFInfo(fileobj)
    WAVE.load                          info = WaveStreamInfo(fileobj) FIRST; seek(0); then the tags as above
    DSF.load                           DSFFile(fileobj); tags as above (`_DSFID3`); info = DSFInfo(dsf_file.fmt_chunk)
    FLAC.load, ASF.load, MP4.load      one model each (Model/Container/FlacLoad.lean, Asf.lean, Mp4LoadM.lean)
    AAC.load, AC3.load                 info only (no tags)
    SMF.load                           try: info = SMFInfo(fileobj) except IOError: raise SMFError; no tags

`ID3NoHeaderError`, `ID3UnsupportedVersionError`, `APENoHeaderError` are MutagenErrors; the first and the last are
caught by the `load`s (tags = None), the second is not.

`mutagen.File(fileobj)` (`fileLoad`): the generated score model picks a class (Model/Detect.lean `pick`), then that
class's load runs from position 0.
-/
import MutagenModel.Model.Container.Id3FileLoadM
import MutagenModel.Model.Container.ApeFileLoadM
import MutagenModel.Model.Container.FlacLoad
import MutagenModel.Model.Container.Iff
import MutagenModel.Model.Container.DsfFull
import MutagenModel.Model.Container.Asf
import MutagenModel.Model.Container.Mp4LoadM
import MutagenModel.Model.Container.Mp4Chapters
import MutagenModel.Model.Container.OggInjectLoadM
import MutagenModel.Model.Info.Aac
import MutagenModel.Model.Info.Ac3
import MutagenModel.Model.Info.Aiff
import MutagenModel.Model.Info.Asf
import MutagenModel.Model.Info.Dsdiff
import MutagenModel.Model.Info.Dsf
import MutagenModel.Model.Info.MonkeysAudio
import MutagenModel.Model.Info.Mp4
import MutagenModel.Model.Info.MpegInfo
import MutagenModel.Model.Info.Musepack
import MutagenModel.Model.Info.OggCodecs
import MutagenModel.Model.Info.OptimFROG
import MutagenModel.Model.Info.Tak
import MutagenModel.Model.Info.TrueAudio
import MutagenModel.Model.Info.WavPack
import MutagenModel.Model.Info.Wave
import MutagenModel.Model.Info.Smf
import MutagenModel.Model.Utf8
import MutagenModel.Model.Detect
set_option linter.unusedVariables false
namespace Mutagen.FileTypes
open Mutagen

/-- `a` then `b`, both kept: the first exception ends the load -/
def both {α β : Type} (a : Except PyErr α) (b : Except PyErr β) : Except PyErr (α × β) :=
  match a with
  | .error e => .error e
  | .ok x => match b with
    | .error e => .error e
    | .ok y => .ok (x, y)

/-! ### ID3: the tag class on a file object positioned at `off` -/

/-- `ID3(fileobj)` (load_v1=True) when `_pre_load_header` has left the file object at `off` (0 for the plain `ID3`;
the data offset of the ID3 chunk for the IFF types): the header and the body are read from there, `find_id3v1`
looks at the end of the WHOLE file.  With the result: `tags.size` (the header's size field + 10; 0 without a header).
For `off = 0` this is `Id3F.load true` (Proofs/FileTypes.lean `id3At_zero`). -/
def id3At (f : Bytes) (off : Nat) : Except PyErr (Id3F.Loaded × Nat) :=
  match Id3F.headerLoad (f.drop off) with
  | .error e => .error e
  | .ok .noHeader => match Id3F.findV1 f with | none => .ok (.noHeader, 0) | some n => .ok (.v1 n, 0)
  | .ok .unsupported => match Id3F.findV1 f with | none => .ok (.unsupported, 0) | some n => .ok (.v1 n, 0)
  | .ok (.hdr vmaj flags size ext) =>
    let sz := Id3F.bodySize size ext
    if sz < 0 then .error .mutagen
    else
      let body := readAt (f.drop off) (Id3F.bodyStart ext) sz.toNat
      if body.length ≠ sz.toNat then .error .mutagen
      else .ok (.v2 vmaj flags body (Id3F.findV1 f), size)

/-- `try: tags = ID3(fileobj) except ID3NoHeaderError: tags = None` (ID3UnsupportedVersionError is not caught);
`none` = `tags is None`; the number is the `offset` handed to the info class -/
def id3Tags (r : Except PyErr (Id3F.Loaded × Nat)) : Except PyErr (Option Id3F.Loaded × Nat) :=
  match r with
  | .error e => .error e
  | .ok (.noHeader, _) => .ok (none, 0)
  | .ok (.unsupported, _) => .error .mutagen
  | .ok (l, n) => .ok (some l, n)

/-- `MP3(fileobj)`: `ID3FileType.load` with `_Info = MPEGInfo` -/
def loadMp3 (f : Bytes) : Except PyErr (Option Id3F.Loaded × Info.Mp3.Info) :=
  match id3Tags (id3At f 0) with
  | .error e => .error e
  | .ok (t, off) => match Info.Mp3.parseFrom f off with
    | .error e => .error e
    | .ok i => .ok (t, i)

/-- `TrueAudio(fileobj)`: `ID3FileType.load` with `_Info = TrueAudioInfo` -/
def loadTrueAudio (f : Bytes) : Except PyErr (Option Id3F.Loaded × Info.TrueAudio.Info) :=
  match id3Tags (id3At f 0) with
  | .error e => .error e
  | .ok (t, off) => match Info.TrueAudio.parse f off with
    | .error e => .error e
    | .ok i => .ok (t, i)

/-- the bare `ID3FileType(fileobj)` (one of `File`'s options): `_Info` reads nothing -/
def loadId3FileType (f : Bytes) : Except PyErr (Option Id3F.Loaded) :=
  (id3Tags (id3At f 0)).map (·.1)

/-! ### APEv2: the tag class -/

/-- `is_valid_apev2_key` on the decoded (ASCII) key -/
def apeKeyValid (k : Bytes) : Bool :=
  2 ≤ k.length && k.length ≤ 255 && k.all (fun c => 0x20 ≤ c.toNat && c.toNat ≤ 0x7E) &&
    !([[0x4F, 0x67, 0x67, 0x53], [0x54, 0x41, 0x47], [0x49, 0x44, 0x33], [0x4D, 0x50, 0x2B]].contains k)

/-- the key loop of `__parse_tag`: bytes up to and including the first NUL; `none` = the data ended first -/
def apeKey : Bytes → Option (Bytes × Bytes)
  | [] => none
  | c :: r => if c = 0 then some ([], r) else match apeKey r with
    | none => none
    | some (k, rest) => some (c :: k, rest)

/-- `APEv2.__parse_tag(tag, count)` as far as its outcome goes: every refusal is `error` / APEBadItemError
(MutagenErrors) -/
def apeItems : Nat → Bytes → Except PyErr Unit
  | 0, _ => .ok ()
  | count + 1, d =>
    let td := d.take 8
    if td.isEmpty then .ok ()                                   -- "someone writes wrong item counts"
    else if td.length ≠ 8 then .error .mutagen
    else
      let size := ofLE (td.take 4)
      let flags := ofLE (td.drop 4)
      let kind := flags / 2 % 4
      if kind = 3 then .error .mutagen
      else match apeKey (d.drop 8) with
        | none => .error .mutagen                               -- no NUL before the end of the data
        | some (k, rest) =>
          if !(k.all fun c => c.toNat < 128) then .error .mutagen          -- key.decode("ascii")
          else if !apeKeyValid k then .error .mutagen
          else
            let v := rest.take size
            if v.length ≠ size then .error .mutagen
            else if kind ≠ 1 ∧ (Utf8.decode v).isNone then .error .mutagen  -- text / external: value.decode("utf-8")
            else apeItems count (rest.drop size)

/-- `data.tag` and `data.items` of `_APEv2Data(fileobj)` once the tag is located (`ApeF.locate f = ok (some L)`):
the 16 bytes behind the located preamble again, then `fileobj.read(size)` at `data`, `size` without the 32 bytes of
the footer (`locate` has refused a tag with a footer whose size field is below 32: `size - 32` is not cut off) -/
def apeTagData (f : Bytes) (L : ApeF.Loc) : Bytes × Nat :=
  if L.isAtStart then
    let d := readAt f 8 16
    let size := ofLE ((d.drop 4).take 4)
    let items := ofLE ((d.drop 8).take 4)
    let hasFooter := ApeF.isApeAt f size                  -- seek(end - 32); read(8) == "APETAGEX"
    if hasFooter then (readAt f 32 (size - 32), items)
    else (readAt f 32 size, items)
  else
    let ft := L.endd - 32
    let d := readAt f (ft + 8) 16
    let size := ofLE ((d.drop 4).take 4)
    let items := ofLE ((d.drop 8).take 4)
    let data := L.endd - size
    (readAt f data (size - 32), items)

/-- `try: tags = APEv2(fileobj) except APENoHeaderError: tags = None`; `none` = no tags (no tag found, or an
empty one) -/
def apeTags (f : Bytes) : Except PyErr (Option ApeF.Loc) :=
  match ApeF.locate f with
  | .error e => .error e
  | .ok none => .ok none
  | .ok (some L) =>
    let t := apeTagData f L
    if t.1.isEmpty then .ok none
    else match apeItems t.2 t.1 with
      | .error e => .error e
      | .ok _ => .ok (some L)

/-- `APEv2File.load` with the info class `info` -/
def loadApe {α : Type} (info : Bytes → Except PyErr α) (f : Bytes) : Except PyErr (α × Option ApeF.Loc) :=
  both (info f) (apeTags f)

def loadWavPack (f : Bytes) := loadApe Info.WavPack.parse f
def loadMusepack (f : Bytes) := loadApe Info.Musepack.parse f
def loadMonkeysAudio (f : Bytes) := loadApe Info.MonkeysAudio.parse f
def loadOptimFROG (f : Bytes) := loadApe Info.OptimFROG.parse f
def loadTak (f : Bytes) := loadApe Info.Tak.parse f
/-- the bare `APEv2File(fileobj)` (one of `File`'s options): `_Info` reads nothing -/
def loadApev2File (f : Bytes) : Except PyErr (Option ApeF.Loc) := apeTags f

/-! ### Ogg

Two models of `OggFileType.load` exist: `OggInj.loadPure c` (identification page as far as it decides the outcome,
the comment packets, `_post_tags`' last page) and `Info.<Codec>.parse` (info constructor with every field, and
`_post_tags`).  Both contain the info constructor's refusals and they refuse the same files
(Props/C04_FileTypes.lean `ogg*_models_agree`, `ogg_file_load_is_load_pure`, from the link lemmas of
Proofs/Container/OggInjectLoadLink.lean): the outcome is that of `OggInj.loadPure`, the second component is the info
record. -/

def loadOggVorbis (f : Bytes) := both (OggInj.loadPure .vorbis f) (Info.Vorbis.parse f)
def loadOggOpus (f : Bytes) := both (OggInj.loadPure .opus f) (Info.Opus.parse f)
def loadOggSpeex (f : Bytes) := both (OggInj.loadPure .speex f) (Info.Speex.parse f)
def loadOggTheora (f : Bytes) := both (OggInj.loadPure .theora f) (Info.Theora.parse f)
def loadOggFlac (f : Bytes) := both (OggInj.loadPure .flac f) (Info.OggFlac.parse f)

/-! ### one model each -/

/-- `FLAC(fileobj)` -/
def loadFlac (f : Bytes) : Except PyErr FlacL.Loaded := FlacL.load f
/-- `ASF(fileobj)`: the header objects (tags from five of them, info from two) -/
def loadAsf (f : Bytes) := Asf.parseFull f
/-- `MP4(fileobj)`: atoms, `MP4Info.load`, `MP4Tags.load` with their handlers (without chapters) -/
def loadMp4 (f : Bytes) : Except PyErr Mp4C.LoadedFull := Mp4C.loadFullPure f
/-- `AAC(fileobj)` -/
def loadAac (f : Bytes) := Info.Aac.parse f
/-- `AC3(fileobj)` -/
def loadAc3 (f : Bytes) := Info.Ac3.parse f

/-! ### the IFF types and DSF: an ID3 tag inside a chunk -/

/-- `try: tags = _IFFID3(fileobj) except ID3NoHeaderError: None; except ID3Error as e: raise error(e)`:
`_pre_load_header` finds the chunk (no chunk: ID3NoHeaderError, raised OUTSIDE the `try` with the ID3v1 fallback),
then `ID3.load` at its data offset -/
def iffTags (d : Iff.Dialect) (f : Bytes) : Except PyErr (Option Id3F.Loaded) :=
  match Iff.locate d f with
  | .error e => .error e
  | .ok none => .ok none
  | .ok (some r) => (id3Tags (id3At f (r.offset + Iff.hs d))).map (·.1)

/-- `AIFF(fileobj)`: tags, then info -/
def loadAiff (f : Bytes) := both (iffTags Iff.aiff f) (Info.Aiff.parse f)
/-- `DSDIFF(fileobj)`: tags, then info -/
def loadDsdiff (f : Bytes) := both (iffTags Iff.dsdiff f) (Info.Dsdiff.parse f)
/-- `WAVE(fileobj)`: info, then tags -/
def loadWave (f : Bytes) := both (Info.Wave.parse f) (iffTags Iff.wave f)

/-- `DSF(fileobj)`: the three chunk headers, the ID3 tag at the metadata pointer (`Dsf.load`), the ID3v1 search when
there is no usable ID3v2 header there, then `DSFInfo(fmt_chunk)`.  `true` = the object has tags. -/
def loadDsf (f : Bytes) : Except PyErr (Bool × Info.Dsf.Info) :=
  let tags : Except PyErr Bool :=
    match Dsf.load f with
    | .error e => .error e
    | .ok .noTag => .ok false
    | .ok (.searchV1 unsupported) =>
      match Id3F.findV1 f with
      | some _ => .ok true
      | none => if unsupported then .error .mutagen else .ok false
    | .ok (.tag _) => .ok true
  both tags (Info.Dsf.parse f)

/-! ### `mutagen.File` -/

open Mutagen.Generated Mutagen.Detect

/-- `SMF(fileobj)`: `SMFInfo(fileobj)` (Model/Info/Smf.lean); the class has no tags -/
def loadSmf (f : Bytes) : Except PyErr Info.Smf.Info := Info.Smf.parse f

/-- the outcome of `Kind(fileobj)` for the classes among `File`'s options -/
def loadKind (k : Kind) (f : Bytes) : Except PyErr Unit :=
  match k with
  | .MP3 => (loadMp3 f).map fun _ => ()
  | .TrueAudio => (loadTrueAudio f).map fun _ => ()
  | .OggTheora => (loadOggTheora f).map fun _ => ()
  | .OggSpeex => (loadOggSpeex f).map fun _ => ()
  | .OggVorbis => (loadOggVorbis f).map fun _ => ()
  | .OggFLAC => (loadOggFlac f).map fun _ => ()
  | .FLAC => (loadFlac f).map fun _ => ()
  | .AIFF => (loadAiff f).map fun _ => ()
  | .APEv2File => (loadApev2File f).map fun _ => ()
  | .MP4 => (loadMp4 f).map fun _ => ()
  | .ID3FileType => (loadId3FileType f).map fun _ => ()
  | .WavPack => (loadWavPack f).map fun _ => ()
  | .Musepack => (loadMusepack f).map fun _ => ()
  | .MonkeysAudio => (loadMonkeysAudio f).map fun _ => ()
  | .OptimFROG => (loadOptimFROG f).map fun _ => ()
  | .ASF => (loadAsf f).map fun _ => ()
  | .OggOpus => (loadOggOpus f).map fun _ => ()
  | .AAC => (loadAac f).map fun _ => ()
  | .AC3 => (loadAc3 f).map fun _ => ()
  | .SMF => (loadSmf f).map fun _ => ()
  | .TAK => (loadTak f).map fun _ => ()
  | .DSF => (loadDsf f).map fun _ => ()
  | .DSDIFF => (loadDsdiff f).map fun _ => ()
  | .WAVE => (loadWave f).map fun _ => ()

/-- what `File` sees of a file object over the bytes `f` with the name `name` ("" = nameless): the first 128 bytes,
the name, the last 160 bytes (`APEv2File.score`; the whole file when it is shorter) -/
def fileAtoms (name : String) (f : Bytes) : Atom → Bool :=
  evalAtom (f.take headerWindow) name (f.drop (f.length - trailerWindow)) false

/-- `mutagen.File(fileobj, options)`: scores, the best class (None when no score is positive), `seek(0)`, the
class's load.  `ok none` = File returns None. -/
def fileLoad (name : String) (opts : List Kind) (f : Bytes) : Except PyErr (Option Kind) :=
  match pick (fileAtoms name f) Kind.rank opts with
  | none => .ok none
  | some k => match loadKind k f with
    | .error e => .error e
    | .ok _ => .ok (some k)

end Mutagen.FileTypes
