/-
Model/Id3Convert.lean — `ID3Tags.update_to_v23`, `update_to_v24`, `__update_common` (mutagen/id3/_tags.py) at the
level of the tag dictionary: which keys are popped, renamed, merged, deleted, and what the frames put in their place
hold.  `ID3TimeStamp` (mutagen/id3/_specs.py) as far as the conversions use it.

A tag is the dictionary `HashKey → frame` in insertion order.  The id lists `v24_frames` (deleted by
`update_to_v23`) and the keys `update_to_v24` deletes are Generated/Id3ConvertLists.lean (regenerated from the source).
Deletion there is `if key in self: del self[key]` — BY KEY, not by frame id: a frame whose HashKey is longer than its id
("RVA2:desc", "EQU2:desc", "SIGN:group:sig") is not found.
-/
import MutagenModel.Model.Id3v1
import MutagenModel.Generated.Id3ConvertLists
set_option linter.unusedVariables false
namespace Mutagen.Id3Conv
open Mutagen Mutagen.Id3v1

/-- `ID3TimeStamp`: six optional integers -/
structure Stamp where
  year : Option Int := none
  month : Option Int := none
  day : Option Int := none
  hour : Option Int := none
  minute : Option Int := none
  second : Option Int := none
deriving DecidableEq, Repr, Inhabited

inductive Frame
  | text (id : String) (enc : Nat) (text : List Str)             -- TextFrame family; HashKey = id
  | stamps (id : String) (enc : Nat) (stamps : List Stamp)       -- TimeStampTextFrame: TDRC TDOR TDRL TDEN TDTG
  | people (id : String) (enc : Nat) (people : List (Str × Str)) -- PairedTextFrame: TIPL TMCL IPLS
  | apic (enc : Nat) (mime : Str) (type : Nat) (desc : Str) (data : Bytes)
  | chap (id : String) (key : String) (sub : List Frame)         -- CHAP / CTOC: HashKey, sub_frames
  | other (id : String) (key : String)                           -- any other frame: id and HashKey
deriving Repr, Inhabited

def strOf (s : Str) : String := String.ofList (s.map Char.ofNat)

def Frame.id : Frame → String
  | .text id _ _ => id | .stamps id _ _ => id | .people id _ _ => id | .apic .. => "APIC"
  | .chap id _ _ => id | .other id _ => id

def Frame.key : Frame → String
  | .text id _ _ => id | .stamps id _ _ => id | .people id _ _ => id
  | .apic _ _ _ desc _ => "APIC:" ++ strOf desc
  | .chap _ key _ => key | .other _ key => key

abbrev Tag := List Frame

def Tag.has (t : Tag) (k : String) : Bool := t.any (·.key == k)
def Tag.get? (t : Tag) (k : String) : Option Frame := t.find? (·.key == k)
def Tag.del (t : Tag) (k : String) : Tag := t.filter (·.key != k)
/-- `self[frame.HashKey] = frame`: replaces in place, else appends -/
def Tag.add (t : Tag) (f : Frame) : Tag :=
  if t.has f.key then t.map (fun g => if g.key == f.key then f else g) else t ++ [f]
/-- `getall(id)`: the key is `id` or starts with `id:` -/
def isAll (id : String) (f : Frame) : Bool := f.key == id || (id ++ ":").isPrefixOf f.key

/-! ### ID3TimeStamp -/

def isStampSep (c : Nat) : Bool := c == 45 || c == 84 || c == 58 || c == 47 || c == 46

/-- `re.compile('[-T:/.]|\\s+').split(text)` (fuel: the length of the text) -/
def splitStampAux : Nat → Str → Str → List Str
  | 0, _, cur => [cur.reverse]
  | _ + 1, [], cur => [cur.reverse]
  | n + 1, c :: r, cur =>
    if isStampSep c then cur.reverse :: splitStampAux n r []
    else if isPySpace c then cur.reverse :: splitStampAux n (r.dropWhile isPySpace) []
    else splitStampAux n r (c :: cur)

def splitStamp (s : Str) : List Str := splitStampAux (s.length + 1) s []

/-- `ID3TimeStamp(text)`: the first six pieces of `text + ":::::"`, each through `int()` -/
def parseStamp (text : Str) : Stamp :=
  let ps := (splitStamp (text ++ [58, 58, 58, 58, 58])).map pyInt
  { year := (ps.getD 0 none), month := (ps.getD 1 none), day := (ps.getD 2 none),
    hour := (ps.getD 3 none), minute := (ps.getD 4 none), second := (ps.getD 5 none) }

/-- `'%0<w>d' % n` -/
def fmtInt (w : Nat) (n : Int) : Str :=
  let ds := (toString n.natAbs).toList.map Char.toNat
  let body := List.replicate (w - ds.length - (if n < 0 then 1 else 0)) 48 ++ ds
  if n < 0 then 45 :: body else body

/-- `ID3TimeStamp.text` (get_text) -/
def Stamp.text (s : Stamp) : Str :=
  match s.year with
  | none => []
  | some y => fmtInt 4 y ++
    match s.month with
    | none => []
    | some m => 45 :: fmtInt 2 m ++
      match s.day with
      | none => []
      | some d => 45 :: fmtInt 2 d ++
        match s.hour with
        | none => []
        | some h => 32 :: fmtInt 2 h ++
          match s.minute with
          | none => []
          | some mi => 58 :: fmtInt 2 mi ++
            match s.second with
            | none => []
            | some se => 58 :: fmtInt 2 se

def truthy : Option Int → Bool
  | some n => n != 0
  | none => false

/-! ### __update_common -/

def sPNG : Str := [80, 78, 71]
def sJPG : Str := [74, 80, 71]
def mimePng : Str := [105, 109, 97, 103, 101, 47, 112, 110, 103]
def mimeJpeg : Str := [105, 109, 97, 103, 101, 47, 106, 112, 101, 103]

def updateCommon (t : Tag) : Tag :=
  t.map fun f =>
    match f with
    | .text "TCON" enc text => .text "TCON" enc (genres text)
    | .apic enc mime ty desc data =>
      if mime == sPNG then .apic enc mimePng ty desc data
      else if mime == sJPG then .apic enc mimeJpeg ty desc data
      else f
    | _ => f

/-! ### update_to_v24 -/

def textOf (t : Tag) (k : String) : List Str :=
  match t.get? k with
  | some (.text _ _ l) => l
  | _ => []

def isDigits (n : Nat) (s : Str) : Bool := s.length == n && s.all isDigit

/-- one round of the `zip_longest` loop: the timestamp text built from a TYER, a TDAT and a TIME value -/
def joinDate (tyer tdat time : Str) : Str :=
  -- ([0-9]{4})(-[0-9]{2}-[0-9]{2})?\Z
  let ymOK := isDigits 4 tyer || (tyer.length == 10 && isDigits 4 (tyer.take 4) && tyer.getD 4 0 == 45 &&
    isDigits 2 ((tyer.drop 5).take 2) && tyer.getD 7 0 == 45 && isDigits 2 (tyer.drop 8))
  if !ymOK then []
  else
    let year := tyer.take 4
    let monthDay : Str := if isDigits 4 tdat then 45 :: tdat.drop 2 ++ 45 :: tdat.take 2 else tyer.drop 4
    if monthDay.isEmpty then year
    else if isDigits 4 time then year ++ monthDay ++ 84 :: time.take 2 ++ 58 :: time.drop 2 ++ [58, 48, 48]
    else year ++ monthDay

/-- `zip_longest(a, b, c, fillvalue="")` -/
def zipLongest3 (a b c : List Str) : List (Str × Str × Str) :=
  (List.range (max a.length (max b.length c.length))).map fun i => (a.getD i [], b.getD i [], c.getD i [])

def delKeys (t : Tag) (ks : List String) : Tag := ks.foldl Tag.del t

/-- `update_to_v24` without the recursion into chapters -/
def toV24Flat (t0 : Tag) : Tag :=
  let t := updateCommon t0
  let stamps := (zipLongest3 (textOf t "TYER") (textOf t "TDAT") (textOf t "TIME")).map (fun (a, b, c) => joinDate a b c)
    |>.filter (!·.isEmpty)
  let t := delKeys t Generated.v24DateSources
  let t := if !stamps.isEmpty && !t.has "TDRC" then t.add (.stamps "TDRC" 0 (stamps.map parseStamp)) else t
  -- TORY can be the first part of a TDOR
  let t := match t.get? "TORY" with
    | some f =>
      let t' := t.del "TORY"
      if t'.has "TDOR" then t'
      else match f with
        | .text _ _ l => t'.add (.stamps "TDOR" 0 [parseStamp (l.intersperse [0]).flatten])
        | _ => t'
    | none => t
  -- IPLS is now TIPL
  let t := match t.get? "IPLS" with
    | some f =>
      let t' := t.del "IPLS"
      if t'.has "TIPL" then t'
      else match f with
        | .people _ enc p => t'.add (.people "TIPL" enc p)
        | _ => t'
    | none => t
  delKeys t Generated.v24Deleted

/-! ### update_to_v23 -/

def peopleOf (t : Tag) (k : String) : Option (Nat × List (Str × Str)) :=
  match t.get? k with
  | some (.people _ enc p) => some (enc, p)
  | _ => none

def toV23Flat (t0 : Tag) : Tag :=
  let t := updateCommon t0
  -- TMCL, TIPL -> IPLS
  let t :=
    if t.has "TIPL" || t.has "TMCL" then
      let p1 := peopleOf t "TIPL"
      let p2 := peopleOf t "TMCL"
      let people := (p1.map (·.2)).getD [] ++ (p2.map (·.2)).getD []
      let enc := match p2 with | some (e, _) => e | none => (p1.map (·.1)).getD 0
      let t' := (t.del "TIPL").del "TMCL"
      if t'.has "IPLS" then t' else t'.add (.people "IPLS" enc people)
    else t
  -- TDOR -> TORY
  let t := match t.get? "TDOR" with
    | some f =>
      let t' := t.del "TDOR"
      match f with
      | .stamps _ enc (d :: _) =>
        if truthy d.year && !t'.has "TORY" then t'.add (.text "TORY" enc [fmtInt 4 (d.year.getD 0)]) else t'
      | _ => t'
    | none => t
  -- TDRC -> TYER, TDAT, TIME
  let t := match t.get? "TDRC" with
    | some f =>
      let t' := t.del "TDRC"
      match f with
      | .stamps _ enc (d :: _) =>
        let t1 := if truthy d.year && !t'.has "TYER" then t'.add (.text "TYER" enc [fmtInt 4 (d.year.getD 0)]) else t'
        let t2 := if truthy d.month && truthy d.day && !t1.has "TDAT"
          then t1.add (.text "TDAT" enc [fmtInt 2 (d.day.getD 0) ++ fmtInt 2 (d.month.getD 0)]) else t1
        if d.hour.isSome && d.minute.isSome && !t2.has "TIME"
          then t2.add (.text "TIME" enc [fmtInt 2 (d.hour.getD 0) ++ fmtInt 2 (d.minute.getD 0)]) else t2
      | _ => t'
    | none => t
  delKeys t Generated.v24Frames

/-! ### the recursion into CHAP / CTOC sub-frames (depth as fuel: `Frame` nests finitely) -/

def recurse (flat : Tag → Tag) : Nat → Tag → Tag
  | 0, t => flat t
  | n + 1, t => (flat t).map fun f =>
    match f with
    | .chap id key sub => if isAll "CHAP" f || isAll "CTOC" f then .chap id key (recurse flat n sub) else f
    | _ => f

mutual
def Frame.depth : Frame → Nat
  | .chap _ _ sub => depthList sub + 1
  | _ => 0
def depthList : List Frame → Nat
  | [] => 0
  | f :: r => max f.depth (depthList r)
end

/-- `ID3Tags.update_to_v24()` -/
def updateToV24 (t : Tag) : Tag := recurse toV24Flat (depthList t) t
/-- `ID3Tags.update_to_v23()` -/
def updateToV23 (t : Tag) : Tag := recurse toV23Flat (depthList t) t

/-! ### `_get_v23_frame` for text: joining multi-values with the separator, and splitting on read -/

/-- `sep.join(values)` -/
def joinSep (sep : Str) (vs : List Str) : Str := (vs.intersperse sep).flatten

/-- `text.split(sep)` for a one-character separator -/
def splitSep (sep : Nat) : Str → Str → List Str
  | [], cur => [cur.reverse]
  | c :: r, cur => if c == sep then cur.reverse :: splitSep sep r [] else splitSep sep r (c :: cur)

/-- all frame ids of a tag, sub-frames included -/
def allIds : Nat → Tag → List String
  | 0, t => t.map (·.id)
  | n + 1, t => (t.map fun f => match f with | .chap id _ sub => id :: allIds n sub | f => [f.id]).flatten

end Mutagen.Id3Conv
