/-
Model/Id3Spec.lean — mutagen/id3/_specs.py (every `*Spec.read` / `*Spec.write` used by the
frame table), mutagen/id3/_frames.py (`Frame._readData`, `_writeData`, `_get_v23_frame`,
`_fromData`) and mutagen/id3/_tags.py (`save_frame`, `read_frames`, `determine_bpi`) as
executable Lean functions.  Imports only other Model files.

Conventions
* A field value is a `Val`: ints, byte strings, text (list of code points), lists, and
  nested frames `frame id vals` (`vals` = the values of the required specs followed by
  the values of those optional specs that are set).
* Floats never enter the model.  `VolumeAdjustmentSpec` / `VolumePeakSpec` /
  `VolumeAdjustmentsSpec` are modelled on the integers that go on the wire:
  gain `g` ↦ `intround(g*512)`, peak `p` ↦ `intround(p*32768)` on write, and on read the
  integer `n` such that the Python value is `n/512` (gain) resp. `n/(2^31-1)` (peak);
  EQU2 pairs `(freq, adj)` ↦ `(int(freq*2), int(adj*512))`.  The harness recomputes the
  floats with the Python expressions.
* `SpecError` is represented by `.mutagen`: `_readData` turns it into `ID3JunkFrameError`
  and `_writeData` into `mutagen.id3.error`, both `MutagenError`s.  Every other exception
  keeps its class (`ValueError` from `bchr`/`BitPaddedInt.to_str`, `struct.error`,
  `UnicodeEncodeError` from `Latin1TextSpec.write`, `IndexError`, `KeyError`,
  `AttributeError`).
* `write` is applied to values as `Spec.validate` leaves them; a `Val` of the wrong shape
  (which `validate` would have rejected, or which Python could not even represent) gives
  `.type_`.
* The specs read three attributes of the frame they belong to: `frame.encoding`
  (text specs), `frame.N` and `frame.b` (`ASPIIndexSpec`); they are the `Ctx`.
* Not modelled (said here, and the harness does not compare the model on them):
  zlib (`_fromData` of a compressed frame gives `.notImplemented`); the order in which
  `ID3Tags._write` emits nested frames (a sort by priority, size and `HashKey`) and the
  merging of nested frames with equal `HashKey` — a nested frame list is in wire order;
  `ID3TimeStamp` parsing of parts that are not plain ASCII digits (`.notImplemented`).
-/
import MutagenModel.Model.Id3Text
import MutagenModel.Model.IntCodec
import MutagenModel.Model.Id3Util
set_option linter.unusedVariables false
namespace Mutagen.Id3
open Mutagen

/-! ## vocabulary -/

/-- the `EncodedTextSpec` family -/
inductive TextKind
  | plain        -- EncodedTextSpec
  | numeric      -- EncodedNumericTextSpec (no override of read/write)
  | numericPart  -- EncodedNumericPartTextSpec (no override of read/write)
  | timeStamp    -- TimeStampSpec
deriving DecidableEq, Repr, Inhabited

/-- the spec classes used by `Frames` / `Frames_2_2` -/
inductive SpecKind
  | byte                      -- ByteSpec
  | pictureType               -- PictureTypeSpec (ByteSpec.read/write)
  | ctocFlags                 -- CTOCFlagsSpec (ByteSpec.read/write)
  | channel                   -- ChannelSpec (ByteSpec)
  | encoding                  -- EncodingSpec
  | string (n : Nat)          -- StringSpec(length=n)
  | frameId (n : Nat)         -- FrameIDSpec(length=n) (StringSpec.read/write)
  | binary                    -- BinaryDataSpec
  | encText (k : TextKind)    -- EncodedTextSpec / EncodedNumeric(Part)TextSpec / TimeStampSpec
  | multi (elems : List TextKind)  -- MultiSpec(*specs) over the EncodedTextSpec family
  | latin1Text                -- Latin1TextSpec
  | latin1List                -- Latin1TextListSpec
  | sizedInt (n : Nat)        -- SizedIntegerSpec(size=n)
  | integer                   -- IntegerSpec
  | volAdj                    -- VolumeAdjustmentSpec
  | volPeak                   -- VolumePeakSpec
  | syncText                  -- SynchronizedTextSpec
  | keyEvent                  -- KeyEventSpec
  | volAdjs                   -- VolumeAdjustmentsSpec
  | aspiIndex                 -- ASPIIndexSpec
  | frames                    -- ID3FramesSpec (nested frames)
  | rva (maxValues : Nat)     -- RVASpec (_max_values = 4 or 12)
deriving DecidableEq, Repr, Inhabited

inductive Val
  | int (i : Int)
  | bytes (b : Bytes)
  | text (t : Text)
  | list (l : List Val)
  | frame (id : String) (vals : List Val)
deriving Repr, Inhabited

mutual
/-- structural equality test on values (for examples and the driver) -/
def Val.beq : Val → Val → Bool
  | .int a, .int b => a == b
  | .bytes a, .bytes b => a == b
  | .text a, .text b => a == b
  | .list a, .list b => Val.beqList a b
  | .frame i a, .frame j b => i == j && Val.beqList a b
  | _, _ => false
def Val.beqList : List Val → List Val → Bool
  | [], [] => true
  | a :: as, b :: bs => Val.beq a b && Val.beqList as bs
  | _, _ => false
end

/-- what the reader knows from the tag header -/
structure Hdr where
  version : Nat          -- 2, 3 or 4 (`header.version[1]`)
  unsynch : Bool := false  -- `header.f_unsynch`
deriving DecidableEq, Repr, Inhabited

/-- `ID3SaveConfig` -/
structure Cfg where
  version : Nat := 4             -- v2_version: 3 or 4
  sep : Option Text := none      -- v23_separator
deriving DecidableEq, Repr, Inhabited

/-- the attributes of the enclosing frame that specs read (`none` = attribute missing) -/
structure Ctx where
  enc : Option Int := none
  aspiN : Option Int := none
  aspiB : Option Int := none
deriving DecidableEq, Repr, Inhabited

structure FieldSpec where
  kind : SpecKind
  name : String
  dflt : Val
deriving Repr, Inhabited

structure FrameClass where
  name : String
  base : String                 -- `cls.__base__.__name__`
  isText : Bool                 -- `issubclass(cls, TextFrame)`
  required : List FieldSpec     -- `_framespec`
  optional : List FieldSpec     -- `_optionalspec`
deriving Repr, Inhabited

abbrev Table := List FrameClass

def nameBytes (s : String) : Bytes := s.toList.map (fun ch => UInt8.ofNat ch.toNat)

def Table.find (tbl : Table) (nb : Bytes) : Option FrameClass :=
  List.find? (fun c => nameBytes c.name == nb) tbl

/-! ## small codecs -/

/-- `bchr(x)` = `bytes([x])`: ValueError outside 0..255 -/
def bchr (i : Int) : Except PyErr Bytes :=
  if 0 ≤ i ∧ i < 256 then .ok [b8 i.toNat] else .error .value

/-- `struct.pack(">B/H/I")` of width `w` -/
def packU (w : Nat) (i : Int) : Except PyErr Bytes :=
  if 0 ≤ i ∧ i < (256 ^ w : Nat) then .ok (toBE w i.toNat) else .error .struct_

def toSignedBE (w : Nat) (i : Int) : Bytes :=
  toBE w (if i < 0 then 256 ^ w - (-i).toNat else i.toNat)

def ofSignedBE (b : Bytes) : Int :=
  if 2 * ofBE b ≥ 256 ^ b.length then (ofBE b : Int) - (256 ^ b.length : Nat) else (ofBE b : Int)

/-- `struct.pack(">b/h")` of width `w` -/
def packS (w : Nat) (i : Int) : Except PyErr Bytes :=
  if -((256 ^ w / 2 : Nat) : Int) ≤ i ∧ i < ((256 ^ w / 2 : Nat) : Int) then .ok (toSignedBE w i)
  else .error .struct_

def allZero (b : Bytes) : Bool := b.all (fun x => x == 0)

/-- `ByteSpec.read`: `bytearray(data)[0], data[1:]` -/
def readByte : Bytes → Except PyErr (Int × Bytes)
  | [] => .error .index
  | x :: r => .ok ((x.toNat : Int), r)

/-! ## the EncodedTextSpec family -/

def encNat (e : Int) : Except PyErr Nat :=
  if e = 0 then .ok 0 else if e = 1 then .ok 1 else if e = 2 then .ok 2 else if e = 3 then .ok 3
  else .error .key

def ctxEnc (c : Ctx) : Except PyErr Nat :=
  match c.enc with
  | none => .error .attribute
  | some e => encNat e

/-- `iter_text_fixups` -/
def textFixups (enc : Nat) (data : Bytes) : List Bytes :=
  if enc = 2 then [data, data ++ [0]]
  else if enc = 1 then [data, data ++ [0], 0xFF :: 0xFE :: data, 0xFF :: 0xFE :: (data ++ [0])]
  else [data]

/-- first candidate that decodes (every `ValueError` moves on to the next one) -/
def tryDecode (enc : Nat) : List Bytes → Option (Text × Bytes)
  | [] => none
  | d :: ds =>
    match decodeTerminated enc false d with
    | .ok r => some r
    | .error _ => tryDecode enc ds

/-- issue #276 (in `MultiSpec.read`): before v2.4 a remainder of zero bytes is padding, not a list
of empty strings -/
def stripZeroTail (h : Hdr) (d : Bytes) : Bytes := if decide (h.version < 4) && allZero d then [] else d

/-- `EncodedTextSpec.read` -/
def readEncText (h : Hdr) (c : Ctx) (data : Bytes) : Except PyErr (Text × Bytes) :=
  match ctxEnc c with
  | .error e => .error e
  | .ok enc =>
    match tryDecode enc (textFixups enc data) with
    | none => .error .mutagen
    | some (t, rest) => .ok (t, rest)

/-- `EncodedTextSpec.write`: `encode_endian(value, enc, le=True) + term`;
`UnicodeEncodeError` becomes `SpecError` -/
def writeEncText (c : Ctx) (t : Text) : Except PyErr Bytes :=
  match ctxEnc c with
  | .error e => .error e
  | .ok enc =>
    match encodeText enc t, termOf enc with
    | .ok b, .ok tm => .ok (b ++ tm)
    | .error .unicode, _ => .error .mutagen
    | .error e, _ => .error e
    | _, .error e => .error e

/-! ### ID3TimeStamp: `set_text` (split on `[-T:/.]|\s+`, `int()` each of the first six
pieces) followed by `get_text` (re-format).  Pieces must be empty or plain ASCII digits
(at most 4300 of them); anything else is outside the model (`.notImplemented`). -/

def isTsSep (c : Nat) : Bool := c == 45 || c == 84 || c == 58 || c == 47 || c == 46
def isAsciiSpace (c : Nat) : Bool := c == 32 || (decide (9 ≤ c) && decide (c ≤ 13))
def isAsciiDigit (c : Nat) : Bool := decide (48 ≤ c) && decide (c ≤ 57)

/-- `re.split('[-T:/.]|\\s+', s)`: `cur` is the piece being collected (reversed),
`inSpace` = the previous character was whitespace (a run of whitespace is one separator) -/
def tsSplit : List Nat → List Nat → Bool → List (List Nat)
  | [], cur, _ => [cur.reverse]
  | ch :: r, cur, inSpace =>
    if isTsSep ch then cur.reverse :: tsSplit r [] false
    else if isAsciiSpace ch then
      if inSpace then tsSplit r cur true else cur.reverse :: tsSplit r [] true
    else tsSplit r (ch :: cur) false

def digitsVal (ds : List Nat) : Nat := ds.foldl (fun acc d => acc * 10 + (d - 48)) 0

/-- `int(piece)` with `ValueError -> None`; outside the model unless digits only -/
def tsPart (p : List Nat) : Except PyErr (Option Nat) :=
  if p.isEmpty then .ok none
  else if p.all isAsciiDigit && decide (p.length ≤ 4300) then .ok (some (digitsVal p))
  else .error .notImplemented

def tsParts : List (List Nat) → Except PyErr (List (Option Nat))
  | [] => .ok []
  | p :: r =>
    match tsPart p, tsParts r with
    | .ok x, .ok xs => .ok (x :: xs)
    | .error e, _ => .error e
    | _, .error e => .error e

/-- decimal digits of `n`, at least `w` of them (`'%0wd' % n`) -/
def padDigits (w n : Nat) : List Nat :=
  let ds := (Nat.toDigits 10 n).map Char.toNat
  List.replicate (w - ds.length) 48 ++ ds

/-- `get_text`: pieces `fmt % part + sep` up to the first `None`, last character dropped -/
def tsFormat : List (Option Nat) → List Nat → List Nat → List Nat
  | some n :: ps, w :: ws, s :: ss => padDigits w n ++ [s] ++ tsFormat ps ws ss
  | _, _, _ => []

/-- `ID3TimeStamp(text).text` -/
def tsNormalize (t : Text) : Except PyErr Text :=
  match tsParts ((tsSplit (t ++ [58, 58, 58, 58, 58]) [] false).take 6) with
  | .error e => .error e
  | .ok ps => .ok (tsFormat ps [4, 2, 2, 2, 2, 2] [45, 45, 32, 58, 58, 120]).dropLast

/-- `data.text.replace(' ', 'T')` -/
def tsWire (t : Text) : Text := t.map (fun c => if c = 32 then 84 else c)

/-- read of one member of the EncodedTextSpec family -/
def readTextKind (h : Hdr) (c : Ctx) (k : TextKind) (data : Bytes) : Except PyErr (Val × Bytes) :=
  match readEncText h c data with
  | .error e => .error e
  | .ok (t, rest) =>
    match k with
    | .timeStamp =>
      match tsNormalize t with
      | .ok t' => .ok (.text t', rest)
      | .error e => .error e
    | _ => .ok (.text t, rest)

def writeTextKind (c : Ctx) (k : TextKind) (v : Val) : Except PyErr Bytes :=
  match v with
  | .text t =>
    match k with
    | .timeStamp => writeEncText c (tsWire t)
    | _ => writeEncText c t
  | _ => .error .type_

/-! ### MultiSpec -/

/-- one record: every member spec in turn -/
def readRecord (h : Hdr) (c : Ctx) : List TextKind → Bytes → Except PyErr (List Val × Bytes)
  | [], d => .ok ([], d)
  | k :: ks, d =>
    match readTextKind h c k d with
    | .error e => .error e
    | .ok (v, d') =>
      match readRecord h c ks d' with
      | .error e => .error e
      | .ok (vs, d'') => .ok (v :: vs, d'')

/-- `values.append(record if len(specs) != 1 else record[0])` -/
def recordVal (elems : List TextKind) (record : List Val) : Val :=
  match elems, record with
  | [_], [v] => v
  | _, _ => .list record

/-- `MultiSpec.read`: `while data:` read a record.  A record that consumes nothing (only
possible with an empty spec list) would loop forever in Python: `.diverge`. -/
def readMulti (h : Hdr) (c : Ctx) (elems : List TextKind) (data : Bytes) : Except PyErr (List Val) :=
  if data = [] then .ok []
  else
    match readRecord h c elems data with
    | .error e => .error e
    | .ok (record, d0) =>
      if hlt : (stripZeroTail h d0).length < data.length then
        match readMulti h c elems (stripZeroTail h d0) with
        | .error e => .error e
        | .ok vs => .ok (recordVal elems record :: vs)
      else .error .diverge
termination_by data.length

/-- `for v, s in zip(record, self.specs)` -/
def writeRecord (c : Ctx) : List TextKind → List Val → Except PyErr Bytes
  | k :: ks, v :: vs =>
    match writeTextKind c k v, writeRecord c ks vs with
    | .ok a, .ok b => .ok (a ++ b)
    | .error e, _ => .error e
    | _, .error e => .error e
  | _, _ => .ok []

def writeMulti (c : Ctx) (elems : List TextKind) : List Val → Except PyErr Bytes
  | [] => .ok []
  | v :: vs =>
    let one : Except PyErr Bytes :=
      match elems with
      | [k] => writeTextKind c k v
      | _ => match v with
             | .list record => writeRecord c elems record
             | _ => .error .type_
    match one, writeMulti c elems vs with
    | .ok a, .ok b => .ok (a ++ b)
    | .error e, _ => .error e
    | _, .error e => .error e

/-! ### Latin1TextSpec / Latin1TextListSpec -/

def readLatin1 (data : Bytes) : Text × Bytes :=
  (latin1Decode (splitNul data).1, ((splitNul data).2).getD [])

def writeLatin1 (v : Val) : Except PyErr Bytes :=
  match v with
  | .text t =>
    match latin1Encode t with
    | .ok b => .ok (b ++ [0])
    | .error e => .error e
  | _ => .error .type_

def readLatin1N : Nat → Bytes → List Val × Bytes
  | 0, d => ([], d)
  | n+1, d => ((Val.text (readLatin1 d).1) :: (readLatin1N n (readLatin1 d).2).1, (readLatin1N n (readLatin1 d).2).2)

def writeLatin1s : List Val → Except PyErr Bytes
  | [] => .ok []
  | v :: vs =>
    match writeLatin1 v, writeLatin1s vs with
    | .ok a, .ok b => .ok (a ++ b)
    | .error e, _ => .error e
    | _, .error e => .error e

/-! ### SynchronizedTextSpec -/

def readSyncText (enc : Nat) (data : Bytes) : Except PyErr (List Val) :=
  if data = [] then .ok []
  else
    match decodeTerminated enc true data with
    | .error _ => .error .mutagen
    | .ok (t, d) =>
      if d.length < 4 then .error .mutagen
      else if hlt : (d.drop 4).length < data.length then
        match readSyncText enc (d.drop 4) with
        | .error e => .error e
        | .ok vs => .ok (.list [.text t, .int (ofBE (d.take 4))] :: vs)
      else .error .diverge
termination_by data.length
decreasing_by simpa using hlt

/-- a `(text, int)` tuple -/
def textIntPair (v : Val) : Option (Text × Int) :=
  match v with
  | .list l =>
    match l with
    | [a, b] =>
      match a, b with
      | .text t, .int i => some (t, i)
      | _, _ => none
    | _ => none
  | _ => none

/-- an `(int, int)` tuple -/
def intIntPair (v : Val) : Option (Int × Int) :=
  match v with
  | .list l =>
    match l with
    | [a, b] =>
      match a, b with
      | .int x, .int y => some (x, y)
      | _, _ => none
    | _ => none
  | _ => none

def writeSyncText (c : Ctx) : List Val → Except PyErr Bytes
  | [] => .ok []
  | v :: vs =>
    match textIntPair v with
    | none => .error .type_
    | some (t, time) =>
      match writeEncText c t, packU 4 time, writeSyncText c vs with
      | .ok a, .ok b, .ok r => .ok (a ++ b ++ r)
      | .error e, _, _ => .error e
      | _, .error e, _ => .error e
      | _, _, .error e => .error e

/-! ### KeyEventSpec: `struct ">bI"` records -/

def readKeyEvents : Bytes → List Val × Bytes
  | a :: b :: c :: d :: e :: r =>
    ((Val.list [.int (ofSignedBE [a]), .int (ofBE [b, c, d, e])]) :: (readKeyEvents r).1, (readKeyEvents r).2)
  | d => ([], d)

def writeKeyEvents : List Val → Except PyErr Bytes
  | [] => .ok []
  | v :: vs =>
    match intIntPair v with
    | none => .error .struct_
    | some (ty, time) =>
      match packS 1 ty, packU 4 time, writeKeyEvents vs with
      | .ok a, .ok b, .ok r => .ok (a ++ b ++ r)
      | .error e, _, _ => .error e
      | _, .error e, _ => .error e
      | _, _, .error e => .error e

/-! ### VolumeAdjustmentsSpec (EQU2): `struct ">Hh"` records; read builds a dict keyed by
frequency and returns its items sorted; write sorts the list first -/

/-- `adjustments[freq] = adj` on an association list kept sorted by key -/
def upsert (k : Nat) (v : Int) : List (Nat × Int) → List (Nat × Int)
  | [] => [(k, v)]
  | (k', v') :: r =>
    if k < k' then (k, v) :: (k', v') :: r
    else if k = k' then (k, v) :: r
    else (k', v') :: upsert k v r

def readAdjPairs : Bytes → List (Nat × Int) × Bytes
  | a :: b :: c :: d :: r => ((ofBE [a, b], ofSignedBE [c, d]) :: (readAdjPairs r).1, (readAdjPairs r).2)
  | d => ([], d)

def adjVal (p : Nat × Int) : Val := .list [.int p.1, .int p.2]

def readVolAdjs (data : Bytes) : Val × Bytes :=
  (.list (((readAdjPairs data).1.foldl (fun acc p => upsert p.1 p.2 acc) []).map adjVal), (readAdjPairs data).2)

def adjPairs : List Val → Except PyErr (List (Int × Int))
  | [] => .ok []
  | v :: vs =>
    match intIntPair v with
    | none => .error .type_
    | some p =>
      match adjPairs vs with
      | .ok r => .ok (p :: r)
      | .error e => .error e

def pairLe (p q : Int × Int) : Bool := decide (p.1 < q.1) || (decide (p.1 = q.1) && decide (p.2 ≤ q.2))

def insertPair (p : Int × Int) : List (Int × Int) → List (Int × Int)
  | [] => [p]
  | q :: r => if pairLe p q then p :: q :: r else q :: insertPair p r

/-- `value.sort()` on `(freq, adj)` tuples -/
def sortPairs : List (Int × Int) → List (Int × Int)
  | [] => []
  | p :: r => insertPair p (sortPairs r)

def writeAdjPairs : List (Int × Int) → Except PyErr Bytes
  | [] => .ok []
  | (f, a) :: r =>
    match packU 2 f, packS 2 a, writeAdjPairs r with
    | .ok x, .ok y, .ok z => .ok (x ++ y ++ z)
    | .error e, _, _ => .error e
    | _, .error e, _ => .error e
    | _, _, .error e => .error e

/-! ### ASPIIndexSpec -/

def readUnits (size : Nat) : Nat → Bytes → List Val
  | 0, _ => []
  | n+1, d => .int (ofBE (d.take size)) :: readUnits size n (d.drop size)

def readAspi (c : Ctx) (data : Bytes) : Except PyErr (Val × Bytes) :=
  match c.aspiB, c.aspiN with
  | some b, some n =>
    let size : Nat := if b = 16 then 2 else 1
    if b = 16 ∨ b = 8 then
      if (data.take (n.toNat * size)).length = n.toNat * size then
        .ok (.list (readUnits size n.toNat (data.take (n.toNat * size))), data.drop (n.toNat * size))
      else .error .mutagen
    else .error .mutagen
  | _, _ => .error .attribute

def writeUnits (size : Nat) : List Val → Except PyErr Bytes
  | [] => .ok []
  | .int i :: vs =>
    match packU size i, writeUnits size vs with
    | .ok a, .ok b => .ok (a ++ b)
    | .error _, _ => .error .mutagen
    | _, .error e => .error e
  | _ :: _ => .error .mutagen

def writeAspi (c : Ctx) (v : Val) : Except PyErr Bytes :=
  match c.aspiB, c.aspiN with
  | some b, some n =>
    if b = 16 ∨ b = 8 then
      match v with
      | .list vs => if vs.length = n.toNat then writeUnits (if b = 16 then 2 else 1) vs else .error .mutagen
      | _ => .error .type_
    else .error .mutagen
  | _, _ => .error .attribute

/-! ### VolumeAdjustmentSpec / VolumePeakSpec (on wire integers) -/

def readVolAdj (data : Bytes) : Except PyErr (Val × Bytes) :=
  if (data.take 2).length = 2 then .ok (.int (ofSignedBE (data.take 2)), data.drop 2) else .error .mutagen   -- SpecError (was struct.error before the repair recorded in known_findings.json)

def writeVolAdj (v : Val) : Except PyErr Bytes :=
  match v with
  | .int n => if -32768 ≤ n ∧ n ≤ 32767 then .ok (toSignedBE 2 n) else .error .mutagen
  | _ => .error .type_

/-- the integer `peak * 2**shift`; the Python value is this divided by `2**31 - 1` -/
def readVolPeak (data : Bytes) : Except PyErr (Val × Bytes) :=
  match data with
  | [] => .error .index
  | bits :: r =>
    let volBytes := min 4 ((bits.toNat + 7) / 8)
    if volBytes + 1 > data.length then .error .mutagen
    else
      let shift := ((8 - bits.toNat % 8) % 8) + (4 - volBytes) * 8
      .ok (.int ((ofBE (r.take volBytes) * 2 ^ shift : Nat) : Int), r.drop volBytes)

def writeVolPeak (v : Val) : Except PyErr Bytes :=
  match v with
  | .int n => if 0 ≤ n ∧ n ≤ 65535 then .ok (0x10 :: toBE 2 n.toNat) else .error .mutagen
  | _ => .error .type_

/-! ### RVASpec -/

def rvaSignIdx : List Nat := [0, 1, 4, 5, 8, 10]

def intsOf : List Val → Except PyErr (List Int)
  | [] => .ok []
  | .int i :: vs =>
    match intsOf vs with
    | .ok r => .ok (i :: r)
    | .error e => .error e
  | _ :: _ => .error .type_

/-- flag bit `bit` is set iff `values[index]` exists and is not negative -/
def rvaFlags (vals : List Int) : List Nat → Nat → Nat
  | [], _ => 0
  | idx :: r, bit =>
    (match vals[idx]? with
     | some v => if v < 0 then 0 else 2 ^ bit
     | none => 0) + rvaFlags vals r (bit + 1)

/-- the magnitudes that are serialised: sign positions made non-negative -/
def rvaAbs (vals : List Int) : List Int :=
  vals.zipIdx.map (fun (v, i) => if rvaSignIdx.contains i && decide (v < 0) then -v else v)

def bytesAll : List (Except PyErr Bytes) → Except PyErr (List Bytes)
  | [] => .ok []
  | .ok b :: r =>
    match bytesAll r with
    | .ok bs => .ok (b :: bs)
    | .error e => .error e
  | .error e :: _ => .error e

/-- `RVASpec.write`.  Every magnitude is serialised big-endian with at least two bytes and
then `rjust`ed with NUL bytes on the left to the width of the widest one (the code used
`ljust` before the repair recorded in known_findings.json; see `Props/C12.lean`,
`rva_mixed_width_instance`). -/
def writeRva (maxValues : Nat) (v : Val) : Except PyErr Bytes :=
  match v with
  | .list vs =>
    match intsOf vs with
    | .error e => .error e
    | .ok vals =>
      if vals.length < 2 ∨ vals.length > maxValues then .error .mutagen
      else
        match bytesAll ((rvaAbs vals).map (fun m => bpToStr m 8 true (-1) 2)) with
        | .error e => .error e
        | .ok bvs =>
          let maxBytes := bvs.foldl (fun m b => max m b.length) 0
          match bchr (rvaFlags vals rvaSignIdx 0), bchr (maxBytes * 8 : Nat) with
          | .ok f, .ok bits => .ok (f ++ bits ++ (bvs.map (fun b => zeros (maxBytes - b.length) ++ b)).flatten)
          | .error e, _ => .error e
          | _, .error e => .error e
  | _ => .error .type_

def readRvaValues (bpv : Nat) : Nat → Bytes → List Nat × Bytes
  | 0, d => ([], d)
  | n+1, d =>
    if d.length ≥ bpv then
      (ofBE (d.take bpv) :: (readRvaValues bpv n (d.drop bpv)).1, (readRvaValues bpv n (d.drop bpv)).2)
    else ([], d)

def testBit (flags bit : Nat) : Bool := flags / 2 ^ bit % 2 == 1

/-- negate `values[index]` for every sign position whose flag bit is clear -/
def rvaSigns (flags : Nat) (vals : List Nat) : List Int :=
  vals.zipIdx.map (fun (v, i) =>
    match rvaSignIdx.idxOf? i with
    | some bit => if testBit flags bit then (v : Int) else -(v : Int)
    | none => (v : Int))

def readRva (maxValues : Nat) (data : Bytes) : Except PyErr (Val × Bytes) :=
  match data with
  | [] => .error .index
  | [_] => .error .mutagen
  | flags :: bits :: r =>
    if bits = 0 then .error .mutagen
    else
      let bpv := (bits.toNat + 7) / 8
      let vr := readRvaValues bpv maxValues r
      if vr.1.length < 2 then .error .mutagen
      else .ok (.list ((rvaSigns flags.toNat vr.1).map Val.int), vr.2)

/-! ## one spec -/

/-- is the `Val` an int (`ByteSpec.write` = `bchr`) -/
def writeByteVal (v : Val) : Except PyErr Bytes :=
  match v with
  | .int i => bchr i
  | _ => .error .type_

/-- `StringSpec.write`: ASCII, NUL-padded / truncated to `n` -/
def writeString (n : Nat) (v : Val) : Except PyErr Bytes :=
  match v with
  | .text t =>
    if t.all (fun c => decide (c < 128)) then .ok ((t.map b8 ++ zeros n).take n) else .error .unicode
  | _ => .error .type_

/-- `StringSpec.read`: `data[:n].decode("ascii")` -/
def readString (n : Nat) (data : Bytes) : Except PyErr (Val × Bytes) :=
  if (data.take n).all (fun x => decide (x.toNat < 128)) then
    .ok (.text ((data.take n).map UInt8.toNat), data.drop n)
  else .error .mutagen

/-- `Spec.write(config, frame, value)`.  `subw` writes a nested frame list
(`ID3Tags._write(config)`). -/
def writeSpec (subw : Cfg → List Val → Except PyErr Bytes) (cfg : Cfg) (k : SpecKind) (c : Ctx)
    (v : Val) : Except PyErr Bytes :=
  match k with
  | .byte | .pictureType | .ctocFlags | .channel | .encoding => writeByteVal v
  | .string n | .frameId n => writeString n v
  | .binary => match v with
               | .bytes b => .ok b
               | _ => .error .type_
  | .encText tk => writeTextKind c tk v
  | .multi elems => match v with
                    | .list vs => writeMulti c elems vs
                    | _ => .error .type_
  | .latin1Text => writeLatin1 v
  | .latin1List =>
    match v with
    | .list vs =>
      match bchr vs.length, writeLatin1s vs with
      | .ok a, .ok b => .ok (a ++ b)
      | .error e, _ => .error e
      | _, .error e => .error e
    | _ => .error .type_
  | .sizedInt n => match v with
                   | .int i => bpToStr i 8 true n 4
                   | _ => .error .type_
  | .integer => match v with
                | .int i => bpToStr i 8 true (-1) 4
                | _ => .error .type_
  | .volAdj => writeVolAdj v
  | .volPeak => writeVolPeak v
  | .syncText => match v with
                 | .list vs => writeSyncText c vs
                 | _ => .error .type_
  | .keyEvent => match v with
                 | .list vs => writeKeyEvents vs
                 | _ => .error .type_
  | .volAdjs =>
    match v with
    | .list vs =>
      match adjPairs vs with
      | .ok ps => writeAdjPairs (sortPairs ps)
      | .error e => .error e
    | _ => .error .type_
  | .aspiIndex => writeAspi c v
  | .frames => match v with
               | .list fs => subw cfg fs
               | _ => .error .type_
  | .rva m => writeRva m v

/-- `Spec.read(header, frame, data)` → `(value, left_data)`.  `sub` reads a nested frame
list (`ID3Tags._read(header, data)`). -/
def readSpec (sub : Hdr → Bytes → Except PyErr (List Val × Bytes)) (h : Hdr) (k : SpecKind) (c : Ctx)
    (data : Bytes) : Except PyErr (Val × Bytes) :=
  match k with
  | .byte | .pictureType | .ctocFlags | .channel =>
    match readByte data with
    | .ok (i, r) => .ok (.int i, r)
    | .error e => .error e
  | .encoding =>
    match readByte data with
    | .ok (i, r) => if i ≤ 3 then .ok (.int i, r) else .error .mutagen
    | .error e => .error e
  | .string n | .frameId n => readString n data
  | .binary => .ok (.bytes data, [])
  | .encText tk => readTextKind h c tk data
  | .multi elems =>
    match readMulti h c elems data with
    | .ok vs => .ok (.list vs, [])
    | .error e => .error e
  | .latin1Text => .ok (.text (readLatin1 data).1, (readLatin1 data).2)
  | .latin1List =>
    match readByte data with
    | .ok (n, r) => .ok (.list (readLatin1N n.toNat r).1, (readLatin1N n.toNat r).2)
    | .error e => .error e
  | .sizedInt n => .ok (.int (bpFromBytes 8 true (data.take n)), data.drop n)
  | .integer => .ok (.int (bpFromBytes 8 true data), [])
  | .volAdj => readVolAdj data
  | .volPeak => readVolPeak data
  | .syncText =>
    match ctxEnc c with
    | .error e => .error e
    | .ok enc =>
      match readSyncText enc data with
      | .ok vs => .ok (.list vs, [])
      | .error e => .error e
  | .keyEvent => .ok (.list (readKeyEvents data).1, (readKeyEvents data).2)
  | .volAdjs => .ok (readVolAdjs data)
  | .aspiIndex => readAspi c data
  | .frames =>
    -- the enclosing frame / tag has been de-unsynchronised already: flag cleared for the sub-frames
    match sub { h with unsynch := false } data with
    | .ok (fs, r) => .ok (.list fs, r)
    | .error e => .error e
  | .rva m => readRva m data

/-! ## one frame: `_readData` / `_writeData` -/

/-- `handle_nodata` -/
def handleNoData : SpecKind → Bool
  | .binary => true
  | .frames => true
  | _ => false

/-- `setattr(frame, name, value)` as far as the specs can see it -/
def ctxUpdate (c : Ctx) (name : String) (v : Val) : Ctx :=
  match v with
  | .int i =>
    if name = "encoding" then { c with enc := some i }
    else if name = "N" then { c with aspiN := some i }
    else if name = "b" then { c with aspiB := some i }
    else c
  | _ => c

/-- `cls()`: every required spec's default is set -/
def initCtx : List FieldSpec → Ctx → Ctx
  | [], c => c
  | s :: ss, c => initCtx ss (ctxUpdate c s.name s.dflt)

/-- the required specs of `_readData` -/
def readReq (sub : Hdr → Bytes → Except PyErr (List Val × Bytes)) (h : Hdr) :
    Ctx → List FieldSpec → Bytes → Except PyErr (List Val × Bytes × Ctx)
  | c, [], d => .ok ([], d, c)
  | c, s :: ss, d =>
    if !d.isEmpty || handleNoData s.kind then
      match readSpec sub h s.kind c d with
      | .error e => .error e
      | .ok (v, d') =>
        match readReq sub h (ctxUpdate c s.name v) ss d' with
        | .error e => .error e
        | .ok (vs, d'', c') => .ok (v :: vs, d'', c')
    else .error .mutagen

/-- the optional specs of `_readData`: stop at the first one for which no data is left -/
def readOpt (sub : Hdr → Bytes → Except PyErr (List Val × Bytes)) (h : Hdr) :
    Ctx → List FieldSpec → Bytes → Except PyErr (List Val × Bytes)
  | _, [], d => .ok ([], d)
  | c, s :: ss, d =>
    if !d.isEmpty || handleNoData s.kind then
      match readSpec sub h s.kind c d with
      | .error e => .error e
      | .ok (v, d') =>
        match readOpt sub h (ctxUpdate c s.name v) ss d' with
        | .error e => .error e
        | .ok (vs, d'') => .ok (v :: vs, d'')
    else .ok ([], d)

/-- `frame = cls(); frame._readData(header, data)`: the field values and the leftover -/
def readFrame (sub : Hdr → Bytes → Except PyErr (List Val × Bytes)) (h : Hdr) (cls : FrameClass)
    (data : Bytes) : Except PyErr (List Val × Bytes) :=
  match readReq sub h (initCtx cls.required {}) cls.required data with
  | .error e => .error e
  | .ok (vs, d, c) =>
    match readOpt sub h c cls.optional d with
    | .error e => .error e
    | .ok (os, d') => .ok (vs ++ os, d')

/-- the attributes of a complete frame object: the constructor sets every required spec's
default first (`initCtx`), then the values given -/
def frameCtx : List FieldSpec → List Val → Ctx → Ctx
  | s :: ss, v :: vs, c => frameCtx ss vs (ctxUpdate c s.name v)
  | _, _, c => c

/-- required specs of `_writeData`; returns the bytes and the values not yet used -/
def writeReq (subw : Cfg → List Val → Except PyErr Bytes) (cfg : Cfg) (c : Ctx) :
    List FieldSpec → List Val → Except PyErr (Bytes × List Val)
  | [], vs => .ok ([], vs)
  | _ :: _, [] => .error .attribute
  | s :: ss, v :: vs =>
    match writeSpec subw cfg s.kind c v with
    | .error e => .error e
    | .ok b =>
      match writeReq subw cfg c ss vs with
      | .error e => .error e
      | .ok (bs, rest) => .ok (b ++ bs, rest)

/-- optional specs of `_writeData`: stop at the first attribute that is not set -/
def writeOpt (subw : Cfg → List Val → Except PyErr Bytes) (cfg : Cfg) (c : Ctx) :
    List FieldSpec → List Val → Except PyErr Bytes
  | _, [] => .ok []
  | [], _ :: _ => .error .type_
  | s :: ss, v :: vs =>
    match writeSpec subw cfg s.kind c v with
    | .error e => .error e
    | .ok b =>
      match writeOpt subw cfg c ss vs with
      | .error e => .error e
      | .ok bs => .ok (b ++ bs)

def joinText (sep : Text) : List Val → Except PyErr Text
  | [] => .ok []
  | [.text t] => .ok t
  | .text t :: r =>
    match joinText sep r with
    | .ok x => .ok (t ++ sep ++ x)
    | .error e => .error e
  | _ => .error .type_

/-- `spec._validate23(frame, value, sep=...)`: v2.3 knows only Latin-1 and UTF-16; a
multi-value of a single plain text spec is joined with the separator if one is given.
(`ID3FramesSpec._validate23` converts every nested frame; `save_frame` does that again for
each nested frame and the conversion is idempotent, so it is left to `subw`.) -/
def validate23 (sep : Option Text) (k : SpecKind) (v : Val) : Except PyErr Val :=
  match k, v with
  | .encoding, .int i => .ok (.int (if i = 0 ∨ i = 1 then i else 1))
  | .multi [tk], .list vs =>
    if tk = .timeStamp then .ok v
    else match sep with
      | none => .ok v
      | some s =>
        match joinText s vs with
        | .ok t => .ok (.list [.text t])
        | .error e => .error e
  | _, _ => .ok v

def toV23 (sep : Option Text) : List FieldSpec → List Val → Except PyErr (List Val)
  | s :: ss, v :: vs =>
    match validate23 sep s.kind v, toV23 sep ss vs with
    | .ok x, .ok xs => .ok (x :: xs)
    | .error e, _ => .error e
    | _, .error e => .error e
  | _, _ => .ok []

/-- `Frame._writeData(config)` on the values `vals` (required ++ set optional) -/
def writeFrame (subw : Cfg → List Val → Except PyErr Bytes) (cfg : Cfg) (cls : FrameClass)
    (vals : List Val) : Except PyErr Bytes :=
  match (if cfg.version = 3 then toV23 cfg.sep (cls.required ++ cls.optional) vals else .ok vals) with
  | .error e => .error e
  | .ok vals' =>
    let c := frameCtx (cls.required ++ cls.optional) vals' (initCtx cls.required {})
    match writeReq subw cfg c cls.required vals' with
    | .error e => .error e
    | .ok (b, rest) =>
      match writeOpt subw cfg c cls.optional rest with
      | .error e => .error e
      | .ok bo => .ok (b ++ bo)

/-! ## frames in a tag: `save_frame`, `Frame._fromData`, `determine_bpi`, `read_frames` -/

/-- `len(str(frame)) == 0` for a TextFrame: the value named `text` is `[]` or `[""]` -/
def textEmpty : List FieldSpec → List Val → Bool
  | s :: ss, v :: vs =>
    if s.name = "text" then
      match v with
      | .list [] => true
      | .list [.text []] => true
      | _ => false
    else textEmpty ss vs
  | _, _ => false

/-- `save_frame(frame, config=config)`: header (`>4s4sH`, size syncsafe for v2.4, plain for
v2.3, flags 0) and data; an empty TextFrame writes nothing -/
def saveFrame (subw : Cfg → List Val → Except PyErr Bytes) (tbl : Table) (cfg : Cfg) (fv : Val) :
    Except PyErr Bytes :=
  match fv with
  | .frame id vals =>
    match tbl.find (nameBytes id) with
    | none => .error .key
    | some cls =>
      if cls.isText && textEmpty cls.required vals then .ok []
      else
        match writeFrame subw cfg cls vals with
        | .error e => .error e
        | .ok data =>
          match bpToStr data.length (if cfg.version = 4 then 7 else 8) true 4 4 with
          | .error e => .error e
          | .ok sz => .ok (nameBytes id ++ sz ++ [0, 0] ++ data)
  | _ => .error .type_

/-- the frames of `ID3Tags._write(config)` in the order given (the sort is not modelled) -/
def saveFrames (subw : Cfg → List Val → Except PyErr Bytes) (tbl : Table) (cfg : Cfg) :
    List Val → Except PyErr Bytes
  | [] => .ok []
  | f :: fs =>
    match saveFrame subw tbl cfg f, saveFrames subw tbl cfg fs with
    | .ok a, .ok b => .ok (a ++ b)
    | .error e, _ => .error e
    | _, .error e => .error e

def FLAG23_COMPRESS : Nat := 0x0080
def FLAG23_ENCRYPT : Nat := 0x0040
def FLAG24_COMPRESS : Nat := 0x0008
def FLAG24_ENCRYPT : Nat := 0x0004
def FLAG24_UNSYNCH : Nat := 0x0002
def FLAG24_DATALEN : Nat := 0x0001

def hasFlag (flags f : Nat) : Bool := flags / f % 2 == 1

/-- outcome of `_fromData` as `read_frames` sees it -/
inductive FromData
  | frame (vals : List Val)
  | junk                         -- ID3JunkFrameError: frame skipped
  | unsupported                  -- NotImplementedError (encrypted): kept as unknown frame
  | compressed                   -- zlib needed: outside the model
  | raised (e : PyErr)           -- any other exception propagates out of read_frames
deriving Repr

/-- the flag handling of `Frame._fromData` up to decompression: the frame data that
`_readData` gets.  v2.4: data-length indicator stripped if COMPRESS or DATALEN, then
unsynchronisation undone if the frame or the tag says so (left as is when the data is not
a valid unsynchronised string); v2.3: four size bytes before compressed data. -/
def fromDataBytes (h : Hdr) (tflags : Nat) (data : Bytes) : Bytes :=
  if h.version ≥ 4 then
    let d1 := if hasFlag tflags FLAG24_COMPRESS || hasFlag tflags FLAG24_DATALEN then data.drop 4 else data
    if hasFlag tflags FLAG24_UNSYNCH || h.unsynch then
      match unsynchDecode d1 with
      | .ok d => d
      | .error _ => d1
    else d1
  else data

/-- `cls._fromData(header, tflags, data)` -/
def fromData (sub : Hdr → Bytes → Except PyErr (List Val × Bytes)) (h : Hdr) (cls : FrameClass)
    (tflags : Nat) (data : Bytes) : FromData :=
  let encrypted := if h.version ≥ 4 then hasFlag tflags FLAG24_ENCRYPT
                   else if h.version = 3 then hasFlag tflags FLAG23_ENCRYPT else false
  let compressed := if h.version ≥ 4 then hasFlag tflags FLAG24_COMPRESS
                    else if h.version = 3 then hasFlag tflags FLAG23_COMPRESS else false
  if h.version = 3 ∧ compressed ∧ data.length < 4 then .junk
  else if encrypted then .unsupported
  else if compressed then .compressed
  else
    match readFrame sub h cls (fromDataBytes h tflags data) with
    | .ok (vals, _) => .frame vals
    | .error .mutagen => .junk
    | .error e => .raised e

/-- one counting loop of `determine_bpi`: frames found and the final offset, or the offset
at which ten NUL bytes were met -/
def bpiCount (tbl : Table) (syncsafe : Bool) (data : Bytes) (o count : Nat) : Nat × Int :=
  if h : o + 10 < data.length then
    let part := (data.drop o).take 10
    if part = zeros 10 then (count, -(((data.length - o) % 10 : Nat) : Int))
    else
      let raw := part.drop 4 |>.take 4
      let size := if syncsafe then bpFromBytes 7 true raw else ofBE raw
      let known := decide (((part.take 4).all fun x => decide (x.toNat < 128)) = true) &&
        (tbl.find (part.take 4)).isSome
      bpiCount tbl syncsafe data (o + 10 + size) (if known then count + 1 else count)
  else (count, (o : Int) - (data.length : Int))
termination_by data.length - o
decreasing_by omega

/-- `determine_bpi(data, frames)`: `true` = sizes are syncsafe (`BitPaddedInt`) -/
def determineBpi (tbl : Table) (data : Bytes) : Bool :=
  let (asbpi, bpioff) := bpiCount tbl true data 0 0
  let (asint, intoff) := bpiCount tbl false data 0 0
  !(decide (asint > asbpi) || (decide (asint = asbpi) && decide (bpioff ≥ 1) && decide (intoff ≤ 1)))

/-- `frame._upgrade_frame()` as `ID3Tags._add` applies it to what was read: a v2.2 frame
becomes its v2.3/2.4 base class; `none` when there is no base (CRM) -/
def upgradeName (cls : FrameClass) : Option String :=
  if cls.name.length = 3 then (if cls.base = "Frame" then none else some cls.base) else some cls.name

def isValidFrameId (nb : Bytes) : Bool :=
  !nb.isEmpty && nb.all (fun x => (decide (48 ≤ x.toNat) && decide (x.toNat ≤ 57)) ||
    (decide (65 ≤ x.toNat) && decide (x.toNat ≤ 90))) && nb.any (fun x => decide (65 ≤ x.toNat) && decide (x.toNat ≤ 90))

/-- the v2.3 / v2.4 loop of `read_frames`: frames in order of appearance and the data
left when the loop stops (padding).  `sizeOf` interprets the four size bytes. -/
def readFrames34 (sub : Hdr → Bytes → Except PyErr (List Val × Bytes)) (tbl : Table) (h : Hdr)
    (syncsafe : Bool) (data : Bytes) : Except PyErr (List Val × Bytes) :=
  if hlen : data.length < 10 then .ok ([], data)
  else
    let name := data.take 4
    if name.all (fun x => x == 0) then .ok ([], data)
    else
      let raw := (data.drop 4).take 4
      let size := if syncsafe then bpFromBytes 7 true raw else ofBE raw
      let flags := ofBE ((data.drop 8).take 2)
      let framedata := (data.drop 10).take size
      let rest := data.drop (10 + size)
      have : rest.length < data.length := by simp [rest]; omega
      let next := readFrames34 sub tbl h syncsafe rest
      if size = 0 then next
      else if !(name.all fun x => decide (x.toNat < 128)) then next
      else
        -- "someone writes 2.3 frames with 2.2 names"
        let name' : Option Bytes :=
          if name.getLast? = some 0 then
            match tbl.find name.dropLast with
            | some c22 => some (nameBytes c22.base)
            | none => none
          else some name
        match name'.bind tbl.find with
        | none => next
        | some cls =>
          match fromData sub h cls flags framedata with
          | .raised e => .error e
          | .compressed => .error .notImplemented
          | .junk | .unsupported => next
          | .frame vals =>
            match next with
            | .error e => .error e
            | .ok (fs, d) =>
              match upgradeName cls with
              | some n => .ok (.frame n vals :: fs, d)
              | none => .ok (fs, d)
termination_by data.length

/-- the v2.2 loop of `read_frames` (`>3s3s` headers, no flags) -/
def readFrames22 (sub : Hdr → Bytes → Except PyErr (List Val × Bytes)) (tbl : Table) (h : Hdr)
    (data : Bytes) : Except PyErr (List Val × Bytes) :=
  if hlen : data.length < 6 then .ok ([], data)
  else
    let name := data.take 3
    if name.all (fun x => x == 0) then .ok ([], data)
    else
      let size := ofBE ((data.drop 3).take 3)
      let framedata := (data.drop 6).take size
      let rest := data.drop (6 + size)
      have : rest.length < data.length := by simp [rest]; omega
      let next := readFrames22 sub tbl h rest
      if size = 0 then next
      else if !(name.all fun x => decide (x.toNat < 128)) then next
      else
        match tbl.find name with
        | none => next
        | some cls =>
          match fromData sub h cls 0 framedata with
          | .raised e => .error e
          | .compressed => .error .notImplemented
          | .junk | .unsupported => next
          | .frame vals =>
            match next with
            | .error e => .error e
            | .ok (fs, d) =>
              match upgradeName cls with
              | some n => .ok (.frame n vals :: fs, d)
              | none => .ok (fs, d)
termination_by data.length

/-- `read_frames(header, data, header.known_frames)` followed by `ID3Tags._add` of every
frame (v2.2 frames upgraded).  `tbl` holds `Frames` and `Frames_2_2`; names of length 4 are
looked up for v2.3/2.4 and names of length 3 for v2.2, so one table serves both. -/
def readFramesWith (sub : Hdr → Bytes → Except PyErr (List Val × Bytes)) (tbl : Table) (h : Hdr)
    (data : Bytes) : Except PyErr (List Val × Bytes) :=
  let data1 := if h.version < 4 ∧ h.unsynch then
      (match unsynchDecode data with
       | .ok d => d
       | .error _ => data)
    else data
  if h.version ≥ 4 then readFrames34 sub tbl h (determineBpi tbl data1) data1
  else if h.version = 3 then readFrames34 sub tbl h false data1
  else readFrames22 sub tbl h data1

/-! ## nesting: CHAP / CTOC sub-frames.  Every level of nesting strips at least a ten-byte
(six-byte) header, so `data.length + 1` levels always suffice; `.diverge` marks running out
of levels and is unreachable through `readTag` / `writeTag`. -/

def readTagN (tbl : Table) : Nat → Hdr → Bytes → Except PyErr (List Val × Bytes)
  | 0 => fun _ d => if d.isEmpty then .ok ([], []) else .error .diverge
  | n+1 => readFramesWith (readTagN tbl n) tbl

def writeTagN (tbl : Table) : Nat → Cfg → List Val → Except PyErr Bytes
  | 0 => fun _ fs => if fs.isEmpty then .ok [] else .error .diverge
  | n+1 => saveFrames (writeTagN tbl n) tbl

mutual
def Val.depth : Val → Nat
  | .frame _ vs => Val.depthList vs + 1
  | .list l => Val.depthList l
  | _ => 0
def Val.depthList : List Val → Nat
  | [] => 0
  | v :: vs => max (Val.depth v) (Val.depthList vs)
end

/-- `ID3Tags._read(header, data)` -/
def readTag (tbl : Table) (h : Hdr) (data : Bytes) : Except PyErr (List Val × Bytes) :=
  readTagN tbl (data.length + 1) h data

/-- `ID3Tags._write(config)` (frames in the given order) -/
def writeTag (tbl : Table) (cfg : Cfg) (fs : List Val) : Except PyErr Bytes :=
  writeTagN tbl (Val.depthList fs + 1) cfg fs

end Mutagen.Id3
