/-
Model/DictK.lean — C16 for the tag objects whose value rule depends on the key (MP4Tags: the
atom name picks the render function; Easy views: every registered key has its own handler).

* `KPolicy`: as `Policy` (Model/Dict.lean) but `coerce` sees the key *as given*; everything an
  object refuses only on `__setitem__` (MP4Tags: a key that is not `str`, not Latin-1, …) is an
  error of `coerce`, everything it refuses on every access is an error of `norm`.
* `KRef.*`: the reference dictionary operations that store a value (`set`, `update`,
  `setdefault`) for a `KPolicy`; the others are those of Model/Dict.lean (`Ref.*`) under the
  key half `KPolicy.keys` of the policy.
* `KRefines`, `KRefStep`, `KAccepts`: the vocabulary of the theorems (Props/C16_K.lean).
* Python values and keys richer than `Val` / `Text` (`Prim`, `Item`, `PVal`, `PKey`): tuples,
  bools, floats, covers, ASF attribute objects; keys that are not `str`.
-/
import MutagenModel.Model.Dict
set_option linter.unusedVariables false
namespace Mutagen.Dict
open Mutagen

/-! ### Python values and keys -/

/-- a Python scalar.  `float` is a decimal with three digits after the point (`float 3500` is
`3.5`): enough for the value universes of the harness, exact for comparisons. -/
inductive Prim
  | str (t : Text) | bytes (b : Bytes) | int (n : Int) | none | bool (b : Bool) | float (milli : Int)
deriving DecidableEq, Repr, Inhabited

/-- what a list handed to a tag object may hold: a scalar, a tuple of scalars, an `MP4Cover`
(bytes + image format), an ASF attribute object (`ty` = its `TYPE` number, `p` = its `.value`) -/
inductive Item
  | prim (p : Prim) | tuple (l : List Prim) | cover (b : Bytes) (fmt : Nat) | asf (ty : Nat) (p : Prim)
deriving DecidableEq, Repr, Inhabited

/-- a value handed to / returned by a tag object -/
inductive PVal
  | item (i : Item) | list (l : List Item)
deriving DecidableEq, Repr, Inhabited

/-- a key handed to a tag object: `str`, or one of the other things a caller may pass
(`list` is the unhashable one).  Tuples / lists of keys hold scalars other than `bool` and
`float` (whose `==` with `int` is not structural equality). -/
inductive PKey
  | str (t : Text) | int (n : Int) | none | bytes (b : Bytes) | tuple (l : List Prim) | list (l : List Prim)
deriving DecidableEq, Repr, Inhabited

def PKey.hashable : PKey → Bool
  | .list _ => false
  | _ => true

/-! ### key-dependent policy -/

/-- what an object documents about its keys and values, where the value rule depends on the
key.  `norm`: key → the key it is filed under, or the error *every* access with this key
raises.  `coerce k v` (`k` as given by the caller, consulted only when `norm k` succeeded):
the value stored and read back, `none` for "no values: the key is removed", or the error
`__setitem__` raises for this key / value. -/
structure KPolicy (K V : Type) where
  norm : K → Except PyErr K
  coerce : K → V → Except PyErr (Option V)

/-- the key half: what get / del / `in` / pop / keys see -/
def KPolicy.keys {K V : Type} (P : KPolicy K V) : Policy K V where
  norm := P.norm
  coerce v := .ok (some v)

namespace KRef
variable {K V : Type} [DecidableEq K] (P : KPolicy K V)

def set (r : RefDict K V) (k : K) (v : V) : Except PyErr (RefDict K V) :=
  match P.norm k with
  | .error e => .error e
  | .ok k' =>
    match P.coerce k v with
    | .error e => .error e
    | .ok (some v') => .ok (insert k' v' r)
    | .ok none => .ok (erase k' r)

def update : List (K × V) → RefDict K V → Except PyErr Unit × RefDict K V
  | [], r => (.ok (), r)
  | (k, v) :: l, r =>
    match set P r k v with
    | .ok r' => update l r'
    | .error e => (.error e, r)

def setdefault (r : RefDict K V) (k : K) (d : V) : Except PyErr V × RefDict K V :=
  match P.norm k with
  | .error e => (.error e, r)
  | .ok k' =>
    match lookup k' r with
    | some v => (.ok v, r)
    | none =>
      match P.coerce k d with
      | .error e => (.error e, r)
      | .ok (some v') => (.ok d, insert k' v' r)
      | .ok none => (.ok d, r)

def step (r : RefDict K V) : Op K V → Out K V × RefDict K V
  | .get k => (outOf .val (Ref.get P.keys r k), r)
  | .set k v =>
    match set P r k v with
    | .ok r' => (.unit, r')
    | .error e => (.err e, r)
  | .del k =>
    match Ref.del P.keys r k with
    | .ok r' => (.unit, r')
    | .error e => (.err e, r)
  | .contains k => (outOf .bool (Ref.contains P.keys r k), r)
  | .keys => (.keys (Ref.keys r), r)
  | .values => (.vals (Ref.values r), r)
  | .items => (.items (Ref.items r), r)
  | .len => (.nat (Ref.len r), r)
  | .clear => (.unit, Ref.clear r)
  | .pop k => (outOf .val (Ref.pop P.keys r k none).1, (Ref.pop P.keys r k none).2)
  | .popD k d => (outOf .val (Ref.pop P.keys r k (some d)).1, (Ref.pop P.keys r k (some d)).2)
  | .popitem => (outOf (fun p => .item p.1 p.2) (Ref.popitem r).1, (Ref.popitem r).2)
  | .update l => (outOf (fun _ => .unit) (update P l r).1, (update P l r).2)
  | .setdefault k d => (outOf .val (setdefault P r k d).1, (setdefault P r k d).2)
  | .getD k d => (outOf .val (Ref.getD P.keys r k d), r)

def run : List (Op K V) → RefDict K V → List (Out K V)
  | [], _ => []
  | op :: ops, r => (step P r op).1 :: run ops (step P r op).2

end KRef

section vocabK
variable {S K V : Type} [DecidableEq K]

/-- the four primitives of store `m` refine the reference dictionary with the key-dependent
policy `P` under `abs`, on the states satisfying `inv` (as `Refines`) -/
structure KRefines (m : MapImpl S K V) (P : KPolicy K V) (inv : S → Prop) (abs : S → RefDict K V) : Prop where
  nodup : ∀ s, inv s → NodupKeys (abs s)
  keys : ∀ s, inv s → (m.keys s).map P.norm = (keysOf (abs s)).map Except.ok
  get : ∀ s k, inv s → m.getitem s k = Ref.get P.keys (abs s) k
  set : ∀ s k v, inv s → SimStep inv abs (m.setitem s k v) (KRef.set P (abs s) k v)
  del : ∀ s k, inv s → SimStep inv abs (m.delitem s k) (Ref.del P.keys (abs s) k)

/-- as `RefStep`, for a key-dependent policy -/
def KRefStep (P : KPolicy K V) (r : RefDict K V) (op : Op K V) (o : Out K V) (r' : RefDict K V) : Prop :=
  match op with
  | .popitem =>
    (r = [] ∧ o = .err .key ∧ r' = r) ∨
    (∃ k k' v, o = .item k v ∧ P.norm k = .ok k' ∧ lookup k' r = some v ∧ r' = erase k' r)
  | op => OutEquiv P.keys o (KRef.step P r op).1 ∧ r' = (KRef.step P r op).2

/-- as `Accepts`, for a key-dependent policy -/
def KAccepts (P : KPolicy K V) : RefDict K V → List (Op K V) → List (Out K V) → Prop
  | _, [], [] => True
  | r, op :: ops, o :: os => ∃ r', KRefStep P r op o r' ∧ KAccepts P r' ops os
  | _, _, _ => False

/-- the operations a Python *list of pairs* (`ASFTags`, like `VCommentDict`) offers as a
dictionary: all but `pop`/`popitem` (`list.pop`) and `len` (number of values) -/
def Op.isPairListDict : Op K V → Bool
  | .pop _ => false | .popD _ _ => false | .popitem => false | .len => false
  | _ => true

end vocabK

end Mutagen.Dict
