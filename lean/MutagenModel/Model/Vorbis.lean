/-
Model/Vorbis.lean — the Vorbis comment header (Xiph "Ogg Vorbis I format specification:
comment field and header specification") at byte level: what VComment.write produces
(`encode`) and a strict decoder written from the specification (`decode`).  Keys and values
are byte strings here; UTF-8 is a separate layer.
-/
import MutagenModel.Model.IntCodec
set_option linter.unusedVariables false
namespace Mutagen.Vorbis
open Mutagen

def eqSign : UInt8 := 0x3D

def encodeComment (kv : Bytes × Bytes) : Bytes :=
  let c := kv.1 ++ [eqSign] ++ kv.2
  toLE 4 c.length ++ c

/-- VComment.write(framing) -/
def encode (vendor : Bytes) (cs : List (Bytes × Bytes)) (framing : Bool) : Bytes :=
  toLE 4 vendor.length ++ vendor ++ toLE 4 cs.length ++ (cs.map encodeComment).flatten ++
    (if framing then [1] else [])

/-- split a comment at its first '=' -/
def splitEq : Bytes → Option (Bytes × Bytes)
  | [] => none
  | b :: r => if b = eqSign then some ([], r) else (splitEq r).map fun (k, v) => (b :: k, v)

/-- read `n` length-prefixed comments -/
def decodeComments : Nat → Bytes → Option (List (Bytes × Bytes) × Bytes)
  | 0, d => some ([], d)
  | n + 1, d =>
    if d.length < 4 then none
    else
      let len := ofLE (d.take 4)
      let body := d.drop 4
      if body.length < len then none
      else match splitEq (body.take len) with
        | none => none
        | some kv => (decodeComments n (body.drop len)).map fun (rest, tail) => (kv :: rest, tail)

/-- strict decoder: vendor, comments; with `framing` the next byte must have bit 0 set -/
def decode (d : Bytes) (framing : Bool) : Option (Bytes × List (Bytes × Bytes)) :=
  if d.length < 4 then none
  else
    let vlen := ofLE (d.take 4)
    let r1 := d.drop 4
    if r1.length < vlen + 4 then none
    else
      let vendor := r1.take vlen
      let r2 := r1.drop vlen
      let count := ofLE (r2.take 4)
      match decodeComments count (r2.drop 4) with
      | none => none
      | some (cs, tail) =>
        if framing then
          match tail with
          | b :: _ => if b.toNat % 2 = 1 then some (vendor, cs) else none
          | [] => none
        else some (vendor, cs)

end Mutagen.Vorbis
