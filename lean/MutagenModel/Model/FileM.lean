/-
Model/FileM.lean — the effect language of the model.

A file object is the documented interface (docs/user/examples/fileobj-iface.py):
read / seek / tell / write / truncate / flush.  Programs over these six actions are the
only way a model touches a file.  The semantics is that of `io.BytesIO` plus a *fault
environment*: any call may raise, a read may return fewer bytes than asked for, and the
device may have a finite capacity (a write that would grow the file beyond it raises
ENOSPC after `leak` bytes of it have reached the file).  Effects survive an exception.
-/
import MutagenModel.Model.Basic
set_option linter.unusedVariables false
namespace Mutagen

inductive Op
  | seek (p : Nat) | seekEnd | tell | read (n : Nat) | write (n : Nat)
  | truncate (n : Nat) | flush
deriving DecidableEq, Repr, Inhabited

def Op.mutates : Op → Bool
  | .write _ => true | .truncate _ => true | _ => false

structure Env where
  /-- the exception raised by the `i`-th file-object call, if any -/
  failAt : Nat → Option PyErr := fun _ => none
  /-- upper bound on the bytes returned by the `i`-th call if it is a read -/
  shortAt : Nat → Option Nat := fun _ => none
  /-- device capacity (maximal file length) -/
  cap : Option Nat := none
  /-- how many bytes of a write of length `n` that hits ENOSPC still reach the file -/
  leak : Nat → Nat := fun _ => 0

/-- the fault-free environment -/
def Env.clean : Env := {}

structure FS where
  data : Bytes
  pos : Nat := 0
  /-- number of file-object calls made so far (the fault index) -/
  ops : Nat := 0
  /-- the calls made so far, newest first -/
  log : List Op := []
deriving Repr

abbrev FileM (α : Type) := Env → FS → Except PyErr α × FS

instance : Monad FileM where
  pure a := fun _ s => (.ok a, s)
  bind m f := fun e s => match m e s with
    | (.ok a, s') => f a e s'
    | (.error err, s') => (.error err, s')

@[simp] theorem pure_run (a : α) (e : Env) (s : FS) : (pure a : FileM α) e s = (.ok a, s) := rfl
@[simp] theorem bind_run (m : FileM α) (f : α → FileM β) (e : Env) (s : FS) :
    (m >>= f) e s = match m e s with
      | (.ok a, s') => f a e s' | (.error err, s') => (.error err, s') := rfl

def raise (err : PyErr) : FileM α := fun _ s => (.error err, s)
@[simp] theorem raise_run (err : PyErr) (e : Env) (s : FS) :
    (raise err : FileM α) e s = (.error err, s) := rfl

/-- `try: body except <pred> as x: handler x` — the handler's own exception replaces
the caught one; `handler` normally ends in `raise x` or returns. -/
def tryCatch (body : FileM α) (pred : PyErr → Bool) (handler : PyErr → FileM α) : FileM α :=
  fun e s => match body e s with
    | (.ok a, s') => (.ok a, s')
    | (.error err, s') => if pred err then handler err e s' else (.error err, s')

/-- `try: body finally: fin` -/
def tryFinally (body : FileM α) (fin : FileM Unit) : FileM α :=
  fun e s => match body e s with
    | (.ok a, s') => (match fin e s' with
        | (.ok _, s'') => (.ok a, s'')
        | (.error err, s'') => (.error err, s''))
    | (.error err, s') => (match fin e s' with
        | (.ok _, s'') => (.error err, s'')
        | (.error err2, s'') => (.error err2, s''))

/-- every file-object call is counted, logged and may fail there -/
def tick (o : Op) : FileM Unit := fun e s =>
  let s' := { s with ops := s.ops + 1, log := o :: s.log }
  match e.failAt s.ops with
  | some err => (.error err, s')
  | none => (.ok (), s')

def fseek (p : Nat) : FileM Unit := do
  tick (.seek p); fun _ s => (.ok (), { s with pos := p })

def fseekEnd : FileM Unit := do
  tick .seekEnd; fun _ s => (.ok (), { s with pos := s.data.length })

def ftell : FileM Nat := do
  tick .tell; fun _ s => (.ok s.pos, s)

def fflush : FileM Unit := tick .flush

/-- `read(n)`; the short-read bound of this call index is looked up before the tick -/
def fread (n : Nat) : FileM Bytes := fun e s =>
  let lim := match e.shortAt s.ops with | some k => min k n | none => n
  match tick (.read n) e s with
  | (.error err, s') => (.error err, s')
  | (.ok (), s') =>
    let r := readAt s'.data s'.pos lim
    (.ok r, { s' with pos := s'.pos + r.length })

/-- bytes of the file after writing `b` at `pos` (zero fill if `pos` is past the end) -/
def writeData (d : Bytes) (pos : Nat) (b : Bytes) : Bytes :=
  let base := d ++ zeros (pos - d.length)
  base.take pos ++ b ++ base.drop (pos + b.length)

def fwrite (b : Bytes) : FileM Unit := fun e s =>
  match tick (.write b.length) e s with
  | (.error err, s') => (.error err, s')
  | (.ok (), s') =>
    let full := writeData s'.data s'.pos b
    let fits := match e.cap with
      | none => true
      | some c => decide (full.length ≤ c) || decide (full.length ≤ s'.data.length)
    if fits then (.ok (), { s' with data := full, pos := s'.pos + b.length })
    else
      let c := e.cap.getD 0
      let room := c - max s'.pos s'.data.length
      -- bytes that still fit without growing beyond the capacity
      let inplace := s'.data.length - s'.pos
      let k := min (e.leak b.length) (inplace + room)
      (.error .enospc, { s' with data := writeData s'.data s'.pos (b.take k), pos := s'.pos + k })

/-- `truncate(n)` for `n ≤ size` (mutagen never extends with truncate) -/
def ftruncate (n : Nat) : FileM Unit := do
  tick (.truncate n); fun _ s => (.ok (), { s with data := s.data.take n })

/-- run a program on a byte string in an environment -/
def runOn (m : FileM α) (e : Env) (d : Bytes) : Except PyErr α × FS := m e { data := d }

end Mutagen

namespace Mutagen

/-- `@convert_error(exc_src, exc_dest)`: exceptions of class `src` leave as `dst` (the state
effects stay) -/
def convertError (src : PyErr → Bool) (dst : PyErr) (m : FileM α) : FileM α :=
  fun e s => match m e s with
    | (.ok a, s') => (.ok a, s')
    | (.error err, s') => if src err then (.error dst, s') else (.error err, s')

end Mutagen
