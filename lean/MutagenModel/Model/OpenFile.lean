/-
Model/OpenFile.lean — mutagen/_util.py loadfile / _openfile: how the first argument (or the
filename= / fileobj= keywords) is turned into the file the decorated function works on, who
opened it and who closes it.
-/
import MutagenModel.Model.Basic
namespace Mutagen.OpenFile
open Mutagen

/-- what the caller passed as `filething` -/
inductive Thing
  | none
  | path (p : String)            -- str or bytes
  | pathLike (p : Option String) -- os.PathLike; `none` = __fspath__() returned a non-path
  | fileobj (id : Nat) (readable writable : Bool)   -- any other object: treated as a file object
  | fileThing (filename : Option String) (obj : Nat) -- a FileThing passed through by a stacked call
deriving DecidableEq, Repr

structure Args where
  filething : Thing := .none
  filenameKw : Option String := none
  fileobjKw : Option (Nat × Bool × Bool) := none     -- (id, readable, writable)
  instanceFilename : Option String := none           -- instance.filename (methods only)
  isMethod : Bool := true
  writable : Bool := false
  create : Bool := false
deriving Repr

/-- what `_openfile` ends up doing -/
inductive Plan
  /-- work on the caller's object `id`; never closed by mutagen -/
  | useCaller (id : Nat) (name : Option String)
  /-- open `path` with `mode` (create if missing when `create`), close it when done -/
  | openPath (path : String) (mode : String) (create : Bool)
deriving DecidableEq, Repr

def Plan.closes : Plan → Bool
  | .useCaller _ _ => false
  | .openPath _ _ _ => true

/-- `_openfile(instance, filething, filename, fileobj, writable, create)` up to the yield -/
def resolve (a : Args) : Except PyErr Plan :=
  -- FileThing passes through; otherwise classify the positional argument
  let (filename, fileobj) : Option String × Option (Nat × Bool × Bool) :=
    match a.filething with
    | .fileThing fn obj => (fn, some (obj, true, true))
    | .none => (a.filenameKw, a.fileobjKw)
    | .fileobj id r w => (a.filenameKw, some (id, r, w))
    | .pathLike (some p) => (some p, a.fileobjKw)
    | .pathLike none => (none, none)     -- handled below as TypeError
    | .path p => (some p, a.fileobjKw)
  if a.filething = .pathLike none then .error .type_
  else
    -- a writable method call without a filename falls back to instance.filename
    let filename := match filename with
      | some f => some f
      | none => if a.isMethod && a.writable then a.instanceFilename else none
    match fileobj with
    | some (id, readable, writable) =>
      -- verify_fileobj: read(0) must work, write(b"") too when writable is required
      if !readable then .error .value
      else if a.writable && !writable then .error .value
      else .ok (.useCaller id filename)
    | none =>
      match filename with
      | some f => .ok (.openPath f (if a.writable then "rb+" else "rb") a.create)
      | none => .error .type_

end Mutagen.OpenFile
