/-
Model/OpenFile.lean — mutagen/_util.py loadfile / _openfile: how the first argument (or the
filename= / fileobj= keywords) is turned into the file the decorated function works on, who
opened it and who closes it.
-/
import MutagenModel.Model.Basic
namespace Mutagen.OpenFile
open Mutagen

/-- what the caller passed as `filething` -/
inductive Thing
  | none
  | path (p : String)            -- str or bytes
  | pathLike (p : Option String) -- os.PathLike; `none` = __fspath__() returned a non-path
  | fileobj (id : Nat) (readable writable : Bool)   -- any other object: treated as a file object
  | fileThing (filename : Option String) (obj : Nat) -- a FileThing passed through by a stacked call
deriving DecidableEq, Repr

/-- a value given as `filename=`: a str/bytes path or an os.PathLike (`none` = __fspath__()
returned a non-path) -/
inductive PathArg
  | plain (p : String)
  | pathLike (p : Option String)
deriving DecidableEq, Repr

/-- `__fspath__()` applied where the object has it -/
def PathArg.fspath : PathArg → Except PyErr String
  | .plain p => .ok p
  | .pathLike (some p) => .ok p
  | .pathLike none => .error .type_

structure Args where
  filething : Thing := .none
  filenameKw : Option PathArg := none
  fileobjKw : Option (Nat × Bool × Bool) := none     -- (id, readable, writable)
  instanceFilename : Option String := none           -- instance.filename (methods only)
  isMethod : Bool := true
  writable : Bool := false
  create : Bool := false
deriving Repr

/-- what `_openfile` ends up doing -/
inductive Plan
  /-- work on the caller's object `id`; never closed by mutagen -/
  | useCaller (id : Nat) (name : Option String)
  /-- open `path` with `mode` (create if missing when `create`), close it when done -/
  | openPath (path : String) (mode : String) (create : Bool)
deriving DecidableEq, Repr

def Plan.closes : Plan → Bool
  | .useCaller _ _ => false
  | .openPath _ _ _ => true

/-- `_openfile(instance, filething, filename, fileobj, writable, create)` up to the yield -/
def resolve (a : Args) : Except PyErr Plan :=
  -- FileThing passes through; otherwise classify the positional argument
  let (filename, fileobj) : Option PathArg × Option (Nat × Bool × Bool) :=
    match a.filething with
    | .fileThing fn obj => (fn.map .plain, some (obj, true, true))
    | .none => (a.filenameKw, a.fileobjKw)
    | .fileobj id r w => (a.filenameKw, some (id, r, w))
    | .pathLike p => (some (.pathLike p), a.fileobjKw)
    | .path p => (some (.plain p), a.fileobjKw)
  -- the name, positional or keyword, goes through __fspath__() when it has one
  match (match filename with
         | some pa => pa.fspath.map some
         | none => .ok none : Except PyErr (Option String)) with
  | .error e => .error e
  | .ok filename =>
    -- a writable method call without a filename falls back to instance.filename
    let filename := match filename with
      | some f => some f
      | none => if a.isMethod && a.writable then a.instanceFilename else none
    match fileobj with
    | some (id, readable, writable) =>
      -- verify_fileobj: read(0) must work, write(b"") too when writable is required
      if !readable then .error .value
      else if a.writable && !writable then .error .value
      else .ok (.useCaller id filename)
    | none =>
      match filename with
      | some f => .ok (.openPath f (if a.writable then "rb+" else "rb") a.create)
      | none => .error .type_

end Mutagen.OpenFile
