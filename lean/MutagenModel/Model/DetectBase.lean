/-
Model/DetectBase.lean — vocabulary of the type-detection model (mutagen/_file.py File and
the K.score functions): the atomic observations a score function makes.
-/
import MutagenModel.Model.Basic
namespace Mutagen.Detect
open Mutagen

/-- what a `score` function can observe -/
inductive Atom
  | starts (c : Bytes)                 -- header.startswith(c)
  | contains (c : Bytes)               -- c in header
  | sliceEq (lo hi : Nat) (c : Bytes)  -- header[lo:hi] == c
  | extCI (s : String)                 -- endswith(filename.lower(), s)
  | extCS (s : String)                 -- endswith(filename, s)
  | trailerHas (c : Bytes)             -- c in (last trailerWindow bytes)
  | trailerIOError                     -- reading the trailer raised IOError
deriving DecidableEq, Repr

/-- Python bool -> int -/
def b (x : Bool) : Int := if x then 1 else 0
/-- Python `x or y` / `x and y` on ints -/
def pyOr (x y : Int) : Int := if x ≠ 0 then x else y
def pyAnd (x y : Int) : Int := if x ≠ 0 then y else x

def isPrefix : Bytes → Bytes → Bool
  | [], _ => true
  | _ :: _, [] => false
  | a :: as, x :: xs => a == x && isPrefix as xs

def isInfix (c : Bytes) : Bytes → Bool
  | [] => c.isEmpty
  | x :: xs => isPrefix c (x :: xs) || isInfix c xs

def lowerAscii (s : String) : String := s.map fun ch => if 'A' ≤ ch ∧ ch ≤ 'Z' then Char.ofNat (ch.toNat + 32) else ch

def strEndsWith (s suffix : String) : Bool :=
  let a := s.toList; let z := suffix.toList
  z.length ≤ a.length && a.drop (a.length - z.length) == z

/-- the atoms evaluated on concrete observations: the first `headerWindow` bytes, the file
name (ASCII case folding), the last `trailerWindow` bytes -/
def evalAtom (header : Bytes) (name : String) (trailer : Bytes) (ioerr : Bool) : Atom → Bool
  | .starts c => isPrefix c header
  | .contains c => isInfix c header
  | .sliceEq lo hi c => (header.drop lo).take (hi - lo) == c
  | .extCI s => strEndsWith (lowerAscii name) s
  | .extCS s => strEndsWith name s
  | .trailerHas c => isInfix c trailer
  | .trailerIOError => ioerr

end Mutagen.Detect
