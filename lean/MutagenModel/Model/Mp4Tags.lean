/-
Model/Mp4Tags.lean — the items of an MP4 `ilst` atom at byte level (Apple "QuickTime File Format:
Metadata", iTunes conventions): what MP4Tags._render writes (`encodeItem`, `encodeFreeform`,
`renderInt`, `renderPair`) and a strict decoder written from the atom layout
(size, name, then `data` atoms: 1-byte version, 3-byte type, 4-byte locale, payload).
Atom sizes below 2^32 (Atom.render switches to 64-bit sizes above; not modelled).
-/
import MutagenModel.Model.IntCodec
set_option linter.unusedVariables false
namespace Mutagen.Mp4Tags
open Mutagen

/-- one `data` atom: version (1 byte), type flags (3 bytes), payload; the locale is always 0 -/
structure Data where
  version : Nat
  flags : Nat
  payload : Bytes
deriving DecidableEq, Repr

def dataName : Bytes := [0x64, 0x61, 0x74, 0x61]   -- "data"
def meanName : Bytes := [0x6D, 0x65, 0x61, 0x6E]   -- "mean"
def nameName : Bytes := [0x6E, 0x61, 0x6D, 0x65]   -- "name"
def freeformName : Bytes := [0x2D, 0x2D, 0x2D, 0x2D]   -- "----"

/-- Atom.render(name, body) for len(body) + 8 <= 0xFFFFFFFF -/
def renderAtom (name body : Bytes) : Bytes := toBE 4 (body.length + 8) ++ name ++ body

/-- Atom.render(b"data", struct.pack(">2I", version << 24 | flags, 0) + payload) -/
def encodeData (d : Data) : Bytes :=
  renderAtom dataName (toBE 4 (d.version * 16777216 + d.flags) ++ toBE 4 0 ++ d.payload)

/-- MP4Tags.__render_data: the item atom holding one `data` atom per value -/
def encodeItem (name : Bytes) (ds : List Data) : Bytes := renderAtom name (ds.map encodeData).flatten

/-- MP4Tags.__render_freeform: `----` with `mean`, `name` (4 zero bytes of version/flags each) and the values -/
def encodeFreeform (mean name : Bytes) (ds : List Data) : Bytes :=
  renderAtom freeformName (renderAtom meanName (toBE 4 0 ++ mean) ++ renderAtom nameName (toBE 4 0 ++ name) ++
    (ds.map encodeData).flatten)

/-! ## strict decoder -/

/-- split one atom off the front: (name, body, rest) -/
def splitAtom (d : Bytes) : Option (Bytes × Bytes × Bytes) :=
  if d.length < 8 then none
  else
    let size := ofBE (d.take 4)
    if size < 8 ∨ d.length < size then none
    else some ((d.drop 4).take 4, (d.take size).drop 8, d.drop size)

/-- a `data` atom body: version/type word, locale (must be 0), payload -/
def decodeDataBody (b : Bytes) : Option Data :=
  if b.length < 8 then none
  else if ofBE ((b.drop 4).take 4) ≠ 0 then none
  else
    let vf := ofBE (b.take 4)
    some { version := vf / 16777216, flags := vf % 16777216, payload := b.drop 8 }

/-- the `data` atoms filling a byte string exactly (fuel: every atom consumes at least 8 bytes) -/
def decodeDatas : Nat → Bytes → Option (List Data)
  | _, [] => some []
  | 0, _ :: _ => none
  | n + 1, d =>
    match splitAtom d with
    | none => none
    | some (name, body, rest) =>
      if name ≠ dataName then none
      else match decodeDataBody body, decodeDatas n rest with
        | some x, some r => some (x :: r)
        | _, _ => none

/-- one item atom off the front of an ilst payload: (name, values, rest) -/
def decodeItem (d : Bytes) : Option (Bytes × List Data × Bytes) :=
  match splitAtom d with
  | none => none
  | some (name, body, rest) => (decodeDatas body.length body).map fun ds => (name, ds, rest)

/-- a freeform item: (mean, name, values, rest) -/
def decodeFreeform (d : Bytes) : Option (Bytes × Bytes × List Data × Bytes) :=
  match splitAtom d with
  | none => none
  | some (n0, body, rest) =>
    if n0 ≠ freeformName then none
    else match splitAtom body with
      | none => none
      | some (n1, mean, r1) =>
        if n1 ≠ meanName ∨ mean.take 4 ≠ toBE 4 0 ∨ mean.length < 4 then none
        else match splitAtom r1 with
          | none => none
          | some (n2, nm, r2) =>
            if n2 ≠ nameName ∨ nm.take 4 ≠ toBE 4 0 ∨ nm.length < 4 then none
            else (decodeDatas r2.length r2).map fun ds => (mean.drop 4, nm.drop 4, ds, rest)

/-! ## typed payloads -/

def toSignedBE (w : Nat) (i : Int) : Bytes := (toSignedLE w i).reverse
def ofSignedBE (b : Bytes) : Int := ofSignedLE b.reverse

/-- MP4Tags.__render_integer: the smallest of 1/2/4/8 bytes that holds `v` and is at least `minBytes` -/
def intWidth (v : Int) (minBytes : Nat) : Option Nat :=
  if -128 ≤ v ∧ v ≤ 127 ∧ minBytes ≤ 1 then some 1
  else if -32768 ≤ v ∧ v ≤ 32767 ∧ minBytes ≤ 2 then some 2
  else if -2147483648 ≤ v ∧ v ≤ 2147483647 ∧ minBytes ≤ 4 then some 4
  else if -9223372036854775808 ≤ v ∧ v ≤ 9223372036854775807 ∧ minBytes ≤ 8 then some 8
  else none

/-- `none` = MP4MetadataValueError("value out of range") -/
def renderInt (v : Int) (minBytes : Nat) : Option Bytes := (intWidth v minBytes).map fun w => toSignedBE w v

/-- MP4Tags.__parse_integer: signed big-endian of 1, 2, 3, 4 or 8 bytes -/
def parseInt (b : Bytes) : Option Int :=
  if b.length = 1 ∨ b.length = 2 ∨ b.length = 3 ∨ b.length = 4 ∨ b.length = 8 then some (ofSignedBE b) else none

/-- `trkn`: struct.pack(">4H", 0, track, total, 0); `disk`: struct.pack(">3H", 0, track, total) -/
def renderPair (track total : Nat) (trailing : Bool) : Bytes :=
  toBE 2 0 ++ toBE 2 track ++ toBE 2 total ++ (if trailing then toBE 2 0 else [])

/-- MP4Tags.__parse_pair: struct.unpack(">2H", d[2:6]) -/
def parsePair (d : Bytes) : Option (Nat × Nat) :=
  if d.length < 6 then none else some (ofBE ((d.drop 2).take 2), ofBE ((d.drop 4).take 2))

end Mutagen.Mp4Tags
