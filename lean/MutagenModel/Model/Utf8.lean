/-
Model/Utf8.lean — strict UTF-8 (RFC 3629: no overlong forms, no surrogates, nothing above
U+10FFFF), the encoding of Vorbis comment, APEv2 and MP4 text and of ID3 encoding 3.
Text is a list of Unicode scalar values.
-/
import MutagenModel.Model.Basic
namespace Mutagen.Utf8
open Mutagen

/-- Unicode scalar value -/
def Scalar (c : Nat) : Prop := c < 0x110000 ∧ ¬ (0xD800 ≤ c ∧ c < 0xE000)
instance (c : Nat) : Decidable (Scalar c) := by unfold Scalar; exact inferInstance

def b (n : Nat) : UInt8 := UInt8.ofNat n

def utf8Enc1 (c : Nat) : Bytes :=
  if c < 0x80 then [b c]
  else if c < 0x800 then [b (0xC0 + c / 64), b (0x80 + c % 64)]
  else if c < 0x10000 then [b (0xE0 + c / 4096), b (0x80 + c / 64 % 64), b (0x80 + c % 64)]
  else [b (0xF0 + c / 262144), b (0x80 + c / 4096 % 64), b (0x80 + c / 64 % 64), b (0x80 + c % 64)]

def isCont (x : UInt8) : Bool := 0x80 ≤ x.toNat && x.toNat < 0xC0

/-- strict decoder of one scalar (rejects overlong forms, surrogates, > 10FFFF), like CPython's -/
def utf8Dec1 : Bytes → Option (Nat × Bytes)
  | [] => none
  | x :: r =>
    let a := x.toNat
    if a < 0x80 then some (a, r)
    else if a < 0xC2 then none
    else if a < 0xE0 then
      match r with
      | y :: r' => if isCont y then some ((a - 0xC0) * 64 + (y.toNat - 0x80), r') else none
      | _ => none
    else if a < 0xF0 then
      match r with
      | y :: z :: r' =>
        if isCont y && isCont z then
          let c := (a - 0xE0) * 4096 + (y.toNat - 0x80) * 64 + (z.toNat - 0x80)
          if c < 0x800 ∨ (0xD800 ≤ c ∧ c < 0xE000) then none else some (c, r')
        else none
      | _ => none
    else if a < 0xF5 then
      match r with
      | y :: z :: w :: r' =>
        if isCont y && isCont z && isCont w then
          let c := (a - 0xF0) * 262144 + (y.toNat - 0x80) * 4096 + (z.toNat - 0x80) * 64 + (w.toNat - 0x80)
          if c < 0x10000 ∨ c ≥ 0x110000 then none else some (c, r')
        else none
      | _ => none
    else none


def encode (cs : List Nat) : Bytes := (cs.map utf8Enc1).flatten

/-- decode a whole byte string (fuel = its length: every scalar consumes at least one byte) -/
def decodeFuel : Nat → Bytes → Option (List Nat)
  | _, [] => some []
  | 0, _ :: _ => none
  | n + 1, d =>
    match utf8Dec1 d with
    | none => none
    | some (c, rest) => (decodeFuel n rest).map (c :: ·)

def decode (d : Bytes) : Option (List Nat) := decodeFuel d.length d

end Mutagen.Utf8
