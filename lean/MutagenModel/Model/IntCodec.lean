/- Model/IntCodec.lean — fixed-width integer codecs (struct.pack '<'/'>' unsigned and signed). -/
import MutagenModel.Model.Basic
namespace Mutagen

/-- little-endian digits, fixed width -/
def toLE : Nat → Nat → Bytes
  | 0, _ => []
  | w+1, n => UInt8.ofNat (n % 256) :: toLE w (n / 256)

def ofLE : Bytes → Nat
  | [] => 0
  | b :: r => b.toNat + 256 * ofLE r

def toBE (w n : Nat) : Bytes := (toLE w n).reverse
def ofBE (b : Bytes) : Nat := ofLE b.reverse

/-- two's complement of width `w` bytes -/
def toSignedLE (w : Nat) (i : Int) : Bytes :=
  toLE w (if i < 0 then (256 ^ w - (-i).toNat) else i.toNat)

def ofSignedLE (b : Bytes) : Int :=
  let n := ofLE b
  if 2 * n ≥ 256 ^ b.length then (n : Int) - (256 ^ b.length : Nat) else n

end Mutagen
