/-
Model/DictEasyId3.lean — `EasyID3` (mutagen/easyid3.py) as a dictionary over an `ID3` (property C16).

`EasyID3(DictMixin, Metadata)` owns an `ID3` (`self.__id3`; here the state itself: `Id3`, a
dict HashKey → frame with just the frames the handlers make) and the class-level registries
`Get` / `Set` / `Delete` / `List`.  `__getitem__` / `__setitem__` / `__delitem__`:

    (set only) if isinstance(value, str): value = [value]
    if not isinstance(key, str): raise EasyID3KeyError            # a KeyError
    func = dict_match(self.<Registry>, key.lower(), self.<X>Fallback)   # exact, else fnmatch patterns
    if func is None: raise EasyID3KeyError
    return func(self.__id3, key[, value])                         # the key AS TYPED

`keys()`: for every key of `Get`, in registration order: the lister's keys if the key has one
(`performer:*`, `replaygain_*_gain`), else the key itself if `key in self`.

The handlers are the closures of `RegisterTextKey` / `RegisterTXXXKey` and the module-level
functions genre / date / originaldate / performer / musicbrainz_trackid / website / gain /
peak; they work through `ID3.__getitem__`, `add` (strict: `self[frame.HashKey] = frame`),
`getall`, `delall`, `__delitem__`, and through assignments to frame attributes (validated by
the frame's specs).  `easyId3Registry` is the registry as /repo fills it at import time
(compared with the live class by the harness: `dictx table=easyid3`).

DOMAIN.  Values: a `str` or a list whose items are `str`; for `musicbrainz_trackid` and the
gain key also the non-`str` items that raise `AttributeError`.  Genre strings: names that
`TCON.genres` returns unchanged (not empty, not starting with `(`, no line feed, not all
digits, not `CR` / `RX`).  Dates: `YYYY[-MM[-DD[(T| )HH[:MM[:SS]]]]]`.  Gain / peak numbers:
plain decimals with at most six digits after the point, below 10^9, not a negative zero —
held as integers in units of 10^-6, for which `float()`, the range checks of the RVA2 specs
and `%f` are exact.  Everything else is answered `PyErr.notImplemented` ("outside the
model"), never a guess.  `str.lower()`: as `pyLower` (Model/DictEasyMp4.lean).

A `__setitem__` that raises may leave the native tags changed (a fresh, empty RVA2 frame):
`easyId3SetResidue`.
-/
import MutagenModel.Model.DictEasyMp4
set_option linter.unusedVariables false
namespace Mutagen.Dict
open Mutagen

/-! ### the native tags -/

/-- an ID3 frame as far as the Easy handlers make them (the frame id / description is in the
HashKey it is filed under) -/
inductive IFrame
  | text (enc : Nat) (text : List Text)               -- TextFrame family, TCON, TXXX
  | stamps (enc : Nat) (text : List Text)             -- TDRC / TDOR: the `.text` of every ID3TimeStamp
  | tmcl (enc : Nat) (people : List (Text × Text))
  | ufid (owner : Text) (data : Bytes)
  | woar (url : Text)
  | rva2 (desc : Text) (channel : Nat) (gain : Int) (peak : Int)   -- gain, peak in 10^-6
deriving DecidableEq, Repr, Inhabited

/-- `ID3`: HashKey → frame (a `DictProxy`) -/
abbrev Id3 := RefDict Text IFrame

/-- `s.startswith(p)` -/
def startsWith (p s : Text) : Bool := s.take p.length == p

/-- `ID3.getall(fid)` when no frame is filed under `fid` itself: the frames whose HashKey starts
with `fid + ":"`, in dict order -/
def getallPrefix (pre : Text) (s : Id3) : List (Text × IFrame) := s.filter (fun p => startsWith pre p.1)

/-- `ID3.delall(fid)` (same proviso) -/
def delallPrefix (pre : Text) (s : Id3) : Id3 := s.filter (fun p => !startsWith pre p.1)

def kTMCL : Text := [84, 77, 67, 76]
def kTCON : Text := [84, 67, 79, 78]
def kUFID : Text := [85, 70, 73, 68, 58, 104, 116, 116, 112, 58, 47, 47, 109, 117, 115, 105, 99, 98, 114, 97, 105, 110, 122, 46, 111, 114, 103]
def mbOwner : Text := kUFID.drop 5
def pWOAR : Text := [87, 79, 65, 82, 58]
def pRVA2 : Text := [82, 86, 65, 50, 58]
def pTXXX : Text := [84, 88, 88, 88, 58]
def pPerformer : Text := [112, 101, 114, 102, 111, 114, 109, 101, 114, 58]
def pReplaygain : Text := [114, 101, 112, 108, 97, 121, 103, 97, 105, 110, 95]
def sGain : Text := [95, 103, 97, 105, 110]
def sPeak : Text := [95, 112, 101, 97, 107]

/-! ### the registry -/

inductive EIKind
  | text (fid : Text) | txxx (desc : Text) | genre | date (fid : Text) | performer | trackid | website | gain | peak
deriving DecidableEq, Repr, Inhabited

structure EIEntry where
  key : Text
  kind : EIKind
deriving DecidableEq, Repr, Inhabited

/-- `EasyID3.Get` (`Set`, `Delete` have the same keys and the matching functions) in dict order -/
def easyId3Registry : List EIEntry :=
  [
   ⟨[97, 108, 98, 117, 109], .text [84, 65, 76, 66]⟩,
   ⟨[98, 112, 109], .text [84, 66, 80, 77]⟩,
   ⟨[99, 111, 109, 112, 105, 108, 97, 116, 105, 111, 110], .text [84, 67, 77, 80]⟩,
   ⟨[99, 111, 109, 112, 111, 115, 101, 114], .text [84, 67, 79, 77]⟩,
   ⟨[99, 111, 112, 121, 114, 105, 103, 104, 116], .text [84, 67, 79, 80]⟩,
   ⟨[101, 110, 99, 111, 100, 101, 100, 98, 121], .text [84, 69, 78, 67]⟩,
   ⟨[108, 121, 114, 105, 99, 105, 115, 116], .text [84, 69, 88, 84]⟩,
   ⟨[108, 101, 110, 103, 116, 104], .text [84, 76, 69, 78]⟩,
   ⟨[109, 101, 100, 105, 97], .text [84, 77, 69, 68]⟩,
   ⟨[109, 111, 111, 100], .text [84, 77, 79, 79]⟩,
   ⟨[103, 114, 111, 117, 112, 105, 110, 103], .text [84, 73, 84, 49]⟩,
   ⟨[116, 105, 116, 108, 101], .text [84, 73, 84, 50]⟩,
   ⟨[118, 101, 114, 115, 105, 111, 110], .text [84, 73, 84, 51]⟩,
   ⟨[97, 114, 116, 105, 115, 116], .text [84, 80, 69, 49]⟩,
   ⟨[97, 108, 98, 117, 109, 97, 114, 116, 105, 115, 116], .text [84, 80, 69, 50]⟩,
   ⟨[99, 111, 110, 100, 117, 99, 116, 111, 114], .text [84, 80, 69, 51]⟩,
   ⟨[97, 114, 114, 97, 110, 103, 101, 114], .text [84, 80, 69, 52]⟩,
   ⟨[100, 105, 115, 99, 110, 117, 109, 98, 101, 114], .text [84, 80, 79, 83]⟩,
   ⟨[111, 114, 103, 97, 110, 105, 122, 97, 116, 105, 111, 110], .text [84, 80, 85, 66]⟩,
   ⟨[116, 114, 97, 99, 107, 110, 117, 109, 98, 101, 114], .text [84, 82, 67, 75]⟩,
   ⟨[97, 117, 116, 104, 111, 114], .text [84, 79, 76, 89]⟩,
   ⟨[97, 108, 98, 117, 109, 97, 114, 116, 105, 115, 116, 115, 111, 114, 116], .txxx [65, 76, 66, 85, 77, 65, 82, 84, 73, 83, 84, 83, 79, 82, 84]⟩,
   ⟨[97, 108, 98, 117, 109, 115, 111, 114, 116], .text [84, 83, 79, 65]⟩,
   ⟨[99, 111, 109, 112, 111, 115, 101, 114, 115, 111, 114, 116], .text [84, 83, 79, 67]⟩,
   ⟨[97, 114, 116, 105, 115, 116, 115, 111, 114, 116], .text [84, 83, 79, 80]⟩,
   ⟨[116, 105, 116, 108, 101, 115, 111, 114, 116], .text [84, 83, 79, 84]⟩,
   ⟨[105, 115, 114, 99], .text [84, 83, 82, 67]⟩,
   ⟨[100, 105, 115, 99, 115, 117, 98, 116, 105, 116, 108, 101], .text [84, 83, 83, 84]⟩,
   ⟨[108, 97, 110, 103, 117, 97, 103, 101], .text [84, 76, 65, 78]⟩,
   ⟨[103, 101, 110, 114, 101], .genre⟩,
   ⟨[100, 97, 116, 101], .date [84, 68, 82, 67]⟩,
   ⟨[111, 114, 105, 103, 105, 110, 97, 108, 100, 97, 116, 101], .date [84, 68, 79, 82]⟩,
   ⟨[112, 101, 114, 102, 111, 114, 109, 101, 114, 58, 42], .performer⟩,
   ⟨[109, 117, 115, 105, 99, 98, 114, 97, 105, 110, 122, 95, 116, 114, 97, 99, 107, 105, 100], .trackid⟩,
   ⟨[119, 101, 98, 115, 105, 116, 101], .website⟩,
   ⟨[114, 101, 112, 108, 97, 121, 103, 97, 105, 110, 95, 42, 95, 103, 97, 105, 110], .gain⟩,
   ⟨[114, 101, 112, 108, 97, 121, 103, 97, 105, 110, 95, 42, 95, 112, 101, 97, 107], .peak⟩,
   ⟨[109, 117, 115, 105, 99, 98, 114, 97, 105, 110, 122, 95, 97, 114, 116, 105, 115, 116, 105, 100], .txxx [77, 117, 115, 105, 99, 66, 114, 97, 105, 110, 122, 32, 65, 114, 116, 105, 115, 116, 32, 73, 100]⟩,
   ⟨[109, 117, 115, 105, 99, 98, 114, 97, 105, 110, 122, 95, 97, 108, 98, 117, 109, 105, 100], .txxx [77, 117, 115, 105, 99, 66, 114, 97, 105, 110, 122, 32, 65, 108, 98, 117, 109, 32, 73, 100]⟩,
   ⟨[109, 117, 115, 105, 99, 98, 114, 97, 105, 110, 122, 95, 97, 108, 98, 117, 109, 97, 114, 116, 105, 115, 116, 105, 100], .txxx [77, 117, 115, 105, 99, 66, 114, 97, 105, 110, 122, 32, 65, 108, 98, 117, 109, 32, 65, 114, 116, 105, 115, 116, 32, 73, 100]⟩,
   ⟨[109, 117, 115, 105, 99, 98, 114, 97, 105, 110, 122, 95, 116, 114, 109, 105, 100], .txxx [77, 117, 115, 105, 99, 66, 114, 97, 105, 110, 122, 32, 84, 82, 77, 32, 73, 100]⟩,
   ⟨[109, 117, 115, 105, 99, 105, 112, 95, 112, 117, 105, 100], .txxx [77, 117, 115, 105, 99, 73, 80, 32, 80, 85, 73, 68]⟩,
   ⟨[109, 117, 115, 105, 99, 105, 112, 95, 102, 105, 110, 103, 101, 114, 112, 114, 105, 110, 116], .txxx [77, 117, 115, 105, 99, 77, 97, 103, 105, 99, 32, 70, 105, 110, 103, 101, 114, 112, 114, 105, 110, 116]⟩,
   ⟨[109, 117, 115, 105, 99, 98, 114, 97, 105, 110, 122, 95, 97, 108, 98, 117, 109, 115, 116, 97, 116, 117, 115], .txxx [77, 117, 115, 105, 99, 66, 114, 97, 105, 110, 122, 32, 65, 108, 98, 117, 109, 32, 83, 116, 97, 116, 117, 115]⟩,
   ⟨[109, 117, 115, 105, 99, 98, 114, 97, 105, 110, 122, 95, 97, 108, 98, 117, 109, 116, 121, 112, 101], .txxx [77, 117, 115, 105, 99, 66, 114, 97, 105, 110, 122, 32, 65, 108, 98, 117, 109, 32, 84, 121, 112, 101]⟩,
   ⟨[114, 101, 108, 101, 97, 115, 101, 99, 111, 117, 110, 116, 114, 121], .txxx [77, 117, 115, 105, 99, 66, 114, 97, 105, 110, 122, 32, 65, 108, 98, 117, 109, 32, 82, 101, 108, 101, 97, 115, 101, 32, 67, 111, 117, 110, 116, 114, 121]⟩,
   ⟨[109, 117, 115, 105, 99, 98, 114, 97, 105, 110, 122, 95, 100, 105, 115, 99, 105, 100], .txxx [77, 117, 115, 105, 99, 66, 114, 97, 105, 110, 122, 32, 68, 105, 115, 99, 32, 73, 100]⟩,
   ⟨[97, 115, 105, 110], .txxx [65, 83, 73, 78]⟩,
   ⟨[112, 101, 114, 102, 111, 114, 109, 101, 114], .txxx [80, 69, 82, 70, 79, 82, 77, 69, 82]⟩,
   ⟨[98, 97, 114, 99, 111, 100, 101], .txxx [66, 65, 82, 67, 79, 68, 69]⟩,
   ⟨[99, 97, 116, 97, 108, 111, 103, 110, 117, 109, 98, 101, 114], .txxx [67, 65, 84, 65, 76, 79, 71, 78, 85, 77, 66, 69, 82]⟩,
   ⟨[109, 117, 115, 105, 99, 98, 114, 97, 105, 110, 122, 95, 114, 101, 108, 101, 97, 115, 101, 116, 114, 97, 99, 107, 105, 100], .txxx [77, 117, 115, 105, 99, 66, 114, 97, 105, 110, 122, 32, 82, 101, 108, 101, 97, 115, 101, 32, 84, 114, 97, 99, 107, 32, 73, 100]⟩,
   ⟨[109, 117, 115, 105, 99, 98, 114, 97, 105, 110, 122, 95, 114, 101, 108, 101, 97, 115, 101, 103, 114, 111, 117, 112, 105, 100], .txxx [77, 117, 115, 105, 99, 66, 114, 97, 105, 110, 122, 32, 82, 101, 108, 101, 97, 115, 101, 32, 71, 114, 111, 117, 112, 32, 73, 100]⟩,
   ⟨[109, 117, 115, 105, 99, 98, 114, 97, 105, 110, 122, 95, 119, 111, 114, 107, 105, 100], .txxx [77, 117, 115, 105, 99, 66, 114, 97, 105, 110, 122, 32, 87, 111, 114, 107, 32, 73, 100]⟩,
   ⟨[97, 99, 111, 117, 115, 116, 105, 100, 95, 102, 105, 110, 103, 101, 114, 112, 114, 105, 110, 116], .txxx [65, 99, 111, 117, 115, 116, 105, 100, 32, 70, 105, 110, 103, 101, 114, 112, 114, 105, 110, 116]⟩,
   ⟨[97, 99, 111, 117, 115, 116, 105, 100, 95, 105, 100], .txxx [65, 99, 111, 117, 115, 116, 105, 100, 32, 73, 100]⟩]

/-- `fnmatch.fnmatchcase(s, pat)` for patterns made of literal characters and `*` (no
registered key contains `?` or `[`) -/
def globMatch : Text → Text → Bool
  | [], s => s.isEmpty
  | c :: p, s =>
    if c = 42 then (List.range (s.length + 1)).any (fun i => globMatch p (s.drop i))
    else match s with
      | [] => false
      | d :: t => c == d && globMatch p t

/-- `dict_match(registry, key)`: `key in d`, else the first entry whose key matches as a pattern -/
def eiFind (key : Text) : Option EIEntry :=
  match easyId3Registry.find? (fun e => decide (e.key = key)) with
  | some e => some e
  | none => easyId3Registry.find? (fun e => globMatch e.key key)

/-- the handler for a key as given (`isinstance(key, str)`, `key.lower()`, `dict_match`)
together with the key as typed, which is what the handler receives -/
def eiEntryOf : PKey → Option (EIEntry × Text)
  | .str t => (eiFind (pyLower t)).map (fun e => (e, t))
  | _ => none

/-! ### values -/

/-- `if isinstance(value, str): value = [value]`, for the value shapes of the model -/
def eiItems : PVal → Option (List Item)
  | .item (.prim (.str t)) => some [.prim (.str t)]
  | .list l => some l
  | _ => none

def Item.strOf : Item → Option Text
  | .prim (.str t) => some t
  | _ => none

/-- the items as `str`s, if they all are -/
def eiTexts (l : List Item) : Option (List Text) := l.mapM Item.strOf

def textsVal (l : List Text) : PVal := .list (l.map (fun t => Item.prim (.str t)))

/-- a genre string `TCON.genres` gives back unchanged -/
def genrePlain (t : Text) : Bool :=
  !t.isEmpty && t.head? != some 40 && !t.contains 10 && t.all (fun c => decide (c < 128)) && !t.all isDigitC &&
    t != [67, 82] && t != [82, 88]

def isD (c : Nat) : Bool := 48 ≤ c && c ≤ 57

/-- `ID3TimeStamp(t).text` for `YYYY[-MM[-DD[(T| )HH[:MM[:SS]]]]]` -/
def tsNorm (t : Text) : Option Text :=
  let ok4 (l : Text) := l.length == 4 && l.all isD
  let ok2 (l : Text) := l.length == 2 && l.all isD
  let rec go : Nat → Text → List Nat → Option Text
    | _, [], _ => some []
    | i, c :: r, seps =>
      match seps with
      | [] => none
      | sp :: seps' =>
        if (c == sp || (sp == 32 && c == 84)) && ok2 (r.take 2) then
          (go (i + 1) (r.drop 2) seps').map (fun x => sp :: r.take 2 ++ x)
        else none
  if ok4 (t.take 4) then (go 0 (t.drop 4) [45, 45, 32, 58, 58]).map (fun x => t.take 4 ++ x) else none

/-- whitespace for `str.split()` / `str.strip()` -/
def isUSpace (c : Nat) : Bool := isIntSpace c || (28 ≤ c && c ≤ 31)

/-- `s.split()`: the first token only -/
def firstToken (s : Text) : Option Text :=
  match (s.dropWhile isUSpace).takeWhile (fun c => !isUSpace c) with
  | [] => none
  | t => some t

/-- digits → number -/
def digitsVal (l : Text) : Nat := l.foldl (fun acc c => acc * 10 + (c - 48)) 0

/-- `float(tok)` in units of 10^-6 (see DOMAIN) -/
def pyFloatMicro (tok : Text) : Except PyErr Int :=
  let (neg, body) := match tok with
    | 45 :: r => (true, r)
    | 43 :: r => (false, r)
    | r => (false, r)
  let ip := body.takeWhile isD
  let rest := body.drop ip.length
  let simple : Option (Text × Text) :=
    match rest with
    | [] => if ip.isEmpty then none else some (ip, [])
    | 46 :: fr => if fr.all isD && !(ip.isEmpty && fr.isEmpty) then some (ip, fr) else none
    | _ => none
  match simple with
  | some (ip, fr) =>
    if fr.length ≤ 6 && ip.length ≤ 9 then
      let m : Nat := digitsVal ip * 1000000 + digitsVal (fr ++ List.replicate (6 - fr.length) 48)
      if neg && m == 0 then .error .notImplemented else .ok (if neg then -(m : Int) else (m : Int))
    else .error .notImplemented
  | none =>
    let alphabet : Text := [43, 45, 46, 95, 101, 69, 105, 73, 110, 78, 102, 70, 97, 65, 116, 84, 121, 89]
    if tok.all (fun c => isD c || alphabet.contains c || decide (c > 127) || (28 ≤ c && c ≤ 31)) then .error .notImplemented
    else .error .value

/-- six digits, zero padded -/
def pad6 (n : Nat) : Text :=
  let d := natDigits 7 n
  List.replicate (6 - d.length) 48 ++ d

/-- `"%f" % x` -/
def fmtF (x : Int) : Text :=
  (if x < 0 then [45] else []) ++ natDigits 20 (x.natAbs / 1000000) ++ [46] ++ pad6 (x.natAbs % 1000000)

/-- `"%+f dB" % x` -/
def fmtGain (x : Int) : Text :=
  (if x < 0 then [45] else [43]) ++ natDigits 20 (x.natAbs / 1000000) ++ [46] ++ pad6 (x.natAbs % 1000000) ++ [32, 100, 66]

/-- `VolumeAdjustmentSpec.validate`: `-32768 <= round(gain * 512) <= 32767` -/
def gainInRange (g : Int) : Bool := decide (-32768500000 < g * 512) && decide (g * 512 < 32767500000)

/-- `VolumePeakSpec.validate`: `0 <= round(peak * 32768) <= 65535` -/
def peakInRange (p : Int) : Bool := decide (-500000 < p * 32768) && decide (p * 32768 < 65535500000)

/-! ### the handlers -/

/-- role of a `performer:<role>` key as typed: `key.split(":", 1)[1]` -/
def roleOf (kt : Text) : Text := kt.drop 10
/-- description of a `replaygain_<desc>_gain|peak` key as typed: `key[11:-5]` -/
def descOf (kt : Text) : Text := (kt.drop 11).take (kt.length - 16)

def peopleOf (s : Id3) : Option (List (Text × Text)) :=
  match lookup kTMCL s with
  | some (.tmcl _ p) => some p
  | _ => none

def txxxEnc (l : List Text) : Nat := if l.any (fun v => v.any (fun c => decide (c > 127))) then 3 else 0

/-- `performer_get` for the role `r` -/
def perfRead (s : Id3) (r : Text) : Except PyErr PVal :=
  match lookup kTMCL s with
  | none => .error .key
  | some (.tmcl _ people) =>
    match (people.filter (fun p => p.1 == r)).map Prod.snd with
    | [] => .error .key
    | l => .ok (textsVal l)
  | some _ => .error .notImplemented

/-- `performer_delete` for the role `r` -/
def perfDel (s : Id3) (r : Text) : Except PyErr Id3 :=
  match lookup kTMCL s with
  | none => .error .key
  | some (.tmcl enc people) =>
    let rest := people.filter (fun p => p.1 != r)
    if rest == people then .error .key
    else if rest.isEmpty then .ok (erase kTMCL s)
    else .ok (insert kTMCL (.tmcl enc rest) s)
  | some _ => .error .notImplemented

def woarUrl : IFrame → Option Text
  | .woar u => some u
  | _ => none

/-- the getter of entry `e` called with the key as typed `kt` -/
def eiGet (s : Id3) (e : EIEntry) (kt : Text) : Except PyErr PVal :=
  match e.kind with
  | .text fid =>
    match lookup fid s with
    | none => .error .key
    | some (.text _ l) => .ok (textsVal l)
    | some _ => .error .notImplemented
  | .txxx desc =>
    match lookup (pTXXX ++ desc) s with
    | none => .error .key
    | some (.text _ l) => .ok (textsVal l)
    | some _ => .error .notImplemented
  | .genre =>
    match lookup kTCON s with
    | none => .error .key
    | some (.text _ l) => if l.all genrePlain then .ok (textsVal l) else .error .notImplemented
    | some _ => .error .notImplemented
  | .date fid =>
    match lookup fid s with
    | none => .error .key
    | some (.stamps _ l) => .ok (textsVal l)
    | some _ => .error .notImplemented
  | .performer => perfRead s (roleOf kt)
  | .trackid =>
    match lookup kUFID s with
    | none => .error .key
    | some (.ufid _ d) => .ok (textsVal [d.map (·.toNat)])
    | some _ => .error .notImplemented
  | .website =>
    match (getallPrefix pWOAR s).filterMap (fun p => woarUrl p.2) with
    | [] => .error .key
    | l => .ok (textsVal l)
  | .gain =>
    match lookup (pRVA2 ++ descOf kt) s with
    | some (.rva2 _ _ g _) => .ok (textsVal [fmtGain g])
    | none => .error .key
    | some _ => .error .notImplemented
  | .peak =>
    match lookup (pRVA2 ++ descOf kt) s with
    | some (.rva2 _ _ _ p) => .ok (textsVal [fmtF p])
    | none => .error .key
    | some _ => .error .notImplemented

/-- `musicbrainz_trackid_set`: exactly one value (`ValueError`), `value[0].encode("ascii")`
(`AttributeError` for anything but a `str`, `UnicodeEncodeError` — a `ValueError` — beyond ASCII) -/
def trackidFrame (items : List Item) : Except PyErr IFrame :=
  match items with
  | [.prim (.str t)] =>
    if t.all (fun c => decide (c < 128)) then .ok (.ufid mbOwner (t.map UInt8.ofNat)) else .error .value
  | [_] => .error .attribute
  | _ => .error .value

/-- `for frame in frames: id3.add(frame)` for WOAR frames made of the URLs `l` -/
def woarPut (l : List Text) (base : Id3) : Id3 := l.foldl (fun acc u => insert (pWOAR ++ u) (.woar u) acc) base

/-- `performer_set` for the role `r` and the names `l` -/
def perfSet (s : Id3) (r : Text) (l : List Text) : Except PyErr Unit × Id3 :=
  match lookup kTMCL s with
  | none => (.ok (), insert kTMCL (.tmcl 3 (l.map (fun x => (r, x)))) s)
  | some (.tmcl _ people) =>
    (.ok (), insert kTMCL (.tmcl 3 (people.filter (fun p => p.1 != r) ++ l.map (fun x => (r, x)))) s)
  | some _ => (.error .notImplemented, s)

/-- result of a setter: the exception (if any) and the native tags afterwards — a setter that
raises may already have added a frame -/
abbrev SetRes := Except PyErr Unit × Id3

/-- the setter of entry `e` called with the key as typed `kt` and the value (a `str` already
wrapped into a list) -/
def eiSet (s : Id3) (e : EIEntry) (kt : Text) (v : PVal) : SetRes :=
  match eiItems v with
  | none => (.error .notImplemented, s)
  | some items =>
    match e.kind, eiTexts items with
    | .text fid, some l => (.ok (), insert fid (.text 3 l) s)
    | .txxx desc, some l => (.ok (), insert (pTXXX ++ desc) (.text (txxxEnc l) l) s)
    | .genre, some l =>
      if l.all genrePlain then (.ok (), insert kTCON (.text 3 l) s) else (.error .notImplemented, s)
    | .date fid, some l =>
      match l.mapM tsNorm with
      | some l' => (.ok (), insert fid (.stamps 3 l') s)
      | none => (.error .notImplemented, s)
    | .performer, some l => perfSet s (roleOf kt) l
    | .trackid, _ =>
      match trackidFrame items with
      | .ok f => (.ok (), insert kUFID f s)
      | .error err => (.error err, s)
    | .website, some l =>
      (.ok (), woarPut l (delallPrefix pWOAR s))
    | .gain, _ =>
      match items with
      | [.prim (.str t)] =>
        match firstToken t with
        | none => (.error .index, s)
        | some tok =>
          match pyFloatMicro tok with
          | .error err => (.error err, s)
          | .ok g =>
            let hk := pRVA2 ++ descOf kt
            match lookup hk s with
            | some (.rva2 d ch _ p) =>
              if gainInRange g then (.ok (), insert hk (.rva2 d ch g p) s) else (.error .value, s)
            | none =>
              if gainInRange g then (.ok (), insert hk (.rva2 (descOf kt) 1 g 0) s)
              else (.error .value, insert hk (.rva2 (descOf kt) 1 0 0) s)
            | some _ => (.error .notImplemented, s)
      | [.prim (.bytes _)] => (.error .notImplemented, s)
      | [.cover _ _] => (.error .notImplemented, s)
      | [_] => (.error .attribute, s)
      | _ => (.error .value, s)
    | .peak, _ =>
      match items with
      | [.prim (.str t)] =>
        let body := dropWhileEnd (fun c => c == 32 || (9 ≤ c && c ≤ 13)) (t.dropWhile (fun c => c == 32 || (9 ≤ c && c ≤ 13)))
        match pyFloatMicro body with
        | .error err => (.error err, s)
        | .ok p =>
          if p ≥ 2000000 || p < 0 then (.error .value, s)
          else
            let hk := pRVA2 ++ descOf kt
            match lookup hk s with
            | some (.rva2 d ch g _) =>
              if peakInRange p then (.ok (), insert hk (.rva2 d ch g p) s) else (.error .value, s)
            | none =>
              if peakInRange p then (.ok (), insert hk (.rva2 (descOf kt) 1 0 p) s)
              else (.error .value, insert hk (.rva2 (descOf kt) 1 0 0) s)
            | some _ => (.error .notImplemented, s)
      | [_] => (.error .notImplemented, s)
      | _ => (.error .value, s)
    | _, none => (.error .notImplemented, s)

/-- the deleter of entry `e` called with the key as typed `kt` -/
def eiDel (s : Id3) (e : EIEntry) (kt : Text) : Except PyErr Id3 :=
  let delKey (hk : Text) : Except PyErr Id3 :=
    match lookup hk s with
    | some _ => .ok (erase hk s)
    | none => .error .key
  match e.kind with
  | .text fid => delKey fid
  | .txxx desc => delKey (pTXXX ++ desc)
  | .genre => delKey kTCON
  | .date fid => delKey fid
  | .trackid => delKey kUFID
  | .performer => perfDel s (roleOf kt)
  | .website =>
    match getallPrefix pWOAR s with
    | [] => .error .key
    | _ => .ok (delallPrefix pWOAR s)
  | .gain =>
    let hk := pRVA2 ++ descOf kt
    match lookup hk s with
    | none => .ok s                                    -- `except KeyError: pass`
    | some (.rva2 d ch _ p) => if p != 0 then .ok (insert hk (.rva2 d ch 0 p) s) else .ok (erase hk s)
    | some _ => .error .notImplemented
  | .peak =>
    let hk := pRVA2 ++ descOf kt
    match lookup hk s with
    | none => .ok s
    | some (.rva2 d ch g _) => if g != 0 then .ok (insert hk (.rva2 d ch g 0) s) else .ok (erase hk s)
    | some _ => .error .notImplemented

/-! ### the four primitives of the view -/

def easyId3Get (s : Id3) (k : PKey) : Except PyErr PVal :=
  match eiEntryOf k with
  | none => .error .key
  | some (e, kt) => eiGet s e kt

/-- `__setitem__` with the native tags it leaves behind when it raises -/
def easyId3SetFull (s : Id3) (k : PKey) (v : PVal) : SetRes :=
  match eiEntryOf k with
  | none => (.error .key, s)
  | some (e, kt) => eiSet s e kt v

def easyId3Set (s : Id3) (k : PKey) (v : PVal) : Except PyErr Id3 :=
  match (easyId3SetFull s k v).1 with
  | .ok () => .ok (easyId3SetFull s k v).2
  | .error e => .error e

/-- the native tags after a `__setitem__` that raised -/
def easyId3SetResidue (s : Id3) (k : PKey) (v : PVal) : Id3 := (easyId3SetFull s k v).2

def easyId3Del (s : Id3) (k : PKey) : Except PyErr Id3 :=
  match eiEntryOf k with
  | none => .error .key
  | some (e, kt) => eiDel s e kt

/-- `performer_list`: `list(set("performer:" + p[0] for p in mcl.people))` (first occurrences;
Python's order is a hash set's) -/
def performerKeys (s : Id3) : List Text :=
  match peopleOf s with
  | some people => dedup (people.map (fun p => pPerformer ++ p.1))
  | none => []

/-- `peakgain_list`: both keys for every RVA2 frame -/
def gainKeys (s : Id3) : List Text :=
  ((getallPrefix pRVA2 s).map (fun p => match p.2 with
    | .rva2 d _ _ _ => [pReplaygain ++ d ++ sGain, pReplaygain ++ d ++ sPeak]
    | _ => [])).flatten

/-- `key in self` for a key of `Get` without a lister: the key itself, unless the getter raises `KeyError` -/
def eiKeyIfPresent (s : Id3) (e : EIEntry) : List Text :=
  match easyId3Get s (.str e.key) with
  | .error .key => []
  | _ => [e.key]

/-- what one key of `Get` contributes to `keys()` -/
def eiKeysOf (s : Id3) (e : EIEntry) : List Text :=
  match e.kind with
  | .performer => performerKeys s
  | .gain => gainKeys s
  | _ => eiKeyIfPresent s e

def easyId3Keys (s : Id3) : List PKey := ((easyId3Registry.map (eiKeysOf s)).flatten).map PKey.str

/-- an exception other than `KeyError` from `key in self` inside `keys()` -/
def eiOtherErr (s : Id3) (e : EIEntry) : Option PyErr :=
  match e.kind with
  | .performer => none
  | .gain => none
  | _ =>
    match easyId3Get s (.str e.key) with
    | .error .key => none
    | .error err => some err
    | .ok _ => none

/-- the real `keys()` -/
def easyId3KeysE (s : Id3) : Except PyErr (List PKey) :=
  match easyId3Registry.findSome? (eiOtherErr s) with
  | some err => .error err
  | none => .ok (easyId3Keys s)

def easyId3Impl : MapImpl Id3 PKey PVal where
  keys := easyId3Keys
  getitem := easyId3Get
  setitem := easyId3Set
  delitem := easyId3Del

/-- one operation on the real object: as `DictMixin` over the four primitives, except that a
raising `__setitem__` (in `set`, `setdefault`, `update`) leaves `easyId3SetResidue` behind -/
def easyId3UpdateFull : List (PKey × PVal) → Id3 → Except PyErr Unit × Id3
  | [], s => (.ok (), s)
  | (k, v) :: l, s =>
    match (easyId3SetFull s k v).1 with
    | .ok () => easyId3UpdateFull l (easyId3SetFull s k v).2
    | .error e => (.error e, (easyId3SetFull s k v).2)

def easyId3Step (s : Id3) : Op PKey PVal → Out PKey PVal × Id3
  | .set k v =>
    match (easyId3SetFull s k v).1 with
    | .ok () => (.unit, (easyId3SetFull s k v).2)
    | .error e => (.err e, (easyId3SetFull s k v).2)
  | .update l => (outOf (fun _ => .unit) (easyId3UpdateFull l s).1, (easyId3UpdateFull l s).2)
  | .setdefault k d =>
    match easyId3Get s k with
    | .ok v => (.val v, s)
    | .error e =>
      if e = .key then
        match (easyId3SetFull s k d).1 with
        | .ok () => (.val d, (easyId3SetFull s k d).2)
        | .error e' => (.err e', (easyId3SetFull s k d).2)
      else (.err e, s)
  | op => easyId3Impl.step s op

/-- a whole operation sequence on the real object -/
def easyId3Run : List (Op PKey PVal) → Id3 → List (Out PKey PVal)
  | [], _ => []
  | op :: ops, s => (easyId3Step s op).1 :: easyId3Run ops (easyId3Step s op).2

/-! ### the documented key / value rules, and the part of the view that follows them -/

/-- the key a handler's entry is filed under in the view: the registered key, or for the glob
entries the pattern instantiated with the role / description as typed -/
def eiNormKey (e : EIEntry) (kt : Text) : Text :=
  match e.kind with
  | .performer => pPerformer ++ roleOf kt
  | .gain => pReplaygain ++ descOf kt ++ sGain
  | .peak => pReplaygain ++ descOf kt ++ sPeak
  | _ => e.key

/-- what `view[k] = v` stores: what a fresh `EasyID3` reads back after the same assignment
(`none`: the key is absent afterwards — an empty list for `performer:*` / `website`), or the
setter's exception -/
def eiCoerce (e : EIEntry) (kt : Text) (v : PVal) : Except PyErr (Option PVal) :=
  match eiSet [] e kt v with
  | (.error err, _) => .error err
  | (.ok (), s1) =>
    match eiGet s1 e kt with
    | .ok vv => .ok (some vv)
    | .error .key => .ok none
    | .error err => .error err

def easyId3Policy : KPolicy PKey PVal where
  norm k := match eiEntryOf k with
    | none => .error .key
    | some (e, kt) => .ok (.str (eiNormKey e kt))
  coerce k v := match eiEntryOf k with
    | none => .error .key
    | some (e, kt) => eiCoerce e kt v

/-- the entries whose handler reads and writes ONE frame under a fixed HashKey (text, TXXX, genre,
date, originaldate, musicbrainz_trackid: 53 of the 57 registered keys) -/
def eiPlain (e : EIEntry) : Bool :=
  match e.kind with
  | .gain => false
  | .peak => false
  | .performer => false
  | .website => false
  | _ => true

/-- the entries of the proved part: the single-frame ones and `website` (one WOAR frame per URL) -/
def eiGood (e : EIEntry) : Bool := eiPlain e || e.kind == .website

/-- the keys for which the refinement theorem is stated: every key but those of the two glob
entries `replaygain_*_gain`, `replaygain_*_peak` (gain and peak share one RVA2 frame), and a
`performer:<role>` key only with a role that `str.lower()` leaves alone (the key is matched
lower-cased, the handler gets the role as typed).  Unregistered keys are included (`KeyError`). -/
def eiGoodKey (k : PKey) : Bool :=
  match eiEntryOf k with
  | none => true
  | some (e, kt) => eiGood e || (e.kind == .performer && pyLower (roleOf kt) == roleOf kt)

/-- the view restricted to the good keys: any other key is answered "outside" -/
def easyId3ImplG : MapImpl Id3 PKey PVal where
  keys := easyId3Keys
  getitem s k := if eiGoodKey k then easyId3Get s k else .error .notImplemented
  setitem s k v := if eiGoodKey k then easyId3Set s k v else .error .notImplemented
  delitem s k := if eiGoodKey k then easyId3Del s k else .error .notImplemented

def easyId3PolicyG : KPolicy PKey PVal where
  norm k := if eiGoodKey k then easyId3Policy.norm k else .error .notImplemented
  coerce := easyId3Policy.coerce

/-- what kind of frame a HashKey holds -/
inductive HkClass
  | text | genre | stamps | tmcl | ufid | woar | rva2
deriving DecidableEq, Repr

def hkClass (hk : Text) : HkClass :=
  if hk == kTCON then .genre
  else if hk == [84, 68, 82, 67] || hk == [84, 68, 79, 82] then .stamps
  else if hk == kTMCL then .tmcl
  else if hk == kUFID then .ufid
  else if startsWith pWOAR hk then .woar
  else if startsWith pRVA2 hk then .rva2
  else .text

/-- a frame the good part of the view can have put under this HashKey -/
def frameOK (hk : Text) (f : IFrame) : Bool :=
  match hkClass hk, f with
  | .text, .text _ _ => true
  | .genre, .text _ l => l.all genrePlain
  | .stamps, .stamps _ _ => true
  | .ufid, .ufid _ _ => true
  | .tmcl, .tmcl _ p => p.all (fun x => pyLower x.1 == x.1)
  | .woar, .woar u => hk == pWOAR ++ u
  | _, _ => false

/-- the HashKey an entry reads and writes (all kinds but `website`, which owns every `WOAR:…`) -/
def hkOf (e : EIEntry) : Option Text :=
  match e.kind with
  | .text fid => some fid
  | .txxx d => some (pTXXX ++ d)
  | .genre => some kTCON
  | .date fid => some fid
  | .performer => some kTMCL
  | .trackid => some kUFID
  | _ => none

end Mutagen.Dict
