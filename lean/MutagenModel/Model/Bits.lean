/-
Model/Bits.lean — bit-level packing (MSB first, as mutagen._util.BitReader reads) used by
the header decoders and the header builders of the specification side.
-/
import MutagenModel.Model.Basic
namespace Mutagen

/-- `w` bits of `v`, most significant first -/
def natToBits : Nat → Nat → List Bool
  | 0, _ => []
  | w+1, v => (v / 2 ^ w % 2 == 1) :: natToBits w v

def bitsToNatAux (acc : Nat) : List Bool → Nat
  | [] => acc
  | b :: bs => bitsToNatAux (2 * acc + (if b then 1 else 0)) bs

def bitsToNat (bs : List Bool) : Nat := bitsToNatAux 0 bs

def bytesToBits (b : Bytes) : List Bool := b.flatMap fun x => natToBits 8 x.toNat

/-- groups of 8 bits to bytes; an incomplete last group is padded with zero bits -/
def bitsToBytes (bs : List Bool) : Bytes :=
  if h : bs = [] then []
  else UInt8.ofNat (bitsToNat ((bs.take 8) ++ List.replicate (8 - (bs.take 8).length) false)) ::
      bitsToBytes (bs.drop 8)
termination_by bs.length
decreasing_by
  have : bs.length ≠ 0 := by simpa using h
  simp [List.length_drop]; omega

/-- BitReader.bits(n) on a bit stream -/
def readBits (n : Nat) (bs : List Bool) : Option (Nat × List Bool) :=
  if bs.length < n then none else some (bitsToNat (bs.take n), bs.drop n)

/-- read consecutive fields of the given widths -/
def readFields : List Nat → List Bool → Option (List Nat × List Bool)
  | [], bs => some ([], bs)
  | w :: ws, bs =>
    match readBits w bs with
    | none => none
    | some (v, rest) =>
      match readFields ws rest with
      | none => none
      | some (vs, rest') => some (v :: vs, rest')

/-- (width, value) fields to a bit string -/
def packFields (fs : List (Nat × Nat)) : List Bool := fs.flatMap fun (w, v) => natToBits w v

end Mutagen
