/-
Model/Container/Dsf.lean — DSF files (mutagen/dsf.py): a 28-byte DSD chunk, the fmt chunk, the data
chunk, and an ID3v2 tag at the end of the file that the DSD chunk points to.

Code side (mutagen/dsf.py DSDChunk.load / write, FormatChunk.load, DataChunk.load, DSFFile,
_DSFID3.save, the module function delete and DSF.delete, which calls it; mutagen/id3/_file.py
_prepare_data; mutagen/id3/_tags.py ID3Header): `loadDsd`, `writeDsd`, `loadFmt`, `loadData`, `save`,
`delete` — functions from the bytes of the file to the bytes of the file, for a file object that is
at position 0 when the call is made (`DSFFile` and `delete` read from where the file object stands).
`save` does not resize anything: it seeks to the metadata pointer, writes the new tag and truncates
behind it, so whatever followed the old tag is gone; `delete` truncates at the pointer.  The rendered
frames (`ID3Tags._write`) are a parameter.

Spec side (DSF File Format Specification 1.01: DSD chunk = "DSD " size(8, =28) total file size(8)
pointer to metadata chunk(8, 0 = none), all little-endian; fmt chunk = "fmt " size(8, =52) version(4,
=1) format id(4, =0) …; data chunk = "data" size(8, = 12 + sample bytes) samples; the metadata chunk
(an ID3v2 tag) is the rest of the file): `Layout`, `render`, and the strict reader `readFile`.
-/
import MutagenModel.Model.Container.Id3File
import MutagenModel.Model.IntCodec
set_option linter.unusedVariables false
namespace Mutagen.Dsf
open Mutagen

def magicDSD : Bytes := [0x44, 0x53, 0x44, 0x20]
def magicFmt : Bytes := [0x66, 0x6D, 0x74, 0x20]
def magicData : Bytes := [0x64, 0x61, 0x74, 0x61]

/-- `DSDChunk.CHUNK_SIZE` -/
def dsdSize : Nat := 28
/-- `FormatChunk.CHUNK_SIZE` -/
def fmtSize : Nat := 52
/-- `DataChunk.CHUNK_SIZE` (the header of the data chunk) -/
def dataHdr : Nat := 12

/-! ### specification side -/

/-- the DSD chunk: id, chunk size 28, total file size, pointer to the metadata chunk -/
def dsdChunk (total pointer : Nat) : Bytes := magicDSD ++ toLE 8 dsdSize ++ toLE 8 total ++ toLE 8 pointer

structure Layout where
  /-- the fmt chunk (52 bytes) -/
  fmt : Bytes
  /-- the data chunk: 12 bytes of header and the sample data -/
  data : Bytes
  /-- the whole ID3v2 tag (header included) or nothing -/
  tag : Bytes
deriving DecidableEq, Repr

/-- where the metadata chunk starts when there is one -/
def Layout.tagPos (L : Layout) : Nat := dsdSize + L.fmt.length + L.data.length
/-- what the pointer field holds -/
def Layout.pointer (L : Layout) : Nat := if L.tag = [] then 0 else L.tagPos
def Layout.total (L : Layout) : Nat := L.tagPos + L.tag.length

def Layout.render (L : Layout) : Bytes := dsdChunk L.total L.pointer ++ L.fmt ++ L.data ++ L.tag

/-- strict reading of a file: DSD chunk with size 28, a total size field equal to the length of the
file, fmt chunk of size 52 with version 1 and format id 0, a data chunk whose size field covers its
header and stays inside the file; the pointer is 0 and the file ends with the data chunk, or it is the
end of the data chunk and the rest of the file is one ID3v2 tag whose header is acceptable
(`ID3Header`) and announces exactly that many bytes -/
def readFile (f : Bytes) : Option Layout :=
  if f.length < dsdSize + fmtSize + dataHdr then none
  else if f.take 4 ≠ magicDSD then none
  else if ofLE (readAt f 4 8) ≠ dsdSize then none
  else if ofLE (readAt f 12 8) ≠ f.length then none
  else if readAt f 28 4 ≠ magicFmt then none
  else if ofLE (readAt f 32 8) ≠ fmtSize then none
  else if ofLE (readAt f 40 4) ≠ 1 then none
  else if ofLE (readAt f 44 4) ≠ 0 then none
  else if readAt f 80 4 ≠ magicData then none
  else
    let n := ofLE (readAt f 84 8)
    let ptr := ofLE (readAt f 20 8)
    if n < dataHdr ∨ f.length < 80 + n then none
    else if ptr = 0 then
      if f.length = 80 + n then some ⟨readAt f 28 fmtSize, readAt f 80 n, []⟩ else none
    else if ptr ≠ 80 + n then none
    else if Id3F.headerSize (f.drop ptr) ≠ .ok (some (f.length - ptr)) then none
    else some ⟨readAt f 28 fmtSize, readAt f 80 n, f.drop ptr⟩

/-! ### code side -/

/-- the attributes of a `DSDChunk` object that matter: `total_size`, `offset_metdata_chunk` -/
structure Dsd where
  total : Nat
  pointer : Nat
deriving DecidableEq, Repr

/-- `DSDChunk(fileobj)` with the file object at position 0 (`load`) -/
def loadDsd (f : Bytes) : Except PyErr Dsd :=
  let data := f.take dsdSize
  if data.length ≠ dsdSize then .error .mutagen
  else if data.take 4 ≠ magicDSD then .error .mutagen
  else if ofLE ((data.drop 4).take 8) ≠ dsdSize then .error .mutagen
  else
    let ptr := ofLE ((data.drop 20).take 8)
    -- "not a possible file offset"
    if ptr > 2 ^ 63 - 1 then .error .mutagen
    else .ok ⟨ofLE ((data.drop 12).take 8), ptr⟩

/-- `DSDChunk.write()` of a chunk loaded from offset 0: the header id that was read, 28, total size and
pointer go to the first 28 bytes; `struct.pack("<Q", …)` refuses what does not fit into 8 bytes -/
def writeDsd (f : Bytes) (h : Dsd) : Except PyErr Bytes :=
  if h.total ≥ 2 ^ 64 ∨ h.pointer ≥ 2 ^ 64 then .error .struct_
  else .ok (writeAt f 0 (dsdChunk h.total h.pointer))

/-- `FormatChunk(fileobj)`: `d` is what `read(52)` returned -/
def loadFmt (d : Bytes) : Except PyErr Unit :=
  if d.length ≠ fmtSize then .error .mutagen
  else if d.take 4 ≠ magicFmt then .error .mutagen
  else if ofLE ((d.drop 4).take 8) ≠ fmtSize then .error .mutagen
  else if ofLE ((d.drop 12).take 4) ≠ 1 then .error .mutagen
  else if ofLE ((d.drop 16).take 4) ≠ 0 then .error .mutagen
  else .ok ()

/-- `DataChunk(fileobj)`: `d` is what `read(12)` returned (the size is not compared with the file) -/
def loadData (d : Bytes) : Except PyErr Unit :=
  if d.length ≠ dataHdr then .error .mutagen
  else if d.take 4 ≠ magicData then .error .mutagen
  else if ofLE ((d.drop 4).take 8) < dataHdr then .error .mutagen
  else .ok ()

/-- `fileobj.seek(pos); fileobj.write(data); fileobj.truncate()` on an in-memory file: a position
behind the end is reached by zero bytes -/
def writeTrunc (f : Bytes) (pos : Nat) (data : Bytes) : Bytes :=
  f.take pos ++ zeros (pos - f.length) ++ data

/-- the rest of `save` once the metadata pointer `ptr` is settled: the size of the tag that is in the
file now, `_prepare_data(fileobj, ptr, old_size, …)`, seek, write, truncate, total size update -/
def saveAt (f : Bytes) (ptr : Nat) (vmaj : Nat) (frames : Bytes) (pad : PadChoice) : Except PyErr Bytes :=
  -- `ID3Header(fileobj).size`; ID3NoHeaderError: 0
  match Id3F.headerSize (f.drop ptr) with
  | .error e => .error e
  | .ok hs =>
    let old : Nat := hs.getD 0
    -- _prepare_data: `if v2_version not in (3, 4): raise ValueError`
    if vmaj ≠ 3 ∧ vmaj ≠ 4 then .error .value else
    let needed : Nat := frames.length + 10
    -- `fileobj.seek(0, 2); trailing_size = fileobj.tell() - start - available`
    let trailing : Int := (f.length : Int) - ptr - old
    -- a pointer behind the end of the file, or a tag that claims more than the file has: the generated
    -- default policy takes the size as a natural number — outside the model
    if trailing < 0 then .error .notImplemented
    else
      let newPadding := getPadding pad ((old : Int) - needed) trailing.toNat
      if newPadding < 0 then .error .mutagen
      -- "the size field of the tag header holds 28 bits": `error("tag too large")`, or the padding is capped
      else if frames.length > 2 ^ 28 - 1 then .error .mutagen
      else
        let padN : Nat := min newPadding.toNat (2 ^ 28 - 1 - frames.length)
        match Id3F.header vmaj (frames.length + padN) with
        | .error e => .error e
        | .ok hd =>
          let data := hd ++ frames ++ zeros padN
          let f2 := writeTrunc f ptr data
          -- `dsd_header.total_size = fileobj.tell(); dsd_header.write()`
          writeDsd f2 ⟨f2.length, ptr⟩

/-- `_DSFID3.save(fileobj, v2_version, padding)` given the rendered frames -/
def save (f : Bytes) (vmaj : Nat) (frames : Bytes) (pad : PadChoice) : Except PyErr Bytes :=
  match loadDsd f with
  | .error e => .error e
  | .ok h =>
    if h.pointer = 0 then
      -- no tag yet: the tag goes to the end of the file and the pointer is written at once
      match writeDsd f ⟨h.total, f.length⟩ with
      | .error e => .error e
      | .ok f1 => saveAt f1 f.length vmaj frames pad
    else saveAt f h.pointer vmaj frames pad

/-- the module function `delete(filething)` (and `DSF.delete`, which does the same to the file): all
three chunks are loaded; with a pointer the DSD chunk is rewritten (pointer 0, total size = the old
pointer) and the file is cut at the old pointer (`truncate` on an in-memory file does not extend it) -/
def delete (f : Bytes) : Except PyErr Bytes :=
  match loadDsd f with
  | .error e => .error e
  | .ok h =>
    match loadFmt (readAt f dsdSize fmtSize) with
    | .error e => .error e
    | .ok _ =>
      match loadData (readAt f (dsdSize + fmtSize) dataHdr) with
      | .error e => .error e
      | .ok _ =>
        if h.pointer ≠ 0 then
          match writeDsd f ⟨h.pointer, 0⟩ with
          | .error e => .error e
          | .ok f1 => .ok (f1.take h.pointer)
        else .ok f

end Mutagen.Dsf
