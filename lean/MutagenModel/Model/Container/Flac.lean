/-
Model/Container/Flac.lean — the FLAC container at block level.

Spec side (FLAC format: "fLaC", METADATA_BLOCK_HEADER = last-flag(1) type(7) length(24)):
`Layout`, `render`, the strict walker `walk`, `WF`.
Model side (mutagen/flac.py MetadataBlock._writeblock/_writeblocks, FLAC._save, FLAC.delete):
`writeBlocks`, `msave`, `mdelete`, `saveM`.  A block is `(code, payload)` where the payload is
what the block object's `write()` returns; the re-rendering of parsed block types is a
separate concern (Model/Info/Flac.lean for STREAMINFO).
-/
import MutagenModel.Model.FileOps
import MutagenModel.Model.IntCodec
import MutagenModel.Model.Id3Util
import MutagenModel.Model.Padding
import MutagenModel.Generated.Consts
set_option linter.unusedVariables false
namespace Mutagen.FlacC
open Mutagen

structure Block where
  code : Nat
  data : Bytes
deriving DecidableEq, Repr

structure Layout where
  /-- bytes before "fLaC": empty, or an ID3v2 tag -/
  pre : Bytes
  blocks : List Block
  audio : Bytes
deriving DecidableEq, Repr

def magic : Bytes := [0x66, 0x4C, 0x61, 0x43]
def vcCode : Nat := 4
def padCode : Nat := 1
def maxSize : Nat := Generated.flacMaxBlockSize

/-! ### specification side -/

def blockHeader (code size : Nat) (last : Bool) : Bytes :=
  UInt8.ofNat (code + (if last then 128 else 0)) :: toBE 3 size

def renderBlock (b : Block) (last : Bool) : Bytes := blockHeader b.code b.data.length last ++ b.data

/-- the last-block flag is set on exactly the final block -/
def renderBlocks : List Block → Bytes
  | [] => []
  | [b] => renderBlock b true
  | b :: c :: r => renderBlock b false ++ renderBlocks (c :: r)

def render (L : Layout) : Bytes := L.pre ++ magic ++ renderBlocks L.blocks ++ L.audio

def Block.ok (b : Block) : Prop := b.code < 127 ∧ b.data.length < 2 ^ 24

/-- strict walker over the metadata blocks: stops after the block carrying the last flag -/
def walkBlocks : Nat → Bytes → Option (List Block × Bytes)
  | 0, _ => none
  | fuel + 1, d =>
    match d with
    | h :: s2 :: s1 :: s0 :: rest =>
      let size := ofBE [s2, s1, s0]
      if rest.length < size then none
      else
        let b : Block := { code := h.toNat % 128, data := rest.take size }
        if h.toNat ≥ 128 then some ([b], rest.drop size)
        else match walkBlocks fuel (rest.drop size) with
          | none => none
          | some (bs, audio) => some (b :: bs, audio)
    | _ => none

/-- length of an ID3v2 tag at the start of `d` (10 + syncsafe size), 0 if there is none -/
def id3PrefixLen (d : Bytes) : Nat :=
  if d.take 3 = [0x49, 0x44, 0x33] ∧ 10 ≤ d.length then 10 + bpFromBytes 7 true ((d.drop 6).take 4) else 0

def walk (d : Bytes) : Option Layout :=
  let n := id3PrefixLen d
  if (d.drop n).take 4 ≠ magic then none
  else match walkBlocks (d.length + 1) (d.drop (n + 4)) with
    | none => none
    | some (bs, audio) => some { pre := d.take n, blocks := bs, audio := audio }

/-- everything mutagen's FLAC type does not own, in file order -/
def foreign (L : Layout) : Bytes × List Block × Bytes :=
  (L.pre, L.blocks.filter (fun b => b.code != vcCode && b.code != padCode), L.audio)

def paddingOf (L : Layout) : Nat :=
  ((L.blocks.filter (·.code == padCode)).map (·.data.length)).sum

/-! ### model side -/

/-- MetadataBlock._writeblock (ordinary block: too long = `error`) -/
def writeBlock (b : Block) (last : Bool) : Except PyErr Bytes :=
  if b.data.length > maxSize then .error .mutagen else .ok (renderBlock b last)

def writeAll : List Block → Except PyErr Bytes
  | [] => .ok []
  | b :: r =>
    match writeBlock b false with
    | .error e => .error e
    | .ok x => match writeAll r with
      | .error e => .error e
      | .ok y => .ok (x ++ y)

/-- the block list `_writeblocks` produces: the non-padding blocks in order, then one padding
block of `min(get_padding(info), MAX)` bytes (a negative answer gives an empty one) -/
def newBlocks (blocks : List Block) (available contSize : Nat) (pad : PadChoice) : List Block :=
  let kept := blocks.filter (·.code != padCode)
  let blockssize : Nat := (kept.map fun b => 4 + b.data.length).sum + 4
  let want := getPadding pad ((available : Int) - (blockssize : Int)) contSize
  kept ++ [{ code := padCode, data := zeros (min want.toNat maxSize) }]

/-- MetadataBlock._writeblocks -/
def writeBlocks (blocks : List Block) (available contSize : Nat) (pad : PadChoice) : Except PyErr Bytes :=
  let nb := newBlocks blocks available contSize pad
  match writeAll nb.dropLast with
  | .error e => .error e
  | .ok x => match nb.getLast? with
    | none => .ok x
    | some p => match writeBlock p true with
      | .error e => .error e
      | .ok y => .ok (x ++ y)

/-- FLAC._save at layout level -/
def msave (L : Layout) (blocks : List Block) (deleteid3 : Bool) (pad : PadChoice) : Layout :=
  let available := (renderBlocks L.blocks).length + (if deleteid3 then L.pre.length else 0)
  { pre := if deleteid3 then [] else L.pre
    blocks := newBlocks blocks available L.audio.length pad
    audio := L.audio }

/-- FLAC.delete: all blocks but the Vorbis comments, no padding -/
def mdelete (L : Layout) (blocks : List Block) : Layout :=
  msave L (blocks.filter (·.code != vcCode)) false (.callback fun _ _ => 0)

/-- FLAC._save on the file: the header/audio offsets are pure computations on the bytes
(`__check_header`, `__find_audio_offset`, `get_size`: reads only); then
`resize_bytes(available -> len(data)) ; seek(header-4) ; write("fLaC") ; write(data)`.
(`deleteid3=False`; the ID3v1 removal of deleteid3 is not part of this program.) -/
def saveM (B : Nat) (L : Layout) (blocks : List Block) (pad : PadChoice) : FileM Unit := do
  let header := L.pre.length + 4
  let available := (renderBlocks L.blocks).length
  match writeBlocks blocks available L.audio.length pad with
  | .error e => raise e
  | .ok data =>
    resizeBytes B available data.length header
    fseek (header - 4)
    fwrite magic
    fwrite data

end Mutagen.FlacC
