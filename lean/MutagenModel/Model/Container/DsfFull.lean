/-
Model/Container/DsfFull.lean — the parts of mutagen/dsf.py that Model/Container/Dsf.lean leaves outside
(`.notImplemented`) or does not have, modelled, so that the model is total over all byte strings:

* `saveAtX` / `saveX`: `_DSFID3.save` with `PaddingInfo.size` as the integer it is in Python (negative
  when the metadata pointer is behind the end of the file or the tag claims more bytes than the file has),
  the padding answer being a function of the two integers the callback / the default policy sees;
* `id3Header`: `ID3Header(fileobj)` (mutagen/id3/_tags.py) with the three kinds of exception it raises
  and the length of the extended header — what `ID3.load` needs beyond `Id3F.headerSize`; the checks of the
  extended-header branch are `Id3F.extHeader` (`Proofs/Container/DsfTotal.lean`, `headerSize_id3Header`:
  `Id3F.headerSize` is this function with the distinctions forgotten);
* `load`: what `DSF(fileobj)` does up to the point where the frames are parsed: the three chunk loaders,
  `_pre_load_header`, `ID3Header`, the size arithmetic of `ID3.load` and the `read_full` of the tag body.

In-memory files; memory is not bounded (a write far behind the end of the file zero-fills the gap, where
a real `io.BytesIO` gives up with MemoryError).  `Proofs/Container/DsfTotal.lean` shows that `saveX` is
`save` wherever `save` does not answer `.notImplemented`.
-/
import MutagenModel.Model.Container.Dsf
set_option linter.unusedVariables false
namespace Mutagen.Dsf
open Mutagen

/-- the exceptions of `ID3Header.__init__`: ID3NoHeaderError, ID3UnsupportedVersionError, `error` (also
what `convert_error(IOError, error)` makes of a short `read_full`) -/
inductive HdrErr
  | noHeader | unsupported | bad
deriving DecidableEq, Repr

structure Hdr where
  /-- `header.size`: the length of the tag, header included -/
  size : Nat
  /-- `len(header._extdata)` when `f_extended` is (still) set -/
  ext : Option Nat
deriving DecidableEq, Repr

/-- `ID3Header(fileobj)` with the file object at the start of `t` -/
def id3Header (t : Bytes) : Except HdrErr Hdr :=
  let d := t.take 10
  if d.length ≠ 10 then .error .noHeader
  else
    let vmaj := (d.getD 3 0).toNat
    let flags := (d.getD 5 0).toNat
    let size := d.drop 6
    if d.take 3 ≠ Id3F.magicID3 then .error .noHeader
    else if vmaj ≠ 2 ∧ vmaj ≠ 3 ∧ vmaj ≠ 4 then .error .unsupported
    else if !(size.all fun x => x.toNat < 128) then .error .bad
    else if vmaj = 4 ∧ flags % 16 ≠ 0 then .error .bad
    else if vmaj = 3 ∧ flags % 32 ≠ 0 then .error .bad
    else
      let total := bpFromBytes 7 true size + 10
      if flags / 64 % 2 = 1 then
        match Id3F.extHeader t vmaj with
        | .error _ => .error .bad
        | .ok _ =>
          -- `extsize_data`; a key of `Frames`: the flag is cleared, else `_extdata` has `extsize` bytes
          let x := (t.drop 10).take 4
          if Generated.frameIds.contains x then .ok ⟨total, none⟩
          else .ok ⟨total, some (if vmaj = 4 then bpFromBytes 7 true x - 4 else bpFromBytes 8 true x)⟩
      else .ok ⟨total, none⟩

/-- `saveAt` with the padding answer as a function of `(info.padding, info.size)`, both integers -/
def saveAtX (f : Bytes) (ptr : Nat) (vmaj : Nat) (frames : Bytes) (ans : Int → Int → Int) : Except PyErr Bytes :=
  match Id3F.headerSize (f.drop ptr) with
  | .error e => .error e
  | .ok hs =>
    let old : Nat := hs.getD 0
    if vmaj ≠ 3 ∧ vmaj ≠ 4 then .error .value else
    let needed : Nat := frames.length + 10
    let trailing : Int := (f.length : Int) - ptr - old
    let newPadding := ans ((old : Int) - needed) trailing
    if newPadding < 0 then .error .mutagen
    -- "the size field of the tag header holds 28 bits": `error("tag too large")`, or the padding is capped
    else if frames.length > 2 ^ 28 - 1 then .error .mutagen
    else
      let padding := min newPadding.toNat (2 ^ 28 - 1 - frames.length)
      match Id3F.header vmaj (frames.length + padding) with
      | .error e => .error e
      | .ok hd =>
        let data := hd ++ frames ++ zeros padding
        let f2 := writeTrunc f ptr data
        writeDsd f2 ⟨f2.length, ptr⟩

/-- `_DSFID3.save` — `save` of Model/Container/Dsf.lean without its `.notImplemented` answers -/
def saveX (f : Bytes) (vmaj : Nat) (frames : Bytes) (ans : Int → Int → Int) : Except PyErr Bytes :=
  match loadDsd f with
  | .error e => .error e
  | .ok h =>
    if h.pointer = 0 then
      match writeDsd f ⟨h.total, f.length⟩ with
      | .error e => .error e
      | .ok f1 => saveAtX f1 f.length vmaj frames ans
    else saveAtX f h.pointer vmaj frames ans

/-- what `DSF(fileobj)` has when the parsing of the frames starts -/
inductive Loaded
  /-- pointer 0: `_pre_load_header` raises ID3NoHeaderError, `tags = None` -/
  | noTag
  /-- no ID3v2 header at the pointer (`unsupported = false`: ID3NoHeaderError) or one of a version that is
  not 2.2/2.3/2.4 (`true`: ID3UnsupportedVersionError): `find_id3v1` is asked (mutagen/id3/_id3v1.py) -/
  | searchV1 (unsupported : Bool)
  /-- the bytes handed to `ID3Tags._read` -/
  | tag (body : Bytes)
deriving DecidableEq, Repr

/-- `DSF.load` up to `self._read(self._header, data)` / `find_id3v1` -/
def load (f : Bytes) : Except PyErr Loaded :=
  match loadDsd f with
  | .error e => .error e
  | .ok h =>
    match loadFmt (readAt f dsdSize fmtSize) with
    | .error e => .error e
    | .ok _ =>
      match loadData (readAt f (dsdSize + fmtSize) dataHdr) with
      | .error e => .error e
      | .ok _ =>
        if h.pointer = 0 then .ok .noTag
        else
          match id3Header (f.drop h.pointer) with
          | .error .bad => .error .mutagen
          | .error .unsupported => .ok (.searchV1 true)
          | .error .noHeader => .ok (.searchV1 false)
          | .ok hd =>
            -- `size = self.size - 10; if self.f_extended: size -= 4 + len(self._header._extdata)`
            let skip := match hd.ext with | some n => 4 + n | none => 0
            if hd.size - 10 < skip then .error .mutagen
            else
              let n := hd.size - 10 - skip
              let body := readAt f (h.pointer + 10 + skip) n
              -- read_full
              if body.length ≠ n then .error .mutagen else .ok (.tag body)

end Mutagen.Dsf
