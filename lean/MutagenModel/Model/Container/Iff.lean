/-
Model/Container/Iff.lean — ID3 tags inside IFF-style chunk files: AIFF (mutagen/aiff.py on
mutagen/_iff.py: root "FORM", big-endian 4-byte sizes), WAVE (mutagen/wave.py on mutagen/_riff.py:
root "RIFF" with form type "WAVE", little-endian 4-byte sizes) and DSDIFF (mutagen/dsdiff.py: root
"FRM8", big-endian 8-byte sizes).  One model, parametrised by a `Dialect`.

Code side (mutagen/_iff.py IffChunk.parse / __init__ / resize / write / delete / _update_size /
_get_actual_data_size, IffContainerChunkMixin.init_container / subchunks / insert_chunk /
__getitem__, IffID3.save / delete; mutagen/wave.py _WaveFile, _WaveID3.save, delete;
mutagen/id3/_file.py _prepare_data): `parseAt`, `parseRoot`, `walk`, `find`, `insertChunk`,
`saveAt`, `save`, `delete` — functions from the bytes of the file to the bytes of the file.  A resize
followed by the write of the new content is `take o ++ new ++ drop (o + old)` (what `resize_bytes`,
`seek`, `write` leave: `replaceRegion_clean` in Proofs/FileOps.lean); the size fields are patched
with `writeAt`.  The rendered frames (`ID3Tags._write`) are a parameter.

Spec side (EA IFF 85 / RIFF / DSDIFF 1.5: a chunk is a 4-byte id, a size field, `size` bytes of data
and one pad byte when `size` is odd; the root chunk's data is a 4-byte form type followed by
chunks and its size field covers exactly that): `Chunk`, `renderFile`, `Layout`, and the strict
walker `readFile`.

All three root containers carry a 4-byte name (`init_container()` is called with the default
`name_size=4` for "FORM", "RIFF" and "FRM8"), so that is a constant here (`nameSize`).
-/
import MutagenModel.Model.Container.Id3File
import MutagenModel.Model.IntCodec
set_option linter.unusedVariables false
namespace Mutagen.Iff
open Mutagen

/-- what differs between the three formats -/
structure Dialect where
  /-- width of the size field (`'>4sI'`: 4, `'>4sQ'`: 8) -/
  sizeW : Nat
  bigEndian : Bool
  /-- id the root chunk must have -/
  rootId : Bytes
  /-- the form type the root must carry (`_WaveFile`: "WAVE"); `none`: any ASCII name -/
  formType : Option Bytes
  /-- chunk ids (decoded, right-stripped) the ID3 lookup of a freshly opened file stops at.
  WAVE: `_WaveFile.__init__` renames the first "ID3" chunk to "id3" and every later lookup asks
  for "id3" — together: the first chunk called "id3" or "ID3". -/
  loadIds : List Bytes
  /-- the id `save` asks for after it has inserted a chunk (`iff_file['ID3']`, `wave_file['id3']`) -/
  key : Bytes
  /-- the four bytes `insert_chunk` writes (`id_.ljust(4)`) -/
  newId : Bytes
  /-- `get_class`: ids whose chunks are constructed as containers, with their `name_size` -/
  containers : List (Bytes × Nat)
deriving DecidableEq, Repr

def aiff : Dialect :=
  { sizeW := 4, bigEndian := true, rootId := [0x46, 0x4F, 0x52, 0x4D], formType := none,
    loadIds := [[0x49, 0x44, 0x33]], key := [0x49, 0x44, 0x33], newId := [0x49, 0x44, 0x33, 0x20],
    containers := [([0x46, 0x4F, 0x52, 0x4D], 4)] }

def wave : Dialect :=
  { sizeW := 4, bigEndian := false, rootId := [0x52, 0x49, 0x46, 0x46], formType := some [0x57, 0x41, 0x56, 0x45],
    loadIds := [[0x69, 0x64, 0x33], [0x49, 0x44, 0x33]], key := [0x69, 0x64, 0x33], newId := [0x69, 0x64, 0x33, 0x20],
    containers := [([0x4C, 0x49, 0x53, 0x54], 4), ([0x52, 0x49, 0x46, 0x46], 4)] }

def dsdiff : Dialect :=
  { sizeW := 8, bigEndian := true, rootId := [0x46, 0x52, 0x4D, 0x38], formType := none,
    loadIds := [[0x49, 0x44, 0x33]], key := [0x49, 0x44, 0x33], newId := [0x49, 0x44, 0x33, 0x20],
    containers := [([0x46, 0x52, 0x4D, 0x38], 4), ([0x50, 0x52, 0x4F, 0x50], 4), ([0x44, 0x53, 0x54], 0)] }

/-- `HEADER_SIZE` -/
def hs (d : Dialect) : Nat := 4 + d.sizeW

/-- the root's `name_size` -/
def nameSize : Nat := 4

/-- `struct.pack` of a size field -/
def enc (d : Dialect) (n : Nat) : Bytes := if d.bigEndian then toBE d.sizeW n else toLE d.sizeW n
/-- `struct.unpack` of a size field -/
def dec (d : Dialect) (b : Bytes) : Nat := if d.bigEndian then ofBE b else ofLE b

/-! ### specification side -/

structure Chunk where
  /-- four bytes -/
  id : Bytes
  data : Bytes
  /-- one byte when the data length is odd, else nothing -/
  pad : Bytes
deriving DecidableEq, Repr

def Chunk.render (d : Dialect) (c : Chunk) : Bytes := c.id ++ enc d c.data.length ++ c.data ++ c.pad

def renderChunks (d : Dialect) : List Chunk → Bytes
  | [] => []
  | c :: r => c.render d ++ renderChunks d r

/-- root header (size field = extent of the content), form type, chunks -/
def renderFile (d : Dialect) (name : Bytes) (cs : List Chunk) : Bytes :=
  d.rootId ++ enc d (name.length + (renderChunks d cs).length) ++ name ++ renderChunks d cs

structure Layout where
  formType : Bytes
  /-- the chunks in front of the ID3 chunk -/
  before : List Chunk
  /-- the ID3 chunk (the first one when there are several) -/
  id3 : Option Chunk
  after : List Chunk
deriving DecidableEq, Repr

def Layout.chunks (L : Layout) : List Chunk := L.before ++ L.id3.toList ++ L.after
def Layout.render (d : Dialect) (L : Layout) : Bytes := renderFile d L.formType L.chunks

/-- strict reading of a chunk sequence: every header complete, every chunk's data and pad byte
(present iff the size is odd) inside the sequence, nothing left over -/
def readChunks (d : Dialect) : Nat → Bytes → Option (List Chunk)
  | 0, b => if b = [] then some [] else none
  | fuel + 1, b =>
    if b = [] then some []
    else if b.length < hs d then none
    else
      let n := dec d ((b.drop 4).take d.sizeW)
      let rest := b.drop (hs d)
      if rest.length < n + n % 2 then none
      else
        match readChunks d fuel (rest.drop (n + n % 2)) with
        | none => none
        | some cs => some (⟨b.take 4, rest.take n, (rest.drop n).take (n % 2)⟩ :: cs)

/-- strict reading of a file: the root id, a root size field equal to the number of bytes that follow
it, the form type, and a chunk sequence that fills the rest exactly -/
def readFile (d : Dialect) (f : Bytes) : Option (Bytes × List Chunk) :=
  if f.length < hs d + nameSize then none
  else if f.take 4 ≠ d.rootId then none
  else if dec d ((f.drop 4).take d.sizeW) ≠ f.length - hs d then none
  else
    match readChunks d f.length (f.drop (hs d + nameSize)) with
    | none => none
    | some cs => some ((f.drop (hs d)).take nameSize, cs)

/-! ### code side -/

/-- the ASCII characters `str.rstrip()` removes -/
def isSpace (b : UInt8) : Bool := (9 ≤ b.toNat && b.toNat ≤ 13) || (28 ≤ b.toNat && b.toNat ≤ 32)

def rstrip (l : Bytes) : Bytes := (l.reverse.dropWhile isSpace).reverse

/-- `is_valid_chunk_id` -/
def validId (s : Bytes) : Bool :=
  decide (0 < s.length) && decide (s.length ≤ 4) && s.all fun b => 32 ≤ b.toNat && b.toNat ≤ 126

/-- `id.decode('ascii').rstrip()` then `is_valid_chunk_id`; `none` = InvalidChunk -/
def chunkId (raw : Bytes) : Option Bytes :=
  if raw.all (fun b => b.toNat < 128) then
    let s := rstrip raw
    if validId s then some s else none
  else none

/-- a parsed chunk: `chunk.id`, `chunk.offset`, `chunk.data_size` (`data_offset = offset + HEADER_SIZE`,
`size = HEADER_SIZE + data_size + data_size % 2`) -/
structure Rec where
  id : Bytes
  offset : Nat
  dataSize : Nat
deriving DecidableEq, Repr

/-- `chunk.size` -/
def Rec.size (d : Dialect) (r : Rec) : Nat := hs d + r.dataSize + r.dataSize % 2

/-- `_get_actual_data_size` of a chunk with data at `dataOff` -/
def actual (f : Bytes) (dataOff dataSize : Nat) : Nat :=
  min (dataSize + dataSize % 2) (f.length - dataOff)

/-- `cls.parse(fileobj, parent)` with the file position at `o`.  `ok none`: EmptyChunk or
InvalidChunk (the sub-chunk walk stops there); `error`: the exception escapes (a container chunk —
`get_class` — whose name bytes are not ASCII raises the module's `error`, which `subchunks` does not
catch). -/
def parseAt (d : Dialect) (f : Bytes) (o : Nat) : Except PyErr (Option Rec) :=
  let h := readAt f o (hs d)
  if h.length < hs d then .ok none
  else
    match chunkId (h.take 4) with
    | none => .ok none
    | some id =>
      let n := dec d (h.drop 4)
      match d.containers.lookup id with
      | none => .ok (some ⟨id, o, n⟩)
      | some ns =>
        -- init_container(name_size)
        if n < ns then .ok none
        else if (readAt f (o + hs d) ns).all (fun b => b.toNat < 128) then .ok (some ⟨id, o, n⟩)
        else .error .mutagen

/-- `AIFFFile(fileobj)` / `_WaveFile(fileobj)` / `DSDIFFFile(fileobj)` up to the root chunk: its
`data_size`.  Everything that goes wrong is a MutagenError. -/
def parseRoot (d : Dialect) (f : Bytes) : Except PyErr Nat :=
  match parseAt d f 0 with
  | .error e => .error e
  | .ok none => .error .mutagen
  | .ok (some r) =>
    if r.id ≠ d.rootId then .error .mutagen
    else
      match d.formType with
      | none => .ok r.dataSize
      | some t => if readAt f (hs d) nameSize ≠ t then .error .mutagen else .ok r.dataSize

/-- the loop of `subchunks()`; every round moves on by at least `HEADER_SIZE` bytes and stays in
front of `endOff ≤ len(file)`, so `len(file)` rounds suffice (running out of fuel is reported as
`diverge`, and does not happen) -/
def walkFrom (d : Dialect) (f : Bytes) (endOff : Nat) : Nat → Nat → Except PyErr (List Rec)
  | 0, next => if next < endOff then .error .diverge else .ok []
  | fuel + 1, next =>
    if next < endOff then
      match parseAt d f next with
      | .error e => .error e
      | .ok none => .ok []
      | .ok (some r) =>
        match walkFrom d f endOff fuel (r.offset + r.size d) with
        | .error e => .error e
        | .ok rs => .ok (r :: rs)
    else .ok []

/-- `root.subchunks()` for a root whose `data_size` is `rootSize` -/
def walk (d : Dialect) (f : Bytes) (rootSize : Nat) : Except PyErr (List Rec) :=
  walkFrom d f (hs d + actual f (hs d) rootSize) f.length (hs d + nameSize)

/-- `container[id]`: the first sub-chunk whose id is one of `ids` -/
def find (ids : List Bytes) (rs : List Rec) : Option Rec := rs.find? fun r => ids.contains r.id

/-- `_update_size` of the chunk at `off` with `data_size = old`: the new size is written into the size
field; `struct.error` (negative or too wide) becomes the module's `error` -/
def updateSize (d : Dialect) (f : Bytes) (off old : Nat) (diff : Int) : Except PyErr (Bytes × Nat) :=
  let n : Int := (old : Int) + diff
  if n < 0 ∨ n ≥ (256 ^ d.sizeW : Nat) then .error .mutagen
  else .ok (writeAt f (off + 4) (enc d n.toNat), n.toNat)

/-- `root.insert_chunk(id)` (no data): a header with size 0 is inserted where the root's data ends —
or where the file ends, if that is earlier; behind the last sub-chunk in damaged files, see below —, parsed back, the root's size grows by the chunk's
size, and the chunk is appended to the list `subchunks()` returns (which is walked again when it
was empty).  Gives the file, the root's new `data_size` and the list. -/
def insertPrep (d : Dialect) (f : Bytes) (rootSize : Nat) (recs : List Rec) :
    Except PyErr (Bytes × Nat × Nat × List Rec) :=
  let next0 := hs d + actual f (hs d) rootSize
  -- `subchunks = self.subchunks()` (walked when the list is still empty)
  match (if recs.isEmpty then walk d f rootSize else .ok recs) with
  | .error e => .error e
  | .ok recs0 =>
    -- damaged files (the last sub-chunk lacks its pad byte, or reaches beyond the root as declared): the
    -- missing pad byte is written, the root grows to the end of its last sub-chunk, the new chunk goes there
    match recs0.getLast? with
    | none => .ok (f, rootSize, next0, recs0)
    | some last =>
      let lastEnd := last.offset + last.size d
      if lastEnd > next0 then
        let f' := if lastEnd = f.length + 1 then f ++ [0] else f
        if lastEnd ≤ f'.length then
          if lastEnd > hs d + rootSize then
            match updateSize d f' 0 rootSize ((lastEnd : Int) - (hs d + rootSize : Nat)) with
            | .error e => .error e
            | .ok (f'', rs') => .ok (f'', rs', lastEnd, recs0)
          else .ok (f', rootSize, lastEnd, recs0)
        else .ok (f', rootSize, next0, recs0)
      else .ok (f, rootSize, next0, recs0)

/-- the insertion proper, at `next` -/
def insertAt (d : Dialect) (f : Bytes) (rootSize next : Nat) (recs : List Rec) :
    Except PyErr (Bytes × Nat × List Rec) :=
  let f1 := f.take next ++ (d.newId ++ enc d 0) ++ f.drop next
  match parseAt d f1 next with
  | .error e => .error e
  | .ok none => .error .mutagen
  | .ok (some c) =>
    match updateSize d f1 0 rootSize (c.size d) with
    | .error e => .error e
    | .ok (f2, rootSize') =>
      match (if recs.isEmpty then walk d f2 rootSize' else .ok recs) with
      | .error e => .error e
      | .ok recs' => .ok (f2, rootSize', recs' ++ [c])

def insertChunk (d : Dialect) (f : Bytes) (rootSize : Nat) (recs : List Rec) :
    Except PyErr (Bytes × Nat × List Rec) :=
  match insertPrep d f rootSize recs with
  | .error e => .error e
  | .ok (fa, rootSizeA, next, recs0) => insertAt d fa rootSizeA next recs0

/-- the rest of `save` once the chunk `c` has been looked up: `_prepare_data(fileobj, c.data_offset,
c.data_size, …)`, `c.resize(len(data))`, `c.write(data)`.  The writes (chunk size, root size, data,
pad byte) go to disjoint places of the resized file, so their order does not show. -/
def saveAt (d : Dialect) (f : Bytes) (rootSize : Nat) (c : Rec) (vmaj : Nat) (frames : Bytes) (pad : PadChoice) :
    Except PyErr Bytes :=
  if vmaj ≠ 3 ∧ vmaj ≠ 4 then .error .value else
  let dataOff := c.offset + hs d
  let needed : Nat := frames.length + 10
  -- `fileobj.seek(0, 2); trailing_size = fileobj.tell() - start - available`
  let trailing : Int := (f.length : Int) - dataOff - c.dataSize
  -- a chunk that claims more data than the file has: the default policy is generated for natural
  -- numbers only — outside the model
  if trailing < 0 then .error .notImplemented
  else
    let newPadding := getPadding pad ((c.dataSize : Int) - needed) trailing.toNat
    if newPadding < 0 then .error .mutagen
    else
      match Id3F.header vmaj (frames.length + newPadding.toNat) with
      | .error e => .error e
      | .ok hd =>
        let data := hd ++ frames ++ zeros newPadding.toNat
        let n := data.length
        -- resize: resize_bytes(fileobj, actual size, n + n % 2, data_offset); write: data, pad byte
        let old := actual f dataOff c.dataSize
        let f1 := f.take dataOff ++ (data ++ zeros (n % 2)) ++ f.drop (dataOff + old)
        match updateSize d f1 c.offset c.dataSize ((n : Int) - c.dataSize) with
        | .error e => .error e
        | .ok (f2, _) =>
          -- the parent: `_update_size(self.size - old_size, self)` with the nominal sizes
          match updateSize d f2 0 rootSize (((hs d + n + n % 2 : Nat) : Int) - (c.size d : Nat)) with
          | .error e => .error e
          | .ok (f3, _) => .ok f3

/-- `IffID3.save` / `_WaveID3.save` on an in-memory file, given the rendered frames -/
def save (d : Dialect) (f : Bytes) (vmaj : Nat) (frames : Bytes) (pad : PadChoice) : Except PyErr Bytes :=
  match parseRoot d f with
  | .error e => .error e
  | .ok rs =>
    match walk d f rs with
    | .error e => .error e
    | .ok recs =>
      match find d.loadIds recs with
      | some c => saveAt d f rs c vmaj frames pad
      | none =>
        match insertChunk d f rs recs with
        | .error e => .error e
        | .ok (f1, rs1, recs1) =>
          match find [d.key] recs1 with
          | none => .error .key
          | some c => saveAt d f1 rs1 c vmaj frames pad

/-- the module functions `delete` (and the methods, which do the same to the file): the chunk's header
and the data that is really there are cut out, the root's size shrinks by the chunk's nominal size;
no ID3 chunk: KeyError, passed -/
def delete (d : Dialect) (f : Bytes) : Except PyErr Bytes :=
  match parseRoot d f with
  | .error e => .error e
  | .ok rs =>
    match walk d f rs with
    | .error e => .error e
    | .ok recs =>
      match find d.loadIds recs with
      | none => .ok f
      | some c =>
        let act := actual f (c.offset + hs d) c.dataSize
        let f1 := f.take c.offset ++ f.drop (c.offset + hs d + act)
        match updateSize d f1 0 rs (-((c.size d : Nat) : Int)) with
        | .error e => .error e
        | .ok (f2, _) => .ok f2

/-! ### the load path, and `save` for ID3 chunks that claim more data than the file has

Added for the closure statements (Props/C04_Iff.lean); the definitions above are unchanged. -/

/-- what `_pre_load_header` does with the bytes (`self._load_file(fileobj)['ID3']`; WAVE: `_WaveFile(fileobj)[u'id3']`):
the root chunk, its sub-chunks, the lookup.  `ok none`: KeyError, caught (ID3NoHeaderError, no tags). -/
def locate (d : Dialect) (f : Bytes) : Except PyErr (Option Rec) :=
  match parseRoot d f with
  | .error e => .error e
  | .ok rs =>
    match walk d f rs with
    | .error e => .error e
    | .ok recs => .ok (find d.loadIds recs)

/-- `save(padding=…)` for `PaddingInfo.size` of either sign: a truncated ID3 chunk (`data_size` beyond the
end of the file) makes `trailing_size = filesize - start - available` negative -/
inductive PadZ
  | default
  | callback (f : Int → Int → Int)

/-- `PaddingInfo.get_default_padding` with an integer `size` (`//` is floor division; for a positive divisor
that is `Int`'s `/`).  Agrees with `Generated.defaultPadding` on natural sizes (Proofs/Container/IffTotal.lean,
`defaultPaddingZ_nat`: re-checked against the generated policy on every build). -/
def defaultPaddingZ (padding size : Int) : Int :=
  let high : Int := 1024 * 10 + size / 100
  let low : Int := 1024 + size / 1000
  if padding ≥ 0 then (if padding > high then low else padding) else low

def getPaddingZ (c : PadZ) (padding size : Int) : Int :=
  match c with
  | .default => defaultPaddingZ padding size
  | .callback f => f padding size

def _root_.Mutagen.PadChoice.toZ : PadChoice → PadZ
  | .default => .default
  | .callback f => .callback fun p s => f p s.toNat

/-- `saveAt` from the point where the padding is known, following `_prepare_data` as it is since /repo commit
a6f73d1: the size field of the ID3 header holds 28 bits — frames that do not fit raise `error("tag too large")`,
the padding is capped at what is left (`saveAt` above, like `Id3F.save`, still follows the earlier code, which
raised ValueError from `BitPaddedInt.to_str`) -/
def saveTail (d : Dialect) (f : Bytes) (rootSize : Nat) (c : Rec) (vmaj : Nat) (frames : Bytes) (newPadding : Int) :
    Except PyErr Bytes :=
  let dataOff := c.offset + hs d
  if newPadding < 0 then .error .mutagen
  else if frames.length > 2 ^ 28 - 1 then .error .mutagen
  else
    let padN := min newPadding.toNat (2 ^ 28 - 1 - frames.length)
    match Id3F.header vmaj (frames.length + padN) with
    | .error e => .error e
    | .ok hd =>
      let data := hd ++ frames ++ zeros padN
      let n := data.length
      let old := actual f dataOff c.dataSize
      let f1 := f.take dataOff ++ (data ++ zeros (n % 2)) ++ f.drop (dataOff + old)
      match updateSize d f1 c.offset c.dataSize ((n : Int) - c.dataSize) with
      | .error e => .error e
      | .ok (f2, _) =>
        match updateSize d f2 0 rootSize (((hs d + n + n % 2 : Nat) : Int) - (c.size d : Nat)) with
        | .error e => .error e
        | .ok (f3, _) => .ok f3

/-- `saveAt` without the restriction to `trailing_size ≥ 0`, and with the current `_prepare_data` (`saveTail`) -/
def saveAtZ (d : Dialect) (f : Bytes) (rootSize : Nat) (c : Rec) (vmaj : Nat) (frames : Bytes) (pad : PadZ) :
    Except PyErr Bytes :=
  if vmaj ≠ 3 ∧ vmaj ≠ 4 then .error .value else
  let trailing : Int := (f.length : Int) - (c.offset + hs d : Nat) - c.dataSize
  saveTail d f rootSize c vmaj frames (getPaddingZ pad ((c.dataSize : Int) - (frames.length + 10 : Nat)) trailing)

/-- `save` with the step after the lookup as a parameter (`save` is `saveWith … saveAt`, `save_eq_saveWith`) -/
def saveWith (d : Dialect) (f : Bytes) (sa : Bytes → Nat → Rec → Except PyErr Bytes) : Except PyErr Bytes :=
  match parseRoot d f with
  | .error e => .error e
  | .ok rs =>
    match walk d f rs with
    | .error e => .error e
    | .ok recs =>
      match find d.loadIds recs with
      | some c => sa f rs c
      | none =>
        match insertChunk d f rs recs with
        | .error e => .error e
        | .ok (f1, rs1, recs1) =>
          match find [d.key] recs1 with
          | none => .error .key
          | some c => sa f1 rs1 c

/-- `IffID3.save` / `_WaveID3.save` for every file, following the current code: like `save` where `save` does not
answer `notImplemented` (a truncated ID3 chunk) or ValueError (a tag beyond 2^28 bytes, earlier code) -/
def saveZ (d : Dialect) (f : Bytes) (vmaj : Nat) (frames : Bytes) (pad : PadZ) : Except PyErr Bytes :=
  saveWith d f fun f1 rs c => saveAtZ d f1 rs c vmaj frames pad

end Mutagen.Iff
