/-
Model/Container/Mp4LoadM.lean — `MP4(fileobj)` (MP4.load) as a program over the file object (Model/FileM.lean): every
file-object call of the real load after `loadfile`'s own `read(0)`, in the order the code makes them.

  Atoms.__init__     seek(0, 2); tell; seek(0); while tell() + 8 <= end: Atom(fileobj)                      -> `atomsM`
  Atom.__init__      tell; read(8); [size field 1: read(8)] [size field 0, level 0: seek(0, 2); tell; seek(offset + 8)]
                     container: seek(skip, 1); while tell() < offset + length: Atom(fileobj, level + 1)
                     other atoms: seek(offset + length)                                                       -> `atomM`, `kidsM`
                     (each `__init__` inside `@convert_error(IOError, AtomError)`; AtomError → `error` in MP4.load)
  MP4Info.load       per `trak` child of `moov` until the handler is "soun": hdlr.read = seek(_dataoffset); read(datalength);
                     then mdhd.read, then stsd.read (the sample entry is parsed from the bytes read)          -> `infoM`
                     (inside `except Exception: reraise(MP4StreamInfoError)`; MP4NoTrackError is swallowed)
  MP4Tags.load       per child of moov.udta.meta.ilst: seek(_dataoffset); read(datalength)                    -> `tagsM`
                     (inside `except Exception: reraise(MP4MetadataError)`)
Not included: `loadfile`'s `fileobj.read(0)` before all this, and MP4Chapters.load (reads `mvhd` and `chpl` when
`moov.udta.chpl` exists; also inside `except Exception: reraise(MP4MetadataError)`).
-/
import MutagenModel.Model.Container.Mp4M
import MutagenModel.Model.Info.Mp4
set_option linter.unusedVariables false
namespace Mutagen.Mp4C
open Mutagen

/-- `fileobj.seek(n, 1)` -/
def fseekRel (n : Nat) : FileM Unit := do
  tick (.seek n); fun _ s => (.ok (), { s with pos := s.pos + n })

/-- `except Exception` (SystemExit and the like pass) -/
def isException (x : PyErr) : Bool := x != .systemExit

mutual
/-- `Atom(fileobj, level)` -/
def atomM : Nat → Nat → FileM PAtom
  | 0, _ => raise .diverge
  | fuel + 1, level => convertError PyErr.isIO .mutagen (do
    let pos ← ftell
    let hdr ← fread 8
    if hdr.length < 8 then raise .mutagen
    else
      let length32 := ofBE (hdr.take 4)
      let name := hdr.drop 4
      let sized : FileM (Nat × Nat) :=
        if length32 = 1 then do
          let ext ← fread 8
          if ext.length < 8 then raise .mutagen
          else if ofBE ext < 16 then raise .mutagen
          else pure (ofBE ext, pos + 16)
        else if length32 = 0 then
          if level ≠ 0 then raise .mutagen
          else do
            fseekEnd
            let size ← ftell
            fseek (pos + 8)
            pure (size - pos, pos + 8)
        else if length32 < 8 then raise .mutagen
        else pure (length32, pos + 8)
      let (length, dataoffset) ← sized
      if isContainer name then
        if level > 64 then raise .mutagen
        else do
          fseekRel (skipSize name)
          let kids ← kidsM fuel (pos + length) (level + 1)
          pure (PAtom.mk name pos length dataoffset kids)
      else do
        fseek (pos + length)
        pure (PAtom.mk name pos length dataoffset []))
/-- `while fileobj.tell() < self.offset + self.length: self.children.append(Atom(fileobj, level + 1))` -/
def kidsM : Nat → Nat → Nat → FileM (List PAtom)
  | 0, _, _ => raise .diverge
  | fuel + 1, stop, level => do
    let t ← ftell
    if t < stop then do
      let a ← atomM fuel level
      let r ← kidsM fuel stop level
      pure (a :: r)
    else pure []
end

/-- `while fileobj.tell() + 8 <= end: self.atoms.append(Atom(fileobj))` -/
def topM : Nat → Nat → FileM (List PAtom)
  | 0, _ => raise .diverge
  | fuel + 1, endd => do
    let t ← ftell
    if t + 8 ≤ endd then do
      let a ← atomM fuel 0
      let r ← topM fuel endd
      pure (a :: r)
    else pure []

/-- `Atoms(fileobj)` -/
def atomsM : FileM (List PAtom) := convertError PyErr.isIO .mutagen (do
  fseekEnd
  let endd ← ftell
  fseek 0
  topM (endd + 4) endd)

/-- `atom.read(fileobj)`: `(len(data) == datalength, data)` -/
def atomReadM (a : PAtom) : FileM (Option Bytes) := do
  fseek a.dataoffset
  let n := a.length - (a.dataoffset - a.offset)
  let d ← fread n
  pure (if d.length = n then some d else none)

open Mutagen.Info.Mp4 in
/-- the loop over the `trak` children of `moov` -/
def findAudioTrakM : List PAtom → FileM (Option PAtom)
  | [] => pure none
  | t :: r =>
    if t.name = nTrak then
      match (path? t.children [nMdia, Info.Mp4.nHdlr]).bind List.getLast? with
      | none => raise .mutagen
      | some hdlr => do
        match ← atomReadM hdlr with
        | none => raise .mutagen
        | some data => if readAt data 8 4 = nSoun then pure (some t) else findAudioTrakM r
    else findAudioTrakM r

open Mutagen.Info.Mp4 in
/-- `MP4Info.load(atoms, fileobj)` as `MP4.load` runs it -/
def infoM (atoms : List PAtom) : FileM Info :=
  tryCatch (do
    match child? atoms nMoov with
    | none => raise .mutagen
    | some moov =>
      match ← findAudioTrakM moov.children with
      | none => pure Info.default
      | some trak =>
        match (path? trak.children [nMdia, nMdhd]).bind List.getLast? with
        | none => raise .mutagen
        | some mdhd =>
          match ← atomReadM mdhd with
          | none => raise .mutagen
          | some data =>
            match mdhdLength data with
            | .error _ => raise .mutagen
            | .ok len =>
              let i := { Info.default with length := len }
              match (path? trak.children [nMdia, nMinf, nStbl, nStsd]).bind List.getLast? with
              | none => pure i
              | some stsd =>
                match ← atomReadM stsd with
                | none => raise .mutagen
                | some sd =>
                  match parseStsd i sd with
                  | .error _ => raise .mutagen        -- whatever `_parse_stsd` raises is an Exception: MP4StreamInfoError
                  | .ok i' => pure i')
    isException (fun _ => raise .mutagen)

/-- the reads of `MP4Tags.load`: the payload of every child of `ilst`, in order ("Not enough data": MP4MetadataError) -/
def childrenM : List PAtom → FileM (List (Bytes × Bytes))
  | [] => pure []
  | a :: r => do
    match ← atomReadM a with
    | none => raise .mutagen
    | some d => do
      let rest ← childrenM r
      pure ((a.name, d) :: rest)

/-- `MP4Tags(atoms, fileobj)` as `MP4.load` runs it: `none` = no tags (`_can_load` is false); else the raw payload of
every item atom (the typed parsers work on these bytes) -/
def tagsM (atoms : List PAtom) : FileM (Option (List (Bytes × Bytes))) :=
  match path? atoms ilstPath with
  | none => pure none
  | some p =>
    tryCatch (do
      match p.getLast? with
      | none => raise .mutagen
      | some ilst => do
        let cs ← childrenM ilst.children
        pure (some cs))
      isException (fun _ => raise .mutagen)

structure Loaded where
  atoms : List PAtom
  info : Info.Mp4.Info
  tags : Option (List (Bytes × Bytes))

/-- `MP4(fileobj)` after `loadfile`'s checks, without the chapters -/
def loadM : FileM Loaded := do
  let atoms ← atomsM
  let info ← infoM atoms
  let tags ← tagsM atoms
  pure { atoms, info, tags }

/-- `MP4Tags.save` with its reads: `Atoms(fileobj)` as the program `atomsM` (every tell / read / seek of the atom reader,
any of which may fail or come back short) instead of the summary `peek` + `parse` of `saveTagsM`; the rest is the same
program.  In environments without injected faults the two do the same to the file (`saveTagsFullM_q`). -/
def saveTagsFullM (B : Nat) (ilstData : Bytes) (pad : PadChoice) : FileM Unit := do
  let atoms ← atomsM
  match regionOf atoms with
  | none => raise .mutagen
  | some R =>
    if (path? atoms ilstPath).isSome then do
      let size ← getSize
      if size < R.offset + R.length then raise .mutagen
      else do
        let new := existingData ilstData pad (size - (R.offset + R.length)) R.length
        resizeBytes B R.length new.length R.offset
        fseek R.offset
        fwrite new
        bookkeepingM R.parents atoms ((new.length : Int) - R.length) R.offset R.length
    else do
      let size ← getSize
      let data := newData ilstData pad (size - R.offset) R.parents
      insertBytes B data.length R.offset
      fseek R.offset
      fwrite data
      bookkeepingM R.parents atoms ((data.length : Int) - (0 : Nat)) R.offset 0

/-- `MP4Tags.save(fileobj, padding)` as the caller sees it, reads included -/
def saveFullEntryM (B : Nat) (ilstData : Bytes) (pad : PadChoice) : FileM Unit :=
  convertError PyErr.isIO .mutagen (saveTagsFullM B ilstData pad)

/-! ### the same on the bytes -/

open Mutagen.Info.Mp4 in
/-- `MP4Info.load` on the bytes, given the atoms (the part of `Info.Mp4.parse` behind `Atoms`) -/
def infoPure (f : Bytes) (atoms : List PAtom) : Except PyErr Info :=
  match child? atoms nMoov with
  | none => .error .mutagen
  | some moov =>
    match findAudioTrak f moov.children with
    | .error e => .error e
    | .ok none => .ok Info.default
    | .ok (some trak) =>
      match (path? trak.children [nMdia, nMdhd]).bind List.getLast? with
      | none => .error .mutagen
      | some mdhd =>
        match atomRead f mdhd with
        | none => .error .mutagen
        | some data =>
          match mdhdLength data with
          | .error _ => .error .mutagen
          | .ok len =>
            let i := { Info.default with length := len }
            match (path? trak.children [nMdia, nMinf, nStbl, nStsd]).bind List.getLast? with
            | none => .ok i
            | some stsd =>
              match atomRead f stsd with
              | none => .error .mutagen
              | some sd =>
                match parseStsd i sd with
                | .error _ => .error .mutagen
                | .ok i' => .ok i'

def childrenPure (f : Bytes) : List PAtom → Except PyErr (List (Bytes × Bytes))
  | [] => .ok []
  | a :: r =>
    match Info.Mp4.atomRead f a with
    | none => .error .mutagen
    | some d =>
      match childrenPure f r with
      | .error e => .error e
      | .ok rest => .ok ((a.name, d) :: rest)

def tagsPure (f : Bytes) (atoms : List PAtom) : Except PyErr (Option (List (Bytes × Bytes))) :=
  match path? atoms ilstPath with
  | none => .ok none
  | some p =>
    match p.getLast? with
    | none => .error .mutagen
    | some ilst =>
      match childrenPure f ilst.children with
      | .error x => .error (if isException x then .mutagen else x)
      | .ok cs => .ok (some cs)

/-- `MP4(fileobj)` on the bytes (without chapters): the atom tree, the stream info, the raw item payloads -/
def loadPure (f : Bytes) : Except PyErr Loaded :=
  match parse f with
  | .error e => .error e
  | .ok atoms =>
    match infoPure f atoms with
    | .error x => .error (if isException x then .mutagen else x)
    | .ok info =>
      match tagsPure f atoms with
      | .error e => .error e
      | .ok tags => .ok { atoms, info, tags }

end Mutagen.Mp4C
