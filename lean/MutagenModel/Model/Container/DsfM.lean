/-
Model/Container/DsfM.lean — `_DSFID3.save` and `mutagen.dsf.delete` (mutagen/dsf.py) as programs over the
file object: every read / seek / tell / write / truncate in the order the Python code makes them, with the
`try … except` and `convert_error` wrappers, so that faults injected at a call index and a finite device
capacity hit the model where they hit the code.

The calls of a save, as `TraceFile` logs them (`r` read, `w` write, `s` seek, `e` seek to the end, `t` tell,
`x` truncate):
  verify_fileobj  r0 w0
  save            s0 | DSDChunk: t r28 | [pointer 0: e t, DSDChunk.write: s0 w28] | s<ptr> |
                  ID3Header: r10 [extended header: r4, (s-4 relative)?, r<extsize>] |
                  _prepare_data: e t | s<ptr> w<len(data)> x | t | DSDChunk.write: s0 w28
and of a delete:
  verify_fileobj  r0 w0 (twice through `DSF.delete`)
  delete          DSDChunk: t r28 | FormatChunk: t r52 | DataChunk: t r12 |
                  [pointer ≠ 0: DSDChunk.write: s<offset> w28 | s<ptr> x]
There is no `resize_bytes`: the new tag is written over the old one at the metadata pointer (growing the
file when it is longer) and the file is truncated behind it.

The parsers are the pure functions of Model/Container/Dsf.lean and Model/Container/Id3File.lean applied
to what the reads returned.  The padding answer is a function of the two integers offered (as in
`saveX`, Model/Container/DsfFull.lean).
-/
import MutagenModel.Model.Container.DsfFull
import MutagenModel.Model.FileOps
set_option linter.unusedVariables false
namespace Mutagen.Dsf
open Mutagen

/-- `verify_fileobj(fileobj, writable=True)`: `read(0)`, `write(b"")`; whatever they raise becomes ValueError -/
def verifyM : FileM Unit := do
  tryCatch (do let _ ← fread 0; pure ()) (fun _ => true) (fun _ => raise .value)
  tryCatch (fwrite []) (fun _ => true) (fun _ => raise .value)

/-- `DSDChunk(fileobj)`: `chunk_offset = fileobj.tell()`, `load()` -/
def loadDsdM : FileM (Nat × Dsd) := do
  let off ← ftell
  let d ← fread dsdSize
  match loadDsd d with
  | .error e => raise e
  | .ok h => pure (off, h)

/-- `DSDChunk.write()`: the 28 bytes are packed first (`struct.error` before the file is touched), then
`seek(chunk_offset); write(…)` -/
def writeDsdM (off : Nat) (h : Dsd) : FileM Unit :=
  if h.total ≥ 2 ^ 64 ∨ h.pointer ≥ 2 ^ 64 then raise .struct_
  else do
    fseek off
    fwrite (dsdChunk h.total h.pointer)

/-- `fileobj.seek(-4, 1)` -/
def fseekBack4 : FileM Unit := fun e s => fseek (s.pos - 4) e s

/-- `fileobj.truncate()`: at the current position -/
def ftruncateHere : FileM Unit := fun e s => ftruncate s.pos e s

/-- `ID3Header(fileobj)` as `save` uses it: `none` = ID3NoHeaderError, `some size`, or the ID3 error
(`@convert_error(IOError, error)`: an I/O error inside becomes the ID3 error, too) -/
def id3HeaderM : FileM (Option Nat) :=
  convertError PyErr.isIO .mutagen do
    let d ← fread 10
    if d.length ≠ 10 then pure none
    else
      let vmaj := (d.getD 3 0).toNat
      let flags := (d.getD 5 0).toNat
      let size := d.drop 6
      if d.take 3 ≠ Id3F.magicID3 then pure none
      else if vmaj ≠ 2 ∧ vmaj ≠ 3 ∧ vmaj ≠ 4 then raise .mutagen
      else if !(size.all fun x => x.toNat < 128) then raise .mutagen
      else if vmaj = 4 ∧ flags % 16 ≠ 0 then raise .mutagen
      else if vmaj = 3 ∧ flags % 32 ≠ 0 then raise .mutagen
      else if flags / 64 % 2 = 1 then do
        -- `extsize_data = read_full(fileobj, 4)`
        let x ← readFull 4
        if Generated.frameIds.contains x then do
          -- the flag is a tagger's mistake: `fileobj.seek(-4, 1)`, `read_full(fileobj, 0)`
          fseekBack4
          let _ ← readFull 0
          pure (some (bpFromBytes 7 true size + 10))
        else if vmaj = 4 then
          if !(x.all fun b => b.toNat < 128) then raise .mutagen
          else if bpFromBytes 7 true x < 4 then raise .mutagen
          else do
            let _ ← readFull ((bpFromBytes 7 true x - 4 : Nat) : Int)
            pure (some (bpFromBytes 7 true size + 10))
        else do
          let _ ← readFull ((bpFromBytes 8 true x : Nat) : Int)
          pure (some (bpFromBytes 7 true size + 10))
      else pure (some (bpFromBytes 7 true size + 10))

/-- the body of `_DSFID3.save(fileobj, v2_version, padding)` behind `loadfile`, given the rendered frames -/
def saveM (vmaj : Nat) (frames : Bytes) (ans : Int → Int → Int) : FileM Unit := do
  verifyM
  fseek 0
  let (off, h) ← loadDsdM
  -- no tag yet: the tag goes to the end of the file and the pointer is written at once
  let ptr ← (if h.pointer = 0 then do
      fseekEnd
      let p ← ftell
      writeDsdM off ⟨h.total, p⟩
      pure p
    else pure h.pointer : FileM Nat)
  fseek ptr
  -- `try: old_size = ID3Header(fileobj).size  except ID3NoHeaderError: old_size = 0`
  let hs ← id3HeaderM
  let old : Nat := hs.getD 0
  -- _prepare_data
  if vmaj ≠ 3 ∧ vmaj ≠ 4 then raise .value
  let needed : Nat := frames.length + 10
  fseekEnd
  let size ← ftell
  let trailing : Int := (size : Int) - ptr - old
  let newPadding := ans ((old : Int) - needed) trailing
  if newPadding < 0 then raise .mutagen
  if frames.length > 2 ^ 28 - 1 then raise .mutagen
  let padN : Nat := min newPadding.toNat (2 ^ 28 - 1 - frames.length)
  match Id3F.header vmaj (frames.length + padN) with
  | .error e => raise e
  | .ok hd =>
    let data := hd ++ frames ++ zeros padN
    fseek ptr
    fwrite data
    ftruncateHere
    -- `dsd_header.total_size = fileobj.tell(); dsd_header.write()`
    let total ← ftell
    writeDsdM off ⟨total, ptr⟩

/-- `_DSFID3.save` as the caller sees it: `@convert_error(IOError, error)` around everything -/
def saveEntry (vmaj : Nat) (frames : Bytes) (ans : Int → Int → Int) : FileM Unit :=
  convertError PyErr.isIO .mutagen (saveM vmaj frames ans)

/-- the body of the module function `delete(fileobj)`; `DSF.delete(fileobj)` runs `verify_fileobj` twice -/
def deleteM (method : Bool) : FileM Unit := do
  (if method then verifyM else pure () : FileM Unit)
  verifyM
  let (off, h) ← loadDsdM
  -- FormatChunk(fileobj), DataChunk(fileobj)
  let _ ← ftell
  let d1 ← fread fmtSize
  match loadFmt d1 with
  | .error e => raise e
  | .ok _ =>
    let _ ← ftell
    let d2 ← fread dataHdr
    match loadData d2 with
    | .error e => raise e
    | .ok _ =>
      if h.pointer ≠ 0 then do
        writeDsdM off ⟨h.pointer, 0⟩
        fseek h.pointer
        ftruncateHere
      else pure ()

def deleteEntry (method : Bool) : FileM Unit :=
  convertError PyErr.isIO .mutagen (deleteM method)

end Mutagen.Dsf
