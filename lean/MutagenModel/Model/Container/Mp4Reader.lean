/-
Model/Container/Mp4Reader.lean — mutagen's own reader of the `ilst` children: `MP4Tags.load` (mutagen/mp4/__init__.py)
on the `(name, payload)` of every child (what `tagsPure` / `tagsM` of Mp4LoadM.lean return), following the code:
`__parse_data` (a generator: the consumer handles item i before item i+1 is looked at) and the typed parsers of the
`__atoms` table — text (known atoms: implicit or UTF-8; unknown atoms: UTF-8 only), `----` freeform with mean / name,
`trkn` / `disk` pairs, integers of 1/2/3/4/8 bytes, `cpil`-style bools, `covr`, `gnre` → `©gen` — with every raise:
  failed  MP4MetadataError (and its subclass MP4MetadataValueError): caught by `load`, the child's payload goes to
          `_failed_atoms[name]`;
  crash   any other exception (struct.error / cdata.error from a short slice, TypeError from `ord(b"")`): not caught
          by `load`, so `MP4.load` turns it into MP4MetadataError and the whole load fails.
Keys are the Latin-1 bytes of the Python key (`_name2key`); text values are lists of code points.
-/
import MutagenModel.Model.Mp4Tags
import MutagenModel.Model.DictMp4
import MutagenModel.Model.Utf8
import MutagenModel.Generated.Genres
import MutagenModel.Model.TagOrder
set_option linter.unusedVariables false
namespace Mutagen.Mp4R
open Mutagen

/-- the value stored under a key -/
inductive TagVal
  | text (vs : List (List Nat))
  | freeform (vs : List Mp4Tags.Data)          -- MP4FreeForm: `version`, `dataformat` (flags), the bytes
  | pairs (vs : List (Nat × Nat))
  | ints (vs : List Int)
  | bool (b : Bool)
  | covers (vs : List (Nat × Bytes))           -- MP4Cover: `imageformat`, the bytes
deriving DecidableEq, Repr

/-- outcome of a parser -/
inductive POut (α : Type)
  | ok (a : α)
  | failed
  | crash
deriving Repr

structure Tags where
  /-- the dict, in insertion order -/
  items : List (Bytes × TagVal) := []
  /-- `_failed_atoms`: name → payloads, in insertion order -/
  failed : List (Bytes × List Bytes) := []
deriving Repr

def TagVal.extend : TagVal → TagVal → TagVal
  | .text a, .text b => .text (a ++ b)
  | .freeform a, .freeform b => .freeform (a ++ b)
  | .pairs a, .pairs b => .pairs (a ++ b)
  | .ints a, .ints b => .ints (a ++ b)
  | .covers a, .covers b => .covers (a ++ b)
  | a, _ => a

/-- `self.setdefault(key, []).extend(value)` (`v` carries the values to append) -/
def addMulti (key : Bytes) (v : TagVal) : List (Bytes × TagVal) → List (Bytes × TagVal)
  | [] => [(key, v)]
  | (k, old) :: r => if k = key then (k, old.extend v) :: r else (k, old) :: addMulti key v r

/-- `self[key] = value` -/
def setSingle (key : Bytes) (v : TagVal) : List (Bytes × TagVal) → List (Bytes × TagVal)
  | [] => [(key, v)]
  | (k, old) :: r => if k = key then (k, v) :: r else (k, old) :: setSingle key v r

/-- `_failed_atoms.setdefault(name, []).append(data)` -/
def addFailed (name data : Bytes) : List (Bytes × List Bytes) → List (Bytes × List Bytes)
  | [] => [(name, [data])]
  | (k, ds) :: r => if k = name then (k, ds ++ [data]) :: r else (k, ds) :: addFailed name data r

/-- Python `data[a:b]` for `0 ≤ a` -/
def slice (d : Bytes) (a b : Nat) : Bytes := (d.drop a).take (b - a)

/-- the loop of `__parse_data` driving a consumer `f` (state `σ`): header check of item i (failed), then `f` on
`(version, flags, chunk)`, then item i+1 -/
def forData {σ : Type} (atomLen : Nat) (data : Bytes) (f : σ → Nat × Nat × Bytes → POut σ) : Nat → Nat → σ → POut σ
  | 0, _, _ => .crash
  | fuel + 1, pos, st =>
    if pos < atomLen - 8 then
      let head := slice data pos (pos + 12)
      if head.length ≠ 12 then .failed                              -- "truncated atom"
      else
        let length := ofBE (head.take 4)
        if length < 1 then .failed                                  -- "has a length of zero"
        else if (head.drop 4).take 4 ≠ Mp4Tags.dataName then .failed  -- "unexpected atom"
        else
          let chunk := slice data (pos + 16) (pos + length)
          if (chunk.length : Int) ≠ (length : Int) - 16 then .failed  -- "truncated atom"
          else
            match f st (ofBE ((head.drop 8).take 1), ofBE ((head.drop 9).take 3), chunk) with
            | .ok st' => forData atomLen data f fuel (pos + length) st'
            | .failed => .failed
            | .crash => .crash
    else .ok st

def parseData {σ : Type} (atomLen : Nat) (data : Bytes) (f : σ → Nat × Nat × Bytes → POut σ) (st : σ) : POut σ :=
  forData atomLen data f (data.length + 1) 0 st

/-- `__parse_text` -/
def parseText (implicit : Bool) (atomLen : Nat) (data : Bytes) : POut (List (List Nat)) :=
  parseData atomLen data (fun vs (item : Nat × Nat × Bytes) =>
    if (if implicit then item.2.1 ≠ 0 ∧ item.2.1 ≠ 1 else item.2.1 ≠ 1) then .failed
    else match Utf8.decode item.2.2 with
      | none => .failed
      | some t => .ok (vs ++ [t])) []

/-- `__parse_pair`: `struct.unpack(">2H", d[2:6])` — struct.error on a payload below 6 bytes -/
def parsePairs (atomLen : Nat) (data : Bytes) : POut (List (Nat × Nat)) :=
  parseData atomLen data (fun vs (item : Nat × Nat × Bytes) =>
    match Mp4Tags.parsePair item.2.2 with
    | none => .crash
    | some p => .ok (vs ++ [p])) []

/-- Python `GENRES[i]` for an integer index -/
def genreAt (i : Int) : Option (List Nat) :=
  if 0 ≤ i then Generated.genres[i.toNat]?
  else if -i ≤ Generated.genres.length then Generated.genres[Generated.genres.length - (-i).toNat]? else none

/-- `__parse_genre` -/
def parseGenre (atomLen : Nat) (data : Bytes) : POut (List (List Nat)) :=
  parseData atomLen data (fun vs (item : Nat × Nat × Bytes) =>
    if item.2.2.length ≠ 2 then .failed
    else match genreAt (Mp4Tags.ofSignedBE item.2.2 - 1) with
      | none => .failed
      | some g => .ok (vs ++ [g])) []

/-- `__parse_integer` -/
def parseInts (atomLen : Nat) (data : Bytes) : POut (List Int) :=
  parseData atomLen data (fun vs (item : Nat × Nat × Bytes) =>
    if item.1 ≠ 0 then .failed
    else if item.2.1 ≠ 0 ∧ item.2.1 ≠ 21 then .failed
    else match Mp4Tags.parseInt item.2.2 with
      | none => .failed
      | some v => .ok (vs ++ [v])) []

/-- `__parse_bool`: the key is set inside the loop, item by item — a later bad item leaves the earlier assignment -/
def parseBool (key : Bytes) (atomLen : Nat) (data : Bytes) (items : List (Bytes × TagVal)) : List (Bytes × TagVal) × Bool × Bool :=
  -- (dict afterwards, failed?, crashed?)
  let rec go : Nat → Nat → List (Bytes × TagVal) → List (Bytes × TagVal) × Bool × Bool
    | 0, _, its => (its, false, true)
    | fuel + 1, pos, its =>
      if pos < atomLen - 8 then
        let head := slice data pos (pos + 12)
        if head.length ≠ 12 then (its, true, false)
        else
          let length := ofBE (head.take 4)
          if length < 1 then (its, true, false)
          else if (head.drop 4).take 4 ≠ Mp4Tags.dataName then (its, true, false)
          else
            let chunk := slice data (pos + 16) (pos + length)
            if (chunk.length : Int) ≠ (length : Int) - 16 then (its, true, false)
            else if chunk.length ≠ 1 then (its, true, false)
            else go fuel (pos + length) (setSingle key (.bool (ofBE chunk ≠ 0)) its)
      else (its, false, false)
  go (data.length + 1) 0 items

/-- `__parse_cover` -/
def parseCovers (atomLen : Nat) (data : Bytes) : POut (List (Nat × Bytes)) :=
  let rec go : Nat → Nat → List (Nat × Bytes) → POut (List (Nat × Bytes))
    | 0, _, _ => .crash
    | fuel + 1, pos, vs =>
      if pos < atomLen - 8 then
        let head := slice data pos (pos + 12)
        if head.length ≠ 12 then .crash                       -- struct.error
        else
          let length := ofBE (head.take 4)
          let name := (head.drop 4).take 4
          let fmt := ofBE (head.drop 8)
          if length < 1 then .failed
          else if name ≠ Mp4Tags.dataName then
            if name = Mp4Tags.nameName then go fuel (pos + length) vs else .failed
          else
            let fmt' := if fmt ≠ 13 ∧ fmt ≠ 14 then 13 else fmt
            go fuel (pos + length) (vs ++ [(fmt', slice data (pos + 16) (pos + length))])
      else .ok vs
  go (atomLen + 1) 0 []

/-- `__parse_freeform`: `(mean, name, values)` -/
def parseFreeform (atomLen : Nat) (data : Bytes) : POut (Bytes × Bytes × List Mp4Tags.Data) :=
  if (data.take 4).length < 4 then .crash                     -- cdata.uint_be(data[:4])
  else
    let length := ofBE (data.take 4)
    let mean := slice data 12 length
    let pos := length
    let l2 := slice data pos (pos + 4)
    if l2.length < 4 then .crash
    else
      let length2 := ofBE l2
      let name := slice data (pos + 12) (pos + length2)
      let rec go : Nat → Nat → List Mp4Tags.Data → POut (List Mp4Tags.Data)
        | 0, _, _ => .crash
        | fuel + 1, pos, vs =>
          if pos < atomLen - 8 then
            let head := slice data pos (pos + 8)
            if head.length ≠ 8 then .crash                    -- struct.error
            else
              let length := ofBE (head.take 4)
              if head.drop 4 ≠ Mp4Tags.dataName then .failed
              else if length < 1 then .failed
              else
                let v := slice data (pos + 8) (pos + 9)
                if v.length ≠ 1 then .crash                   -- ord(b""): TypeError
                else
                  let fl := slice data (pos + 9) (pos + 12)
                  if fl.length ≠ 3 then .crash                -- struct.error
                  else go fuel (pos + length) (vs ++ [{ version := ofBE v, flags := ofBE fl, payload := slice data (pos + 16) (pos + length) }])
          else .ok vs
      match go (atomLen + 1) (pos + length2) [] with
      | .ok vs => .ok (mean, name, vs)
      | .failed => .failed
      | .crash => .crash

def nGnre : Bytes := [0x67, 0x6e, 0x72, 0x65]
def nGen : Bytes := [0xa9, 0x67, 0x65, 0x6e]

/-- the parse function `__atoms` associates with a name (`none`: not in the table → text, UTF-8 only) -/
def kindOf (name : Bytes) : Option Dict.Mp4Kind := Dict.lookup (name.map (·.toNat)) Dict.mp4Atoms

/-- one round of the loop of `MP4Tags.load`; `none` = the load raises (a crash inside a parser) -/
def loadChild (t : Tags) (name : Bytes) (atomLen : Nat) (data : Bytes) : Option Tags :=
  let fail : Option Tags := some { t with failed := addFailed name data t.failed }
  let multi (o : POut TagVal) (key : Bytes) : Option Tags :=
    match o with
    | .ok v => some { t with items := addMulti key v t.items }
    | .failed => fail
    | .crash => none
  let mapO {α : Type} (o : POut α) (g : α → TagVal) : POut TagVal :=
    match o with | .ok a => .ok (g a) | .failed => .failed | .crash => .crash
  match kindOf name with
  | none => multi (mapO (parseText false atomLen data) .text) name
  | some .text => multi (mapO (parseText true atomLen data) .text) name
  | some .freeform =>
    match parseFreeform atomLen data with
    | .ok (mean, nm, vs) => some { t with items := addMulti (name ++ [0x3a] ++ mean ++ [0x3a] ++ nm) (.freeform vs) t.items }
    | .failed => fail
    | .crash => none
  | some .pair => multi (mapO (parsePairs atomLen data) .pairs) name
  | some .pairNoTrailing => multi (mapO (parsePairs atomLen data) .pairs) name
  | some .genre => multi (mapO (parseGenre atomLen data) .text) nGen
  | some (.integer _) => multi (mapO (parseInts atomLen data) .ints) name
  | some .bool =>
    match parseBool name atomLen data t.items with
    | (its, _, true) => none
    | (its, true, false) => some { items := its, failed := addFailed name data t.failed }
    | (its, false, false) => some { t with items := its }
  | some .cover => multi (mapO (parseCovers atomLen data) .covers) name

/-- `MP4Tags.load` over the children `(name, atom.length, payload)` of `ilst`, in order -/
def loadTags : List (Bytes × Nat × Bytes) → Tags → Option Tags
  | [], t => some t
  | (name, len, data) :: r, t =>
    match loadChild t name len data with
    | none => none
    | some t' => loadTags r t'

/-- what `MP4Tags.save` appends behind the rendered (sorted) items: for every entry of `_failed_atoms`, in insertion
order, unless a tag with that key exists now, `Atom.render(name, data)` of every payload kept -/
def failedValues (t : Tags) : List Bytes :=
  (t.failed.filter fun kv => !(t.items.any fun it => it.1 == kv.1)).flatMap fun kv => kv.2.map (Mp4Tags.renderAtom kv.1)

/-! ### the order in which `MP4Tags.save` writes the items: `_item_sort_key` -/

/-- `order` of `_item_sort_key` (Latin-1 bytes of the names) -/
def sortOrder : List Bytes :=
  [[0xa9, 0x6e, 0x61, 0x6d], [0xa9, 0x41, 0x52, 0x54], [0xa9, 0x77, 0x72, 0x74], [0xa9, 0x61, 0x6c, 0x62], [0xa9, 0x67, 0x65, 0x6e],
   [0x67, 0x6e, 0x72, 0x65], [0x74, 0x72, 0x6b, 0x6e], [0x64, 0x69, 0x73, 0x6b], [0xa9, 0x64, 0x61, 0x79], [0x63, 0x70, 0x69, 0x6c],
   [0x70, 0x67, 0x61, 0x70], [0x70, 0x63, 0x73, 0x74], [0x74, 0x6d, 0x70, 0x6f], [0xa9, 0x74, 0x6f, 0x6f], [0x2d, 0x2d, 0x2d, 0x2d],
   [0x63, 0x6f, 0x76, 0x72], [0xa9, 0x6c, 0x79, 0x72]]

/-- `order.get(key[:4], last)` -/
def sortPrio (key : Bytes) : Nat := sortOrder.findIdx (· = key.take 4)

/-- a tag as `save` sees it: its key, `repr(value)` (code points; Python's `repr` is not modelled — a parameter), and what
`_render(key, value)` returns -/
structure SItem where
  key : Bytes
  repr : List Nat
  rendered : Bytes
deriving Repr

/-- `_item_sort_key(a) <= _item_sort_key(b)`: `(order.get(key[:4], last), len(repr(value)), repr(value))`, tuples and
strings compared as Python does -/
def itemLe (a b : SItem) : Bool :=
  decide (sortPrio a.key < sortPrio b.key) || (decide (sortPrio a.key = sortPrio b.key) &&
    (decide (a.repr.length < b.repr.length) || (decide (a.repr.length = b.repr.length) && TagOrder.lexLe a.repr b.repr)))

/-- `sorted(self.items(), key=…)` (stable: items with equal sort keys keep the order of the dict) -/
def sortItems (items : List SItem) : List SItem := items.mergeSort itemLe

/-- the children of the `ilst` atom `save` renders: the rendered items in sort order, then the atoms kept in `_failed_atoms` -/
def ilstChildren (items : List SItem) (t : Tags) : List Bytes := (sortItems items).map (·.rendered) ++ failedValues t

end Mutagen.Mp4R
