/-
Model/Container/OggInjectFullM.lean — `_inject` / `save` / `delete` of the Ogg formats with the READS too:
Model/Container/OggInjectM.lean summarises the search for the comment pages by its result on the bytes
(`commentPages c f`, `f.length`); here the search is the program the code runs —

  fileobj.seek(0)
  OggPage(fileobj) in a loop: to the identification page, then to the first page of the comment packet
     (Vorbis/Theora: id magic, then the page of that serial with the comment magic, the id page tested first;
      Opus: OggOpusInfo(fileobj), then the page of the serial that starts with "OpusTags";
      Speex: id magic, then the next page of that serial; Ogg FLAC: id magic, then the page numbered 1)
  OggPage(fileobj) in a loop: the pages of the serial until one is complete or holds more than one packet
  to_packets                                      (no file access)
  get_size(fileobj)                               (tell; seek(0,2); tell; seek(old) — not for Ogg FLAC, not for
                                                   Opus with preserved data)
  … then `OggPage.replace` as in OggInjectM.lean (`replaceM`).
-/
import MutagenModel.Model.Container.OggInjectLoadM
set_option linter.unusedVariables false
namespace Mutagen.OggInj
open Mutagen Mutagen.Ogg

/-- the scan, returning the page with its offset (`Rd`) -/
def scanRdM (pred : Page → Bool) (fuel : Nat) : FileM Rd := do
  let r ← scanM pred fuel
  pure ⟨r.1, r.2⟩

/-- `collectM` keeping the offsets (`OggPage.replace` needs them) -/
def collectRdM (serial : Nat) : Nat → List Rd → Page → FileM (List Rd)
  | 0, _, _ => raise .diverge
  | fuel + 1, acc, last =>
    if last.complete || decide (last.packets.length > 1) then pure acc
    else do
      let r ← readPageM
      if r.1.serial = serial then collectRdM serial fuel (acc ++ [⟨r.1, r.2⟩]) r.1
      else collectRdM serial fuel acc last

/-- Vorbis / Theora: `idThenComment` as a program -/
def idThenCommentM (idMagic commentMagic : Bytes) (n : Nat) : FileM Rd := do
  let r ← scanRdM (startsWith idMagic) (n + 1)
  let isComment := fun (p : Page) => decide (p.serial = r.page.serial) && startsWith commentMagic p
  if isComment r.page then pure r else scanRdM isComment (n + 1)

/-- `findStart` as a program (the file object is at position 0) -/
def findStartM (c : Codec) (n : Nat) : FileM Rd :=
  match c with
  | .vorbis => idThenCommentM magicVorbisId magicVorbisComment n
  | .theora => idThenCommentM magicTheoraId magicTheoraComment n
  | .opus => do
    let r ← scanRdM (startsWith magicOpusHead) (n + 1)
    if !r.page.first then raise .mutagen
    else
      let pk := r.page.packets.headD []
      if pk.length < 19 then raise .mutagen
      else if (pk.getD 8 0).toNat / 16 ≠ 0 then raise .mutagen
      else scanRdM (fun p => decide (p.serial = r.page.serial) && startsWith magicOpusTags p) (n + 1)
  | .speex => do
    let r ← scanRdM (startsWith magicSpeex) (n + 1)
    scanRdM (fun p => decide (p.serial = r.page.serial)) (n + 1)
  | .flac => do
    let r ← scanRdM (startsWith magicFlac) (n + 1)
    let isSecond := fun (p : Page) => decide (p.sequence = 1) && decide (p.serial = r.page.serial)
    if isSecond r.page then pure r else scanRdM isSecond (n + 1)

/-- `fileobj.seek(0)` and the search for `old_pages` -/
def commentPagesM (c : Codec) : FileM (List Rd) := do
  fseek 0
  let n ← fileLen
  let r ← findStartM c n
  collectRdM r.page.serial (n + 1) [r] r.page

/-- does this `_inject` ask for the size of the file (for the padding policy) -/
def needSize (c : Codec) (padData : Bytes) : Bool :=
  match c with
  | .flac => false
  | .opus => padData.isEmpty
  | _ => true

/-- `_inject` with its reads -/
def injectFullM (B : Nat) (c : Codec) (vc padData : Bytes) (pad : PadChoice) : FileM Unit := do
  let old ← commentPagesM c
  match toPackets (old.map (·.page)) false with
  | .error e => raise e
  | .ok [] => raise .index
  | .ok (old0 :: others) =>
    let fsize ← (if needSize c padData then getSize else fileLen)
    match newPacket c old0 vc padData pad fsize with
    | .error e => raise e
    | .ok new0 =>
      match newPages c (new0 :: others) (old.map (·.page)) with
      | .error e => raise e
      | .ok new => replaceM B old new (fsize + (new.map Page.size).sum + 1)

/-- `OggFileType.save` with its reads, in the handlers -/
def saveFullM (B : Nat) (c : Codec) (vc padData : Bytes) (pad : PadChoice) : FileM Unit :=
  tryCatch (injectFullM B c vc padData pad) oggCaught (fun _ => raise .mutagen)

/-- `OggFileType.delete` with its reads -/
def deleteFullM (B : Nat) (c : Codec) (vendor padData : Bytes) : FileM Unit :=
  saveFullM B c (Vorbis.encode vendor [] c.framing) padData (.callback fun _ _ => 0)

end Mutagen.OggInj
