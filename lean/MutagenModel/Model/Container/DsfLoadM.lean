/-
Model/Container/DsfLoadM.lean — `DSF(fileobj)` (mutagen/dsf.py DSF.load) as a program over the file object:
every read / seek / tell in the order the Python code makes them, with the `try … except` and
`convert_error` wrappers, so that a fault injected at a call index or a short read hits the model where it
hits the code.

The calls of a load, as `TraceFile` logs them:
  DSF.load, loadfile            verify_fileobj: r0
  DSFFile                       DSDChunk: t r28 | FormatChunk: t r52 | DataChunk: t r12
  _DSFID3(fileobj) = ID3.load   verify_fileobj: r0
    _pre_load_header            s0 | DSDChunk: t r28 | pointer 0: ID3NoHeaderError (tags = None), else s<ptr>
    ID3Header                   r10 [extended header: r4, then (s-4 relative, r0) or r<extsize>]
    header found                read_full: r<size - 10 - extended header> | ID3Tags._read (no file call) |
                                find_id3v1: t e(-131) r131 s<old>
    no / unsupported header     find_id3v1: t e(-131) r131 s<old>; nothing found: the exception is raised again
                                (ID3NoHeaderError: tags = None; ID3UnsupportedVersionError: the DSF error)
Included: all of these calls.  Not included: what `ID3Tags._read` and `ParseID3v1` make of the bytes (no file
calls; the model returns the bytes handed to `_read` and the length of the ID3v1 block found).

`headM` is the part the pure `Dsf.load` (Model/Container/DsfFull.lean) describes; `finishM` is the ID3v1 search.
-/
import MutagenModel.Model.Container.DsfM
set_option linter.unusedVariables false
namespace Mutagen.Dsf
open Mutagen

/-- `verify_fileobj(fileobj)`: `read(0)`; whatever it raises becomes ValueError -/
def verifyReadM : FileM Unit :=
  tryCatch (do let _ ← fread 0; pure ()) (fun _ => true) (fun _ => raise .value)

/-- `fileobj.seek(-n, 2)` on an in-memory file (a position in front of the start is the start) -/
def fseekEndBack (n : Nat) : FileM Unit := do
  tick .seekEnd; fun _ s => (.ok (), { s with pos := s.data.length - n })

/-- what `find_id3v1` finds in the (at most 131) bytes it read: the length of the ID3v1 block.  `Id3F.findV1`
looks at the last 131 bytes of its argument — here: at all of `data` -/
def v1Of (data : Bytes) : Option Nat := Id3F.findV1 data

/-- `find_id3v1(fileobj)`: tell, seek(-131, 2), read(131), seek(old) (an IOError of the seek other than
EINVAL is raised again) -/
def findV1M : FileM (Option Nat) := do
  let old ← ftell
  fseekEndBack 131
  let data ← fread 131
  fseek old
  pure (v1Of data)

/-- `ID3Header(fileobj)` with everything `ID3.load` uses: ID3NoHeaderError and ID3UnsupportedVersionError are
values (`ID3.load` catches them), the ID3 error is raised (`@convert_error(IOError, error)`: an I/O error
inside becomes the ID3 error, too) -/
def id3HeaderFullM : FileM (Except HdrErr Hdr) :=
  convertError PyErr.isIO .mutagen do
    let d ← fread 10
    if d.length ≠ 10 then pure (.error .noHeader)
    else
      let vmaj := (d.getD 3 0).toNat
      let flags := (d.getD 5 0).toNat
      let size := d.drop 6
      if d.take 3 ≠ Id3F.magicID3 then pure (.error .noHeader)
      else if vmaj ≠ 2 ∧ vmaj ≠ 3 ∧ vmaj ≠ 4 then pure (.error .unsupported)
      else if !(size.all fun x => x.toNat < 128) then raise .mutagen
      else if vmaj = 4 ∧ flags % 16 ≠ 0 then raise .mutagen
      else if vmaj = 3 ∧ flags % 32 ≠ 0 then raise .mutagen
      else
        let total := bpFromBytes 7 true size + 10
        if flags / 64 % 2 = 1 then do
          let x ← readFull 4
          if Generated.frameIds.contains x then do
            fseekBack4
            let _ ← readFull 0
            pure (.ok ⟨total, none⟩)
          else if vmaj = 4 then
            if !(x.all fun b => b.toNat < 128) then raise .mutagen
            else if bpFromBytes 7 true x < 4 then raise .mutagen
            else do
              let _ ← readFull ((bpFromBytes 7 true x - 4 : Nat) : Int)
              pure (.ok ⟨total, some (bpFromBytes 7 true x - 4)⟩)
          else do
            let _ ← readFull ((bpFromBytes 8 true x : Nat) : Int)
            pure (.ok ⟨total, some (bpFromBytes 8 true x)⟩)
        else pure (.ok ⟨total, none⟩)

/-- `DSF.load` up to `ID3Tags._read` / `find_id3v1`: what the pure `Dsf.load` describes -/
def headM : FileM Loaded := do
  verifyReadM
  -- DSFFile(fileobj)
  let _ ← loadDsdM
  let _ ← ftell
  let d1 ← fread fmtSize
  match loadFmt d1 with
  | .error e => raise e
  | .ok _ =>
    let _ ← ftell
    let d2 ← fread dataHdr
    match loadData d2 with
    | .error e => raise e
    | .ok _ =>
      -- _DSFID3(fileobj): ID3.load, _pre_load_header
      verifyReadM
      fseek 0
      let (_, h) ← loadDsdM
      if h.pointer = 0 then pure .noTag
      else do
        fseek h.pointer
        let r ← id3HeaderFullM
        match r with
        | .error .unsupported => pure (.searchV1 true)
        | .error _ => pure (.searchV1 false)
        | .ok hd =>
          -- `size = self.size - 10; if self.f_extended: size -= 4 + len(self._header._extdata)`
          let skip := match hd.ext with | some n => 4 + n | none => 0
          if hd.size - 10 < skip then raise .mutagen
          else do
            -- `data = read_full(fileobj, size)` under ID3.load's `@convert_error(IOError, error)`
            let body ← convertError PyErr.isIO .mutagen (readFull ((hd.size - 10 - skip : Nat) : Int))
            pure (.tag body)

/-- what `DSF(fileobj)` ends with -/
inductive LoadedX
  /-- pointer 0: `tags = None` -/
  | noTag
  /-- no ID3v2 header at the pointer and no ID3v1 block: `tags = None` -/
  | noV2
  /-- no (supported) ID3v2 header at the pointer, an ID3v1 block of `n` bytes at the end of the file -/
  | v1only (n : Nat)
  /-- the bytes handed to `ID3Tags._read`, the ID3v1 block found (its frames are merged in) -/
  | tag (body : Bytes) (v1 : Option Nat)
deriving DecidableEq, Repr

/-- the ID3v1 search that ends `ID3.load` (`load_v1=True`) -/
def finishM : Loaded → FileM LoadedX
  | .noTag => pure .noTag
  | .searchV1 unsupported => do
    let v ← findV1M
    match v with
    | some n => pure (.v1only n)
    -- "if frames is None: raise": ID3NoHeaderError → tags = None; ID3UnsupportedVersionError → `raise error(e)`
    | none => if unsupported then raise .mutagen else pure .noV2
  | .tag body => do
    let v ← findV1M
    pure (.tag body v)

def loadM : FileM LoadedX := do
  let h ← headM
  finishM h

/-- `DSF(fileobj)` as the caller sees it: `@convert_error(IOError, error)` around everything -/
def loadEntry : FileM LoadedX := convertError PyErr.isIO .mutagen loadM

/-- the pure counterpart: `Dsf.load`, then what `find_id3v1` finds in the last 131 bytes -/
def loadX (f : Bytes) : Except PyErr LoadedX :=
  match load f with
  | .error e => .error e
  | .ok .noTag => .ok .noTag
  | .ok (.searchV1 unsupported) =>
    match Id3F.findV1 f with
    | some n => .ok (.v1only n)
    | none => if unsupported then .error .mutagen else .ok .noV2
  | .ok (.tag body) => .ok (.tag body (Id3F.findV1 f))

end Mutagen.Dsf
