/-
Model/Container/IffM.lean — `IffID3.save` / `_WaveID3.save` and the `delete` functions of AIFF, WAVE and DSDIFF
as programs over the file object (Model/FileM.lean), on a file that is a well-formed layout of
Model/Container/Iff.lean with at least one sub-chunk: EVERY call the Python code makes on the file object, in
its order — `verify_fileobj` (read(0), write(b"")), the root chunk (seek, read, tell, read), the sub-chunk walk
(`_get_actual_data_size`: seek(0,2), tell; per chunk seek, read, tell, and the name of a container chunk),
`_prepare_data` (seek(0,2), tell), `chunk.resize` (seek(0,2), tell, `resize_bytes`, the two `_update_size`
writes, flush), `chunk.write` (seek, write, and seek, write for the pad byte), `insert_chunk`, `chunk.delete`
(seek(0,2), tell, `delete_bytes`, the root's `_update_size`, flush) — so that call indices (fault injection) and
the call log can be compared with the real code one to one (harness/iff_tie.py `run_faults`).

What the parser would do with the bytes it reads is summarised by the layout (the results of the parsing
reads are not used); the positions come from the layout.  Everything that WRITES or RESIZES is spelled out.
-/
import MutagenModel.Model.Container.Iff
import MutagenModel.Model.FileOps
set_option linter.unusedVariables false
namespace Mutagen.Iff
open Mutagen

/-- `verify_fileobj(fileobj, writable=True)`: `read(0)`, `write(b"")`; whatever they raise becomes ValueError -/
def verifyM : FileM Unit := do
  tryCatch (do let _ ← fread 0; pure ()) (fun _ => true) (fun _ => raise .value)
  tryCatch (fwrite []) (fun _ => true) (fun _ => raise .value)

/-- `IffFile.__init__`: seek(0), the root header, `tell` (`data_offset`), the form type -/
def rootM (d : Dialect) : FileM Unit := do
  fseek 0
  let _ ← fread (hs d)
  let _ ← ftell
  let _ ← fread nameSize
  pure ()

/-- the loop of `subchunks()` over the chunks of the layout, the first at offset `o` -/
def walkM (d : Dialect) : Nat → List Chunk → FileM Unit
  | _, [] => pure ()
  | o, c :: r => do
    fseek o
    let _ ← fread (hs d)
    let _ ← ftell
    (match (chunkId c.id).bind (fun s => d.containers.lookup s) with
      | some ns => if ns > 0 then (do let _ ← fread ns; pure ()) else pure ()
      | none => pure ())
    walkM d (o + (c.render d).length) r

/-- `subchunks()` on its first call: `_get_actual_data_size` of the root, then the loop -/
def subchunksM (d : Dialect) (cs : List Chunk) : FileM Unit := do
  fseekEnd
  let _ ← ftell
  walkM d (hs d + nameSize) cs

/-- `_update_size` of the chunk at `off`: seek to the size field, `write_size()` — struct.error (negative or too
wide) becomes the module's `error` -/
def updateSizeM (d : Dialect) (off : Nat) (n : Int) : FileM Unit := do
  fseek (off + 4)
  if n < 0 ∨ n ≥ (256 ^ d.sizeW : Nat) then raise .mutagen else fwrite (enc d n.toNat)

/-- `_prepare_data(fileobj, start, available, …)` (current code: padding capped to the 28-bit size field) -/
def prepareM (start available : Nat) (vmaj : Nat) (frames : Bytes) (pad : PadZ) : FileM Bytes := do
  if vmaj ≠ 3 ∧ vmaj ≠ 4 then raise .value
  fseekEnd
  let size ← ftell
  let trailing : Int := (size : Int) - start - available
  let np := getPaddingZ pad ((available : Int) - (frames.length + 10 : Nat)) trailing
  if np < 0 then raise .mutagen
  if frames.length > 2 ^ 28 - 1 then raise .mutagen
  let padN := min np.toNat (2 ^ 28 - 1 - frames.length)
  match Id3F.header vmaj (frames.length + padN) with
  | .error e => raise e
  | .ok hd => pure (hd ++ frames ++ zeros padN)

/-- `chunk.resize(N)` for the chunk at `off` with `data_size = n` in a root of `data_size = rootSize` -/
def resizeChunkM (d : Dialect) (B : Nat) (off n rootSize N : Nat) : FileM Unit := do
  -- _get_actual_data_size
  fseekEnd
  let size ← ftell
  let old := min (n + n % 2) (size - (off + hs d))
  resizeBytes B old (N + N % 2 : Nat) (off + hs d : Nat)
  updateSizeM d off N
  updateSizeM d 0 ((rootSize : Int) + (((hs d + N + N % 2 : Nat) : Int) - ((hs d + n + n % 2 : Nat) : Int)))
  fflush

/-- `chunk.write(data)` (`len(data) = data_size`): the data, then the pad byte -/
def writeChunkM (d : Dialect) (off : Nat) (data : Bytes) : FileM Unit := do
  fseek (off + hs d)
  fwrite data
  if data.length % 2 = 1 then do
    fseek (off + hs d + data.length)
    fwrite [0]

/-- what `save` does once it has the chunk -/
def saveChunkM (d : Dialect) (B : Nat) (off n rootSize : Nat) (vmaj : Nat) (frames : Bytes) (pad : PadZ) : FileM Unit := do
  let data ← prepareM (off + hs d) n vmaj frames pad
  resizeChunkM d B off n rootSize data.length
  writeChunkM d off data

/-- `root.insert_chunk(id)` on a well-formed file with sub-chunks (the last sub-chunk ends where the root ends:
nothing to repair): `_get_actual_data_size`, `insert_bytes(HEADER_SIZE, end)`, the header, `parse_next_subchunk`,
the root's `_update_size`, flush -/
def insertM (d : Dialect) (B : Nat) (rootSize : Nat) : FileM Unit := do
  fseekEnd
  let _ ← ftell
  let next := hs d + rootSize
  insertBytes B (hs d : Nat) (next : Nat)
  fseek next
  fwrite (d.newId ++ enc d 0)
  fseek next
  let _ ← fread (hs d)
  let _ ← ftell
  updateSizeM d 0 ((rootSize : Int) + (hs d : Nat))
  fflush

/-- `IffID3.save` / `_WaveID3.save` inside `@loadfile(writable=True)` -/
def saveM (d : Dialect) (B : Nat) (L : Layout) (vmaj : Nat) (frames : Bytes) (pad : PadZ) : FileM Unit := do
  verifyM
  rootM d
  subchunksM d L.chunks
  let rootSize := nameSize + (renderChunks d L.chunks).length
  match L.id3 with
  | some c =>
    saveChunkM d B (hs d + nameSize + (renderChunks d L.before).length) c.data.length rootSize vmaj frames pad
  | none =>
    insertM d B rootSize
    saveChunkM d B (hs d + rootSize) 0 (rootSize + hs d) vmaj frames pad

/-- … and the `@convert_error(IOError, error)` around it -/
def saveEntry (d : Dialect) (B : Nat) (L : Layout) (vmaj : Nat) (frames : Bytes) (pad : PadZ) : FileM Unit :=
  convertError PyErr.isIO .mutagen (saveM d B L vmaj frames pad)

/-- `chunk.delete()` for the chunk at `off` with `data_size = n`: `_get_actual_data_size`, `delete_bytes`, the root's
`_update_size`, flush -/
def deleteChunkM (d : Dialect) (B : Nat) (off n rootSize : Nat) : FileM Unit := do
  fseekEnd
  let size ← ftell
  let act := min (n + n % 2) (size - (off + hs d))
  deleteBytes B (hs d + act : Nat) (off : Nat)
  updateSizeM d 0 ((rootSize : Int) - ((hs d + n + n % 2 : Nat) : Int))
  fflush

/-- the module functions `delete` and the methods (KeyError: passed) -/
def deleteM (d : Dialect) (B : Nat) (L : Layout) : FileM Unit := do
  verifyM
  rootM d
  subchunksM d L.chunks
  match L.id3 with
  | some c =>
    deleteChunkM d B (hs d + nameSize + (renderChunks d L.before).length) c.data.length
      (nameSize + (renderChunks d L.chunks).length)
  | none => pure ()

def deleteEntry (d : Dialect) (B : Nat) (L : Layout) : FileM Unit :=
  convertError PyErr.isIO .mutagen (deleteM d B L)

/-- `_WaveID3.delete(filething)`: `@loadfile(writable=True)` around the module function `delete`, which is
`@loadfile(method=False, writable=True)` itself: the FileThing passes through and `verify_fileobj` runs a second time -/
def deleteWaveMethodM (d : Dialect) (B : Nat) (L : Layout) : FileM Unit := do
  verifyM
  deleteM d B L

/-- … with `@convert_error(IOError, error)` on the method and on the function -/
def deleteWaveMethodEntry (d : Dialect) (B : Nat) (L : Layout) : FileM Unit :=
  convertError PyErr.isIO .mutagen (deleteWaveMethodM d B L)

end Mutagen.Iff
