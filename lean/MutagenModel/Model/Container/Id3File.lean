/-
Model/Container/Id3File.lean — files that carry their ID3 tags "free-standing": an ID3v2 tag at
the start, the audio, an optional ID3v1 block at the end (MP3, TrueAudio, and what `ID3(file)`
itself handles).

Code side (mutagen/id3/_file.py ID3.save, _prepare_data, __save_v1, module function delete;
mutagen/id3/_tags.py ID3Header.__init__; mutagen/id3/_id3v1.py find_id3v1): `headerSize`,
`findV1`, `save`, `delete` — functions from the bytes of the file to the bytes of the file, the
resize step being `take o ++ new ++ drop (o + old)` (what `insert_bytes`/`delete_bytes` followed by
`seek(0); write(data)` leave: `replaceRegion_clean` in Proofs/FileOps.lean).
The rendered frames (`ID3Tags._write`) and the 128-byte ID3v1 block (`MakeID3v1`) are parameters.

Spec side (ID3v2 §3.1: "ID3" version(2) flags(1) size(4, syncsafe) then size bytes; ID3v1: the
last 128 bytes starting with "TAG"): `Layout`, `render`.
-/
import MutagenModel.Model.Id3Util
import MutagenModel.Model.Padding
import MutagenModel.Generated.FrameIds
set_option linter.unusedVariables false
namespace Mutagen.Id3F
open Mutagen

def magicID3 : Bytes := [0x49, 0x44, 0x33]
def magicTAG : Bytes := [0x54, 0x41, 0x47]
def magicAPE : Bytes := [0x41, 0x50, 0x45, 0x54, 0x41, 0x47, 0x45, 0x58]

/-! ### specification side -/

/-- ID3v2 header for a tag whose body (frames + padding) has `bodyLen` bytes -/
def header (vmaj : Nat) (bodyLen : Nat) : Except PyErr Bytes :=
  match bpToStr bodyLen 7 true 4 4 with
  | .ok sz => .ok (magicID3 ++ [UInt8.ofNat vmaj, 0, 0] ++ sz)
  | .error e => .error e

structure Layout where
  /-- the whole ID3v2 tag (header included) or nothing -/
  tag : Bytes
  audio : Bytes
  /-- the ID3v1 block (124–128 bytes) or nothing -/
  v1 : Bytes
deriving DecidableEq, Repr

def Layout.render (L : Layout) : Bytes := L.tag ++ L.audio ++ L.v1

/-! ### code side -/

/-- first index `≥ start` at which `pat` occurs in `d` (`bytes.index(pat, start)`) -/
def indexFrom (pat : Bytes) : Nat → Nat → Bytes → Option Nat
  | _, _, [] => if pat = [] then some 0 else none
  | start, pos, d@(_ :: r) =>
    if start ≤ pos ∧ pat.isPrefixOf d then some pos else indexFrom pat start (pos + 1) r

/-- the extended-header part of `ID3Header.__init__` (flag 0x40), for what it can raise: four size
bytes must follow (`read_full`); if they spell a key of `Frames` the flag is taken for a tagger's
mistake; otherwise the size is syncsafe minus 4 for v2.4 (invalid padding bits or a negative
result are errors) and a plain 32-bit number before v2.4, and that many bytes must follow.  Every
failure is an `ID3 error` (a MutagenError; `read_full` raises an IOError that is converted). -/
def extHeader (f : Bytes) (vmaj : Nat) : Except PyErr Unit :=
  let x := (f.drop 10).take 4
  if x.length ≠ 4 then .error .mutagen
  else if Generated.frameIds.contains x then .ok ()
  else if vmaj = 4 then
    if !(x.all fun b => b.toNat < 128) then .error .mutagen
    else
      let e := bpFromBytes 7 true x
      if e < 4 then .error .mutagen
      else if (f.drop 14).length < e - 4 then .error .mutagen else .ok ()
  else
    if (f.drop 14).length < bpFromBytes 8 true x then .error .mutagen else .ok ()

/-- `ID3Header(fileobj).size` as `save` uses it: `ok none` = ID3NoHeaderError (no tag),
`ok (some n)` = a tag of `n` bytes (header included), `error` = any other ID3 error. -/
def headerSize (f : Bytes) : Except PyErr (Option Nat) :=
  let d := f.take 10
  if d.length ≠ 10 then .ok none
  else
    let vmaj := (d.getD 3 0).toNat
    let flags := (d.getD 5 0).toNat
    let size := d.drop 6
    if d.take 3 ≠ magicID3 then .ok none
    else if vmaj ≠ 2 ∧ vmaj ≠ 3 ∧ vmaj ≠ 4 then .error .mutagen
    else if !(size.all fun x => x.toNat < 128) then .error .mutagen
    else if vmaj = 4 ∧ flags % 16 ≠ 0 then .error .mutagen
    else if vmaj = 3 ∧ flags % 32 ≠ 0 then .error .mutagen
    else if flags / 64 % 2 = 1 then
      match extHeader f vmaj with
      | .error e => .error e
      | .ok _ => .ok (some (bpFromBytes 7 true size + 10))
    else .ok (some (bpFromBytes 7 true size + 10))

/-- `find_id3v1`: the number of bytes at the end of the file that are the ID3v1 block.  Looks at
the last 131 bytes; the first "TAG" not earlier than 128 bytes from the end starts the block
unless it is the "TAG" of an "APETAGEX" found in the window; the block must be 124..128 bytes. -/
def findV1 (f : Bytes) : Option Nat :=
  let data := f.drop (f.length - 131)
  match indexFrom magicTAG (data.length - 128) 0 data with
  | none => none
  | some idx =>
    let ape := match indexFrom magicAPE 0 0 data with
      | some a => decide (idx = a + 3)
      | none => false
    if ape then none
    else
      let n := data.length - idx
      if 128 < n ∨ n < 124 then none else some n

/-- `ID3.save(fileobj, v1, v2_version, padding)` given the rendered frames and the ID3v1 block
`MakeID3v1` would produce.  `v1opt`: 0 remove, 1 update, 2 create. -/
def save (f : Bytes) (vmaj : Nat) (frames : Bytes) (pad : PadChoice) (v1opt : Nat) (v1blk : Bytes) :
    Except PyErr Bytes :=
  match headerSize f with
  | .error e => .error e
  | .ok h =>
    -- _prepare_data: `if v2_version not in (3, 4): raise ValueError`
    if vmaj ≠ 3 ∧ vmaj ≠ 4 then .error .value else
    let old : Nat := h.getD 0
    let needed : Nat := frames.length + 10
    -- `fileobj.seek(0, 2); trailing_size = fileobj.tell() - start - available`
    let trailing : Int := (f.length : Int) - old
    -- PaddingInfo(padding, size): the generated default policy takes the size as a natural number;
    -- a negative trailing size (header larger than the file) is outside the model
    if trailing < 0 then .error .notImplemented
    else
      let newPadding := getPadding pad ((old : Int) - needed) trailing.toNat
      if newPadding < 0 then .error .mutagen
      -- the size field holds 28 bits: frames that do not fit are refused, the padding is capped
      else if frames.length > 2 ^ 28 - 1 then .error .mutagen
      else
        let padN : Nat := min newPadding.toNat (2 ^ 28 - 1 - frames.length)
        let newSize : Nat := needed + padN
        match header vmaj (newSize - 10) with
        | .error e => .error e
        | .ok hd =>
          let data := hd ++ frames ++ zeros padN
          -- insert_bytes / delete_bytes at the end of the old / new tag, then write at 0
          let f1 := data ++ f.drop old
          -- __save_v1
          let tail := (findV1 f1).getD 0
          let keep := f1.take (f1.length - tail)
          if (v1opt = 1 ∧ tail ≠ 0) ∨ v1opt = 2 then .ok (keep ++ v1blk) else .ok keep

/-- module function `delete(filething, delete_v1, delete_v2)` -/
def delete (f : Bytes) (delV1 delV2 : Bool) : Except PyErr Bytes :=
  let f1 := if delV1 then f.take (f.length - (findV1 f).getD 0) else f
  if !delV2 then .ok f1
  else
    let d := f1.take 10
    if d.length < 10 then .ok f1                          -- struct.error: pass
    else if d.take 3 ≠ magicID3 then .ok f1
    else
      let insize := bpFromBytes 7 true (d.drop 6)
      if insize + 10 > f1.length then .error .mutagen
      else .ok (f1.drop (insize + 10))

end Mutagen.Id3F
