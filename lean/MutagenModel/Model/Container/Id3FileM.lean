/-
Model/Container/Id3FileM.lean — ID3.save and the module function delete (mutagen/id3/_file.py) on
free-standing ID3 files as programs over the file object: every read / seek / tell / write /
truncate / flush the Python code makes, in the order it makes them, so that a fault injected at
the i-th call of the real file object hits the i-th call of the model.

    save   = convert_error(IOError, error)( loadfile: verify_fileobj ;
               ID3Header(fileobj)                    read(10) [read_full(4) ; seek(-4,1) | read_full(ext)]
               _prepare_data                         seek(0,2) ; tell
               insert_bytes | delete_bytes           (Model/FileOps.lean)
               seek(0) ; write(data)
               __save_v1: find_id3v1                 tell ; seek(-131,2) ; read(131) ; seek(old)
                          seek(offset,2) ; write(MakeID3v1) | truncate() )
    delete = convert_error(IOError, error)( loadfile: verify_fileobj ;
               [find_id3v1 ; seek(offset,2) ; truncate()]
               [seek(0) ; read(10) ; get_size ; delete_bytes(insize+10, 0)] )

The file object is `io.BytesIO`-like (Model/FileM.lean): `seek(-131, 2)` on a file shorter than
131 bytes positions at 0 (a real file raises EINVAL there and the code then calls `seek(0, 0)`:
one call more).  The program starts at position 0 (`ID3.save` does not rewind the object it is
given: `ID3Header` reads at the current position).

The pure parts are those of Model/Container/Id3File.lean (`findV1`, `header`, the frame bytes and
the ID3v1 block are parameters).
-/
import MutagenModel.Model.Container.Id3File
import MutagenModel.Model.FileOps
set_option linter.unusedVariables false
namespace Mutagen.Id3F
open Mutagen

/-! ### three more file-object calls -/

/-- `seek(-off, 2)` (BytesIO: clamped at 0) -/
def fseekFromEnd (off : Nat) : FileM Unit := do
  tick .seekEnd; fun _ s => (.ok (), { s with pos := s.data.length - off })

/-- `seek(-k, 1)` -/
def fseekBack (k : Nat) : FileM Unit := fun e s => fseek (s.pos - k) e s

/-- `truncate()`: at the current position -/
def ftruncateHere : FileM Unit := fun e s => ftruncate s.pos e s

/-- what `except Exception` catches (`diverge` is the model's marker for a loop that does not end) -/
def isException (x : PyErr) : Bool := x != .systemExit && x != .diverge

/-- `verify_fileobj(fileobj, writable=True)` of `loadfile`: `read(0)` and `write(b"")`, any
exception of either becomes ValueError -/
def verifyFileobj : FileM Unit := do
  tryCatch (do let _ ← fread 0; pure ()) isException (fun _ => raise .value)
  tryCatch (fwrite []) isException (fun _ => raise .value)

/-! ### ID3Header(fileobj) -/

/-- the extended-header part (flag 0x40) -/
def extHeaderM (vmaj : Nat) : FileM Unit := do
  let x ← readFull 4
  if Generated.frameIds.contains x then do
    -- a tagger's mistake: the flag is dropped, `seek(-4, 1)`, `read_full(fileobj, 0)`
    fseekBack 4
    let _ ← readFull 0
    pure ()
  else if vmaj = 4 then
    if !(x.all fun b => b.toNat < 128) then raise .mutagen
    else
      let n := bpFromBytes 7 true x
      if n < 4 then raise .mutagen
      else do
        let _ ← readFull ((n - 4 : Nat) : Int)
        pure ()
  else do
    let _ ← readFull ((bpFromBytes 8 true x : Nat) : Int)
    pure ()

/-- what the first ten bytes decide: no header (ID3NoHeaderError), an `error`, a tag of `n` bytes,
or a tag of `n` bytes whose extended header is to be read -/
inductive HeaderPre
  | none | err | plain (n : Nat) | ext (vmaj n : Nat)
deriving DecidableEq, Repr

def headerPre (d : Bytes) : HeaderPre :=
  if d.length ≠ 10 then .none
  else
    let vmaj := (d.getD 3 0).toNat
    let flags := (d.getD 5 0).toNat
    let size := d.drop 6
    if d.take 3 ≠ magicID3 then .none
    else if vmaj ≠ 2 ∧ vmaj ≠ 3 ∧ vmaj ≠ 4 then .err
    else if !(size.all fun x => x.toNat < 128) then .err
    else if vmaj = 4 ∧ flags % 16 ≠ 0 then .err
    else if vmaj = 3 ∧ flags % 32 ≠ 0 then .err
    else if flags / 64 % 2 = 1 then .ext vmaj (bpFromBytes 7 true size + 10)
    else .plain (bpFromBytes 7 true size + 10)

/-- the body of `ID3Header.__init__`: `read(10)`, the checks, the extended header -/
def headerBodyM : FileM (Option Nat) := do
  let d ← fread 10
  match headerPre d with
  | .none => pure none
  | .err => raise .mutagen
  | .plain n => pure (some n)
  | .ext vmaj n => do
    extHeaderM vmaj
    pure (some n)

/-- `ID3Header.__init__` (`@convert_error(IOError, error)`): `none` = ID3NoHeaderError -/
def headerM : FileM (Option Nat) := convertError PyErr.isIO .mutagen headerBodyM

/-! ### _prepare_data -/

/-- the pure part of `_prepare_data` once the file size is known (`start = 0`) -/
def prepareData (fileLen available : Nat) (vmaj : Nat) (frames : Bytes) (pad : PadChoice) : Except PyErr Bytes :=
  let needed : Nat := frames.length + 10
  let trailing : Int := (fileLen : Int) - available
  if trailing < 0 then .error .notImplemented
  else
    let newPadding := getPadding pad ((available : Int) - needed) trailing.toNat
    if newPadding < 0 then .error .mutagen
    else if frames.length > 2 ^ 28 - 1 then .error .mutagen
    else
      let padN : Nat := min newPadding.toNat (2 ^ 28 - 1 - frames.length)
      let newSize : Nat := needed + padN
      match header vmaj (newSize - 10) with
      | .error e => .error e
      | .ok hd => .ok (hd ++ frames ++ zeros padN)

/-- `_prepare_data(fileobj, 0, available, v2_version, v23_sep, pad_func)`: the version check, the
frames (a parameter), `seek(0, 2); tell()`, then the padding decision and the new tag bytes -/
def prepareDataM (available : Nat) (vmaj : Nat) (frames : Bytes) (pad : PadChoice) : FileM Bytes := do
  if vmaj ≠ 3 ∧ vmaj ≠ 4 then raise .value
  else do
    fseekEnd
    let endPos ← ftell
    match prepareData endPos available vmaj frames pad with
    | .error x => raise x
    | .ok data => pure data

/-! ### find_id3v1 and __save_v1 -/

/-- `find_id3v1` on the window it has read (the last 131 bytes) -/
def findV1W (data : Bytes) : Option Nat :=
  match indexFrom magicTAG (data.length - 128) 0 data with
  | none => none
  | some idx =>
    let ape := match indexFrom magicAPE 0 0 data with
      | some a => decide (idx = a + 3)
      | none => false
    if ape then none
    else
      let n := data.length - idx
      if 128 < n ∨ n < 124 then none else some n

/-- `find_id3v1(fileobj)`: `tell; seek(-131, 2); read(131); seek(old_pos)` -/
def findV1M : FileM (Option Nat) := do
  let old ← ftell
  fseekFromEnd 131
  let data ← fread 131
  fseek old
  pure (findV1W data)

/-- `__save_v1(f, v1)`: `seek(offset, 2)` then the new block is written over the old one (or
appended), or the old one is cut off -/
def saveV1M (v1opt : Nat) (v1blk : Bytes) : FileM Unit := do
  let t ← findV1M
  let tail := t.getD 0
  fseekFromEnd tail
  if (v1opt = 1 ∧ tail ≠ 0) ∨ v1opt = 2 then fwrite v1blk else ftruncateHere

/-! ### ID3.save -/

/-- `if old_size < new_size: insert_bytes(f, new_size - old_size, old_size)
    elif old_size > new_size: delete_bytes(f, old_size - new_size, new_size)` -/
def resizeStep (B : Nat) (old new : Nat) : FileM Unit :=
  if old < new then insertBytes B ((new - old : Nat) : Int) (old : Int)
  else if old > new then deleteBytes B ((old - new : Nat) : Int) (new : Int)
  else pure ()

/-- the body of `ID3.save` -/
def saveBodyM (B : Nat) (vmaj : Nat) (frames : Bytes) (pad : PadChoice) (v1opt : Nat) (v1blk : Bytes) : FileM Unit := do
  let h ← headerM
  let old := h.getD 0
  let data ← prepareDataM old vmaj frames pad
  resizeStep B old data.length
  fseek 0
  fwrite data
  saveV1M v1opt v1blk

/-- `ID3.save(fileobj, v1, v2_version, padding)` as called: `@convert_error(IOError, error)` around
`@loadfile(writable=True)` around the body -/
def saveM (B : Nat) (vmaj : Nat) (frames : Bytes) (pad : PadChoice) (v1opt : Nat) (v1blk : Bytes) : FileM Unit :=
  convertError PyErr.isIO .mutagen (do verifyFileobj; saveBodyM B vmaj frames pad v1opt v1blk)

/-! ### module function delete -/

def deleteV1M : FileM Unit := do
  let t ← findV1M
  match t with
  | some n => do fseekFromEnd n; ftruncateHere
  | none => pure ()

def deleteV2M (B : Nat) : FileM Unit := do
  fseek 0
  let idata ← fread 10
  if idata.length < 10 then pure ()                      -- struct.error: pass
  else if idata.take 3 ≠ magicID3 then pure ()
  else do
    let insize := bpFromBytes 7 true (idata.drop 6)
    let sz ← getSize
    if insize + 10 > sz then raise .mutagen
    else deleteBytes B ((insize + 10 : Nat) : Int) 0

def deleteBodyM (B : Nat) (delV1 delV2 : Bool) : FileM Unit :=
  (if delV1 then deleteV1M else pure ()) >>= fun _ => (if delV2 then deleteV2M B else pure ())

/-- `mutagen.id3.delete(fileobj, delete_v1, delete_v2)` as called -/
def deleteM (B : Nat) (delV1 delV2 : Bool) : FileM Unit :=
  convertError PyErr.isIO .mutagen (do verifyFileobj; deleteBodyM B delV1 delV2)

end Mutagen.Id3F
