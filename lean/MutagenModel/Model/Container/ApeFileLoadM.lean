/-
Model/Container/ApeFileLoadM.lean — `APEv2(fileobj)` (`APEv2.load`, mutagen/apev2.py) as a program over the file object:
`@convert_error(IOError, error)`, `loadfile`'s `verify_fileobj` (`read(0)`), `_APEv2Data(fileobj)` with all its calls
(`locateTagM`: `locateM` of Model/Container/ApeFileM.lean keeping the tag bytes it reads last), then
`if data.tag: … else: raise APENoHeaderError` — an EMPTY tag read is "no tag".  `__parse_tag` works on the bytes read
and makes no file-object call; it is not part of the program.  `APENoHeaderError` is a MutagenError.
-/
import MutagenModel.Model.Container.ApeFileM
set_option linter.unusedVariables false
namespace Mutagen.ApeF
open Mutagen

/-- `_APEv2Data(fileobj)`: what was located and `data.tag` -/
def locateTagM : FileM (Option (Loc × Bytes)) := do
  let m ← findMetadataM
  match m with
  | .nothing => pure none
  | .footer ft => do
    fseek (ft + 8)
    let d ← fread 16
    if d.length ≠ 16 then raise .mutagen
    else
      let size := ofLE ((d.drop 4).take 4)
      let flags := ofLE (d.drop 12)
      let endd := ft + 32
      if endd < size then raise .mutagen
      else
        let data := endd - size
        let hasHdr := flags / hasHeaderFlag % 2 = 1
        if hasHdr ∧ data < 32 then raise .mutagen
        else if size < 32 then raise .mutagen               -- size -= 32: "smaller than its footer"
        else do
          let header := if hasHdr then data - 32 else data
          fseek header
          let start ← fixBrokenM header header
          fseek data
          let tag ← fread (size - 32)
          pure (some ({ start := start, endd := endd, isAtStart := false }, tag))
  | .headerAtStart => do
    fseek 8
    let d ← fread 16
    if d.length ≠ 16 then raise .mutagen
    else
      let size := ofLE ((d.drop 4).take 4)
      let fileSize ← getSize
      if 32 + size > fileSize then raise .mutagen
      else do
        fseek (32 + size - 32)
        let hasFooter ← readIsApe
        if hasFooter ∧ size < 32 then raise .mutagen         -- size -= 32: "smaller than its footer"
        else do
          fseek 0
          fseek 32
          let tag ← fread (if hasFooter then size - 32 else size)
          pure (some ({ start := 0, endd := 32 + size, isAtStart := true }, tag))

def verifyRead : FileM Unit :=
  tryCatch (do let _ ← fread 0; pure ()) isException (fun _ => raise .value)

/-- `APEv2(fileobj)`: the tag located and its bytes; `error` also for APENoHeaderError -/
def apeLoadM : FileM (Loc × Bytes) :=
  convertError PyErr.isIO .mutagen (do
    verifyRead
    let r ← locateTagM
    match r with
    | none => raise .mutagen
    | some (L, tag) => if tag.isEmpty then raise .mutagen else pure (L, tag))

end Mutagen.ApeF
