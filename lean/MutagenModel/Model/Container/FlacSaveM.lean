/-
Model/Container/FlacSaveM.lean — `FLAC.save` (deleteid3=False) with its REAL reads, as a program over the file object for any
bytes: `verify_fileobj` (read(0), write(b"")), `__check_header`, `__find_audio_offset` (per block read(1), read(3); VORBIS_COMMENT:
`VCFLACDict(fileobj)` = tell, the comment reads, tell; PICTURE: the six reads of `Picture.load`; every other block read(size); then
tell), `get_size` (tell, seek(0,2), tell, seek back), and then what `FlacC.saveM` (Model/Container/Flac.lean) does with the values
it takes from a layout: `_writeblocks`, `resize_bytes`, seek(header - 4), write("fLaC"), write(data).
`FlacC.saveM` is this program from the point where the three numbers are known (Props/C06_FlacSave.lean: `flac_save_real_eq_summarised`).
Not included: the ID3v1 handling of `deleteid3=True` (seek(-128, 2), read(3), truncate).
-/
import MutagenModel.Model.Container.FlacLoad
import MutagenModel.Model.Container.Flac
import MutagenModel.Model.Container.IffM
set_option linter.unusedVariables false
namespace Mutagen.FlacL
open Mutagen Mutagen.FlacB

/-! ### pure: skipping the blocks -/

/-- `__find_audio_offset` for one block body -/
def skipBody (code size : Nat) (b : Bytes) : Except PyErr (Unit × Bytes) :=
  if code = 4 then bnd (vcSkip b) fun v => .ok ((), v.2)
  else if code = 6 then bnd (loadPictureS b) fun p => .ok ((), p.2)
  else bnd (rd size b) fun d => .ok ((), d.2)

/-- the loop of `__find_audio_offset`: until the block with the last-block flag -/
def skipBlocks : Nat → Bytes → Except PyErr (Unit × Bytes)
  | 0, _ => .error .diverge
  | fuel + 1, b =>
    bnd (rd 1 b) fun p => bnd (rd 3 p.2) fun q =>
    bnd (skipBody (ofBE p.1 % 128) (ofBE q.1) q.2) fun r =>
    if ofBE p.1 ≥ 128 then .ok ((), r.2) else skipBlocks fuel r.2

/-! ### the program -/

/-- `VCFLACDict(fileobj)` as `__find_audio_offset` calls it: `VComment.__init__`'s tell, the reads, its tell -/
def vcInnerM : FileM Bytes := do
  let _ ← ftell
  let l ← sreadM 4
  let v ← sreadM (ofLE l)
  let c ← sreadM 4
  let raw ← vcItemsM (ofLE c) (l ++ v ++ c)
  let _ ← ftell
  pure raw

/-- `Picture(fileobj)` as `__find_audio_offset` calls it: the reads of `Picture.load` -/
def pictureInnerM : FileM Picture := do
  let h1 ← sreadM 8
  let m ← sreadM (ofBE (h1.drop 4))
  let h2 ← sreadM 4
  let ds ← sreadM (ofBE h2)
  let h3 ← sreadM 20
  let data ← sreadM (ofBE (h3.drop 16))
  pure ⟨ofBE (h1.take 4), decodeReplace m, decodeReplace ds, ofBE (h3.take 4), ofBE ((h3.drop 4).take 4),
        ofBE ((h3.drop 8).take 4), ofBE ((h3.drop 12).take 4), data⟩

def skipBodyM (code size : Nat) : FileM Unit :=
  if code = 4 then do let _ ← vcInnerM; pure ()
  else if code = 6 then do let _ ← pictureInnerM; pure ()
  else do let _ ← sreadM size; pure ()

def skipBlocksM : Nat → FileM Unit
  | 0 => raise .diverge
  | fuel + 1 => do
    let b1 ← sreadM 1
    let b3 ← sreadM 3
    skipBodyM (ofBE b1 % 128) (ofBE b3)
    if ofBE b1 ≥ 128 then pure () else skipBlocksM fuel

/-- the reads of `_save`: `header`, `audio_offset`, `content_size` -/
def saveReadsM : FileM (Nat × Nat × Nat) := do
  let header ← checkHeaderM
  let n ← ghostLength
  skipBlocksM (n + 1)
  let audioOff ← ftell
  let size ← getSize
  pure (header, audioOff, size - audioOff)

/-- `_save` from the point where the three numbers are known -/
def saveTailM (B : Nat) (blocks : List FlacC.Block) (pad : PadChoice) (header audioOff content : Nat) : FileM Unit :=
  match FlacC.writeBlocks blocks (audioOff - header) content pad with
  | .error e => raise e
  | .ok data => do
    resizeBytes B (audioOff - header : Nat) data.length header
    fseek (header - 4)
    fwrite FlacC.magic
    fwrite data

/-- `FLAC.save(fileobj, deleteid3=False, padding=…)` inside `@loadfile(writable=True)` -/
def saveRealM (B : Nat) (blocks : List FlacC.Block) (pad : PadChoice) : FileM Unit := do
  Iff.verifyM
  let r ← saveReadsM
  saveTailM B blocks pad r.1 r.2.1 r.2.2

def saveRealEntry (B : Nat) (blocks : List FlacC.Block) (pad : PadChoice) : FileM Unit :=
  convertError PyErr.isIO .mutagen (saveRealM B blocks pad)

end Mutagen.FlacL
