/-
Model/Container/AsfM.lean — ASF.save / ASF.delete as programs over the file object (mutagen/asf/__init__.py
ASF.save, ASF.delete; mutagen/_util.py loadfile / verify_fileobj, convert_error, get_size, resize_bytes;
mutagen/asf/_objects.py HeaderObject.parse_size, render_full), in the order the code touches the file:

  verify_fileobj            read(0); write(b"")            any exception -> ValueError
  (the decision logic; "add missing objects": no file access)
  parse_size                read(30)                       short / wrong GUID -> ASFHeaderError
  render_full               render the children (no file access; may raise),
                            get_size: tell; seek(0,2); tell; seek(old position),
                            "truncated content" check, padding, header bytes, File Size patch
                            (struct.error from render_full -> ASFError)
  resize_bytes(old_size, len(data), 0)
        grow:   insert_bytes: seek end, tell | resize_file: seek end, tell, write zeros …, flush
                | move_bytes (backwards): seek end, tell, (seek, read, seek, write)…, flush
        shrink: delete_bytes: seek end, tell | move_bytes (forwards) …, flush | seek end, tell, truncate
  seek(0); write(data)

so the file is enlarged (or shrunk) BEFORE the first byte of the old header is overwritten, and the
only write that can extend the file is the zero fill of resize_file, which rolls back on ENOSPC.
`save` is wrapped in `convert_error(IOError, error)`; `delete` is `loadfile` around
`self.tags.clear(); self.save(filething, padding=lambda x: 0)`.

The object tree (`ASF._header.objects`, built by an earlier `ASF(file)`) is a parameter, as in
`saveTree` of Model/Container/Asf.lean; the file position is whatever it is at entry (0 for a file
opened by name).
-/
import MutagenModel.Model.Container.Asf
import MutagenModel.Model.FileOps
set_option linter.unusedVariables false
namespace Mutagen.Asf
open Mutagen

/-- `verify_fileobj(fileobj, writable=True)`: `fileobj.read(0)` and `fileobj.write(b"")`, each in
`try … except Exception: raise ValueError` -/
def verifyFileobj : FileM Unit :=
  tryCatch (do let _ ← fread 0; fwrite []) (fun _ => true) (fun _ => raise .value)

/-- HeaderObject.render_full: the children are rendered first (an exception there comes before any
file access), then `get_size(fileobj)`, then the rest, which depends on the file only through its size -/
def renderFullM (d : Dist) (objs : List Obj) (available : Nat) (pad : PadChoice) : FileM Bytes :=
  match concatMapE (renderObj d) (objs.filter fun o => !o.isPad) with
  | .error e => raise e
  | .ok _ => do
    let fileSize ← getSize
    match renderFull d objs fileSize available pad with
    | .error e => raise e
    | .ok data => pure data

/-- the body of ASF.save (inside the decorators), `B` = `_util.BUFFER_SIZE` -/
def saveBody (B : Nat) (objs : List Obj) (tags : List Tag) (pad : PadChoice) : FileM Unit :=
  match distribute tags with
  | .error e => raise e
  | .ok d => do
    let objs' := addMissing objs
    -- old_size = header.parse_size(fileobj)[0]
    let header ← fread 30
    if header.length ≠ 30 ∨ header.take 16 ≠ gHeader then raise .mutagen
    else do
      let oldSize := ofLE ((header.drop 16).take 8)
      let data ← tryCatch (renderFullM d objs' oldSize pad) (fun e => e == .struct_) (fun _ => raise .mutagen)
      resizeBytes B oldSize data.length 0
      fseek 0
      fwrite data

/-- `ASF.save(fileobj, padding)`: `@convert_error(IOError, error) @loadfile(writable=True)` -/
def saveM (B : Nat) (objs : List Obj) (tags : List Tag) (pad : PadChoice) : FileM Unit :=
  convertError PyErr.isIO .mutagen (do verifyFileobj; saveBody B objs tags pad)

/-- `ASF.delete(fileobj)`: `@loadfile(writable=True)` around `tags.clear(); save(filething, padding=lambda x: 0)` -/
def deleteM (B : Nat) (objs : List Obj) : FileM Unit := do
  verifyFileobj
  saveM B objs [] padZero

/-! ### ASF(fileobj): the load as a program over the file object

`ASF.load` is `@convert_error(IOError, error) @loadfile()` around `HeaderObject.parse_full`:

  verify_fileobj            read(0)                          any exception -> ValueError
  parse_size                read(30)                         short / wrong GUID -> ASFHeaderError
  for each of `num_objects`: read(24)                        short -> ASFHeaderError("truncated")
                            read(size - 24)                  short -> ASFHeaderError("truncated")
                            obj.parse(asf, data)             (no file access; errors as in the pure model)

No seek, no tell, no write.  Every read is followed by a length check, so a short read is never taken
for the end of the file: it is an ASFHeaderError.  An object size below 24 makes `payload_size`
negative; the code still calls `read(payload_size)` (which returns the rest of the file, of another
length than that number): one more file-object call, logged here as `read 0`, before the error.
The tags and the stream info are computed from the payloads that were read (`loadedTags`; no file access). -/

/-- `verify_fileobj(fileobj)` for a load: `fileobj.read(0)` in `try … except Exception: raise ValueError` -/
def verifyRead : FileM Unit :=
  tryCatch (do let _ ← fread 0; pure ()) (fun _ => true) (fun _ => raise .value)

/-- `data = fileobj.read(n); if len(data) != n: raise …` -/
def freadExact (n : Nat) (err : PyErr) : FileM Bytes := do
  let d ← fread n
  if d.length ≠ n then raise err else pure d

/-- the loop of HeaderObject.parse_full on the file object -/
def loadObjectsM : Nat → Nat → FileM (List Obj)
  | 0, _ => pure []
  | n + 1, remaining =>
    if remaining < 24 then raise .mutagen
    else do
      let h ← freadExact 24 .mutagen
      let guid := h.take 16
      let size := ofLE (h.drop 16)
      if size < 24 then raise .mutagen                    -- negative payload_size: "invalid object size"
      else if remaining - 24 < size - 24 then raise .mutagen
      else do
        let data ← freadExact (size - 24) .mutagen
        match objOf guid data with
        | .error e => raise e
        | .ok o => do
          let os ← loadObjectsM n (remaining - size)
          pure (o :: os)

/-- `ASF.load` inside `convert_error`: `loadfile()` then `HeaderObject.parse_full` -/
def loadBody : FileM (List Obj) := do
  verifyRead
  let header ← freadExact 30 .mutagen
  if header.take 16 ≠ gHeader then raise .mutagen
  else loadObjectsM (ofLE ((header.drop 24).take 4)) (ofLE ((header.drop 16).take 8) - 30)

/-- `ASF(fileobj)`: the object tree `ASF._header.objects` -/
def loadM : FileM (List Obj) := convertError PyErr.isIO .mutagen loadBody

/-- `a = ASF(fileobj); fileobj.seek(0); a.save(fileobj, padding)`: load and save on one file object, no
summarising: every read of the load, the caller's rewind, then the save -/
def loadSaveM (B : Nat) (tags : List Tag) (pad : PadChoice) : FileM Unit := do
  let objs ← loadM
  fseek 0
  saveM B objs tags pad

def loadDeleteM (B : Nat) : FileM Unit := do
  let objs ← loadM
  fseek 0
  deleteM B objs

end Mutagen.Asf
