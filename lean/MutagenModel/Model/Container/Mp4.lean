/-
Model/Container/Mp4.lean — the MP4 atom tree and the offset bookkeeping of MP4Tags.save.

Specification side (ISO 14496-12 box grammar restricted to the container set mutagen looks
into): `Atom` (a tree), `render`, the strict walker `walkList` (children must tile their parent
exactly), the offset tables as values (`tableEntries`, `tfhdBase`, `offsetsOfTree`).

Model side, following the code:
  mutagen/mp4/_atom.py     Atom.__init__, Atoms.__init__      -> `parseAtom`, `parseKids`, `parseTop`
                                                                  (container atoms below level 64 are refused)
                           Atom.findall / Atoms.__getitem__   -> `findallList`, `child?`, `path?`
  mutagen/mp4/__init__.py  _find_padding                      -> `findPadding` (Python's `children[-1]` included)
                           __save_existing / __save_new       -> `regionOf` (which bytes are replaced, whose sizes change)
                           __update_parents                   -> `patchSize`, `updateParents`
                           __update_offset_table              -> `updateOffsetTable8`
                           __update_tfhd                      -> `updateTfhd8`
                           __update_offsets                   -> `offsetSteps`: `visitedIn` = the stco/co64 atoms below the
                                                                  FIRST top-level moov and the tfhd atoms below every
                                                                  top-level moof (`visited`), without those that start
                                                                  inside the replaced region
  and `saveRegion` = resize_bytes + write + __update_parents + __update_offsets on the bytes.

What is rendered INTO the replaced region (the ilst atom, the padding `free` atom, the new
`meta`/`udta` wrappers) is a parameter (`new`): that part belongs to C01/C09.

The container set and the `meta` skip are literal copies of `_CONTAINERS` / `_SKIP_SIZE`; the
harness compares them with the imported module on every run (harness/props/c10.py).
-/
import MutagenModel.Model.IntCodec
import MutagenModel.Model.Padding
set_option linter.unusedVariables false
namespace Mutagen.Mp4C
open Mutagen

/-! ### names -/

def nMoov : Bytes := [0x6d, 0x6f, 0x6f, 0x76]
def nUdta : Bytes := [0x75, 0x64, 0x74, 0x61]
def nTrak : Bytes := [0x74, 0x72, 0x61, 0x6b]
def nMdia : Bytes := [0x6d, 0x64, 0x69, 0x61]
def nMeta : Bytes := [0x6d, 0x65, 0x74, 0x61]
def nIlst : Bytes := [0x69, 0x6c, 0x73, 0x74]
def nStbl : Bytes := [0x73, 0x74, 0x62, 0x6c]
def nMinf : Bytes := [0x6d, 0x69, 0x6e, 0x66]
def nMoof : Bytes := [0x6d, 0x6f, 0x6f, 0x66]
def nTraf : Bytes := [0x74, 0x72, 0x61, 0x66]
def nFree : Bytes := [0x66, 0x72, 0x65, 0x65]
def nStco : Bytes := [0x73, 0x74, 0x63, 0x6f]
def nCo64 : Bytes := [0x63, 0x6f, 0x36, 0x34]
def nTfhd : Bytes := [0x74, 0x66, 0x68, 0x64]
def nMdat : Bytes := [0x6d, 0x64, 0x61, 0x74]

/-- `_CONTAINERS` -/
def containers : List Bytes := [nMoov, nUdta, nTrak, nMdia, nMeta, nIlst, nStbl, nMinf, nMoof, nTraf]

def isContainer (name : Bytes) : Bool := containers.contains name

/-- `_SKIP_SIZE.get(name, 0)` -/
def skipSize (name : Bytes) : Nat := if name = nMeta then 4 else 0

/-! ### the atom tree, rendering -/

/-- An atom: a leaf carries its payload, a node (a name in `_CONTAINERS`) carries the bytes
skipped before its children (`meta`: 4) and its children.  `wide` = written with the 64-bit size
form (size field 1, `largesize` after the name). -/
inductive Atom where
  | leaf (name : Bytes) (wide : Bool) (payload : Bytes)
  | node (name : Bytes) (wide : Bool) (skip : Bytes) (children : List Atom)
deriving Repr

def hdrLen (wide : Bool) : Nat := if wide then 16 else 8

/-- size(4) name(4) [largesize(8)] -/
def header (name : Bytes) (wide : Bool) (size : Nat) : Bytes :=
  if wide then toBE 4 1 ++ name ++ toBE 8 size else toBE 4 size ++ name

mutual
/-- extent of the atom: header + payload / skip + children -/
def Atom.size : Atom → Nat
  | .leaf _ w p => hdrLen w + p.length
  | .node _ w s cs => hdrLen w + s.length + sizeList cs
def sizeList : List Atom → Nat
  | [] => 0
  | a :: r => a.size + sizeList r
end

mutual
/-- every size field is written as the extent -/
def Atom.render : Atom → Bytes
  | .leaf n w p => header n w (hdrLen w + p.length) ++ p
  | .node n w s cs => header n w (hdrLen w + s.length + sizeList cs) ++ s ++ renderList cs
def renderList : List Atom → Bytes
  | [] => []
  | a :: r => a.render ++ renderList r
end

def Atom.name : Atom → Bytes
  | .leaf n _ _ => n
  | .node n _ _ _ => n

def Atom.isWide : Atom → Bool
  | .leaf _ w _ => w
  | .node _ w _ _ => w

mutual
/-- what the strict walker can read back: 4-byte names, container names exactly on nodes, the
`meta` skip, sizes that fit their field (32 bit, or 64 bit when `wide`) -/
def Atom.wf : Atom → Prop
  | .leaf n w p => n.length = 4 ∧ isContainer n = false ∧ hdrLen w + p.length < (if w then 2 ^ 64 else 2 ^ 32)
  | .node n w s cs => n.length = 4 ∧ isContainer n = true ∧ s.length = skipSize n ∧
      hdrLen w + s.length + sizeList cs < (if w then 2 ^ 64 else 2 ^ 32) ∧ wfList cs
def wfList : List Atom → Prop
  | [] => True
  | a :: r => a.wf ∧ wfList r
end

/-! ### strict walker -/

/-- the first atom header of `d`: `(name, wide, payload, rest)`; none when the size field is 0,
below the header length, or reaches past the end of `d` -/
def splitHeader (d : Bytes) : Option (Bytes × Bool × Bytes × Bytes) :=
  match d with
  | s3 :: s2 :: s1 :: s0 :: n0 :: n1 :: n2 :: n3 :: rest =>
    let size32 := ofBE [s3, s2, s1, s0]
    let name := [n0, n1, n2, n3]
    if size32 = 1 then
      if rest.length < 8 then none
      else
        let size := ofBE (rest.take 8)
        if size < 16 ∨ d.length < size then none
        else some (name, true, (rest.drop 8).take (size - 16), d.drop size)
    else if size32 < 8 ∨ d.length < size32 then none
    else some (name, false, rest.take (size32 - 8), d.drop size32)
  | _ => none

/-- reads `d` as a sequence of atoms that tile it exactly, descending into `_CONTAINERS` -/
def walkList : Nat → Bytes → Option (List Atom)
  | 0, _ => none
  | fuel + 1, d =>
    if d = [] then some []
    else
      match splitHeader d with
      | none => none
      | some (name, wide, body, rest) =>
        let atom? : Option Atom :=
          if isContainer name then
            if body.length < skipSize name then none
            else (walkList fuel (body.drop (skipSize name))).map (Atom.node name wide (body.take (skipSize name)))
          else some (Atom.leaf name wide body)
        match atom?, walkList fuel rest with
        | some a, some r => some (a :: r)
        | _, _ => none

def walk (d : Bytes) : Option (List Atom) := walkList (d.length + 1) d

/-- a whole file: the tiling atoms and, if the last top-level atom has size field 0 ("to the end
of the file"), that atom apart (its extent is not recorded in the file) -/
structure File where
  atoms : List Atom
  last : Option Atom

/-- size-0 rendering of the last top-level atom -/
def renderLast : Atom → Bytes
  | .leaf n _ p => toBE 4 0 ++ n ++ p
  | .node n _ s cs => toBE 4 0 ++ n ++ s ++ renderList cs

def File.render (F : File) : Bytes :=
  renderList F.atoms ++ (match F.last with | none => [] | some a => renderLast a)

/-- top level: like `walkList`, and an atom with size field 0 takes the rest of the file -/
def walkTop : Nat → Bytes → Option File
  | 0, _ => none
  | fuel + 1, d =>
    match d with
    | [] => some { atoms := [], last := none }
    | s3 :: s2 :: s1 :: s0 :: n0 :: n1 :: n2 :: n3 :: rest =>
      if ofBE [s3, s2, s1, s0] = 0 then
        let name := [n0, n1, n2, n3]
        if isContainer name then
          if rest.length < skipSize name then none
          else (walkList (rest.length + 1) (rest.drop (skipSize name))).map fun cs =>
            { atoms := [], last := some (Atom.node name false (rest.take (skipSize name)) cs) }
        else some { atoms := [], last := some (Atom.leaf name false rest) }
      else
        match splitHeader d with
        | none => none
        | some (name, wide, body, rest') =>
          let atom? : Option Atom :=
            if isContainer name then
              if body.length < skipSize name then none
              else (walkList (body.length + 1) (body.drop (skipSize name))).map
                (Atom.node name wide (body.take (skipSize name)))
            else some (Atom.leaf name wide body)
          match atom?, walkTop fuel rest' with
          | some a, some F => some { F with atoms := a :: F.atoms }
          | _, _ => none
    | _ => none

def walkFile (d : Bytes) : Option File := walkTop (d.length + 1) d

/-! ### offset tables as values -/

/-- `cnt` big-endian integers of `w` bytes -/
def entriesOf (w : Nat) : Nat → Bytes → List Nat
  | 0, _ => []
  | cnt + 1, d => ofBE (d.take w) :: entriesOf w cnt (d.drop w)

def encodeEntries (w : Nat) (es : List Nat) : Bytes := (es.map (toBE w)).flatten

/-- payload of `stco` (w = 4) / `co64` (w = 8): version/flags(4) count(4) entries; none unless the
count fits the payload exactly -/
def tableEntries (w : Nat) (payload : Bytes) : Option (List Nat) :=
  if payload.length < 8 then none
  else
    let cnt := ofBE ((payload.drop 4).take 4)
    if payload.length ≠ 8 + cnt * w then none else some (entriesOf w cnt (payload.drop 8))

/-- payload of `tfhd`: version(1) flags(3) track_ID(4) [base_data_offset(8) if flags & 1] … -/
def tfhdBase (payload : Bytes) : Option Nat :=
  if payload.length < 16 then none
  else if (ofBE ((payload.drop 1).take 3)) % 2 = 1 then some (ofBE ((payload.drop 8).take 8)) else none

mutual
/-- every chunk offset and fragment base offset recorded in the tree, in file order -/
def Atom.offsets : Atom → List Nat
  | .leaf n _ p =>
    if n = nStco then (tableEntries 4 p).getD []
    else if n = nCo64 then (tableEntries 8 p).getD []
    else if n = nTfhd then (tfhdBase p).toList
    else []
  | .node _ _ _ cs => offsetsOfList cs
def offsetsOfList : List Atom → List Nat
  | [] => []
  | a :: r => a.offsets ++ offsetsOfList r
end

def File.offsets (F : File) : List Nat :=
  offsetsOfList F.atoms ++ (match F.last with | none => [] | some a => a.offsets)

/-- the oracle of C10 on bytes: both files are accepted by the strict walker, record the same
number of offsets, and the i-th offset of `g` addresses the same `n` bytes as the i-th of `f` -/
def offsetsFollow (f g : Bytes) (n : Nat) : Bool :=
  match walkFile f, walkFile g with
  | some F, some G =>
    F.offsets.length == G.offsets.length &&
      (F.offsets.zip G.offsets).all fun (x, y) => readAt f x n == readAt g y n
  | _, _ => false

/-! ### mutagen's parser (`Atom.__init__`, `Atoms.__init__`) -/

/-- a parsed atom: `name`, `offset`, `length`, `_dataoffset`, `children` (empty for non-containers:
`children is None` and `children == []` behave alike in everything modelled here) -/
inductive PAtom where
  | mk (name : Bytes) (offset length dataoffset : Nat) (children : List PAtom)
deriving Repr

def PAtom.name : PAtom → Bytes | .mk n _ _ _ _ => n
def PAtom.offset : PAtom → Nat | .mk _ o _ _ _ => o
def PAtom.length : PAtom → Nat | .mk _ _ l _ _ => l
def PAtom.dataoffset : PAtom → Nat | .mk _ _ _ d _ => d
def PAtom.children : PAtom → List PAtom | .mk _ _ _ _ c => c

mutual
/-- `Atom(fileobj, level)` with the file position `pos`; returns the atom and the position the
file object is left at (for a container: where its last child ended, NOT offset+length).
A container atom at a level above 64 is refused (top-level atoms have level 0).
AtomError is reported by `save`/`load` as `mutagen.mp4.error`. -/
def parseAtom : Nat → Bytes → Nat → Nat → Except PyErr (PAtom × Nat)
  | 0, _, _, _ => .error .diverge
  | fuel + 1, f, pos, level =>
    let hdr := readAt f pos 8
    if hdr.length < 8 then .error .mutagen
    else
      let length32 := ofBE (hdr.take 4)
      let name := hdr.drop 4
      let sized : Except PyErr (Nat × Nat) :=      -- (length, _dataoffset)
        if length32 = 1 then
          let ext := readAt f (pos + 8) 8
          if ext.length < 8 then .error .mutagen
          else if ofBE ext < 16 then .error .mutagen
          else .ok (ofBE ext, pos + 16)
        else if length32 = 0 then
          if level ≠ 0 then .error .mutagen else .ok (f.length - pos, pos + 8)
        else if length32 < 8 then .error .mutagen
        else .ok (length32, pos + 8)
      match sized with
      | .error e => .error e
      | .ok (length, dataoffset) =>
        if isContainer name then
          if level > 64 then .error .mutagen       -- AtomError("atoms nested too deeply")
          else
            match parseKids fuel f (dataoffset + skipSize name) (pos + length) (level + 1) with
            | .error e => .error e
            | .ok (kids, p) => .ok (PAtom.mk name pos length dataoffset kids, p)
        else .ok (PAtom.mk name pos length dataoffset [], pos + length)
/-- `while fileobj.tell() < self.offset + self.length: self.children.append(Atom(fileobj, level + 1))` -/
def parseKids : Nat → Bytes → Nat → Nat → Nat → Except PyErr (List PAtom × Nat)
  | 0, _, _, _, _ => .error .diverge
  | fuel + 1, f, pos, stop, level =>
    if pos < stop then
      match parseAtom fuel f pos level with
      | .error e => .error e
      | .ok (a, p) =>
        match parseKids fuel f p stop level with
        | .error e => .error e
        | .ok (r, p') => .ok (a :: r, p')
    else .ok ([], pos)
end

/-- `Atoms.__init__`: `while fileobj.tell() + 8 <= end: self.atoms.append(Atom(fileobj))` -/
def parseTop : Nat → Bytes → Nat → Except PyErr (List PAtom)
  | 0, _, _ => .error .diverge
  | fuel + 1, f, pos =>
    if pos + 8 ≤ f.length then
      match parseAtom fuel f pos 0 with
      | .error e => .error e
      | .ok (a, p) =>
        match parseTop fuel f p with
        | .error e => .error e
        | .ok r => .ok (a :: r)
    else .ok []

/-- every successfully read atom starts at least 8 bytes after the previous one and needs 8
readable bytes, so `length + 4` steps are never used up (`diverge` is not reached:
`parse_clean` in Proofs/Container/Mp4Total.lean, Props/C04_Mp4 `mp4_parse_finishes`) -/
def parse (f : Bytes) : Except PyErr (List PAtom) := parseTop (f.length + 4) f 0

/-- first child with that name (`Atom.__getitem__` / `Atoms.__getitem__`, one step) -/
def child? (kids : List PAtom) (name : Bytes) : Option PAtom := kids.find? (·.name = name)

/-- `atoms.path(*names)`: KeyError when a step is missing -/
def path? : List PAtom → List Bytes → Option (List PAtom)
  | _, [] => some []
  | kids, n :: r =>
    match child? kids n with
    | none => none
    | some a => (path? a.children r).map (a :: ·)

mutual
/-- `findall(name, recursive=True)`: preorder over the children -/
def PAtom.findall (name : Bytes) : PAtom → List PAtom
  | .mk _ _ _ _ kids => findallList name kids
def findallList (name : Bytes) : List PAtom → List PAtom
  | [] => []
  | c :: r => (if c.name = name then [c] else []) ++ c.findall name ++ findallList name r
end

/-! ### which region a save replaces -/

/-- Python `l[i]` for `i : Int` with negative indices counted from the end; none = IndexError -/
def pyIndex (l : List α) (i : Int) : Option α :=
  if 0 ≤ i then l[i.toNat]? else if -i ≤ l.length then l[(l.length - (-i).toNat)]? else none

def indexOfName (kids : List PAtom) (name : Bytes) : Nat := kids.findIdx (·.name = name)

/-- `_find_padding`: the `free` atom directly before `ilst` (only when `ilst` is not the first
child — `if index > 0`; before the repair recorded in known_findings.json `children[index - 1]`
with `index = 0` was the LAST child), else the one directly after it. -/
def findPadding (metaA : PAtom) : Option PAtom :=
  let index : Nat := indexOfName metaA.children nIlst
  let next : Option PAtom :=
    match pyIndex metaA.children ((index : Int) + 1) with
    | some n => if n.name = nFree then some n else none
    | none => none
  if index > 0 then
    match pyIndex metaA.children ((index : Int) - 1) with
    | some prev => if prev.name = nFree then some prev else next
    | none => next
  else next

/-- the replaced region and the atoms whose size fields follow it -/
structure Region where
  offset : Nat
  length : Nat
  parents : List PAtom

/-- `__save`: with `moov.udta.meta.ilst` the old `ilst` (+ the padding atom found) is replaced and
`moov, udta, meta` change size (`__save_existing`); otherwise the new atoms are inserted at the
start of `moov.udta` (or of `moov`) (`__save_new`).  none = no top-level `moov`: MP4MetadataError. -/
def regionOf (atoms : List PAtom) : Option Region :=
  match path? atoms [nMoov, nUdta, nMeta, nIlst] with
  | some [moov, udta, metaA, ilst] =>
    match findPadding metaA with
    | some free =>
      some { offset := min ilst.offset free.offset, length := ilst.length + free.length, parents := [moov, udta, metaA] }
    | none => some { offset := ilst.offset, length := ilst.length, parents := [moov, udta, metaA] }
  | _ =>
    match path? atoms [nMoov, nUdta] with
    | some [moov, udta] => some { offset := udta.dataoffset, length := 0, parents := [moov, udta] }
    | _ =>
      match path? atoms [nMoov] with
      | some [moov] => some { offset := moov.dataoffset, length := 0, parents := [moov] }
      | _ => none

/-! ### the byte-level bookkeeping -/

/-- `resize_bytes(f, old, len(new), o); f.seek(o); f.write(new)` (Proofs/FileOps: `replaceRegion_clean`) -/
def splice (f : Bytes) (o old : Nat) (new : Bytes) : Bytes := f.take o ++ new ++ f.drop (o + old)

/-- the rule of `__update_offset_table` / `__update_tfhd`: `o + delta if offset < o else o` -/
def patchEntry (offset : Nat) (delta : Int) (e : Nat) : Int := if offset < e then e + delta else e

/-- `struct.pack('>I' / '>Q', v)`: struct.error outside the range (`err` = what the caller turns it into) -/
def packBE (w : Nat) (v : Int) (err : PyErr) : Except PyErr Bytes :=
  if v < 0 ∨ v ≥ (256 ^ w : Nat) then .error err else .ok (toBE w v.toNat)

/-- one round of `__update_parents`: the 32-bit size field, or the 64-bit one when the 32-bit
field reads 1.  A size field 0 ("to the end of file") is left as it is.  Short
reads and values that do not fit the field (`cdata.error`) are raised as MP4MetadataError. -/
def patchSize (g : Bytes) (off : Nat) (delta : Int) : Except PyErr Bytes :=
  let s32 := readAt g off 4
  if s32.length < 4 then .error .mutagen
  else if ofBE s32 = 1 then
    let ext := (readAt g (off + 4) 12).drop 4
    if ext.length < 8 then .error .mutagen
    else match packBE 8 ((ofBE ext : Int) + delta) .mutagen with
      | .error e => .error e
      | .ok b => .ok (writeAt g (off + 8) b)
  else if ofBE s32 = 0 then .ok g
  else match packBE 4 ((ofBE s32 : Int) + delta) .mutagen with
    | .error e => .error e
    | .ok b => .ok (writeAt g off b)

/-- `__update_offset_table` on an atom at (already shifted) `off` of length `len`; `w` = 4 (stco) or
8 (co64).  The header is assumed 8 bytes long (the count is read at `off + 12`).
`fileobj.read(max(0, atom.datalength - 4))`: the natural-number subtraction `len - 12`. -/
def updateOffsetTable8 (g : Bytes) (w off len : Nat) (delta : Int) (offset : Nat) : Except PyErr Bytes :=
  let data := readAt g (off + 12) (len - 12)
  if (data.take 4).length < 4 then .error .mutagen       -- cdata.uint_be inside the try: MP4MetadataError
  else
    let cnt := ofBE (data.take 4)
    let body := data.drop 4
    if body.length ≠ cnt * w then .error .mutagen          -- struct.error -> MP4MetadataError
    else
      let es := (entriesOf w cnt body).map (patchEntry offset delta)
      if es.any (fun v => v < 0 ∨ v ≥ (256 ^ w : Nat)) then .error .mutagen
      else .ok (writeAt g (off + 16) (encodeEntries w (es.map Int.toNat)))

/-- `__update_tfhd` (flags at `off + 9`, base_data_offset at `off + 16`: 8-byte header assumed) -/
def updateTfhd8 (g : Bytes) (off len : Nat) (delta : Int) (offset : Nat) : Except PyErr Bytes :=
  let data := readAt g (off + 9) (len - 9)
  -- cdata.uint_be(b"\x00" + data[:3]) needs 3 bytes
  if (data.take 3).length < 3 then .error .mutagen
  else if ofBE (data.take 3) % 2 = 1 then
    let raw := (data.drop 7).take 8
    if raw.length < 8 then .error .mutagen
    else match packBE 8 (patchEntry offset delta (ofBE raw)) .mutagen with
      | .error e => .error e
      | .ok b => .ok (writeAt g (off + 16) b)
  else .ok g

/-- `if atom.offset > offset: atom.offset += delta` -/
def shifted (a : PAtom) (delta : Int) (offset : Nat) : Nat :=
  if a.offset > offset then ((a.offset : Int) + delta).toNat else a.offset

/-- run the steps in order; the first exception stops the save and leaves the bytes written so far -/
def runSteps : List (Bytes → Except PyErr Bytes) → Bytes → Option PyErr × Bytes
  | [], g => (none, g)
  | s :: r, g =>
    match s g with
    | .error e => (some e, g)
    | .ok g' => runSteps r g'

/-- the steps of `__update_parents` -/
def parentSteps (parents : List PAtom) (delta : Int) : List (Bytes → Except PyErr Bytes) :=
  if delta = 0 then [] else parents.map fun a => fun g => patchSize g a.offset delta

/-- the table atoms `__update_offsets` finds, in order, with the entry width (0 marks a `tfhd`): `stco`
then `co64` below the first `moov`, then `tfhd` below EVERY top-level `moof` in file order -/
def visited (atoms : List PAtom) : List (Nat × PAtom) :=
  match child? atoms nMoov with
  | none => []
  | some moov =>
    (moov.findall nStco).map (fun a => (4, a)) ++ (moov.findall nCo64).map (fun a => (8, a)) ++
      ((atoms.filter (·.name = nMoof)).flatMap fun m => (m.findall nTfhd).map (fun a => (0, a)))

/-- every table atom the parsed file has: `stco` / `co64` below ANY top-level `moov`, `tfhd` below ANY
top-level `moof` (what `__update_offsets` would have to visit) -/
def allTables (atoms : List PAtom) : List (Nat × PAtom) :=
  ((atoms.filter (·.name = nMoov)).flatMap fun m => (m.findall nStco).map (fun a => (4, a))) ++
  ((atoms.filter (·.name = nMoov)).flatMap fun m => (m.findall nCo64).map (fun a => (8, a))) ++
  ((atoms.filter (·.name = nMoof)).flatMap fun m => (m.findall nTfhd).map (fun a => (0, a)))

/-- `__update_offset_table(fileobj, fmt, atom, delta, offset)` / `__update_tfhd(...)` as a step -/
def tableStep8 (delta : Int) (offset : Nat) (t : Nat × PAtom) : Bytes → Except PyErr Bytes := fun g =>
  if t.1 = 0 then updateTfhd8 g (shifted t.2 delta offset) t.2.length delta offset
  else updateOffsetTable8 g t.1 (shifted t.2 delta offset) t.2.length delta offset

/-- the steps of `__update_offsets` (`atoms[b"moov"]` missing: KeyError) -/
def offsetSteps8 (atoms : List PAtom) (delta : Int) (offset : Nat) : List (Bytes → Except PyErr Bytes) :=
  if delta = 0 then []
  else
    match child? atoms nMoov with
    | none => [fun _ => .error .key]
    | some _ => (visited atoms).map (tableStep8 delta offset)

/-- what `__save_existing` / `__save_new` do to the file once the new bytes are rendered: replace
`[offset, offset+old)` by `new`, then `__update_parents(parents, delta)`, then
`__update_offsets(atoms, delta, offset)`.  Result: the exception that ended the save (if any) and
the bytes in the file. -/
def saveAt8 (f : Bytes) (atoms : List PAtom) (parents : List PAtom) (offset old : Nat) (new : Bytes) :
    Option PyErr × Bytes :=
  if f.length < offset + old then (some .value, f)      -- resize_bytes rejects before writing
  else
    let delta : Int := (new.length : Int) - old
    runSteps (parentSteps parents delta ++ offsetSteps8 atoms delta offset) (splice f offset old new)

/-! The code as it is now: the payload of a table atom starts at `_dataoffset`, i.e. `hl` = 8 or
(64-bit size header) 16 bytes behind the start of the atom, and table atoms that start inside the replaced
region are not visited.  The definitions with suffix `8` above are the same functions for `hl = 8` and no
table atom inside the region — both part of `SaveSafe` (`saveAt_eq_saveAt8` in Proofs/Container/Mp4.lean);
the byte-level theorems are proved for them. -/

/-- header length of a parsed atom: `_dataoffset - offset` -/
def hdrOf (a : PAtom) : Nat := a.dataoffset - a.offset

/-- `__update_offset_table`: count at `_dataoffset + 4`, entries written at `_dataoffset + 8`;
`data = fileobj.read(max(0, atom.datalength - 4))`: the natural-number subtraction `len - hl - 4` -/
def updateOffsetTable (g : Bytes) (hl w off len : Nat) (delta : Int) (offset : Nat) : Except PyErr Bytes :=
  let data := readAt g (off + hl + 4) (len - hl - 4)
  if (data.take 4).length < 4 then .error .mutagen
  else
    let cnt := ofBE (data.take 4)
    let body := data.drop 4
    if body.length ≠ cnt * w then .error .mutagen
    else
      let es := (entriesOf w cnt body).map (patchEntry offset delta)
      if es.any (fun v => v < 0 ∨ v ≥ (256 ^ w : Nat)) then .error .mutagen
      else .ok (writeAt g (off + hl + 8) (encodeEntries w (es.map Int.toNat)))

/-- `__update_tfhd`: flags at `_dataoffset + 1`, base_data_offset at `_dataoffset + 8` -/
def updateTfhd (g : Bytes) (hl off len : Nat) (delta : Int) (offset : Nat) : Except PyErr Bytes :=
  let data := readAt g (off + hl + 1) (len - hl - 1)
  if (data.take 3).length < 3 then .error .mutagen
  else if ofBE (data.take 3) % 2 = 1 then
    let raw := (data.drop 7).take 8
    if raw.length < 8 then .error .mutagen
    else match packBE 8 (patchEntry offset delta (ofBE raw)) .mutagen with
      | .error e => .error e
      | .ok b => .ok (writeAt g (off + hl + 8) b)
  else .ok g

def tableStep (delta : Int) (offset : Nat) (t : Nat × PAtom) : Bytes → Except PyErr Bytes := fun g =>
  if t.1 = 0 then updateTfhd g (hdrOf t.2) (shifted t.2 delta offset) t.2.length delta offset
  else updateOffsetTable g (hdrOf t.2) t.1 (shifted t.2 delta offset) t.2.length delta offset

/-- the atoms `__update_offsets(fileobj, atoms, delta, offset, length)` visits: what was found, without the
atoms that start inside the replaced region `[offset, offset + length)` — they no longer exist
(`if not offset <= a.offset < offset + length`) -/
def visitedIn (atoms : List PAtom) (offset length : Nat) : List (Nat × PAtom) :=
  (visited atoms).filter fun t => ¬ (offset ≤ t.2.offset ∧ t.2.offset < offset + length)

/-- the steps of `__update_offsets(fileobj, atoms, delta, offset, length)` (`atoms[b"moov"]` missing: KeyError —
not reachable from `save`, which has found `moov` before) -/
def offsetSteps (atoms : List PAtom) (delta : Int) (offset length : Nat) : List (Bytes → Except PyErr Bytes) :=
  if delta = 0 then []
  else
    match child? atoms nMoov with
    | none => [fun _ => .error .key]
    | some _ => (visitedIn atoms offset length).map (tableStep delta offset)

/-- `__save_existing` / `__save_new` once the new bytes are rendered (see `saveAt8`); `__save_existing` passes
the length of the replaced region to `__update_offsets`, `__save_new` (where `old = 0`) nothing -/
def saveAt (f : Bytes) (atoms : List PAtom) (parents : List PAtom) (offset old : Nat) (new : Bytes) :
    Option PyErr × Bytes :=
  if f.length < offset + old then (some .value, f)
  else
    let delta : Int := (new.length : Int) - old
    runSteps (parentSteps parents delta ++ offsetSteps atoms delta offset old) (splice f offset old new)

/-- the save with the region mutagen chooses; `newOf` renders the replacement from the region
(length of the old region is what padding is computed from) -/
def saveRegion (f : Bytes) (newOf : Region → Bytes) : Option PyErr × Bytes :=
  match parse f with
  | .error e => (some e, f)
  | .ok atoms =>
    match regionOf atoms with
    | none => (some .mutagen, f)
    | some R => saveAt f atoms R.parents R.offset R.length (newOf R)


/-! ### side conditions of the offset theorems (Props/C10), all decidable -/

/-- an offset together with the `n` bytes it addresses avoids the replaced region `[o, o+old)`:
it ends before `o`, or it starts after `o` and not before the end of the region.  (`e = o` is
excluded: the code compares `offset < e`, so an entry equal to the region start is not patched.) -/
def Clear (o old e n : Nat) : Prop := e + n ≤ o ∨ (o < e ∧ o + old ≤ e)

instance (o old e n : Nat) : Decidable (Clear o old e n) := by unfold Clear; infer_instance

/-- the bytes `__update_offset_table` reads: count(4) and entries -/
def tblData (g : Bytes) (off len : Nat) : Bytes := readAt g (off + 12) (len - 12)
def tblCnt (g : Bytes) (off len : Nat) : Nat := ofBE ((tblData g off len).take 4)
/-- the entries of the table at `off` -/
def tblEntries (g : Bytes) (w off len : Nat) : List Nat := entriesOf w (tblCnt g off len) ((tblData g off len).drop 4)

/-- the bytes `__update_tfhd` reads: flags(3) track_ID(4) base_data_offset(8) … -/
def tfhdData (g : Bytes) (off len : Nat) : Bytes := readAt g (off + 9) (len - 9)
def tfhdHasBase (g : Bytes) (off len : Nat) : Prop := ofBE ((tfhdData g off len).take 3) % 2 = 1
def tfhdBaseAt (g : Bytes) (off len : Nat) : Nat := ofBE (((tfhdData g off len).drop 7).take 8)

def parentRange (p : PAtom) : Nat × Nat := (p.offset, p.offset + 16)

/-- the extent of a visited table atom where it lies after the save, from the first byte that
may be rewritten (`+ 16`) to its end -/
def tableRange (delta : Int) (o : Nat) (t : Nat × PAtom) : Nat × Nat :=
  (shifted t.2 delta o + 16, shifted t.2 delta o + t.2.length)

/-- every byte range the bookkeeping of a save may write to -/
def ranges (parents atoms : List PAtom) (delta : Int) (o : Nat) : List (Nat × Nat) :=
  parents.map parentRange ++ (visited atoms).map (tableRange delta o)

/-- the visited table atoms are long enough for the fixed positions the code reads first
(`stco`/`co64`: the count at +12..+16; `tfhd`: the flags at +9..+12).  A `tfhd` without base data offset
is 16 bytes long; one with the flag set that is shorter than 24 bytes makes the save raise. -/
def TablesSized (atoms : List PAtom) : Prop :=
  ∀ t ∈ visited atoms, 12 ≤ t.2.length

/-- where a visited table atom lies after the save -/
def extentOf (delta : Int) (o : Nat) (t : Nat × PAtom) : Nat × Nat :=
  (shifted t.2 delta o, shifted t.2 delta o + t.2.length)

def Disjoint (a b : Nat × Nat) : Prop := a.2 ≤ b.1 ∨ b.2 ≤ a.1

instance (a b : Nat × Nat) : Decidable (Disjoint a b) := by unfold Disjoint; infer_instance

/-- where they lie after the save, the visited table atoms are pairwise disjoint and none of them
overlaps the 16 bytes at the start of a path atom (where `__update_parents` writes) -/
def ExtentsDisjoint (parents atoms : List PAtom) (delta : Int) (o : Nat) : Prop :=
  ((visited atoms).map (extentOf delta o)).Pairwise Disjoint ∧
    ∀ p ∈ parents, ∀ t ∈ visited atoms, Disjoint (parentRange p) (extentOf delta o t)

instance (parents atoms : List PAtom) (delta : Int) (o : Nat) : Decidable (ExtentsDisjoint parents atoms delta o) := by
  unfold ExtentsDisjoint; infer_instance

/-- the side conditions under which the bookkeeping of a save is analysed: the visited table
atoms are long enough for the fixed positions the code reads, lie inside the file and avoid the
replaced region, and (where they lie after the save) they and the size fields of the path atoms
are pairwise disjoint; and the table atoms have the 8-byte header form (the code reads the count /
flags / base offset at fixed distances from the START of the atom: with a 64-bit size header these
are not the fields of the payload — see `tblEntries_spec`, `tfhd_spec`).  All hold for a file whose
atoms tile it (strict walker) with ordinary table headers when the region is the `ilst`/`free` pair or
the insertion point; all are decidable. -/
def SaveSafe (f : Bytes) (atoms parents : List PAtom) (o old : Nat) (delta : Int) : Prop :=
  TablesSized atoms ∧ ExtentsDisjoint parents atoms delta o ∧
    (∀ t ∈ visited atoms, Clear o old t.2.offset t.2.length) ∧
    (∀ t ∈ visited atoms, t.2.offset + t.2.length ≤ f.length) ∧
    (∀ t ∈ visited atoms, t.2.dataoffset = t.2.offset + 8)

instance (atoms : List PAtom) : Decidable (TablesSized atoms) := by unfold TablesSized; infer_instance

instance (f : Bytes) (atoms parents : List PAtom) (o old : Nat) (delta : Int) :
    Decidable (SaveSafe f atoms parents o old delta) := by unfold SaveSafe; infer_instance

/-- the `n` bytes at `e` are media in the sense needed: they avoid the replaced region and, where
they lie after the save, every field the bookkeeping may rewrite -/
def MediaClear (parents atoms : List PAtom) (o old : Nat) (delta : Int) (e n : Nat) : Prop :=
  Clear o old e n ∧ ∀ r ∈ ranges parents atoms delta o,
    (patchEntry o delta e).toNat + n ≤ r.1 ∨ r.2 ≤ (patchEntry o delta e).toNat

instance (parents atoms : List PAtom) (o old : Nat) (delta : Int) (e n : Nat) :
    Decidable (MediaClear parents atoms o old delta e n) := by unfold MediaClear; infer_instance

/-- has the `tfhd` at `off` a base data offset (flag bit 0) — as a Bool for the driver -/
instance (g : Bytes) (off len : Nat) : Decidable (tfhdHasBase g off len) := by unfold tfhdHasBase; infer_instance

/-- the offsets recorded in the table atom `t` of `f` -/
def entriesOfTable (f : Bytes) (t : Nat × PAtom) : List Nat :=
  if t.1 = 0 then (if tfhdHasBase f t.2.offset t.2.length then [tfhdBaseAt f t.2.offset t.2.length] else [])
  else tblEntries f t.1 t.2.offset t.2.length

/-- all hypotheses of `chunk_offsets_follow_partial` hold for this save, and every recorded offset
is media (`MediaClear`) for windows of `n` bytes: the theorem then says every offset follows -/
def covered (f : Bytes) (atoms parents : List PAtom) (o old : Nat) (delta : Int) (n : Nat) : Bool :=
  decide ((atoms.filter (·.name = nMoov)).length = 1) &&
    decide (SaveSafe f atoms parents o old delta) &&
    (allTables atoms).all fun t => (entriesOfTable f t).all fun e => decide (MediaClear parents atoms o old delta e n)

/-! ### the same bookkeeping on the tree (what the theorems of Props/C10 are about) -/

/-- one level of context: `pre ++ [node name wide skip □] ++ post` -/
structure Frame where
  name : Bytes
  wide : Bool
  skip : Bytes
  pre : List Atom
  post : List Atom

/-- the innermost level: `pre ++ □ ++ post` -/
structure Hole where
  pre : List Atom
  post : List Atom

/-- the top-level atom list with `mid` put into the hole below the nested `frames` (outermost first) -/
def fill : List Frame → Hole → List Atom → List Atom
  | [], h, mid => h.pre ++ mid ++ h.post
  | fr :: r, h, mid => fr.pre ++ [Atom.node fr.name fr.wide fr.skip (fill r h mid)] ++ fr.post

/-- file offsets of the frames' headers when the list starts at `base` — the `atom.offset` of the
`path` atoms -/
def frameOffsets : Nat → List Frame → List Nat
  | _, [] => []
  | base, fr :: r =>
    (base + sizeList fr.pre) :: frameOffsets (base + sizeList fr.pre + hdrLen fr.wide + fr.skip.length) r

/-- file offset of the hole -/
def holeOffset : Nat → List Frame → Hole → Nat
  | base, [], h => base + sizeList h.pre
  | base, fr :: r, h => holeOffset (base + sizeList fr.pre + hdrLen fr.wide + fr.skip.length) r h

/-- `__update_parents` with the offsets of the path atoms -/
def updateParents (g : Bytes) (offs : List Nat) (delta : Int) : Except PyErr Bytes :=
  match offs with
  | [] => .ok g
  | o :: r =>
    match patchSize g o delta with
    | .error e => .error e
    | .ok g' => updateParents g' r delta

/-! ### the whole of MP4.load / MP4Tags.save / MP4Tags.delete on every byte string (Props/C04_Mp4)

`saveAt` above takes the shifted position of a table atom as a natural number (`shifted`: `toNat`).  The
definitions below keep `atom.offset += delta` an integer and let a negative `fileobj.seek` raise: ValueError on
an io.BytesIO, EINVAL (IOError → `mutagen.mp4.error` through `convert_error`) on a real file — `mem` says which.
Before /repo ded7b59 a `stco`/`co64` atom among the descendants of `ilst` could be shifted below 0; now the atoms
inside the replaced region are not visited and `saveAtZ` IS `saveAt` (`saveAtZ_eq_saveAt`,
Proofs/Container/Mp4Total.lean).  Further
  * `__save_existing` refuses a region that reaches beyond the file (`content_size < 0`) before anything else happens;
  * the padding atom and the `meta`/`udta`/`hdlr` wrappers are rendered here (`Atom.render`); what stays a
    parameter is `ilstData` = `Atom.render(b"ilst", …)` of the rendered tag values (C01/C09). -/

/-- `Atom.render(name, data)` -/
def renderAtom (name data : Bytes) : Bytes :=
  if data.length + 8 ≤ 0xFFFFFFFF then toBE 4 (data.length + 8) ++ name ++ data
  else toBE 4 1 ++ name ++ toBE 8 (data.length + 16) ++ data

def nHdlr : Bytes := [0x68, 0x64, 0x6c, 0x72]

/-- `Atom.render(b"free", b"\x00" * min(0xFFFFFFFF, new_padding))` (a negative count gives `b""`) -/
def freeAtom (newPadding : Int) : Bytes := renderAtom nFree (zeros (min 0xFFFFFFFF newPadding).toNat)

/-- `Atom.render(b"hdlr", b"\x00" * 8 + b"mdirappl" + b"\x00" * 9)` -/
def hdlrAtom : Bytes := renderAtom nHdlr (zeros 8 ++ [0x6d, 0x64, 0x69, 0x72, 0x61, 0x70, 0x70, 0x6c] ++ zeros 9)

/-- the exception a negative `fileobj.seek` ends in: ValueError, or (a real file) EINVAL → IOError → `error` -/
def negSeek (mem : Bool) : PyErr := if mem then .value else .mutagen

/-- `atom.offset` after `if atom.offset > offset: atom.offset += delta` — an integer -/
def shiftedZ (a : PAtom) (delta : Int) (offset : Nat) : Int :=
  if a.offset > offset then (a.offset : Int) + delta else a.offset

/-- `__update_offset_table` after `fileobj.seek(p)` (`p = atom._dataoffset + 4`): `data = fileobj.read(n)`
(`n = max(0, atom.datalength - 4)`), the count, the entries, `fileobj.seek(p + 4)`, write -/
def offsetTableAt (g : Bytes) (w p n : Nat) (delta : Int) (offset : Nat) : Except PyErr Bytes :=
  let data := readAt g p n
  if (data.take 4).length < 4 then .error .mutagen
  else
    let cnt := ofBE (data.take 4)
    let body := data.drop 4
    if body.length ≠ cnt * w then .error .mutagen
    else
      let es := (entriesOf w cnt body).map (patchEntry offset delta)
      if es.any (fun v => v < 0 ∨ v ≥ (256 ^ w : Nat)) then .error .mutagen
      else .ok (writeAt g (p + 4) (encodeEntries w (es.map Int.toNat)))

/-- `__update_tfhd` after `fileobj.seek(p)` (`p = atom._dataoffset + 1`, `n = max(0, atom.datalength - 1)`) -/
def tfhdAt (g : Bytes) (p n : Nat) (delta : Int) (offset : Nat) : Except PyErr Bytes :=
  let data := readAt g p n
  if (data.take 3).length < 3 then .error .mutagen
  else if ofBE (data.take 3) % 2 = 1 then
    let raw := (data.drop 7).take 8
    if raw.length < 8 then .error .mutagen
    else match packBE 8 (patchEntry offset delta (ofBE raw)) .mutagen with
      | .error e => .error e
      | .ok b => .ok (writeAt g (p + 7) b)
  else .ok g

/-- the position of the first seek of `__update_offset_table` (`_dataoffset + 4`) / `__update_tfhd`
(`_dataoffset + 1`) after the shift -/
def seekPos (delta : Int) (offset : Nat) (t : Nat × PAtom) : Int :=
  shiftedZ t.2 delta offset + hdrOf t.2 + (if t.1 = 0 then 1 else 4 : Nat)

/-- `__update_offset_table(fileobj, fmt, atom, delta, offset)` / `__update_tfhd(...)` as a step -/
def tableStepZ (mem : Bool) (delta : Int) (offset : Nat) (t : Nat × PAtom) : Bytes → Except PyErr Bytes := fun g =>
  let p := seekPos delta offset t
  if p < 0 then .error (negSeek mem)
  else if t.1 = 0 then tfhdAt g p.toNat (t.2.length - hdrOf t.2 - 1) delta offset
  else offsetTableAt g t.1 p.toNat (t.2.length - hdrOf t.2 - 4) delta offset

def offsetStepsZ (mem : Bool) (atoms : List PAtom) (delta : Int) (offset length : Nat) :
    List (Bytes → Except PyErr Bytes) :=
  if delta = 0 then []
  else
    match child? atoms nMoov with
    | none => [fun _ => .error .key]
    | some _ => (visitedIn atoms offset length).map (tableStepZ mem delta offset)

/-- `saveAt` with integer positions and the file object's kind -/
def saveAtZ (mem : Bool) (f : Bytes) (atoms : List PAtom) (parents : List PAtom) (offset old : Nat) (new : Bytes) :
    Option PyErr × Bytes :=
  if f.length < offset + old then (some .value, f)
  else
    let delta : Int := (new.length : Int) - old
    runSteps (parentSteps parents delta ++ offsetStepsZ mem atoms delta offset old) (splice f offset old new)

def ilstPath : List Bytes := [nMoov, nUdta, nMeta, nIlst]

/-- what `__save_existing` writes over the region: `ilst_data + Atom.render(b"free", …)`, the padding from
`PaddingInfo(length - (len(ilst_data) + 8), content_size)` -/
def existingData (ilstData : Bytes) (pad : PadChoice) (contentSize length : Nat) : Bytes :=
  ilstData ++ freeAtom (getPadding pad ((length : Int) - ((ilstData.length + 8 : Nat) : Int)) contentSize)

/-- what `__save_new` inserts: `meta(\0\0\0\0 + hdlr + ilst_data + free)`, inside a new `udta` when the path ends at `moov` -/
def newData (ilstData : Bytes) (pad : PadChoice) (contentSize : Nat) (parents : List PAtom) : Bytes :=
  let metaData := zeros 4 ++ hdlrAtom ++ ilstData
  let metaAtom := renderAtom nMeta (metaData ++ freeAtom (getPadding pad (-(metaData.length : Int)) contentSize))
  match parents.getLast? with
  | some p => if p.name ≠ nUdta then renderAtom nUdta metaAtom else metaAtom
  | none => metaAtom

/-- `MP4Tags.save(filething, padding)` from `Atoms(fileobj)` on, `ilstData = Atom.render(b"ilst", b"".join(values))`:
`__save` → `__save_existing` (the path `moov.udta.meta.ilst` exists) or `__save_new`.
Result: the exception that ended the save (if any) and the bytes in the file. -/
def saveTags (mem : Bool) (f ilstData : Bytes) (pad : PadChoice) : Option PyErr × Bytes :=
  match parse f with
  | .error e => (some e, f)                                   -- AtomError → error
  | .ok atoms =>
    match regionOf atoms with
    | none => (some .mutagen, f)                              -- `atoms.path(b"moov")`: KeyError → MP4MetadataError
    | some R =>
      if (path? atoms ilstPath).isSome then
        -- __save_existing
        if f.length < R.offset + R.length then (some .mutagen, f)     -- content_size < 0: error("… beyond the file")
        else
          saveAtZ mem f atoms R.parents R.offset R.length
            (existingData ilstData pad (f.length - (R.offset + R.length)) R.length)
      else
        -- __save_new
        if f.length < R.offset then (some .value, f)          -- insert_bytes: movesize < 0 (whatever the padding callback said)
        else saveAtZ mem f atoms R.parents R.offset 0 (newData ilstData pad (f.length - R.offset) R.parents)

/-- what `MP4.load` does with the atom tree: `Atoms(fileobj)` (AtomError → `error`), `MP4Info.load` needs a
top-level `moov` ("not a MP4 file"), `MP4Tags._can_load`.  Answer: has the object tags (`tags is not None`).
(Everything else `load` does — stream info, the `ilst` children, chapters — runs inside
`except Exception: reraise(error …)` and is not modelled here: the real `load` fails on more files, never
with another class.) -/
def load (f : Bytes) : Except PyErr Bool :=
  match parse f with
  | .error e => .error e
  | .ok atoms =>
    match child? atoms nMoov with
    | none => .error .mutagen
    | some _ => .ok (path? atoms ilstPath).isSome

/-- `m = MP4(fileobj); [m.add_tags();] m.save(fileobj, padding=…)`; `FileType.save` does nothing when
`tags is None`; `add_tags()` raises `error` when there are tags already -/
def openSave (mem : Bool) (f : Bytes) (addTags : Bool) (ilstData : Bytes) (pad : PadChoice) : Option PyErr × Bytes :=
  match load f with
  | .error e => (some e, f)
  | .ok hasTags =>
    if addTags ∧ hasTags then (some .mutagen, f)
    else if addTags ∨ hasTags then saveTags mem f ilstData pad
    else (none, f)

/-- `MP4Tags.delete`: `self.clear(); self.save(filename, padding=lambda x: 0)` — an empty `ilst` -/
def deleteTags (mem : Bool) (f : Bytes) : Option PyErr × Bytes :=
  saveTags mem f (renderAtom nIlst []) (.callback fun _ _ => 0)

/-- `MP4(fileobj).delete(fileobj)` and the module function `mutagen.mp4.delete(fileobj)` -/
def openDelete (mem : Bool) (f : Bytes) : Option PyErr × Bytes :=
  match load f with
  | .error e => (some e, f)
  | .ok hasTags => if hasTags then deleteTags mem f else (none, f)

end Mutagen.Mp4C
