/-
Model/Container/ApeFileM.lean — `APEv2.save` and `APEv2.delete` (mutagen/apev2.py) as programs over the
file object: every read / seek / tell / write / truncate / flush in the order the Python code makes
them, the `try … except IOError` blocks of `_APEv2Data.__find_metadata` / `__fix_brokenness` (which
SWALLOW an I/O error of the file object and go on as if the probe had found nothing), `loadfile`'s
`verify_fileobj` and the `@convert_error(IOError, error)` wrapper included.

    save   = convert_error( verify_fileobj ; _APEv2Data(fileobj) ;
               tag at the start: delete_bytes(end - start, start)
               tag at the end:   seek(start) ; truncate()          -- also drops Lyrics3v2 / ID3v1 behind it
               seek(0, 2) ; [no items: return] write(header) ; write(items) ; write(footer) )
    delete = convert_error( verify_fileobj ; _APEv2Data(fileobj) ; [tag: delete_bytes(end - start, start)] )

    _seek_back(k) = tell ; [tell < k: raise IOError] seek(-k,1)
    _APEv2Data: __find_metadata   seek(0,2) _seek_back(32) read(8) [seek(-8,1) tell]
                                  | get_size seek(-128,2) read(3) [_seek_back(35) read(8) [seek(-8,1) tell]
                                      | seek(15,1) read(9) seek(-15,1) read(6) _seek_back(38+n) read(8) [seek(-8,1) tell]]
                                  | seek(0) read(8)
                __fill_missing    seek(metadata+8) read(16) [header at 0: get_size seek(end-32) read(8)]
                                  [a footer and size < 32: raise error — `size - 32` is never negative below]
                __fix_brokenness  seek(start) (_seek_back(24) read(8) [seek(-8,1) tell])*
                                  seek(data) read(size)

The file object is BytesIO-like (Model/FileM.lean): a seek before the start of the file positions at 0
and does not raise — the code does not rely on that any more: where a backward seek may end in front of the file it
asks `tell()` first and raises the IOError itself (`_seek_back`, `seekBack` below).  The pure parts (`int6`, the magic strings, `Loc`) are those of
Model/Container/ApeFile.lean; `locate` there is what `locateM` computes when nothing fails
(`locateM_q`, Proofs/Container/ApeFileCap.lean).
-/
import MutagenModel.Model.Container.ApeFile
import MutagenModel.Model.FileOps
set_option linter.unusedVariables false
namespace Mutagen.ApeF
open Mutagen

/-! ### file-object calls not in Model/FileM.lean -/

/-- `seek(-off, 2)` (BytesIO: clamped at 0) -/
def fseekFromEnd (off : Nat) : FileM Unit := do
  tick .seekEnd; fun _ s => (.ok (), { s with pos := s.data.length - off })

/-- `seek(k, 1)` (BytesIO: clamped at 0) -/
def fseekRel (k : Int) : FileM Unit := fun e s => fseek ((s.pos : Int) + k).toNat e s

/-- `_seek_back(fileobj, offset)`: `tell()`, IOError when that is less than `offset`, else `seek(-offset, 1)` (a
non-positive `offset` — a negative Lyrics3v2 size — never raises and seeks forward) -/
def seekBack (off : Int) : FileM Unit := do
  let p ← ftell
  if (p : Int) < off then raise .io else fseekRel (-off)

/-- `truncate()`: at the current position -/
def ftruncateHere : FileM Unit := fun e s => ftruncate s.pos e s

def isException (x : PyErr) : Bool := x != .systemExit && x != .diverge

/-- `verify_fileobj(fileobj, writable=True)` of `loadfile` -/
def verifyFileobj : FileM Unit := do
  tryCatch (do let _ ← fread 0; pure ()) isException (fun _ => raise .value)
  tryCatch (fwrite []) isException (fun _ => raise .value)

/-- `fileobj.read(8) == b"APETAGEX"` -/
def readIsApe : FileM Bool := do
  let d ← fread 8
  pure (d == apeMagic)

/-- `fileobj.seek(-8, 1); … = fileobj.tell()` -/
def backTell : FileM Nat := do
  fseekRel (-8)
  ftell

/-! ### _APEv2Data.__find_metadata -/

def isSpace (c : UInt8) : Bool := c == 0x20 || (0x09 ≤ c.toNat && c.toNat ≤ 0x0D)
def isDigit (c : UInt8) : Bool := 48 ≤ c.toNat && c.toNat ≤ 57

/-- digits with single underscores between them (`int("1_0")` is 10) -/
def digitsVal : Bytes → Bool → Nat → Option Nat
  | [], afterDigit, acc => if afterDigit then some acc else none
  | c :: r, afterDigit, acc =>
    if isDigit c then digitsVal r true (acc * 10 + (c.toNat - 48))
    else if c == 0x5F && afterDigit && !r.isEmpty && isDigit (r.headD 0) then digitsVal r false acc
    else none

/-- Python's `int(b)` on a short byte string: optional surrounding white space, an optional sign, decimal digits
(`none` = ValueError).  `int6` of Model/Container/ApeFile.lean is its restriction to six plain digits. -/
def pyInt (b : Bytes) : Option Int :=
  let t := ((b.dropWhile isSpace).reverse.dropWhile isSpace).reverse
  match t with
  | [] => none
  | c :: r =>
    if c == 0x2D then (digitsVal r false 0).map fun n => -(n : Int)
    else if c == 0x2B then (digitsVal r false 0).map fun n => (n : Int)
    else (digitsVal t false 0).map fun n => (n : Int)

/-- the body of the `try:` that looks for a tag in front of an ID3v1 block (and a Lyrics3v2 block) -/
def viaV1M : FileM (Option Nat) := do
  let sz ← getSize
  if sz < 128 then raise .io
  else do
    fseekFromEnd 128
    let t ← fread 3
    if t != tagMagic then pure none
    else do
      seekBack 35
      let a ← readIsApe
      if a then do
        let p ← backTell
        pure (some p)
      else do
        fseekRel 15
        let l ← fread 9
        if l != lyricsEnd then pure none
        else do
          fseekRel (-15)
          let d ← fread 6
          match pyInt d with
          | none => raise .io                              -- ValueError of int(): raise IOError
          | some off => do
            seekBack (32 + off + 6)
            let b ← readIsApe
            if b then do
              let p ← backTell
              pure (some p)
            else pure none

def findMetadataM : FileM Meta := do
  -- fileobj.seek(0, 2); try: _seek_back(fileobj, 32)  except IOError: return
  fseekEnd
  let sought ← tryCatch (do seekBack 32; pure true) PyErr.isIO (fun _ => pure false)
  if !sought then pure .nothing
  else do
    let a ← readIsApe
    if a then do
      let p ← backTell
      pure (.footer p)
    else do
      -- try: …  except IOError: pass
      let r ← tryCatch viaV1M PyErr.isIO (fun _ => pure none)
      match r with
      | some p => pure (.footer p)
      | none => do
        fseek 0
        let b ← readIsApe
        pure (if b then .headerAtStart else .nothing)

/-! ### __fill_missing, __fix_brokenness, the tag body -/

/-- the `while start > 0:` loop of `__fix_brokenness` (fuel as in `fixBroken`) -/
def fixBrokenM : Nat → Nat → FileM Nat
  | 0, start => pure start
  | fuel + 1, start =>
    if start = 0 then pure 0
    else do
      -- try: _seek_back(fileobj, 24)  except IOError: break
      let moved ← tryCatch (do seekBack 24; pure true) PyErr.isIO (fun _ => pure false)
      if !moved then pure start
      else do
        let a ← readIsApe
        if a then do
          let p ← backTell
          fixBrokenM fuel p
        else pure start

/-- `_APEv2Data(fileobj)`: `none` = no tag.  `size` is kept for `APEv2.delete`'s `data.size is not None`
(always set when a tag was found). -/
def locateM : FileM (Option Loc) := do
  let m ← findMetadataM
  match m with
  | .nothing => pure none
  | .footer ft => do
    fseek (ft + 8)
    let d ← fread 16
    if d.length ≠ 16 then raise .mutagen
    else
      let size := ofLE ((d.drop 4).take 4)
      let flags := ofLE (d.drop 12)
      let endd := ft + 32
      if endd < size then raise .mutagen
      else
        let data := endd - size
        let hasHdr := flags / hasHeaderFlag % 2 = 1
        if hasHdr ∧ data < 32 then raise .mutagen
        else if size < 32 then raise .mutagen               -- size -= 32: "smaller than its footer"
        else do
          let header := if hasHdr then data - 32 else data
          fseek header
          let start ← fixBrokenM header header
          fseek data
          let _ ← fread (size - 32)
          pure (some { start := start, endd := endd, isAtStart := false })
  | .headerAtStart => do
    fseek 8
    let d ← fread 16
    if d.length ≠ 16 then raise .mutagen
    else
      let size := ofLE ((d.drop 4).take 4)
      let fileSize ← getSize
      if 32 + size > fileSize then raise .mutagen
      else do
        fseek (32 + size - 32)
        let hasFooter ← readIsApe
        if hasFooter ∧ size < 32 then raise .mutagen         -- size -= 32: "smaller than its footer"
        else do
          fseek 0                                            -- __fix_brokenness: start = header = 0
          fseek 32
          let _ ← fread (if hasFooter then size - 32 else size)
          pure (some { start := 0, endd := 32 + size, isAtStart := true })

/-! ### APEv2.save / APEv2.delete -/

/-- the old tag goes: `delete_bytes` for a tag at the start, `seek(start); truncate()` for a tag at the end
(which also drops a Lyrics3v2 / ID3v1 block behind it) -/
def removeOldM (B : Nat) (loc : Option Loc) : FileM Unit :=
  match loc with
  | some L =>
    if L.isAtStart then deleteBytes B ((L.endd : Int) - L.start) L.start
    else do
      fseek L.start
      ftruncateHere
  | none => pure ()

/-- `seek(0, 2)`, then the three writes header / items / footer (`tag3 = none`: no items, nothing is written) -/
def appendTagM (tag3 : Option (Bytes × Bytes × Bytes)) : FileM Unit := do
  fseekEnd
  match tag3 with
  | none => pure ()
  | some (hdr, items, ftr) => do
    fwrite hdr
    fwrite items
    fwrite ftr

/-- what `save` does once `_APEv2Data` has answered -/
def saveTailM (B : Nat) (loc : Option Loc) (tag3 : Option (Bytes × Bytes × Bytes)) : FileM Unit := do
  removeOldM B loc
  appendTagM tag3

def deleteTailM (B : Nat) (loc : Option Loc) : FileM Unit :=
  match loc with
  | some L => deleteBytes B ((L.endd : Int) - L.start) L.start
  | none => pure ()

/-- `APEv2.save(fileobj)` as called -/
def saveM (B : Nat) (tag3 : Option (Bytes × Bytes × Bytes)) : FileM Unit :=
  convertError PyErr.isIO .mutagen (do
    verifyFileobj
    let loc ← locateM
    saveTailM B loc tag3)

/-- `APEv2.delete(fileobj)` as called -/
def deleteM (B : Nat) : FileM Unit :=
  convertError PyErr.isIO .mutagen (do
    verifyFileobj
    let loc ← locateM
    deleteTailM B loc)

/-- `_APEv2Data(fileobj)` summarised by its result on the bytes of the file (no file-object calls: what
`locateM` computes when no call fails; the tie compares the two on every generated file) -/
def locateSum : FileM (Option Loc) := fun _ s =>
  match locate s.data with
  | .ok l => (.ok l, s)
  | .error x => (.error x, s)

/-- `APEv2.save` with the parsing reads summarised by the parse result (as `FlacC.saveM`): `verify_fileobj`,
then every WRITE / RESIZE / TRUNCATE of the real save in its order -/
def saveSumM (B : Nat) (tag3 : Option (Bytes × Bytes × Bytes)) : FileM Unit :=
  convertError PyErr.isIO .mutagen (do
    verifyFileobj
    let loc ← locateSum
    saveTailM B loc tag3)

def deleteSumM (B : Nat) : FileM Unit :=
  convertError PyErr.isIO .mutagen (do
    verifyFileobj
    let loc ← locateSum
    deleteTailM B loc)

/-- what is left of the file once the old tag is gone: the audio payload -/
def baseOf (f : Bytes) : Option Loc → Bytes
  | none => f
  | some L => if L.isAtStart then f.drop L.endd else f.take L.start

/-- the bytes of the rendered tag -/
def tagBytes : Option (Bytes × Bytes × Bytes) → Bytes
  | none => []
  | some (h, i, f) => h ++ i ++ f

end Mutagen.ApeF
