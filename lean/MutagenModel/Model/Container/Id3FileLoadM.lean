/-
Model/Container/Id3FileLoadM.lean — `ID3.load` (mutagen/id3/_file.py) and `ID3FileType.load` as programs over the
file object: every call of the real load in its order.

    ID3(fileobj)          = convert_error(IOError, error)( loadfile: verify_fileobj (read(0)) ;
                              ID3Header(fileobj)       read(10) [read_full(4) ; seek(-4,1) read_full(0) | read_full(ext)]
                              header:   read_full(size - 10 [- 4 - len(extdata)]) ; self._read (pure) ;
                                        [load_v1: find_id3v1   tell ; seek(-131,2) ; read(131) ; seek(old)]
                              ID3NoHeaderError / ID3UnsupportedVersionError:
                                        [load_v1: find_id3v1 ; an ID3v1 block found: an ID3v1.1-only tag] else re-raised )
    ID3FileType(fileobj)  = loadfile: verify_fileobj (read(0)) ; ID3(fileobj) [ID3NoHeaderError: tags = None] ;
                              self._Info(fileobj, offset)   -- no file-object call for the bare ID3FileType

Calls included: all of `ID3(fileobj)` and of the bare `ID3FileType(fileobj)`.  NOT included: the stream-info parsers
of the subclasses (MPEGInfo of MP3, TrueAudioInfo), which run after these calls; `_read` (frame parsing of the bytes
read, Model/Id3Spec.lean) and `ParseID3v1` on the 131 bytes read (Model/Id3v1.lean) make no file-object call.
`ID3NoHeaderError` and `ID3UnsupportedVersionError` — both MutagenErrors — are the outcomes `noHeader` / `unsupported`
(so that `ID3FileType.load`'s `except ID3NoHeaderError` can be told apart from other errors).
-/
import MutagenModel.Model.Container.Id3FileM
set_option linter.unusedVariables false
namespace Mutagen.Id3F
open Mutagen

/-- what `ID3(fileobj)` ends with -/
inductive Loaded
  | noHeader                                                   -- raise ID3NoHeaderError
  | unsupported                                                -- raise ID3UnsupportedVersionError
  | v1 (n : Nat)                                               -- no ID3v2 header; an ID3v1 block of `n` bytes
  | v2 (vmaj flags : Nat) (body : Bytes) (v1 : Option Nat)     -- header, the tag body handed to `_read`, the ID3v1 block found
deriving DecidableEq, Repr

/-- what `ID3Header(fileobj)` ends with -/
inductive Hdr
  | noHeader | unsupported
  | hdr (vmaj flags size : Nat) (ext : Option Nat)   -- `ext = some k`: an extended header with `k` bytes of data was read
deriving DecidableEq, Repr

/-! ### code side, on the bytes -/

/-- the extended header: `ok none` = the four bytes are a frame id (flag dropped), `ok (some k)` = `k` bytes of data -/
def extLoad (f : Bytes) (vmaj : Nat) : Except PyErr (Option Nat) :=
  let x := (f.drop 10).take 4
  if x.length ≠ 4 then .error .mutagen
  else if Generated.frameIds.contains x then .ok none
  else if vmaj = 4 then
    if !(x.all fun b => b.toNat < 128) then .error .mutagen
    else
      let n := bpFromBytes 7 true x
      if n < 4 then .error .mutagen
      else if (f.drop 14).length < n - 4 then .error .mutagen else .ok (some (n - 4))
  else
    if (f.drop 14).length < bpFromBytes 8 true x then .error .mutagen else .ok (some (bpFromBytes 8 true x))

def headerLoad (f : Bytes) : Except PyErr Hdr :=
  let d := f.take 10
  if d.length ≠ 10 then .ok .noHeader
  else if d.take 3 ≠ magicID3 then .ok .noHeader
  else
    let vmaj := (d.getD 3 0).toNat
    let flags := (d.getD 5 0).toNat
    if vmaj ≠ 2 ∧ vmaj ≠ 3 ∧ vmaj ≠ 4 then .ok .unsupported
    else match headerPre d with
      | .none => .ok .noHeader
      | .err => .error .mutagen
      | .plain n => .ok (.hdr vmaj flags n none)
      | .ext v n => match extLoad f v with
        | .error e => .error e
        | .ok none => .ok (.hdr vmaj (flags - 64) n none)          -- `self._flags ^= 0x40`
        | .ok (some k) => .ok (.hdr vmaj flags n (some k))

/-- where the tag body starts and how long it is -/
def bodyStart (ext : Option Nat) : Nat := match ext with | none => 10 | some k => 14 + k
def bodySize (size : Nat) (ext : Option Nat) : Int := (size : Int) - 10 - (match ext with | none => 0 | some k => 4 + (k : Int))

/-- `ID3(fileobj, load_v1=…)` on the bytes of the file -/
def load (loadV1 : Bool) (f : Bytes) : Except PyErr Loaded :=
  match headerLoad f with
  | .error e => .error e
  | .ok .noHeader =>
    if !loadV1 then .ok .noHeader else match findV1 f with | none => .ok .noHeader | some n => .ok (.v1 n)
  | .ok .unsupported =>
    if !loadV1 then .ok .unsupported else match findV1 f with | none => .ok .unsupported | some n => .ok (.v1 n)
  | .ok (.hdr vmaj flags size ext) =>
    let sz := bodySize size ext
    if sz < 0 then .error .mutagen
    else
      let body := readAt f (bodyStart ext) sz.toNat
      if body.length ≠ sz.toNat then .error .mutagen
      else .ok (.v2 vmaj flags body (if loadV1 then findV1 f else none))

/-! ### the programs -/

/-- `verify_fileobj(fileobj)` (not writable): `read(0)` -/
def verifyRead : FileM Unit :=
  tryCatch (do let _ ← fread 0; pure ()) isException (fun _ => raise .value)

def extLoadM (vmaj : Nat) : FileM (Option Nat) := do
  let x ← readFull 4
  if Generated.frameIds.contains x then do
    fseekBack 4
    let _ ← readFull 0
    pure none
  else if vmaj = 4 then
    if !(x.all fun b => b.toNat < 128) then raise .mutagen
    else
      let n := bpFromBytes 7 true x
      if n < 4 then raise .mutagen
      else do
        let _ ← readFull ((n - 4 : Nat) : Int)
        pure (some (n - 4))
  else do
    let _ ← readFull ((bpFromBytes 8 true x : Nat) : Int)
    pure (some (bpFromBytes 8 true x))

/-- `ID3Header(fileobj)` (`@convert_error(IOError, error)`) -/
def headerLoadM : FileM Hdr := convertError PyErr.isIO .mutagen do
  let d ← fread 10
  if d.length ≠ 10 then pure .noHeader
  else if d.take 3 ≠ magicID3 then pure .noHeader
  else
    let vmaj := (d.getD 3 0).toNat
    let flags := (d.getD 5 0).toNat
    if vmaj ≠ 2 ∧ vmaj ≠ 3 ∧ vmaj ≠ 4 then pure .unsupported
    else match headerPre d with
      | .none => pure .noHeader
      | .err => raise .mutagen
      | .plain n => pure (.hdr vmaj flags n none)
      | .ext v n => do
        let r ← extLoadM v
        match r with
        | none => pure (.hdr vmaj (flags - 64) n none)
        | some k => pure (.hdr vmaj flags n (some k))

/-- the v1 fallback of the `except (ID3NoHeaderError, ID3UnsupportedVersionError)` branch -/
def v1FallbackM (loadV1 : Bool) (which : Loaded) : FileM Loaded :=
  if !loadV1 then pure which
  else do
    let t ← findV1M
    match t with
    | none => pure which
    | some n => pure (.v1 n)

/-- the body of `ID3.load` -/
def loadBodyM (loadV1 : Bool) : FileM Loaded := do
  let h ← headerLoadM
  match h with
  | .noHeader => v1FallbackM loadV1 .noHeader
  | .unsupported => v1FallbackM loadV1 .unsupported
  | .hdr vmaj flags size ext =>
    let sz := bodySize size ext
    if sz < 0 then raise .mutagen
    else do
      let body ← readFull sz
      let v1 ← (if loadV1 then findV1M else pure none)
      pure (.v2 vmaj flags body v1)

/-- `ID3(fileobj, load_v1=…)` as called: `@convert_error(IOError, error)` around `@loadfile()` around the body -/
def loadM (loadV1 : Bool) : FileM Loaded :=
  convertError PyErr.isIO .mutagen (do verifyRead; loadBodyM loadV1)

/-- the bare `ID3FileType(fileobj)`: `@loadfile()` (no `convert_error`), then `ID3(fileobj)`; `noHeader` = `tags = None` -/
def fileTypeLoadM : FileM Loaded := do
  verifyRead
  loadM true

end Mutagen.Id3F
