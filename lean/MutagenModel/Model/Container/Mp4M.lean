/-
Model/Container/Mp4M.lean — MP4Tags.save / MP4Tags.delete as programs over the file object (Model/FileM.lean):
every file-object call the real code makes after `Atoms(fileobj)`, in the order the code makes them.

  MP4Tags.save            `Atoms(fileobj)`                      -> `peek` + the pure `parse` (the parsing reads are summarised:
                                                                   no call is counted for them, none of them can fail here)
  __save_existing         get_size; content_size check; padding; resize_bytes(length -> len(new), offset); seek(offset);
                          write(new); __update_parents; __update_offsets(…, length)
  __save_new              get_size; padding; insert_bytes(len(data), offset); seek(offset); write(data);
                          __update_parents; __update_offsets
  __update_parents        per path atom: seek(atom.offset); read(4); 64-bit: read(12); seek(offset + 8); write(8 bytes)
                          size 0: nothing; else: seek(offset); write(4 bytes)         -> `patchSizeM`
  __update_offset_table   seek(_dataoffset + 4); read(max(0, datalength - 4)); seek(_dataoffset + 8); write(entries)
                                                                                       -> `offsetTableM`
  __update_tfhd           seek(_dataoffset + 1); read(max(0, datalength - 1)); with a base offset: seek(_dataoffset + 8);
                          write(8 bytes)                                               -> `tfhdM`
So the region is enlarged (or shrunk) FIRST, then overwritten, and only then are the size fields of the path atoms and the
offset tables patched, one after the other: an exception in one of those later steps leaves the steps before it done.
The file object has io.BytesIO's semantics (a negative seek is ValueError).  `@convert_error(IOError, error)` around
`save` is `saveEntryM`.
-/
import MutagenModel.Model.Container.Mp4
import MutagenModel.Model.FileOps
set_option linter.unusedVariables false
namespace Mutagen.Mp4C
open Mutagen

/-- the content of the file, without a file-object call: stands for the reads of `Atoms(fileobj)` -/
def peek : FileM Bytes := fun _ s => (.ok s.data, s)

/-- `fileobj.seek(p)` for an integer `p`: io.BytesIO raises ValueError("negative seek value") -/
def seekZ (p : Int) : FileM Unit := if p < 0 then raise .value else fseek p.toNat

/-- one round of `__update_parents` (`cdata.error` → MP4MetadataError; the seek precedes the packing) -/
def patchSizeM (off : Nat) (delta : Int) : FileM Unit := do
  fseek off
  let s32 ← fread 4
  if s32.length < 4 then raise .mutagen
  else if ofBE s32 = 1 then do
    let r ← fread 12
    let ext := r.drop 4
    if ext.length < 8 then raise .mutagen
    else do
      fseek (off + 8)
      match packBE 8 ((ofBE ext : Int) + delta) .mutagen with
      | .error x => raise x
      | .ok b => fwrite b
  else if ofBE s32 = 0 then pure ()
  else do
    fseek off
    match packBE 4 ((ofBE s32 : Int) + delta) .mutagen with
    | .error x => raise x
    | .ok b => fwrite b

/-- `__update_offset_table` from its first seek on (`p = atom._dataoffset + 4` after the shift, `n = max(0, datalength - 4)`) -/
def offsetTableM (w : Nat) (p : Int) (n : Nat) (delta : Int) (offset : Nat) : FileM Unit := do
  seekZ p
  let data ← fread n
  if (data.take 4).length < 4 then raise .mutagen
  else
    let cnt := ofBE (data.take 4)
    let body := data.drop 4
    if body.length ≠ cnt * w then raise .mutagen
    else do
      let es := (entriesOf w cnt body).map (patchEntry offset delta)
      fseek (p.toNat + 4)
      if es.any (fun v => v < 0 ∨ v ≥ (256 ^ w : Nat)) then raise .mutagen
      else fwrite (encodeEntries w (es.map Int.toNat))

/-- `__update_tfhd` from its first seek on (`p = atom._dataoffset + 1`, `n = max(0, datalength - 1)`) -/
def tfhdM (p : Int) (n : Nat) (delta : Int) (offset : Nat) : FileM Unit := do
  seekZ p
  let data ← fread n
  if (data.take 3).length < 3 then raise .mutagen
  else if ofBE (data.take 3) % 2 = 1 then
    let raw := (data.drop 7).take 8
    if raw.length < 8 then raise .mutagen
    else do
      fseek (p.toNat + 7)
      match packBE 8 (patchEntry offset delta (ofBE raw)) .mutagen with
      | .error x => raise x
      | .ok b => fwrite b
  else pure ()

def tableStepM (delta : Int) (offset : Nat) (t : Nat × PAtom) : FileM Unit :=
  if t.1 = 0 then tfhdM (seekPos delta offset t) (t.2.length - hdrOf t.2 - 1) delta offset
  else offsetTableM t.1 (seekPos delta offset t) (t.2.length - hdrOf t.2 - 4) delta offset

/-- run the steps in order; the first exception ends the run -/
def stepsM : List (FileM Unit) → FileM Unit
  | [] => pure ()
  | m :: r => do m; stepsM r

def parentStepsM (parents : List PAtom) (delta : Int) : List (FileM Unit) :=
  if delta = 0 then [] else parents.map fun a => patchSizeM a.offset delta

def offsetStepsM (atoms : List PAtom) (delta : Int) (offset length : Nat) : List (FileM Unit) :=
  if delta = 0 then []
  else
    match child? atoms nMoov with
    | none => [raise .key]
    | some _ => (visitedIn atoms offset length).map (tableStepM delta offset)

/-- `__update_parents(fileobj, path, delta)` then `__update_offsets(fileobj, atoms, delta, offset, length)` -/
def bookkeepingM (parents atoms : List PAtom) (delta : Int) (offset length : Nat) : FileM Unit :=
  stepsM (parentStepsM parents delta ++ offsetStepsM atoms delta offset length)

/-- `MP4Tags.save` from `Atoms(fileobj)` on (inside `@convert_error(IOError, error)`: `saveEntryM`) -/
def saveTagsM (B : Nat) (ilstData : Bytes) (pad : PadChoice) : FileM Unit := do
  let f ← peek
  match parse f with
  | .error x => raise x
  | .ok atoms =>
    match regionOf atoms with
    | none => raise .mutagen
    | some R =>
      if (path? atoms ilstPath).isSome then do
        -- __save_existing
        let size ← getSize
        if size < R.offset + R.length then raise .mutagen
        else do
          let new := existingData ilstData pad (size - (R.offset + R.length)) R.length
          resizeBytes B R.length new.length R.offset
          fseek R.offset
          fwrite new
          bookkeepingM R.parents atoms ((new.length : Int) - R.length) R.offset R.length
      else do
        -- __save_new
        let size ← getSize
        let data := newData ilstData pad (size - R.offset) R.parents
        insertBytes B data.length R.offset
        fseek R.offset
        fwrite data
        bookkeepingM R.parents atoms ((data.length : Int) - (0 : Nat)) R.offset 0

/-- `MP4Tags.save(fileobj, padding)` as the caller sees it -/
def saveEntryM (B : Nat) (ilstData : Bytes) (pad : PadChoice) : FileM Unit :=
  convertError PyErr.isIO .mutagen (saveTagsM B ilstData pad)

/-- `MP4Tags.delete(fileobj)`: `self.save(filename, padding=lambda x: 0)` with no tags -/
def deleteEntryM (B : Nat) : FileM Unit :=
  saveEntryM B (renderAtom nIlst []) (.callback fun _ _ => 0)

/-- an outcome of the pure model as a result of a program -/
def toExcept (r : Option PyErr) : Except PyErr Unit :=
  match r with
  | none => .ok ()
  | some x => .error x

end Mutagen.Mp4C
