/-
Model/Container/ApeFile.lean — files that carry an APEv2 tag at the end (WavPack, Musepack, Monkey's
Audio, OptimFROG, TAK, APEv2File): `[audio][APEv2 tag][Lyrics3v2?][ID3v1?]`.

Code side (mutagen/apev2.py `_APEv2Data`, `APEv2.save`, `APEv2.delete`): `locate`, `save`, `delete` as
functions from the bytes of the file to the bytes of the file.  The backward seeks that may end in front of
the file go through `_seek_back`, which raises IOError there on every kind of file object (an in-memory one
would stop at offset 0): the models have a guard at each of them.
The rendered tag (header + items + footer) is a parameter; Model/Ape.lean has its codec.
-/
import MutagenModel.Model.Ape
set_option linter.unusedVariables false
namespace Mutagen.ApeF
open Mutagen

def apeMagic : Bytes := Ape.preamble
def tagMagic : Bytes := [0x54, 0x41, 0x47]
def lyricsEnd : Bytes := [0x4C, 0x59, 0x52, 0x49, 0x43, 0x53, 0x32, 0x30, 0x30]   -- "LYRICS200"

def hasHeaderFlag : Nat := 2 ^ 31

/-- `int(b)` of six ASCII characters as `__find_metadata` needs it: digits with optional
surrounding white space are outside what taggers write; anything but six digits is `none`
(ValueError) -/
def int6 (b : Bytes) : Option Nat :=
  if b.length = 6 ∧ b.all (fun c => decide (48 ≤ c.toNat ∧ c.toNat ≤ 57)) then
    some (b.foldl (fun acc c => acc * 10 + (c.toNat - 48)) 0)
  else none

/-- what `__find_metadata` finds: the offset of a footer, or a header at offset 0 -/
inductive Meta
  | footer (at_ : Nat)
  | headerAtStart
  | nothing
deriving DecidableEq, Repr

def isApeAt (f : Bytes) (pos : Nat) : Bool := readAt f pos 8 == apeMagic

/-- `_APEv2Data.__find_metadata`.  Every backward seek whose target would lie in front of the file
(`_seek_back`: `tell() < offset`) is an IOError on every kind of file object: a file shorter than 32 bytes
has no tag; inside the `try … except IOError: pass` of the ID3v1 / Lyrics3v2 search the search is over and the
check for a tag at the start follows.  (`int6` yields natural numbers only; what else `int()` accepts — signs,
blanks, underscores — is in `pyInt` of Model/Container/ApeFileM.lean.) -/
def findMetadata (f : Bytes) : Meta :=
  let n := f.length
  -- seek(0, 2); _seek_back(32)
  if n < 32 then .nothing
  else
    let p1 := n - 32
    if isApeAt f p1 then .footer p1
    else
      let viaV1 : Option Nat :=
        if n < 128 then none
        else if readAt f (n - 128) 3 != tagMagic then none
        -- "TAG" read: position n-125; _seek_back(35)
        else if n - 125 < 35 then none
        else
          let p2 := (n - 125) - 35
          if isApeAt f p2 then some p2
          else
            -- after read(8): p2 + 8; seek(15, 1); read(9)
            let p3 := p2 + 8 + 15
            if readAt f p3 9 != lyricsEnd then none
            else
              -- after read(9): p3 + 9; seek(-15, 1); read(6)
              let p4 := (p3 + 9) - 15
              match int6 (readAt f p4 6) with
              | none => none
              | some off =>
                -- after read(6): p4 + 6; _seek_back(32 + off + 6)
                if p4 + 6 < 32 + off + 6 then none
                else
                  let p5 := (p4 + 6) - (32 + off + 6)
                  if isApeAt f p5 then some p5 else none
      match viaV1 with
      | some p => .footer p
      | none => if isApeAt f 0 then .headerAtStart else .nothing

/-- the located tag: everything `save`/`delete` use -/
structure Loc where
  start : Nat
  endd : Nat
  isAtStart : Bool
deriving DecidableEq, Repr

/-- the PyMusepack clean-up of `__fix_brokenness`: while 24 bytes before `start` there is another
"APETAGEX", move `start` there (fuel = start: every step moves 24 bytes down); fewer than 24 bytes in front
(`_seek_back(24)`: IOError, `break`): it stays -/
def fixBroken (f : Bytes) : Nat → Nat → Nat
  | 0, start => start
  | fuel + 1, start =>
    if start = 0 then 0
    else if start < 24 then start
    else
      let p := start - 24
      if isApeAt f p then fixBroken f fuel p else start

/-- `_APEv2Data(fileobj)`: `ok none` = no tag; `error` = apev2.error -/
def locate (f : Bytes) : Except PyErr (Option Loc) :=
  match findMetadata f with
  | .nothing => .ok none
  | .footer ft =>
    let d := readAt f (ft + 8) 16
    if d.length ≠ 16 then .error .mutagen
    else
      let size := ofLE ((d.drop 4).take 4)
      let flags := ofLE (d.drop 12)
      let endd := ft + 32
      if endd < size then .error .mutagen                 -- header/data before the file: "exceeds the file size"
      else
        let data := endd - size
        let hasHdr := flags / hasHeaderFlag % 2 = 1
        if hasHdr ∧ data < 32 then .error .mutagen
        -- `self.size -= 32` (the footer is not part of the data): "APE tag size smaller than its footer"
        else if size < 32 then .error .mutagen
        else
          let header := if hasHdr then data - 32 else data
          .ok (some { start := fixBroken f header header, endd := endd, isAtStart := false })
  | .headerAtStart =>
    let d := readAt f 8 16
    if d.length ≠ 16 then .error .mutagen
    else
      let size := ofLE ((d.drop 4).take 4)
      -- "APE tag size exceeds the file size"
      if 32 + size > f.length then .error .mutagen
      -- seek(end - 32); read(8) == "APETAGEX": there is a footer, and `self.size -= 32`:
      -- "APE tag size smaller than its footer"
      else if isApeAt f (32 + size - 32) ∧ size < 32 then .error .mutagen
      else .ok (some { start := 0, endd := 32 + size, isAtStart := true })

/-- `APEv2.save` given the rendered tag (`[]` when there are no items: nothing is written) -/
def save (f : Bytes) (tag : Bytes) : Except PyErr Bytes :=
  match locate f with
  | .error e => .error e
  | .ok none => .ok (f ++ tag)
  | .ok (some L) =>
    if L.isAtStart then
      -- delete_bytes(fileobj, end - start, start): ValueError when it reaches outside the file
      if L.endd > f.length then .error .value
      else .ok (f.drop L.endd ++ tag)
    else
      -- seek(start); truncate(): also drops a Lyrics3v2 / ID3v1 block behind the tag
      .ok (f.take L.start ++ tag)

/-- `APEv2.delete` -/
def delete (f : Bytes) : Except PyErr Bytes :=
  match locate f with
  | .error e => .error e
  | .ok none => .ok f
  | .ok (some L) =>
    if L.endd > f.length ∨ L.endd < L.start then .error .value
    else .ok (f.take L.start ++ f.drop L.endd)

end Mutagen.ApeF
