/-
Model/Container/Mp4Layout.lean — specification side for the property corollaries of MP4 (Props/C02_Mp4 … C09_Mp4):
what mutagen's atom reader returns on a rendered tree (`annot`), and well-formed files described as a tree with the
tag region at its place (`Layout`): `moov` with `udta/meta/ilst` and the `free` atom next to `ilst` that `save` takes
for padding, any other atoms around them at every level (`mdat`, `moof/traf/tfhd`, `trak/…/stco|co64`, …), 32- and
64-bit headers.
-/
import MutagenModel.Model.Container.Mp4
set_option linter.unusedVariables false
namespace Mutagen.Mp4C
open Mutagen

mutual
/-- the parsed atom (`Atom(fileobj, level)`) of a rendered atom that starts at file offset `pos` -/
def Atom.annot (pos : Nat) : Atom → PAtom
  | .leaf n w p => .mk n pos (hdrLen w + p.length) (pos + hdrLen w) []
  | .node n w s cs =>
    .mk n pos (hdrLen w + s.length + sizeList cs) (pos + hdrLen w) (annotList (pos + hdrLen w + s.length) cs)
def annotList (pos : Nat) : List Atom → List PAtom
  | [] => []
  | a :: r => a.annot pos :: annotList (pos + a.size) r
end

mutual
/-- nesting depth of container atoms (the reader refuses a container at a level above 64) -/
def Atom.depth : Atom → Nat
  | .leaf _ _ _ => 0
  | .node _ _ _ cs => 1 + depthList cs
def depthList : List Atom → Nat
  | [] => 0
  | a :: r => max a.depth (depthList r)
end

/-- file offset of the first child of the innermost frame -/
def innerBase : Nat → List Frame → Nat
  | base, [] => base
  | base, fr :: r => innerBase (base + sizeList fr.pre + hdrLen fr.wide + fr.skip.length) r

/-! ### well-formed files with tags: the layout -/

mutual
def decWf : (a : Atom) → Decidable a.wf
  | .leaf n w p =>
    decidable_of_iff (n.length = 4 ∧ isContainer n = false ∧ hdrLen w + p.length < (if w then 2 ^ 64 else 2 ^ 32))
      (by simp [Atom.wf])
  | .node n w s cs =>
    have : Decidable (wfList cs) := decWfList cs
    decidable_of_iff (n.length = 4 ∧ isContainer n = true ∧ s.length = skipSize n ∧
      hdrLen w + s.length + sizeList cs < (if w then 2 ^ 64 else 2 ^ 32) ∧ wfList cs) (by simp [Atom.wf])
def decWfList : (l : List Atom) → Decidable (wfList l)
  | [] => isTrue (by simp [wfList])
  | a :: r =>
    have : Decidable a.wf := decWf a
    have : Decidable (wfList r) := decWfList r
    decidable_of_iff (a.wf ∧ wfList r) (by simp [wfList])
end

instance (a : Atom) : Decidable a.wf := decWf a
instance (l : List Atom) : Decidable (wfList l) := decWfList l

/-- where the `free` atom that `save` takes for padding lies (`_find_padding`: the atom directly before `ilst` if it
is a `free` atom, else the one directly after it) -/
inductive RegionKind
  | alone | freeBefore | freeAfter
deriving DecidableEq, Repr

/-- a file with tags: the top-level atoms are `fill frames hole mid` — `frames` = `moov`, `udta`, `meta` with their
other children before / after the path at every level (and the top-level atoms around `moov`), `hole` = the other
children of `meta` around the tag region, and the tag region `mid` = `ilst` with its items and, if there is one, the
adjacent `free` atom -/
structure Layout where
  frames : List Frame
  hole : Hole
  ilstWide : Bool
  items : List Atom
  kind : RegionKind
  freeWide : Bool
  freePayload : Bytes

def Layout.ilst (L : Layout) : Atom := .node nIlst L.ilstWide [] L.items
def Layout.free (L : Layout) : Atom := .leaf nFree L.freeWide L.freePayload

/-- the atoms `save` replaces -/
def Layout.mid (L : Layout) : List Atom :=
  match L.kind with
  | .alone => [L.ilst]
  | .freeBefore => [L.free, L.ilst]
  | .freeAfter => [L.ilst, L.free]

def Layout.top (L : Layout) : List Atom := fill L.frames L.hole L.mid
def Layout.render (L : Layout) : Bytes := renderList L.top

def noName (l : List Atom) (n : Bytes) : Prop := ∀ a ∈ l, a.name ≠ n
instance (l : List Atom) (n : Bytes) : Decidable (noName l n) := by unfold noName; infer_instance

/-- the frames are containers named `names` (outermost first), each the FIRST atom of its name among its siblings -/
def framesNamed : List Frame → List Bytes → Prop
  | [], [] => True
  | fr :: r, n :: ns => fr.name = n ∧ noName fr.pre n ∧ framesNamed r ns
  | _, _ => False

instance : (fs : List Frame) → (ns : List Bytes) → Decidable (framesNamed fs ns)
  | [], [] => isTrue trivial
  | fr :: r, n :: ns =>
    have := instDecidableFramesNamed r ns
    by unfold framesNamed; exact inferInstance
  | [], _ :: _ => isFalse (by simp [framesNamed])
  | _ :: _, [] => isFalse (by simp [framesNamed])

/-- the strict walker's rules (`wfList`), nesting the reader accepts, the path `moov.udta.meta.ilst` is the one the
layout names (first atom of its name at every level), and the `free` atom of the layout is the one `_find_padding` takes -/
def Layout.OK (L : Layout) : Prop :=
  wfList L.top ∧ depthList L.top ≤ 65 ∧ framesNamed L.frames [nMoov, nUdta, nMeta] ∧ noName L.hole.pre nIlst ∧
  (match L.kind with
    | .alone => (∀ a, L.hole.pre.getLast? = some a → a.name ≠ nFree) ∧ (∀ a, L.hole.post.head? = some a → a.name ≠ nFree)
    | .freeBefore => True
    | .freeAfter => ∀ a, L.hole.pre.getLast? = some a → a.name ≠ nFree)

instance (L : Layout) : Decidable L.OK := by
  unfold Layout.OK
  cases L.kind <;> simp only [] <;> infer_instance

/-- the layout after a save: the tag region holds the new `ilst` and a `free` atom with `padding` zero bytes behind
it; everything else is the same tree (the size fields of `moov`, `udta`, `meta` are rendered from the new extents) -/
def Layout.after (L : Layout) (items : List Atom) (padding : Nat) : Layout :=
  { L with ilstWide := false, items := items, kind := .freeAfter,
           freeWide := decide (padding + 8 > 0xFFFFFFFF), freePayload := zeros padding }

/-- `Atom.render(b"ilst", b"".join(values))` for item atoms that fit a 32-bit size -/
def ilstData (items : List Atom) : Bytes := (Atom.node nIlst false [] items).render

/-- the padding `__save_existing` ends up with: the callback (or the default policy) is offered
`length − (len(ilst_data) + 8)` — `length` = extent of the old region, `ilst` and the adjacent `free` atom — and
`content_size` = the number of bytes behind the region; its answer is capped at 0xFFFFFFFF, a negative one gives 0 -/
def Layout.newPadding (L : Layout) (items : List Atom) (pad : PadChoice) : Nat :=
  (min 0xFFFFFFFF (getPadding pad ((sizeList L.mid : Int) - (((ilstData items).length + 8 : Nat) : Int))
    (L.render.length - (holeOffset 0 L.frames L.hole + sizeList L.mid)))).toNat

/-- the layout a save leaves when no offset table has to be patched -/
def Layout.saved (L : Layout) (items : List Atom) (pad : PadChoice) : Layout :=
  L.after items (L.newPadding items pad)

/-- the size change of the file -/
def Layout.delta (L : Layout) (items : List Atom) (pad : PadChoice) : Int :=
  (sizeList (L.saved items pad).mid : Int) - sizeList L.mid

/-- the table steps of `__update_offsets` for this save -/
def Layout.tableSteps (L : Layout) (items : List Atom) (pad : PadChoice) : List (Bytes → Except PyErr Bytes) :=
  offsetSteps (annotList 0 L.top) (L.delta items pad) (holeOffset 0 L.frames L.hole) (sizeList L.mid)

/-! ### example layouts (satisfiability of the hypotheses in Props/C02_Mp4 … C09_Mp4) -/

def exStco (entry : Nat) : Atom := .leaf nStco false ([0, 0, 0, 0] ++ toBE 4 1 ++ toBE 4 entry)

/-- `ftyp  moov(trak(mdia(minf(stbl(stco [entry])))), udta(meta(hdlr, ilst(©nam), free(4))))  mdat "AAAA"` -/
def exLayout : Layout :=
  { frames := [
      { name := nMoov, wide := false, skip := [], pre := [.leaf [0x66, 0x74, 0x79, 0x70] false [1, 2, 3, 4]],
        post := [.leaf nMdat false [0x41, 0x41, 0x41, 0x41]] },
      { name := nUdta, wide := false, skip := [],
        pre := [.node nTrak false [] [.node nMdia false [] [.node nMinf false [] [.node nStbl false [] [exStco 140]]]]], post := [] },
      { name := nMeta, wide := false, skip := [0, 0, 0, 0], pre := [.leaf nHdlr false (zeros 25)], post := [] }],
    hole := { pre := [], post := [] },
    ilstWide := false, items := [.leaf [0xa9, 0x6e, 0x61, 0x6d] false [1, 2, 3]],
    kind := .freeAfter, freeWide := false, freePayload := zeros 4 }

/-- the same without a track: no offset table -/
def exLayout0 : Layout :=
  { exLayout with frames := [
      { name := nMoov, wide := true, skip := [], pre := [], post := [.leaf nMdat false [0x41, 0x41, 0x41, 0x41]] },
      { name := nUdta, wide := false, skip := [], pre := [], post := [] },
      { name := nMeta, wide := false, skip := [0, 0, 0, 0], pre := [.leaf nHdlr false (zeros 25)], post := [] }] }

def exItems : List Atom := [.leaf [0xa9, 0x6e, 0x61, 0x6d] false [9, 9, 9, 9, 9, 9, 9, 9, 9, 9, 9, 9]]

/-! ### the offset tables of the saved file, patched on the tree -/

mutual
/-- the leaf atom that starts at file offset `P` (the tree starts at `pos`): its header form and payload -/
def Atom.leafAt (P pos : Nat) : Atom → Option (Bool × Bytes)
  | .leaf _ w p => if pos = P then some (w, p) else none
  | .node _ w s cs => leafAtList P (pos + hdrLen w + s.length) cs
def leafAtList (P pos : Nat) : List Atom → Option (Bool × Bytes)
  | [] => none
  | a :: r => if P < pos + a.size then a.leafAt P pos else leafAtList P (pos + a.size) r
end

mutual
/-- the tree with `f` applied to the payload of the leaf atom that starts at file offset `P` -/
def Atom.patchAt (P : Nat) (f : Bytes → Bytes) (pos : Nat) : Atom → Atom
  | .leaf n w p => if pos = P then .leaf n w (f p) else .leaf n w p
  | .node n w s cs => .node n w s (patchAtList P f (pos + hdrLen w + s.length) cs)
def patchAtList (P : Nat) (f : Bytes → Bytes) (pos : Nat) : List Atom → List Atom
  | [] => []
  | a :: r => if P < pos + a.size then a.patchAt P f pos :: r else a :: patchAtList P f (pos + a.size) r
end

/-- `__update_offset_table` / `__update_tfhd` on the payload of a table atom alone (the atom's own bookkeeping code,
with the payload at offset 0): the patched payload as a value -/
def payloadStep (w : Nat) (delta : Int) (offset : Nat) (p : Bytes) : Except PyErr Bytes :=
  if w = 0 then updateTfhd p 0 0 p.length delta offset else updateOffsetTable p 0 w 0 p.length delta offset

def payloadPatch (w : Nat) (delta : Int) (offset : Nat) (p : Bytes) : Bytes :=
  match payloadStep w delta offset p with
  | .ok p' => p'
  | .error _ => p

/-- the table atom `t` (as the parser saw it in the old file) is, at the offset `__update_offsets` looks for it, a leaf
of the tree `T` with the header length and extent the parser recorded, and patching its payload succeeds: the count
fits the payload and every patched entry fits its field -/
def TableOK (delta : Int) (offset : Nat) (t : Nat × PAtom) (T : List Atom) : Prop :=
  match leafAtList (shifted t.2 delta offset) 0 T with
  | some (w, p) => hdrLen w = hdrOf t.2 ∧ t.2.length = hdrLen w + p.length ∧ (payloadStep t.1 delta offset p).toOption.isSome
  | none => False

instance (delta : Int) (offset : Nat) (t : Nat × PAtom) (T : List Atom) : Decidable (TableOK delta offset t T) := by
  unfold TableOK; split <;> infer_instance

/-- the tables one after the other, each on the tree the earlier ones left -/
def TablesOK (delta : Int) (offset : Nat) : List (Nat × PAtom) → List Atom → Prop
  | [], _ => True
  | t :: r, T => TableOK delta offset t T ∧
      TablesOK delta offset r (patchAtList (shifted t.2 delta offset) (payloadPatch t.1 delta offset) 0 T)

instance (delta : Int) (offset : Nat) : (ts : List (Nat × PAtom)) → (T : List Atom) → Decidable (TablesOK delta offset ts T)
  | [], _ => isTrue trivial
  | t :: r, T =>
    have := instDecidableTablesOK delta offset r (patchAtList (shifted t.2 delta offset) (payloadPatch t.1 delta offset) 0 T)
    by unfold TablesOK; exact inferInstance

def patchTables (delta : Int) (offset : Nat) : List (Nat × PAtom) → List Atom → List Atom
  | [], T => T
  | t :: r, T => patchTables delta offset r (patchAtList (shifted t.2 delta offset) (payloadPatch t.1 delta offset) 0 T)

/-- the table atoms `__update_offsets` visits for this save (none when the size does not change) -/
def Layout.visitedTables (L : Layout) (items : List Atom) (pad : PadChoice) : List (Nat × PAtom) :=
  if L.delta items pad = 0 then [] else visitedIn (annotList 0 L.top) (holeOffset 0 L.frames L.hole) (sizeList L.mid)

/-- the atoms of the file after a save: the saved layout with the payload of every visited `stco` / `co64` / `tfhd`
atom patched (entries behind the region start + delta) -/
def Layout.savedPatched (L : Layout) (items : List Atom) (pad : PadChoice) : List Atom :=
  patchTables (L.delta items pad) (holeOffset 0 L.frames L.hole) (L.visitedTables items pad) (L.saved items pad).top

/-- every visited table atom can be patched -/
def Layout.TablesOK (L : Layout) (items : List Atom) (pad : PadChoice) : Prop :=
  Mp4C.TablesOK (L.delta items pad) (holeOffset 0 L.frames L.hole) (L.visitedTables items pad) (L.saved items pad).top

instance (L : Layout) (items : List Atom) (pad : PadChoice) : Decidable (L.TablesOK items pad) := by
  unfold Layout.TablesOK; infer_instance

/-! ### files without tags: `__save_new` -/

/-- a file whose `moov` has no `udta` (`frames = [moov]`) or whose `moov.udta` has no `meta.ilst` below it
(`frames = [moov, udta]`); `kids` = all children of the innermost frame.  The new atoms go in front of them. -/
structure NewLayout where
  frames : List Frame
  kids : List Atom

def NewLayout.hole (N : NewLayout) : Hole := ⟨[], N.kids⟩
def NewLayout.top (N : NewLayout) : List Atom := fill N.frames N.hole []
def NewLayout.render (N : NewLayout) : Bytes := renderList N.top

/-- the insertion point: `path[-1]._dataoffset` -/
def NewLayout.offset (N : NewLayout) : Nat := holeOffset 0 N.frames N.hole

/-- well-formed, nesting the reader accepts, and either `moov` (the first one) has no `udta` child, or it has one (the
first one is the frame) below which the path `meta.ilst` does not exist (no `meta`, or a first `meta` without `ilst`) -/
def NewLayout.OK (N : NewLayout) : Prop :=
  wfList N.top ∧ depthList N.top ≤ 65 ∧
    ((framesNamed N.frames [nMoov] ∧ noName N.kids nUdta) ∨
     (framesNamed N.frames [nMoov, nUdta] ∧ (path? (annotList (innerBase 0 N.frames) N.kids) [nMeta, nIlst]).isSome = false))

instance (N : NewLayout) : Decidable N.OK := by unfold NewLayout.OK; infer_instance

def hdlrLeaf : Atom := .leaf nHdlr false (zeros 8 ++ [0x6d, 0x64, 0x69, 0x72, 0x61, 0x70, 0x70, 0x6c] ++ zeros 9)

/-- the padding `__save_new` ends up with: the callback is offered `−len(meta_data)` (`meta_data` = the 4 version/flags
bytes, the `hdlr` atom and the `ilst` atom) and the number of bytes behind the insertion point -/
def NewLayout.newPadding (N : NewLayout) (items : List Atom) (pad : PadChoice) : Nat :=
  (min 0xFFFFFFFF (getPadding pad (-(((zeros 4 ++ hdlrAtom ++ ilstData items).length : Nat) : Int))
    (N.render.length - N.offset))).toNat

/-- the new `meta` atom: version/flags 0, `hdlr` ("mdir"/"appl"), the `ilst`, a `free` atom with the padding -/
def newMeta (items : List Atom) (padding : Nat) : Atom :=
  .node nMeta false (zeros 4) [hdlrLeaf, .node nIlst false [] items,
    .leaf nFree (decide (padding + 8 > 0xFFFFFFFF)) (zeros padding)]

/-- what is inserted: the new `meta`, inside a new `udta` when `moov` has none -/
def NewLayout.newAtoms (N : NewLayout) (items : List Atom) (pad : PadChoice) : List Atom :=
  if N.frames.length = 2 then [newMeta items (N.newPadding items pad)]
  else [.node nUdta false [] [newMeta items (N.newPadding items pad)]]

/-- the atoms of the file after `__save_new`, before the table steps -/
def NewLayout.saved (N : NewLayout) (items : List Atom) (pad : PadChoice) : List Atom :=
  fill N.frames N.hole (N.newAtoms items pad)

def NewLayout.delta (N : NewLayout) (items : List Atom) (pad : PadChoice) : Int := sizeList (N.newAtoms items pad)

def NewLayout.visitedTables (N : NewLayout) (items : List Atom) (pad : PadChoice) : List (Nat × PAtom) :=
  if N.delta items pad = 0 then [] else visitedIn (annotList 0 N.top) N.offset 0

def NewLayout.TablesOK (N : NewLayout) (items : List Atom) (pad : PadChoice) : Prop :=
  Mp4C.TablesOK (N.delta items pad) N.offset (N.visitedTables items pad) (N.saved items pad)

instance (N : NewLayout) (items : List Atom) (pad : PadChoice) : Decidable (N.TablesOK items pad) := by
  unfold NewLayout.TablesOK; infer_instance

def NewLayout.savedPatched (N : NewLayout) (items : List Atom) (pad : PadChoice) : List Atom :=
  patchTables (N.delta items pad) N.offset (N.visitedTables items pad) (N.saved items pad)

/-- `ftyp  moov(trak(…stco [entry]))  mdat "AAAA"`: no `udta` -/
def exNew1 : NewLayout :=
  { frames := [{ name := nMoov, wide := false, skip := [], pre := [.leaf [0x66, 0x74, 0x79, 0x70] false [1, 2, 3, 4]],
                 post := [.leaf nMdat false [0x41, 0x41, 0x41, 0x41]] }],
    kids := [.node nTrak false [] [.node nMdia false [] [.node nMinf false [] [.node nStbl false [] [exStco 76]]]]] }

/-- `moov(udta(meta(hdlr)))  mdat`: `udta` and a `meta` without `ilst` -/
def exNew2 : NewLayout :=
  { frames := [{ name := nMoov, wide := false, skip := [], pre := [], post := [.leaf nMdat false [0x41, 0x41, 0x41, 0x41]] },
               { name := nUdta, wide := false, skip := [], pre := [], post := [] }],
    kids := [.node nMeta false (zeros 4) [.leaf nHdlr false (zeros 25)]] }

end Mutagen.Mp4C
