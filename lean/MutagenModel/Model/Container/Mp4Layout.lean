/-
Model/Container/Mp4Layout.lean — specification side for the property corollaries of MP4 (Props/C02_Mp4 … C09_Mp4):
what mutagen's atom reader returns on a rendered tree (`annot`), and well-formed files described as a tree with the
tag region at its place (`Layout`): `moov` with `udta/meta/ilst` and the `free` atom next to `ilst` that `save` takes
for padding, any other atoms around them at every level (`mdat`, `moof/traf/tfhd`, `trak/…/stco|co64`, …), 32- and
64-bit headers.
-/
import MutagenModel.Model.Container.Mp4
set_option linter.unusedVariables false
namespace Mutagen.Mp4C
open Mutagen

mutual
/-- the parsed atom (`Atom(fileobj, level)`) of a rendered atom that starts at file offset `pos` -/
def Atom.annot (pos : Nat) : Atom → PAtom
  | .leaf n w p => .mk n pos (hdrLen w + p.length) (pos + hdrLen w) []
  | .node n w s cs =>
    .mk n pos (hdrLen w + s.length + sizeList cs) (pos + hdrLen w) (annotList (pos + hdrLen w + s.length) cs)
def annotList (pos : Nat) : List Atom → List PAtom
  | [] => []
  | a :: r => a.annot pos :: annotList (pos + a.size) r
end

mutual
/-- nesting depth of container atoms (the reader refuses a container at a level above 64) -/
def Atom.depth : Atom → Nat
  | .leaf _ _ _ => 0
  | .node _ _ _ cs => 1 + depthList cs
def depthList : List Atom → Nat
  | [] => 0
  | a :: r => max a.depth (depthList r)
end

/-! ### well-formed files with tags: the layout -/

mutual
def decWf : (a : Atom) → Decidable a.wf
  | .leaf n w p =>
    decidable_of_iff (n.length = 4 ∧ isContainer n = false ∧ hdrLen w + p.length < (if w then 2 ^ 64 else 2 ^ 32))
      (by simp [Atom.wf])
  | .node n w s cs =>
    have : Decidable (wfList cs) := decWfList cs
    decidable_of_iff (n.length = 4 ∧ isContainer n = true ∧ s.length = skipSize n ∧
      hdrLen w + s.length + sizeList cs < (if w then 2 ^ 64 else 2 ^ 32) ∧ wfList cs) (by simp [Atom.wf])
def decWfList : (l : List Atom) → Decidable (wfList l)
  | [] => isTrue (by simp [wfList])
  | a :: r =>
    have : Decidable a.wf := decWf a
    have : Decidable (wfList r) := decWfList r
    decidable_of_iff (a.wf ∧ wfList r) (by simp [wfList])
end

instance (a : Atom) : Decidable a.wf := decWf a
instance (l : List Atom) : Decidable (wfList l) := decWfList l

/-- where the `free` atom that `save` takes for padding lies (`_find_padding`: the atom directly before `ilst` if it
is a `free` atom, else the one directly after it) -/
inductive RegionKind
  | alone | freeBefore | freeAfter
deriving DecidableEq, Repr

/-- a file with tags: the top-level atoms are `fill frames hole mid` — `frames` = `moov`, `udta`, `meta` with their
other children before / after the path at every level (and the top-level atoms around `moov`), `hole` = the other
children of `meta` around the tag region, and the tag region `mid` = `ilst` with its items and, if there is one, the
adjacent `free` atom -/
structure Layout where
  frames : List Frame
  hole : Hole
  ilstWide : Bool
  items : List Atom
  kind : RegionKind
  freeWide : Bool
  freePayload : Bytes

def Layout.ilst (L : Layout) : Atom := .node nIlst L.ilstWide [] L.items
def Layout.free (L : Layout) : Atom := .leaf nFree L.freeWide L.freePayload

/-- the atoms `save` replaces -/
def Layout.mid (L : Layout) : List Atom :=
  match L.kind with
  | .alone => [L.ilst]
  | .freeBefore => [L.free, L.ilst]
  | .freeAfter => [L.ilst, L.free]

def Layout.top (L : Layout) : List Atom := fill L.frames L.hole L.mid
def Layout.render (L : Layout) : Bytes := renderList L.top

def noName (l : List Atom) (n : Bytes) : Prop := ∀ a ∈ l, a.name ≠ n
instance (l : List Atom) (n : Bytes) : Decidable (noName l n) := by unfold noName; infer_instance

/-- the frames are containers named `names` (outermost first), each the FIRST atom of its name among its siblings -/
def framesNamed : List Frame → List Bytes → Prop
  | [], [] => True
  | fr :: r, n :: ns => fr.name = n ∧ noName fr.pre n ∧ framesNamed r ns
  | _, _ => False

instance : (fs : List Frame) → (ns : List Bytes) → Decidable (framesNamed fs ns)
  | [], [] => isTrue trivial
  | fr :: r, n :: ns =>
    have := instDecidableFramesNamed r ns
    by unfold framesNamed; exact inferInstance
  | [], _ :: _ => isFalse (by simp [framesNamed])
  | _ :: _, [] => isFalse (by simp [framesNamed])

/-- the strict walker's rules (`wfList`), nesting the reader accepts, the path `moov.udta.meta.ilst` is the one the
layout names (first atom of its name at every level), and the `free` atom of the layout is the one `_find_padding` takes -/
def Layout.OK (L : Layout) : Prop :=
  wfList L.top ∧ depthList L.top ≤ 65 ∧ framesNamed L.frames [nMoov, nUdta, nMeta] ∧ noName L.hole.pre nIlst ∧
  (match L.kind with
    | .alone => (∀ a, L.hole.pre.getLast? = some a → a.name ≠ nFree) ∧ (∀ a, L.hole.post.head? = some a → a.name ≠ nFree)
    | .freeBefore => True
    | .freeAfter => ∀ a, L.hole.pre.getLast? = some a → a.name ≠ nFree)

instance (L : Layout) : Decidable L.OK := by
  unfold Layout.OK
  cases L.kind <;> simp only [] <;> infer_instance

/-- the layout after a save: the tag region holds the new `ilst` and a `free` atom with `padding` zero bytes behind
it; everything else is the same tree (the size fields of `moov`, `udta`, `meta` are rendered from the new extents) -/
def Layout.after (L : Layout) (items : List Atom) (padding : Nat) : Layout :=
  { L with ilstWide := false, items := items, kind := .freeAfter,
           freeWide := decide (padding + 8 > 0xFFFFFFFF), freePayload := zeros padding }

/-- `Atom.render(b"ilst", b"".join(values))` for item atoms that fit a 32-bit size -/
def ilstData (items : List Atom) : Bytes := (Atom.node nIlst false [] items).render

/-- the padding `__save_existing` ends up with: the callback (or the default policy) is offered
`length − (len(ilst_data) + 8)` — `length` = extent of the old region, `ilst` and the adjacent `free` atom — and
`content_size` = the number of bytes behind the region; its answer is capped at 0xFFFFFFFF, a negative one gives 0 -/
def Layout.newPadding (L : Layout) (items : List Atom) (pad : PadChoice) : Nat :=
  (min 0xFFFFFFFF (getPadding pad ((sizeList L.mid : Int) - (((ilstData items).length + 8 : Nat) : Int))
    (L.render.length - (holeOffset 0 L.frames L.hole + sizeList L.mid)))).toNat

/-- the layout a save leaves when no offset table has to be patched -/
def Layout.saved (L : Layout) (items : List Atom) (pad : PadChoice) : Layout :=
  L.after items (L.newPadding items pad)

/-- the size change of the file -/
def Layout.delta (L : Layout) (items : List Atom) (pad : PadChoice) : Int :=
  (sizeList (L.saved items pad).mid : Int) - sizeList L.mid

/-- the table steps of `__update_offsets` for this save -/
def Layout.tableSteps (L : Layout) (items : List Atom) (pad : PadChoice) : List (Bytes → Except PyErr Bytes) :=
  offsetSteps (annotList 0 L.top) (L.delta items pad) (holeOffset 0 L.frames L.hole) (sizeList L.mid)

/-! ### example layouts (satisfiability of the hypotheses in Props/C02_Mp4 … C09_Mp4) -/

def exStco (entry : Nat) : Atom := .leaf nStco false ([0, 0, 0, 0] ++ toBE 4 1 ++ toBE 4 entry)

/-- `ftyp  moov(trak(mdia(minf(stbl(stco [entry])))), udta(meta(hdlr, ilst(©nam), free(4))))  mdat "AAAA"` -/
def exLayout : Layout :=
  { frames := [
      { name := nMoov, wide := false, skip := [], pre := [.leaf [0x66, 0x74, 0x79, 0x70] false [1, 2, 3, 4]],
        post := [.leaf nMdat false [0x41, 0x41, 0x41, 0x41]] },
      { name := nUdta, wide := false, skip := [],
        pre := [.node nTrak false [] [.node nMdia false [] [.node nMinf false [] [.node nStbl false [] [exStco 140]]]]], post := [] },
      { name := nMeta, wide := false, skip := [0, 0, 0, 0], pre := [.leaf nHdlr false (zeros 25)], post := [] }],
    hole := { pre := [], post := [] },
    ilstWide := false, items := [.leaf [0xa9, 0x6e, 0x61, 0x6d] false [1, 2, 3]],
    kind := .freeAfter, freeWide := false, freePayload := zeros 4 }

/-- the same without a track: no offset table -/
def exLayout0 : Layout :=
  { exLayout with frames := [
      { name := nMoov, wide := true, skip := [], pre := [], post := [.leaf nMdat false [0x41, 0x41, 0x41, 0x41]] },
      { name := nUdta, wide := false, skip := [], pre := [], post := [] },
      { name := nMeta, wide := false, skip := [0, 0, 0, 0], pre := [.leaf nHdlr false (zeros 25)], post := [] }] }

def exItems : List Atom := [.leaf [0xa9, 0x6e, 0x61, 0x6d] false [9, 9, 9, 9, 9, 9, 9, 9, 9, 9, 9, 9]]

end Mutagen.Mp4C
