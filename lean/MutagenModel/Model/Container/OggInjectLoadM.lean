/-
Model/Container/OggInjectLoadM.lean — LOADING an Ogg file as a program over the file object (C06):
`OggVorbis(fileobj)` / `OggOpus` / `OggSpeex` / `OggTheora` / `OggFLAC`, i.e. `FileType.__init__` →
`OggFileType.load` behind `@loadfile()` (mutagen/ogg.py, oggvorbis.py, oggopus.py, oggspeex.py,
oggtheora.py, oggflac.py, _util.py).  EVERY file-object call of the real load is here, in the order of
the code:

  loadfile → _openfile → verify_fileobj:   fileobj.read(0)            (any exception → ValueError)
  try:
    self.info = self._Info(fileobj)        OggPage(fileobj) in a loop from the position the caller left
                                           (each: tell, read(27), read(segments), one read per packet)
                                           until the page whose first packet starts with the codec's magic;
                                           then checks on that packet (no file access)
    self.tags = self._Tags(fileobj, info)  OggPage(fileobj) in a loop: pages of info.serial until one is
                                           complete or holds more than one packet (Opus: first scan to the
                                           page of the serial that starts with "OpusTags", then collect);
                                           to_packets, VComment.load on the packet (BytesIO: no file access)
    self.info._post_tags(fileobj)          OggPage.find_last(fileobj, serial, finishing=True):
                                             seek_end(fileobj, 65536)  = get_size (tell; seek(0,2); tell;
                                               seek(old)) then seek(-65536, 2) or seek(0, 0)
                                             data = fileobj.read()     one read to the end of the file
                                             rindex "OggS", OggPage(BytesIO(data[index:]))  (no file access)
                                             unless that page is the last one of the stream:
                                             fileobj.seek(0); OggPage(fileobj) in a loop until the page of
                                             the serial with the last flag — `error` and EOFError END THE LOOP
                                             (Ogg FLAC: nothing at all when STREAMINFO has total_samples)
  except (error, IOError): raise _Error;  except EOFError: raise _Error;  except ValueError: raise _Error

The pure functions used between the calls: `startsWith`, `toPackets`, `loadComment` / `loadVC`
(Model/Container/OggInject.lean), `rindex`, `fastPage` (Model/Info/OggCommon.lean), `Flac.siLoad`
(Model/Info/Flac.lean).  `idCheck` holds the raise conditions of the five info constructors (the field
decoding is Model/Info/OggCodecs.lean `init`; `idCheck_*` in the proofs file relate the two).
-/
import MutagenModel.Model.Container.OggInjectM
import MutagenModel.Model.Info.OggCodecs
set_option linter.unusedVariables false
namespace Mutagen.OggInj
open Mutagen Mutagen.Ogg

/-! ### loadfile -/

/-- what `except Exception` catches (`diverge` is the model's marker for a loop that does not end) -/
def isExc (x : PyErr) : Bool := x != .systemExit && x != .diverge

/-- `verify_fileobj(fileobj, writable=False)`: `read(0)`; any exception becomes ValueError -/
def verifyReadM : FileM Unit :=
  tryCatch (do let _ ← fread 0; pure ()) isExc (fun _ => raise .value)

/-- the length of the file, for loop bounds only (no call) -/
def fileLen : FileM Nat := fun _ s => (.ok s.data.length, s)

/-! ### the page loops -/

/-- `page = OggPage(fileobj); while not pred(page): page = OggPage(fileobj)` -/
def scanM (pred : Page → Bool) : Nat → FileM (Page × Nat)
  | 0 => raise .diverge
  | fuel + 1 => do
    let r ← readPageM
    if pred r.1 then pure r else scanM pred fuel

/-- `while not complete: page = OggPage(fileobj); if page.serial == serial: pages.append(page);
complete = page.complete or len(page.packets) > 1` -/
def readLoopM (serial : Nat) : Nat → List Page → FileM (List Page)
  | 0, _ => raise .diverge
  | fuel + 1, acc => do
    let r ← readPageM
    if r.1.serial = serial then
      if r.1.complete || decide (r.1.packets.length > 1) then pure (acc ++ [r.1])
      else readLoopM serial fuel (acc ++ [r.1])
    else readLoopM serial fuel acc

/-- `while not (pages[-1].complete or len(pages[-1].packets) > 1): page = OggPage(fileobj);
if page.serial == pages[0].serial: pages.append(page)` -/
def collectM (serial : Nat) : Nat → List Page → Page → FileM (List Page)
  | 0, _, _ => raise .diverge
  | fuel + 1, acc, last =>
    if last.complete || decide (last.packets.length > 1) then pure acc
    else do
      let r ← readPageM
      if r.1.serial = serial then collectM serial fuel (acc ++ [r.1]) r.1
      else collectM serial fuel acc last

/-! ### the info constructors -/

/-- the magic of the identification header -/
def Codec.idMagic : Codec → Bytes
  | .vorbis => magicVorbisId
  | .opus => magicOpusHead
  | .speex => magicSpeex
  | .theora => magicTheoraId
  | .flac => magicFlac

/-- the checks of the info constructor on the identification page it found, in the order of the code;
the answer is whether `_post_tags` will look for the last page (Ogg FLAC: only when STREAMINFO has no
total_samples) -/
def idCheck (c : Codec) (page : Page) : Except PyErr Bool :=
  let pk := page.packets.headD []
  match c with
  | .vorbis =>
    if !page.first then .error .mutagen
    else if pk.length < 28 then .error .mutagen
    else if ofLE (readAt pk 12 4) = 0 then .error .mutagen
    else .ok true
  | .opus =>
    if !page.first then .error .mutagen
    else if pk.length < 19 then .error .mutagen
    else if ofLE (readAt pk 8 1) / 16 ≠ 0 then .error .mutagen
    else .ok true
  | .speex =>
    if !page.first then .error .mutagen
    else if pk.length < 56 then .error .mutagen
    else if ofLE (readAt pk 36 4) = 0 then .error .mutagen
    else .ok true
  | .theora =>
    if !page.first then .error .mutagen
    else if pk.length < 42 then .error .mutagen
    else if ¬ (ofBE (readAt pk 7 1) = 3 ∧ ofBE (readAt pk 8 1) = 2) then .error .mutagen
    else if ofBE (readAt pk 26 4) = 0 ∨ ofBE (readAt pk 22 4) = 0 then .error .mutagen
    else .ok true
  | .flac =>
    if pk.length < 13 then .error .mutagen
    else if readAt (readAt pk 5 8) 4 4 ≠ [0x66, 0x4C, 0x61, 0x43] then .error .mutagen
    else if ¬ (ofBE (readAt (readAt pk 5 8) 0 1) = 1 ∧ ofBE (readAt (readAt pk 5 8) 1 1) = 0) then .error .mutagen
    else
      match Flac.siLoad (pk.drop 17) with
      | .error _ => .error .mutagen
      | .ok si => .ok (decide (si.totalSamples = 0))

/-- `self._Info(fileobj)`: the identification page and whether `_post_tags` needs the last page.
Vorbis looks at the first page before the loop ("page has not packets"). -/
def infoM (c : Codec) : FileM (Page × Bool) := do
  let n ← fileLen
  let page ← (match c with
    | .vorbis => do
      let r ← readPageM
      if r.1.packets = [] then raise .mutagen
      else if startsWith magicVorbisId r.1 then pure r.1
      else do
        let r' ← scanM (startsWith magicVorbisId) (n + 1)
        pure r'.1
    | _ => do
      let r ← scanM (startsWith c.idMagic) (n + 1)
      pure r.1 : FileM Page)
  match idCheck c page with
  | .error e => raise e
  | .ok needLast => pure (page, needLast)

/-! ### the tag constructors -/

/-- what the codec strips from the comment packet -/
def stripPrefix (c : Codec) (p0 : Bytes) : Bytes :=
  match c with
  | .vorbis | .theora => p0.drop 7
  | .opus => p0.drop 8
  | .speex => p0
  | .flac => p0.drop 4

/-- `self._Tags(fileobj, info)`: the data handed to `VComment.load` and what the constructor keeps
(`_padding`, `_pad_data`) -/
def tagsM (c : Codec) (serial : Nat) : FileM (Bytes × Nat × Bytes) := do
  let n ← fileLen
  let pages ← (match c with
    | .opus => do
      let r ← scanM (fun p => decide (p.serial = serial) && startsWith magicOpusTags p) (n + 1)
      collectM r.1.serial (n + 1) [r.1] r.1
    | _ => readLoopM serial (n + 1) [] : FileM (List Page))
  match toPackets pages false with
  | .error e => raise e
  | .ok [] => if c = .opus then raise .index else raise .mutagen
  | .ok (p0 :: _) =>
    match loadComment c (stripPrefix c p0) with
    | .error e => raise e
    | .ok (padding, padData) => pure (stripPrefix c p0, padding, padData)

/-! ### _post_tags: OggPage.find_last(fileobj, serial, finishing=True) -/

/-- `fileobj.read()`: one read up to the end of the file -/
def freadAll : FileM Bytes := fun e s => fread (s.data.length - s.pos) e s

/-- the slow way: `page = OggPage(fileobj); while True: …; page = OggPage(fileobj)` inside
`try … except error: return best_page  except EOFError: return best_page` -/
def slowLastM (serial : Nat) : Nat → Option Page → FileM (Option Page)
  | 0, _ => raise .diverge
  | fuel + 1, best => do
    let r ← tryCatch (do let x ← readPageM; pure (some x)) (fun e => e == .mutagen || e == .eof) (fun _ => pure none)
    match r with
    | none => pure best
    | some (p, _) =>
      if p.serial = serial then
        let best' := if p.position ≠ -1 then some p else best
        if p.last then pure best' else slowLastM serial fuel best'
      else slowLastM serial fuel best

/-- `find_last` with the size of the window at the end of the file as a parameter (as `findLastW` of
Model/Info/OggCommon.lean: proofs about a variable window do not unfold the literal 65536) -/
def findLastMW (w : Nat) (serial : Nat) : FileM (Option Page) := do
  seekEndBy (w : Int)
  let data ← freadAll
  match Info.OggC.rindex Info.OggC.oggS data with
  | none => raise .mutagen                    -- "unable to find final Ogg header"
  | some index =>
    let n ← fileLen
    let slow := fun (best : Option Page) => (do fseek 0; slowLastM serial (n + 1) best : FileM (Option Page))
    match Info.OggC.fastPage data index with
    | some p =>
      if p.serial = serial ∧ p.position ≠ -1 then
        if p.last then pure (some p) else slow (some p)
      else slow none
    | none => slow none

/-- `OggPage.find_last(fileobj, serial, finishing=True)`: the window is `256 * 256` bytes -/
def findLastM (serial : Nat) : FileM (Option Page) := findLastMW 65536 serial

/-- `info._post_tags(fileobj)`: the page the length is computed from (`none`: not looked for) -/
def postM (serial : Nat) (needLast : Bool) : FileM (Option Page) :=
  if needLast then do
    let r ← findLastM serial
    match r with
    | none => raise .mutagen
    | some p => pure (some p)
  else pure none

/-! ### load -/

/-- what a successful load has read -/
structure Loaded where
  /-- the identification page (`info.serial` is its serial; Model/Info/OggCodecs.lean decodes it) -/
  idPage : Page
  /-- the comment packet without the codec's prefix: what `VComment.load` parses -/
  comment : Bytes
  padding : Nat
  padData : Bytes
  /-- the page `_post_tags` computes the length from -/
  last : Option Page
deriving DecidableEq, Repr

/-- the three constructors' calls in a row -/
def loadBodyM (c : Codec) : FileM Loaded := do
  let (page, needLast) ← infoM c
  let (comment, padding, padData) ← tagsM c page.serial
  let last ← postM page.serial needLast
  pure { idPage := page, comment := comment, padding := padding, padData := padData, last := last }

/-- what the handlers of `OggFileType.load` turn into the format's error -/
def loadCaught (e : PyErr) : Bool := e.isIO || e == .mutagen || e == .eof || e == .value

/-- `OggX(fileobj)`: `loadfile`'s probe, then `load` with its handlers -/
def loadM (c : Codec) : FileM Loaded := do
  verifyReadM
  tryCatch (loadBodyM c) loadCaught (fun _ => raise .mutagen)

/-! ### the same on the bytes (what the fault-free run returns) -/

/-- the slow way of `find_last` by file position -/
def slowLastP (f : Bytes) (serial : Nat) : Nat → Nat → Option Page → Except PyErr (Option Page)
  | 0, _, _ => .error .diverge
  | fuel + 1, pos, best =>
    match readPage f pos with
    | .error _ => .ok best
    | .ok (p, next) =>
      if p.serial = serial then
        let best' := if p.position ≠ -1 then some p else best
        if p.last then .ok best' else slowLastP f serial fuel next best'
      else slowLastP f serial fuel next best

def findLastPW (w : Nat) (f : Bytes) (serial : Nat) : Except PyErr (Option Page) :=
  let data := f.drop (f.length - w)
  match Info.OggC.rindex Info.OggC.oggS data with
  | none => .error .mutagen
  | some index =>
    match Info.OggC.fastPage data index with
    | some p =>
      if p.serial = serial ∧ p.position ≠ -1 then
        if p.last then .ok (some p) else slowLastP f serial (f.length + 1) 0 (some p)
      else slowLastP f serial (f.length + 1) 0 none
    | none => slowLastP f serial (f.length + 1) 0 none

def findLastP (f : Bytes) (serial : Nat) : Except PyErr (Option Page) := findLastPW 65536 f serial

/-- the identification page and the position behind it -/
def infoP (c : Codec) (f : Bytes) : Except PyErr (Page × Bool × Nat) :=
  let found : Except PyErr (Page × Nat) :=
    match c with
    | .vorbis =>
      match readPage f 0 with
      | .error e => .error e
      | .ok (p0, next) =>
        if p0.packets = [] then .error .mutagen
        else if startsWith magicVorbisId p0 then .ok (p0, next)
        else (scanFrom f (startsWith magicVorbisId) (f.length + 1) next).map fun x => (x.1.page, x.2)
    | _ => (scanFrom f (startsWith c.idMagic) (f.length + 1) 0).map fun x => (x.1.page, x.2)
  match found with
  | .error e => .error e
  | .ok (page, pos) =>
    match idCheck c page with
    | .error e => .error e
    | .ok needLast => .ok (page, needLast, pos)

/-- `load` on the bytes, exceptions as raised inside the `try` -/
def loadRaw (c : Codec) (f : Bytes) : Except PyErr Loaded :=
  match infoP c f with
  | .error e => .error e
  | .ok (page, needLast, pos) =>
    match readComment c f page.serial pos with
    | .error e => .error e
    | .ok data =>
      match loadComment c data with
      | .error e => .error e
      | .ok (padding, padData) =>
        if needLast then
          match findLastP f page.serial with
          | .error e => .error e
          | .ok none => .error .mutagen
          | .ok (some l) => .ok { idPage := page, comment := data, padding := padding, padData := padData, last := some l }
        else .ok { idPage := page, comment := data, padding := padding, padData := padData, last := none }

/-- … with the handlers of `OggFileType.load` -/
def loadPure (c : Codec) (f : Bytes) : Except PyErr Loaded :=
  match loadRaw c f with
  | .ok v => .ok v
  | .error e => if loadCaught e then .error .mutagen else .error e

end Mutagen.OggInj
