/-
Model/Container/FlacLoad.lean — `FLAC.load` (mutagen/flac.py: `__check_header`, `__read_metadata_block`, the stream-info
check at the end), the code-side reader of FLAC files, twice:

* `load : Bytes → Except PyErr Loaded`, a pure function of the bytes, for EVERY byte string: the optional ID3v2 tag in
  front ("ID3", `14 + BitPaddedInt(size)`, seek, "fLaC" again), the marker, the block loop — header byte and 24-bit size
  through `StrictFileObject.read`, the class by block code, `_distrust_size` for VORBIS_COMMENT (code 4: the comment is
  parsed from the stream, the declared size ignored) and PICTURE (code 6), `fileobj.read(size)` and `Class(data)` for the
  others (STREAMINFO: Model/Info/Flac.lean `siLoad`; SEEKTABLE, CUESHEET, PADDING, MetadataBlock: Model/FlacBlocks.lean), a
  second CueSheet or SeekTable refused, a second Vorbis comment kept in the list —, "Stream info block not found".
  The Vorbis comment is kept as the bytes it occupies (its decoding is Model/Vorbis.lean).
* `loadM : FileM Loaded`, the same as a program over the file object issuing every call of the real load in its order:
  `read(0)` (verify_fileobj), the strict reads, `tell` around the distrusted classes (`start = fileobj.tell()` in
  `__read_metadata_block`, and `VComment.__init__`'s own `tell` before and after), `seek(size - 4)` of the ID3 skip, and
  `tell`, `seek(0, 2)`, `tell` for the bitrate when the stream has a length.  A read that returns fewer bytes than asked
  is `error` (StrictFileObject); exceptions of the file object go to `@convert_error(IOError, error)`.
-/
import MutagenModel.Model.FlacBlocks
import MutagenModel.Model.Info.Flac
import MutagenModel.Model.Id3Util
import MutagenModel.Model.FileOps
set_option linter.unusedVariables false
namespace Mutagen.FlacL
open Mutagen Mutagen.FlacB

def magic : Bytes := [0x66, 0x4C, 0x61, 0x43]
def id3 : Bytes := [0x49, 0x44, 0x33]

inductive Body
  | streaminfo (s : Flac.StreamInfo)
  /-- the Vorbis comment, as the bytes it occupies in the file -/
  | vc (raw : Bytes)
  | other (b : FlacB.Body)
deriving DecidableEq, Repr

structure LBlock where
  code : Nat
  body : Body
deriving DecidableEq, Repr

structure Loaded where
  blocks : List LBlock
  /-- `fileobj.tell() - start` of the bitrate computation (bytes behind the metadata), when `info.length` is not 0 -/
  audioBytes : Option Nat
deriving DecidableEq, Repr

def isStreamInfo (b : LBlock) : Bool := match b.body with | .streaminfo _ => true | _ => false

/-- `info.length` is not 0: the first STREAMINFO block has samples -/
def hasLength (bs : List LBlock) : Bool :=
  match bs.find? isStreamInfo with
  | some ⟨_, .streaminfo s⟩ => s.totalSamples != 0
  | _ => false

/-! ### pure -/

/-- `__check_header`: the offset behind "fLaC" and the bytes from there on -/
def checkHeader (f : Bytes) : Except PyErr (Nat × Bytes) :=
  bnd (rd 4 f) fun p =>
  if p.1 = magic then .ok (4, p.2)
  else if p.1.take 3 = id3 then
    bnd (rd 6 p.2) fun q =>
    let size := 14 + bpFromBytes 7 true (q.1.drop 2)
    bnd (rd 4 (f.drop (size - 4))) fun r =>
    if r.1 = magic then .ok (size, r.2) else .error .mutagen
  else .error .mutagen

/-- the comments of `VComment.load`: `for i in range(count)`: read(4), read(length); the bytes read are collected -/
def vcItems : Nat → Bytes → Bytes → Except PyErr (Bytes × Bytes)
  | 0, acc, b => .ok (acc, b)
  | n + 1, acc, b => bnd (rd 4 b) fun p => bnd (rd (ofLE p.1) p.2) fun q => vcItems n (acc ++ p.1 ++ q.1) q.2

/-- `VCFLACDict(fileobj)` (errors='replace', no framing bit): the bytes of the comment and what is left of the stream -/
def vcSkip (b : Bytes) : Except PyErr (Bytes × Bytes) :=
  bnd (rd 4 b) fun p => bnd (rd (ofLE p.1) p.2) fun q => bnd (rd 4 q.2) fun r => vcItems (ofLE r.1) (p.1 ++ q.1 ++ r.1) r.2

/-- the block object for a block code: the distrusted classes parse the stream, the others get `fileobj.read(size)` -/
def readBody (code size : Nat) (b : Bytes) : Except PyErr (LBlock × Bytes) :=
  if code = 4 then bnd (vcSkip b) fun v => .ok (⟨4, .vc v.1⟩, v.2)
  else if code = 6 then bnd (loadPictureS b) fun p => .ok (⟨6, .other (.picture p.1)⟩, p.2)
  else
    bnd (rd size b) fun d =>
    if code = 0 then bnd (Flac.siLoad d.1) fun s => .ok (⟨0, .streaminfo s⟩, d.2)
    else bnd (loadBody code d.1.length d.1) fun r => .ok (⟨code, .other r.1⟩, d.2)

/-- `__read_metadata_block` up to the block object: the block, the last-block flag, the rest of the stream -/
def readBlock (b : Bytes) : Except PyErr ((LBlock × Bool) × Bytes) :=
  bnd (rd 1 b) fun p =>
  bnd (rd 3 p.2) fun q =>
  bnd (readBody (ofBE p.1 % 128) (ofBE q.1) q.2) fun r => .ok ((r.1, decide (ofBE p.1 ≥ 128)), r.2)

/-- `while self.__read_metadata_block(fileobj)`: `cue` / `seek`: a CueSheet / SeekTable was seen ("> 1 … block found") -/
def readBlocks : Nat → Bool → Bool → Bytes → Except PyErr (List LBlock × Bytes)
  | 0, _, _, _ => .error .diverge
  | fuel + 1, cue, seek, b =>
    bnd (readBlock b) fun r =>
    if (r.1.1.code = 5 ∧ cue = true) ∨ (r.1.1.code = 3 ∧ seek = true) then .error .mutagen
    else if r.1.2 then .ok ([r.1.1], r.2)
    else bnd (readBlocks fuel (cue || r.1.1.code == 5) (seek || r.1.1.code == 3) r.2) fun t => .ok (r.1.1 :: t.1, t.2)

/-- `FLAC.load` on the bytes of the file -/
def load (f : Bytes) : Except PyErr Loaded :=
  bnd (checkHeader f) fun h =>
  bnd (readBlocks (f.length + 1) false false h.2) fun r =>
  if r.1.any isStreamInfo then .ok ⟨r.1, if hasLength r.1 then some r.2.length else none⟩
  else .error .mutagen

/-! ### as a program over the file object -/

/-- `StrictFileObject.read(n)` -/
def sreadM (n : Nat) : FileM Bytes := do
  let b ← fread n
  if b.length ≠ n then raise .mutagen
  pure b

def checkHeaderM : FileM Nat := do
  let h ← sreadM 4
  if h = magic then pure 4
  else if h.take 3 = id3 then do
    let q ← sreadM 6
    let size := 14 + bpFromBytes 7 true (q.drop 2)
    fseek (size - 4)
    let r ← sreadM 4
    if r = magic then pure size else raise .mutagen
  else raise .mutagen

/-- the comments; the bytes read are collected -/
def vcItemsM : Nat → Bytes → FileM Bytes
  | 0, acc => pure acc
  | n + 1, acc => do
    let l ← sreadM 4
    let v ← sreadM (ofLE l)
    vcItemsM n (acc ++ l ++ v)

/-- `VCFLACDict(fileobj)` inside `__read_metadata_block`: tell (`start`), tell (`VComment.__init__`), the reads, tell, tell -/
def vcM : FileM Bytes := do
  let _ ← ftell
  let _ ← ftell
  let l ← sreadM 4
  let v ← sreadM (ofLE l)
  let c ← sreadM 4
  let raw ← vcItemsM (ofLE c) (l ++ v ++ c)
  let _ ← ftell
  let _ ← ftell
  pure raw

/-- `Picture(fileobj)` inside `__read_metadata_block`: tell, the six reads of `Picture.load`, tell -/
def pictureM : FileM Picture := do
  let _ ← ftell
  let h1 ← sreadM 8
  let m ← sreadM (ofBE (h1.drop 4))
  let h2 ← sreadM 4
  let ds ← sreadM (ofBE h2)
  let h3 ← sreadM 20
  let data ← sreadM (ofBE (h3.drop 16))
  let _ ← ftell
  pure ⟨ofBE (h1.take 4), decodeReplace m, decodeReplace ds, ofBE (h3.take 4), ofBE ((h3.drop 4).take 4),
        ofBE ((h3.drop 8).take 4), ofBE ((h3.drop 12).take 4), data⟩

/-- a result of a loader that works on bytes already read -/
def liftE (r : Except PyErr α) : FileM α := match r with | .ok a => pure a | .error x => raise x

def readBodyM (code size : Nat) : FileM LBlock :=
  if code = 4 then do
    let raw ← vcM
    pure ⟨4, .vc raw⟩
  else if code = 6 then do
    let p ← pictureM
    pure ⟨6, .other (.picture p)⟩
  else do
    let d ← sreadM size
    if code = 0 then do
      let s ← liftE (Flac.siLoad d)
      pure ⟨0, .streaminfo s⟩
    else do
      let r ← liftE (loadBody code d.length d)
      pure ⟨code, .other r.1⟩

def readBlockM : FileM (LBlock × Bool) := do
  let b1 ← sreadM 1
  let b3 ← sreadM 3
  let blk ← readBodyM (ofBE b1 % 128) (ofBE b3)
  pure (blk, decide (ofBE b1 ≥ 128))

def readBlocksM : Nat → Bool → Bool → FileM (List LBlock)
  | 0, _, _ => raise .diverge
  | fuel + 1, cue, seek => do
    let r ← readBlockM
    if (r.1.code = 5 ∧ cue = true) ∨ (r.1.code = 3 ∧ seek = true) then raise .mutagen
    else if r.2 then pure [r.1]
    else do
      let t ← readBlocksM fuel (cue || r.1.code == 5) (seek || r.1.code == 3)
      pure (r.1 :: t)

/-- the length of the file, for the fuel of the block loop only (no call on the file object) -/
def ghostLength : FileM Nat := fun _ s => (.ok s.data.length, s)

/-- `FLAC.load` inside `@loadfile()` -/
def loadM : FileM Loaded := do
  tryCatch (do let _ ← fread 0; pure ()) (fun _ => true) (fun _ => raise .value)
  let _ ← checkHeaderM
  let n ← ghostLength
  let bs ← readBlocksM (n + 1) false false
  if bs.any isStreamInfo then
    if hasLength bs then do
      let start ← ftell
      fseekEnd
      let size ← ftell
      pure ⟨bs, some (size - start)⟩
    else pure ⟨bs, none⟩
  else raise .mutagen

/-- … and the `@convert_error(IOError, error)` around it -/
def loadEntry : FileM Loaded := convertError PyErr.isIO .mutagen loadM

end Mutagen.FlacL
