/-
`MP4Chapters.load` (mutagen/mp4/__init__.py): the movie timescale from `moov.mvhd` and the Nero chapter list
`moov.udta.chpl`, as `MP4.load` runs it (after the tags; `except error: raise / except Exception → MP4MetadataError`).
Pure model on the bytes and FileM program (two `atom.read`s).
-/
import MutagenModel.Model.Container.Mp4LoadM
import MutagenModel.Model.Utf8
import MutagenModel.Model.Mp4Tags

namespace Mutagen.Mp4C
open Mutagen

def nMvhd : Bytes := [0x6d, 0x76, 0x68, 0x64]
def nChpl : Bytes := [0x63, 0x68, 0x70, 0x6c]
def chplPath : List Bytes := [nMoov, nUdta, nChpl]
def mvhdPath : List Bytes := [nMoov, nMvhd]

/-- what `MP4Chapters` holds after a load: `_timescale` (signed, `>l`) and, per chapter, the 64-bit start as it is in the
atom and the title.  `Chapter.start` is the float `start / 10000 / _timescale` (two true divisions, in this order). -/
structure Chapters where
  timescale : Int
  entries : List (Nat × List Nat)
deriving DecidableEq, Repr

/-- `_parse_mvhd`: `.ok none` = neither version 0 nor 1, `_timescale` stays `None`.  Every exception of the function
(`IndexError` on empty data, `struct.error` on short data — the duration is unpacked too, so it must be there) is turned
into `MP4MetadataError` by `MP4.load`. -/
def parseMvhdTs (data : Bytes) : Except PyErr (Option Int) :=
  match data with
  | [] => .error .mutagen
  | v :: _ =>
    if v = 0 then
      if data.length < 20 then .error .mutagen else .ok (some (Mp4Tags.ofSignedBE (readAt data 12 4)))
    else if v = 1 then
      if data.length < 32 then .error .mutagen else .ok (some (Mp4Tags.ofSignedBE (readAt data 20 4)))
    else .ok none

/-- the loop of `_parse_chpl` on the bytes from `pos` on: `struct.unpack(">Q", data[pos:pos+8])` (short → `struct.error`),
`data[pos]` (`IndexError` at the end), `data[pos:pos+title_len].decode()` (a SHORT slice is not an error; invalid UTF-8 is) -/
def chplGo : Nat → Bytes → List (Nat × List Nat) → Except PyErr (List (Nat × List Nat))
  | 0, _, acc => .ok acc
  | n + 1, rest, acc =>
    if rest.length < 8 then .error .mutagen
    else
      match rest.drop 8 with
      | [] => .error .mutagen
      | l :: r =>
        match Utf8.decode (r.take l.toNat) with
        | none => .error .mutagen
        | some t => chplGo n (r.drop l.toNat) (acc ++ [(ofBE (rest.take 8), t)])

/-- `_parse_chpl`: the count is the byte at offset 8, whatever the version byte says; the entries start at 9 -/
def parseChpl (data : Bytes) : Except PyErr (List (Nat × List Nat)) :=
  match data[8]? with
  | none => .error .mutagen
  | some c => chplGo c.toNat (data.drop 9) []

/-- `MP4Chapters._can_load(atoms)` then `MP4Chapters(atoms, fileobj)` on the bytes; `.ok none` = `chapters = None` -/
def chaptersPure (f : Bytes) (atoms : List PAtom) : Except PyErr (Option Chapters) :=
  match path? atoms chplPath, path? atoms mvhdPath with
  | some pc, some pm =>
    match pm.getLast?, pc.getLast? with
    | some mvhd, some chpl =>
      match Info.Mp4.atomRead f mvhd with
      | none => .error .mutagen
      | some d =>
        match parseMvhdTs d with
        | .error e => .error e
        | .ok none => .error .mutagen
        | .ok (some ts) =>
          if ts = 0 then .error .mutagen
          else
            match Info.Mp4.atomRead f chpl with
            | none => .error .mutagen
            | some d2 =>
              match parseChpl d2 with
              | .error e => .error e
              | .ok cs => .ok (some { timescale := ts, entries := cs })
    | _, _ => .error .mutagen
  | _, _ => .ok none

/-- the same as a program on the file object: the two `atom.read`s are the only calls; anything they raise that is an
`Exception` leaves `MP4.load` as `MP4MetadataError` -/
def chaptersM (atoms : List PAtom) : FileM (Option Chapters) :=
  match path? atoms chplPath, path? atoms mvhdPath with
  | some pc, some pm =>
    tryCatch (do
      match pm.getLast?, pc.getLast? with
      | some mvhd, some chpl => do
        match ← atomReadM mvhd with
        | none => raise .mutagen
        | some d =>
          match parseMvhdTs d with
          | .error e => raise e
          | .ok none => raise .mutagen
          | .ok (some ts) =>
            if ts = 0 then raise .mutagen
            else do
              match ← atomReadM chpl with
              | none => raise .mutagen
              | some d2 =>
                match parseChpl d2 with
                | .error e => raise e
                | .ok cs => pure (some { timescale := ts, entries := cs })
      | _, _ => raise .mutagen)
      isException (fun _ => raise .mutagen)
  | _, _ => pure none

structure LoadedFull where
  base : Loaded
  chapters : Option Chapters

/-- `MP4(fileobj)` after `loadfile`'s checks, complete: atoms, stream info, tags, chapters -/
def loadFullM : FileM LoadedFull := do
  let base ← loadM
  let chapters ← chaptersM base.atoms
  pure { base, chapters }

def loadFullPure (f : Bytes) : Except PyErr LoadedFull :=
  match loadPure f with
  | .error e => .error e
  | .ok base =>
    match chaptersPure f base.atoms with
    | .error e => .error e
    | .ok chapters => .ok { base, chapters }

/-- `a = MP4(f); a.save(f)` on ONE file object with nothing summarised: the complete load (atoms, info, tags, chapters),
then `MP4Tags.save` with its own `Atoms(fileobj)` (which seeks by itself, so no rewind is needed in between) -/
def loadSaveM (B : Nat) (ilstData : Bytes) (pad : PadChoice) : FileM Unit := do
  let _ ← loadFullM
  saveTagsFullM B ilstData pad

end Mutagen.Mp4C
