/-
Model/Container/OggInjectM.lean — Ogg comment injection as a program over the file object
(C19, C06): WHEN the file is touched.

`OggFileType.save` → the codec's `_inject` → `OggPage.replace` → `OggPage.renumber`
(mutagen/ogg.py).  The reads that find the comment pages (`OggPage(fileobj)` in a loop from offset
0, `get_size`) touch nothing and are summarised by their result on the bytes `f` the file holds
(`commentPages`, `toPackets`, `newPacket`, `newPages` of Model/Container/OggInject.lean: all of that
is computed before the first write).  From `OggPage.replace` on every file-object call is there, in
the order of the code:

  for old_page, data in zip(old_pages, new_data):        -- one slot per OLD page
      resize_bytes(fileobj, old_page.size, len(data), offset)   -- Model/FileOps.lean
      fileobj.seek(offset, 0); fileobj.write(data)
  if len(old_pages) != len(new_pages):
      fileobj.seek(new_data_end, 0)
      renumber: loop  page = OggPage(fileobj)  (tell, read 27, read lacing, read each packet)
                      [other serial: continue]  seek(-size, 1); write(page); seek(offset + size, 0)
                until EOFError

and around it the `try … except` of `OggFileType.save` / `delete` (`saveEntry`, `deleteEntry`).
-/
import MutagenModel.Model.Container.OggInject
import MutagenModel.Model.FileOps
set_option linter.unusedVariables false
namespace Mutagen.OggInj
open Mutagen Mutagen.Ogg

/-! ### OggPage(fileobj) on the file object -/

/-- `self.packets = [fileobj.read(l) for l in lacings]` -/
def readPacketsM : List Nat → FileM (List Bytes)
  | [] => pure []
  | n :: r => do
    let p ← fread n
    let ps ← readPacketsM r
    pure (p :: ps)

/-- `OggPage(fileobj)`: `tell`, `read(27)`, the checks (a wrong capture pattern: one more `tell` for the
message), `read(segments)`, one `read` per packet.
Returns the page and `page.offset`; EOFError is `.eof`, ogg.error `.mutagen`. -/
def readPageM : FileM (Page × Nat) := do
  let off ← ftell
  let hdr ← fread 27
  if hdr.isEmpty then raise .eof
  else if hdr.length < 27 then raise .mutagen
  else if hdr.take 4 ≠ [0x4F, 0x67, 0x67, 0x53] then do
    -- the message has the position: `fileobj.tell() - 27`
    let _ ← ftell
    raise .mutagen
  else
    let version := (hdr.drop 4).head!.toNat
    if version ≠ 0 then raise .mutagen
    else do
      let flags := (hdr.drop 5).head!.toNat
      let segments := (hdr.drop 26).head!.toNat
      let lac ← fread segments
      if lac.length < segments then raise .mutagen
      else do
        let (lens, complete) := unlace 0 (lac.map UInt8.toNat)
        let packets ← readPacketsM lens
        if packets.map List.length ≠ lens then raise .mutagen
        else
          pure ({ packets := packets, complete := complete, continued := flags % 2 = 1,
                  first := flags / 2 % 2 = 1, last := flags / 4 % 2 = 1, flagsHi := flags / 8,
                  sequence := ofLE ((hdr.drop 18).take 4), serial := ofLE ((hdr.drop 14).take 4),
                  position := ofSignedLE ((hdr.drop 6).take 8), version := version }, off)

/-! ### OggPage.renumber and OggPage.replace on the file object -/

/-- the current position, as the file object itself knows it for a relative seek (no call) -/
def curPos : FileM Nat := fun _ s => (.ok s.pos, s)

/-- `OggPage.renumber(fileobj, serial, start)`; `fuel` bounds the number of pages (never used up) -/
def renumberM (serial : Nat) : Nat → Nat → FileM Unit
  | 0, _ => raise .diverge
  | fuel + 1, num => do
    -- try: page = OggPage(fileobj)  except EOFError: break
    let r ← tryCatch (do let x ← readPageM; pure (some x)) (fun e => e == .eof) (fun _ => pure none)
    match r with
    | none => pure ()
    | some (p, off) =>
      if p.serial ≠ serial then renumberM serial fuel num          -- continue
      else do
        -- fileobj.seek(-page.size, 1)
        let here ← curPos
        fseek (here - p.size)
        match ({ p with sequence := num } : Page).render with
        | .error e => raise e
        | .ok b => do
          fwrite b
          fseek (off + p.size)
          renumberM serial fuel (num + 1)

/-- "Replace pages one by one": per old page `resize_bytes`, `seek`, `write` -/
def replaceLoopM (B : Nat) : List (Rd × Bytes) → Int → FileM Unit
  | [], _ => pure ()
  | (o, data) :: r, adj => do
    let off := ((o.offset : Int) + adj).toNat
    resizeBytes B o.page.size data.length off
    fseek off
    fwrite data
    replaceLoopM B r (adj + (data.length : Int) - (o.page.size : Int))

/-- `new_data_end`: the end of the last piece of data (a pure function of sizes and offsets) -/
def dataEndOf : List (Rd × Bytes) → Int → Nat → Nat
  | [], _, e => e
  | (o, data) :: r, adj, _ =>
    dataEndOf r (adj + (data.length : Int) - (o.page.size : Int)) (((o.offset : Int) + adj).toNat + data.length)

/-- `OggPage.replace(fileobj, old_pages, new_pages)`; `flen` bounds the renumbering loop -/
def replaceM (B : Nat) (old : List Rd) (new : List Page) (flen : Nat) : FileM Unit :=
  match old.head?, old.getLast?, new with
  | some o0, some oL, _ :: _ =>
    let new' := prepare o0.page oL.page new
    match renderList new' with
    | .error e => raise e
    | .ok data =>
      let slots := old.zip (fitData old.length data)
      do
        replaceLoopM B slots 0
        if old.length ≠ new.length then do
          fseek (dataEndOf slots 0 0)
          renumberM o0.page.serial flen (o0.page.sequence + new.length)
        else pure ()
  | _, _, _ => raise .value

/-! ### _inject, save, delete -/

/-- the codec's `_inject` on a file object that holds the bytes `f`: everything up to the new page
list is computed from what was read; then `replace` -/
def injectM (B : Nat) (c : Codec) (f vc padData : Bytes) (pad : PadChoice) : FileM Unit :=
  match commentPages c f with
  | .error e => raise e
  | .ok old =>
    match toPackets (old.map (·.page)) false with
    | .error e => raise e
    | .ok [] => raise .index
    | .ok (old0 :: others) =>
      match newPacket c old0 vc padData pad f.length with
      | .error e => raise e
      | .ok new0 =>
        match newPages c (new0 :: others) (old.map (·.page)) with
        | .error e => raise e
        | .ok new =>
          -- the renumbering loop reads at most the pages of the file as it is then: every page has
          -- 27 bytes or more, so the size of the new file bounds their number
          replaceM B old new (f.length + (new.map Page.size).sum + 1)

/-- what `OggFileType.save` / `delete` convert to the format's error class -/
def oggCaught (e : PyErr) : Bool := e.isIO || e == .mutagen || e == .eof || e == .index || e == .struct_

/-- `OggFileType.save(filething, padding)`: `try: self.tags._inject(fileobj, padding)` `except
(IOError, error)`, `except EOFError`, `except (IndexError, struct.error)`: raise the format's error -/
def saveEntry (B : Nat) (c : Codec) (f vc padData : Bytes) (pad : PadChoice) : FileM Unit :=
  tryCatch (injectM B c f vc padData pad) oggCaught (fun _ => raise .mutagen)

/-- `OggFileType.delete(filething)`: `self.tags.clear()`, `_inject(fileobj, lambda x: 0)` in the same
handlers -/
def deleteEntry (B : Nat) (c : Codec) (f vendor padData : Bytes) : FileM Unit :=
  saveEntry B c f (Vorbis.encode vendor [] c.framing) padData (.callback fun _ _ => 0)

end Mutagen.OggInj
