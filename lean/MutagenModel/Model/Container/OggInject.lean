/-
Model/Container/OggInject.lean — Ogg comment injection: how the five Ogg codecs (Vorbis, Opus,
Speex, Theora, FLAC-in-Ogg) find their comment packet in a file that is a concatenation of pages,
build the new packet, lay it out on pages and put those pages into the file.

Code side (mutagen/ogg.py OggPage.__init__ / _from_packets_try_preserve / replace / renumber,
OggFileType.save / delete; mutagen/oggvorbis.py, oggopus.py, oggspeex.py, oggtheora.py, oggflac.py
`_inject` and the comment-reading constructors; mutagen/_vorbis.py VComment.load as far as the
number of bytes it consumes): functions from the bytes of the file to the bytes of the file.
The page-level pieces (Page, parse, render, toPackets, fromPackets) are those of Model/Ogg.lean.
A file position is a natural number; `OggPage(fileobj)` at position `pos` is `readPage f pos`.
One replaced region is `take o ++ new ++ drop (o + old)` (what `resize_bytes; seek; write`
leave: `replaceRegion_clean` in Proofs/FileOps.lean).  The rendered comment (`VComment.write`) is
a parameter, as is — for Opus — the `_pad_data` the tag object kept when it was loaded.

Spec side (RFC 3533 §4–§6; the codec mappings): a file is a list of pages (`renderPages`), seen as a
`Layout` around the comment packet's run; the logical stream of a serial number is the sub-list of
its pages (`stream`; `others` for the rest); its packets are the reassembly (`Ogg.reasm`) of that
sub-list.  `Layout.after` is the page list the edit has to produce.  The strict reader `readAll`
reads a file back into its pages (and compares every page, checksum included, with its rendering).
-/
import MutagenModel.Model.Ogg
import MutagenModel.Model.Padding
import MutagenModel.Model.Vorbis
import MutagenModel.Generated.Consts
set_option linter.unusedVariables false
namespace Mutagen.OggInj
open Mutagen Mutagen.Ogg

inductive Codec | vorbis | opus | speex | theora | flac
deriving DecidableEq, Repr

/-- "\x03vorbis" -/
def magicVorbisComment : Bytes := [0x03, 0x76, 0x6F, 0x72, 0x62, 0x69, 0x73]
/-- "\x01vorbis" -/
def magicVorbisId : Bytes := [0x01, 0x76, 0x6F, 0x72, 0x62, 0x69, 0x73]
/-- "OpusTags" -/
def magicOpusTags : Bytes := [0x4F, 0x70, 0x75, 0x73, 0x54, 0x61, 0x67, 0x73]
/-- "OpusHead" -/
def magicOpusHead : Bytes := [0x4F, 0x70, 0x75, 0x73, 0x48, 0x65, 0x61, 0x64]
/-- "Speex   " -/
def magicSpeex : Bytes := [0x53, 0x70, 0x65, 0x65, 0x78, 0x20, 0x20, 0x20]
/-- "\x81theora" -/
def magicTheoraComment : Bytes := [0x81, 0x74, 0x68, 0x65, 0x6F, 0x72, 0x61]
/-- "\x80theora" -/
def magicTheoraId : Bytes := [0x80, 0x74, 0x68, 0x65, 0x6F, 0x72, 0x61]
/-- "\x7FFLAC" -/
def magicFlac : Bytes := [0x7F, 0x46, 0x4C, 0x41, 0x43]

/-- what precedes the Vorbis comment in the codec's comment packet -/
def Codec.commentPrefix : Codec → Bytes
  | .vorbis => magicVorbisComment
  | .opus => magicOpusTags
  | .speex => []
  | .theora => magicTheoraComment
  | .flac => []

/-- `VComment.write(framing=…)`: only Vorbis writes the framing bit -/
def Codec.framing : Codec → Bool
  | .vorbis => true
  | _ => false

/-! ### reading pages from a file position -/

/-- a page as `OggPage(fileobj)` read it, with `page.offset` -/
structure Rd where
  page : Page
  offset : Nat
deriving DecidableEq, Repr

/-- `OggPage(fileobj)` with the file position at `pos`: the page and the position afterwards.
`EOFError` is `.eof`, `ogg.error` is `.mutagen`. -/
def readPage (f : Bytes) (pos : Nat) : Except PyErr (Page × Nat) :=
  match parse (f.drop pos) with
  | .error .eof => .error .eof
  | .error .bad => .error .mutagen
  | .ok (p, rest) => .ok (p, f.length - rest.length)

/-- `page = OggPage(fileobj); while not pred(page): page = OggPage(fileobj)`: the first page at or
after `pos` that satisfies `pred`, and the position behind it.  `fuel` bounds the number of pages
read (a page has at least 27 bytes, so the length of the file plus one is always enough). -/
def scanFrom (f : Bytes) (pred : Page → Bool) : Nat → Nat → Except PyErr (Rd × Nat)
  | 0, _ => .error .diverge
  | fuel + 1, pos =>
    match readPage f pos with
    | .error e => .error e
    | .ok (p, next) => if pred p then .ok (⟨p, pos⟩, next) else scanFrom f pred fuel next

/-- `page.packets and page.packets[0].startswith(magic)` -/
def startsWith (magic : Bytes) (p : Page) : Bool :=
  match p.packets with
  | [] => false
  | x :: _ => magic.isPrefixOf x

/-- the loop all five `_inject`s and `__get_comment_pages` share:
`while not (old_pages[-1].complete or len(old_pages[-1].packets) > 1): page = OggPage(fileobj);
if page.serial == serial: old_pages.append(page)` -/
def collect (f : Bytes) (serial : Nat) : Nat → List Rd → Page → Nat → Except PyErr (List Rd)
  | 0, _, _, _ => .error .diverge
  | fuel + 1, acc, last, pos =>
    if last.complete || decide (last.packets.length > 1) then .ok acc
    else
      match readPage f pos with
      | .error e => .error e
      | .ok (p, next) =>
        if p.serial = serial then collect f serial fuel (acc ++ [⟨p, pos⟩]) p next
        else collect f serial fuel acc last next

/-- `OggOpusInfo(fileobj)` as far as `_inject` depends on it: the serial number of the first page
whose first packet starts with "OpusHead", and the position behind that page.  A header page
without the first-page flag, with a header packet shorter than 19 bytes ("truncated ID header")
or with a major version other than 0 is an OggOpusHeaderError. -/
def opusInfo (f : Bytes) : Except PyErr (Nat × Nat) :=
  match scanFrom f (startsWith magicOpusHead) (f.length + 1) 0 with
  | .error e => .error e
  | .ok (r, next) =>
    if !r.page.first then .error .mutagen
    else
      let pk := r.page.packets.headD []
      if pk.length < 19 then .error .mutagen
      else if (pk.getD 8 0).toNat / 16 ≠ 0 then .error .mutagen
      else .ok (r.page.serial, next)

/-- Vorbis and Theora `_inject`: the first page whose first packet starts with the identification
magic gives the serial number (the stream the tags were loaded from); from that page on — it is
tested itself first, the file is not rewound — the first page of that serial whose first packet
starts with the comment magic -/
def idThenComment (f idMagic commentMagic : Bytes) : Except PyErr (Rd × Nat) :=
  match scanFrom f (startsWith idMagic) (f.length + 1) 0 with
  | .error e => .error e
  | .ok (r, pos) =>
    let isComment := fun (p : Page) => decide (p.serial = r.page.serial) && startsWith commentMagic p
    if isComment r.page then .ok (r, pos) else scanFrom f isComment (f.length + 1) pos

/-- where the codec's `_inject` finds the first page of its comment packet: that page (with its
offset) and the position behind it -/
def findStart (c : Codec) (f : Bytes) : Except PyErr (Rd × Nat) :=
  match c with
  | .vorbis => idThenComment f magicVorbisId magicVorbisComment
  | .theora => idThenComment f magicTheoraId magicTheoraComment
  | .opus =>
    match opusInfo f with
    | .error e => .error e
    | .ok (serial, pos) =>
      scanFrom f (fun p => decide (p.serial = serial) && startsWith magicOpusTags p) (f.length + 1) pos
  | .speex =>
    match scanFrom f (startsWith magicSpeex) (f.length + 1) 0 with
    | .error e => .error e
    | .ok (r, pos) => scanFrom f (fun p => decide (p.serial = r.page.serial)) (f.length + 1) pos
  | .flac =>
    match scanFrom f (startsWith magicFlac) (f.length + 1) 0 with
    | .error e => .error e
    | .ok (r, pos) =>
      -- the loop tests the header page itself first
      let isSecond := fun (p : Page) => decide (p.sequence = 1) && decide (p.serial = r.page.serial)
      if isSecond r.page then .ok (r, pos) else scanFrom f isSecond (f.length + 1) pos

/-- `old_pages`: the pages that carry the comment packet -/
def commentPages (c : Codec) (f : Bytes) : Except PyErr (List Rd) :=
  match findStart c f with
  | .error e => .error e
  | .ok (r, pos) => collect f r.page.serial (f.length + 1) [r] r.page pos

/-! ### the new comment packet -/

/-- `packets[0]` after the codec's `_inject` has set it.  `old0` is the old first packet, `fsize`
the size of the file.  Vorbis / Speex / Theora / Opus: prefix, comment, then as many zero bytes as
`PaddingInfo(len(old0) - len(prefix + comment), fsize - len(old0))._get_padding(padding_func)`
says (`b"\x00" * n` is empty for a negative `n`); Opus with preserved data behind the comment:
that data instead, no callback.  FLAC: first byte of the old block header, 24-bit length,
comment; no padding. -/
def newPacket (c : Codec) (old0 vc padData : Bytes) (pad : PadChoice) (fsize : Nat) : Except PyErr Bytes :=
  match c with
  | .flac =>
    if vc.length > 0xFFFFFF then .error .mutagen
    else .ok (old0.take 1 ++ toBE 3 vc.length ++ vc)
  | _ =>
    let data := c.commentPrefix ++ vc
    if c = .opus ∧ padData ≠ [] then .ok (data ++ padData)
    else
      let p := getPadding pad ((old0.length : Int) - (data.length : Int)) (fsize - old0.length)
      .ok (data ++ zeros p.toNat)

/-! ### _from_packets_try_preserve -/

/-- the inner loop `for p in old.packets: data, new_data = new_data[:len(p)], new_data[len(p):]` -/
def splitLike : List Bytes → Bytes → List Bytes × Bytes
  | [], d => ([], d)
  | p :: r, d =>
    let (ps, rest) := splitLike r (d.drop p.length)
    (d.take p.length :: ps, rest)

/-- the loop over `old_pages`: a fresh page per old page with its sequence number, complete and
continued flags and position, and as much of `new_data` in packets of the old lengths -/
def copyLayout : List Page → Bytes → List Page × Bytes
  | [], d => ([], d)
  | o :: r, d =>
    let (pk, d1) := splitLike o.packets d
    let (ps, rest) := copyLayout r d1
    ({ packets := pk, sequence := o.sequence, complete := o.complete, continued := o.continued,
       position := o.position } :: ps, rest)

/-- `OggPage._from_packets_try_preserve(packets, old_pages)` (`old` non-empty) -/
def tryPreserve (packets : List Bytes) (old : List Page) : Except PyErr (List Page) :=
  match toPackets old false with
  | .error e => .error e
  | .ok oldPackets =>
    if packets.map List.length ≠ oldPackets.map List.length then
      match old with
      | [] => .error .index
      | o :: _ => fromPackets policy packets o.sequence Generated.oggDefaultSize Generated.oggWiggleRoom
    else
      let (pages, rest) := copyLayout old packets.flatten
      if rest ≠ [] then .error .assertion else .ok pages

/-! ### OggPage.replace and OggPage.renumber -/

def modHead {α : Type} (g : α → α) : List α → List α
  | [] => []
  | a :: r => g a :: r

def modLast {α : Type} (g : α → α) : List α → List α
  | [] => []
  | [a] => [g a]
  | a :: b :: r => a :: modLast g (b :: r)

/-- `for page, seq in zip(new_pages, range(first, …)): page.sequence = seq; page.serial = serial` -/
def number (serial : Nat) : Nat → List Page → List Page
  | _, [] => []
  | seq, p :: r => { p with sequence := seq, serial := serial } :: number serial (seq + 1) r

/-- the first part of `replace`: numbers, serial, and the flags that stay with the ends of the run -/
def prepare (o0 oL : Page) (new : List Page) : List Page :=
  let n1 := number o0.serial o0.sequence new
  let n2 := modHead (fun p => { p with first := o0.first, continued := o0.continued }) n1
  modLast (fun p =>
    let q := { p with last := oL.last, complete := oL.complete }
    if !q.complete && q.packets.length == 1 then { q with position := -1 } else q) n2

/-- `[cls.write(p) for p in new_pages]` -/
def renderList : List Page → Except PyErr (List Bytes)
  | [] => .ok []
  | p :: r =>
    match p.render with
    | .error e => .error e
    | .ok b =>
      match renderList r with
      | .error e => .error e
      | .ok bs => .ok (b :: bs)

/-- "Add dummy data or merge the remaining data together" so that there is one piece of data per
old page (`nOld ≥ 1`) -/
def fitData (nOld : Nat) (data : List Bytes) : List Bytes :=
  if data.length ≤ nOld then data ++ List.replicate (nOld - data.length) []
  else data.take (nOld - 1) ++ [(data.drop (nOld - 1)).flatten]

/-- "Replace pages one by one": each old page's region (at its offset, shifted by what the earlier
replacements changed) is replaced by its piece of data.  Returns the file and `new_data_end`. -/
def replaceLoop : List (Rd × Bytes) → Bytes → Int → Nat → Bytes × Nat
  | [], f, _, e => (f, e)
  | (o, data) :: r, f, adj, _ =>
    let off := ((o.offset : Int) + adj).toNat
    let f' := f.take off ++ data ++ f.drop (off + o.page.size)
    replaceLoop r f' (adj + (data.length : Int) - (o.page.size : Int)) (off + data.length)

/-- the file as it is left, and the exception that came out (if any) -/
structure Outcome where
  file : Bytes
  err : Option PyErr
deriving DecidableEq, Repr

/-- `OggPage.renumber(fileobj, serial, start)` with the file position at `pos`: every page of the
serial from there on is rewritten with the next number (and so a new CRC); other pages are skipped;
the end of the file ends the loop; anything that is not a page raises, with the file as it is. -/
def renumber (serial : Nat) : Nat → Bytes → Nat → Nat → Outcome
  | 0, f, _, _ => ⟨f, some .diverge⟩
  | fuel + 1, f, pos, num =>
    match readPage f pos with
    | .error .eof => ⟨f, none⟩
    | .error e => ⟨f, some e⟩
    | .ok (p, next) =>
      if p.serial ≠ serial then renumber serial fuel f next num
      else
        match ({ p with sequence := num }).render with
        | .error e => ⟨f, some e⟩
        | .ok b => renumber serial fuel (writeAt f (next - p.size) b) (pos + p.size) (num + 1)

/-- `OggPage.replace(fileobj, old_pages, new_pages)` -/
def replace (f : Bytes) (old : List Rd) (new : List Page) : Outcome :=
  match old.head?, old.getLast?, new with
  | some o0, some oL, _ :: _ =>
    let new' := prepare o0.page oL.page new
    match renderList new' with
    | .error e => ⟨f, some e⟩
    | .ok data =>
      let (f1, dataEnd) := replaceLoop (old.zip (fitData old.length data)) f 0 0
      if old.length ≠ new.length then
        renumber o0.page.serial (f1.length + 1) f1 dataEnd (o0.page.sequence + new.length)
      else ⟨f1, none⟩
  | _, _, _ => ⟨f, some .value⟩

/-! ### _inject, save, delete -/

/-- `from_packets(packets, old_pages[0].sequence)` for FLAC, `_from_packets_try_preserve` for the
others -/
def newPages (c : Codec) (packets : List Bytes) (old : List Page) : Except PyErr (List Page) :=
  match c with
  | .flac =>
    match old with
    | [] => .error .index
    | o :: _ => fromPackets policy packets o.sequence Generated.oggDefaultSize Generated.oggWiggleRoom
  | _ => tryPreserve packets old

/-- the codec's `_inject(fileobj, padding_func)`: `vc` is `self.write(framing=…)`, `padData` is
`self._pad_data` (Opus; empty otherwise) -/
def injectRaw (c : Codec) (f vc padData : Bytes) (pad : PadChoice) : Outcome :=
  match commentPages c f with
  | .error e => ⟨f, some e⟩
  | .ok old =>
    match toPackets (old.map (·.page)) false with
    | .error e => ⟨f, some e⟩
    | .ok [] => ⟨f, some .index⟩                    -- packets[0]
    | .ok (old0 :: others) =>
      match newPacket c old0 vc padData pad f.length with
      | .error e => ⟨f, some e⟩
      | .ok new0 =>
        match newPages c (new0 :: others) (old.map (·.page)) with
        | .error e => ⟨f, some e⟩
        | .ok new => replace f old new

/-- `OggFileType.save` / `delete` around `_inject`: `ogg.error`, `IOError`, `EOFError`, `IndexError`
and `struct.error` come out as the format's error class; everything else (ValueError: it can come
from the caller's data) passes through -/
def wrapErr : PyErr → PyErr
  | .eof => .mutagen
  | .io => .mutagen
  | .index => .mutagen
  | .struct_ => .mutagen
  | e => e

def injectOutcome (c : Codec) (f vc padData : Bytes) (pad : PadChoice) : Outcome :=
  let r := injectRaw c f vc padData pad
  ⟨r.file, r.err.map wrapErr⟩

/-- `OggFileType.save(fileobj, padding)` of an object whose tags render as `vc` -/
def save (c : Codec) (f vc padData : Bytes) (pad : PadChoice) : Except PyErr Bytes :=
  match injectOutcome c f vc padData pad with
  | ⟨out, none⟩ => .ok out
  | ⟨_, some e⟩ => .error e

/-- `OggFileType.delete(fileobj)`: `tags.clear()`, then `_inject(fileobj, lambda x: 0)`; the
vendor string stays -/
def deleteOutcome (c : Codec) (f vendor padData : Bytes) : Outcome :=
  injectOutcome c f (Vorbis.encode vendor [] c.framing) padData (.callback fun _ _ => 0)

def delete (c : Codec) (f vendor padData : Bytes) : Except PyErr Bytes :=
  save c f (Vorbis.encode vendor [] c.framing) padData (.callback fun _ _ => 0)

/-! ### the comment-reading constructors -/

/-- the loop of OggVCommentDict / OggSpeexVComment / OggTheoraCommentDict / OggFLACVComment
`__init__`: pages of the serial from `pos` on until one is complete or holds more than one packet -/
def readLoop (f : Bytes) (serial : Nat) : Nat → List Page → Nat → Except PyErr (List Page)
  | 0, _, _ => .error .diverge
  | fuel + 1, acc, pos =>
    match readPage f pos with
    | .error e => .error e
    | .ok (p, next) =>
      if p.serial = serial then
        if p.complete || decide (p.packets.length > 1) then .ok (acc ++ [p])
        else readLoop f serial fuel (acc ++ [p]) next
      else readLoop f serial fuel acc next

/-- the bytes the codec's comment constructor hands to `VComment.load`, given `info.serial` and the
file position the info constructor left (`pos`): the first packet of the pages found, without the
codec's prefix (Ogg FLAC: without the 4-byte block header).  An empty packet list is `ogg.error`
(Opus: `IndexError` from `[0]`). -/
def readComment (c : Codec) (f : Bytes) (serial pos : Nat) : Except PyErr Bytes :=
  let pages : Except PyErr (List Page) :=
    match c with
    | .opus =>
      match scanFrom f (fun p => decide (p.serial = serial) && startsWith magicOpusTags p) (f.length + 1) pos with
      | .error e => .error e
      | .ok (r, next) =>
        match collect f r.page.serial (f.length + 1) [r] r.page next with
        | .error e => .error e
        | .ok rs => .ok (rs.map (·.page))
    | _ => readLoop f serial (f.length + 1) [] pos
  match pages with
  | .error e => .error e
  | .ok ps =>
    match toPackets ps false with
    | .error e => .error e
    | .ok [] => if c = .opus then .error .index else .error .mutagen
    | .ok (p0 :: _) =>
      match c with
      | .vorbis | .theora => .ok (p0.drop 7)
      | .opus => .ok (p0.drop 8)
      | .speex => .ok p0
      | .flac => .ok (p0.drop 4)

/-- `fileobj.read(n)` on the rest of a byte string: short reads are not errors -/
def readN (d : Bytes) (n : Nat) : Bytes × Bytes := (d.take n, d.drop n)

/-- the comment loop of `VComment.load`: `count` times a 4-byte length (fewer than 4 bytes left:
`cdata.error`, i.e. `none`) and as many bytes as are there -/
def skipComments : Nat → Bytes → Option Bytes
  | 0, d => some d
  | n + 1, d =>
    if d.length < 4 then none
    else skipComments n ((d.drop 4).drop (ofLE (d.take 4)))

/-- what is left of `data` after `VComment.load(fileobj, errors='replace', framing)` read the
comment; `none` when it raises (all its exceptions are MutagenErrors here) -/
def afterComment (d : Bytes) (framing : Bool) : Option Bytes :=
  if d.length < 4 then none
  else
    let r1 := (d.drop 4).drop (ofLE (d.take 4))
    if r1.length < 4 then none
    else
      match skipComments (ofLE (r1.take 4)) (r1.drop 4) with
      | none => none
      | some r2 =>
        if framing then
          match r2 with
          | b :: r3 => if b.toNat % 2 = 1 then some r3 else none
          | [] => none
        else some r2

/-- what the constructor keeps besides the comments: `_padding` (not set by Ogg FLAC: 0 here) and,
for Opus, `_pad_data` (the data behind the comment when its first byte has the low bit set; then
`_padding` is 0) -/
def loadComment (c : Codec) (data : Bytes) : Except PyErr (Nat × Bytes) :=
  match afterComment data c.framing with
  | none => .error .mutagen
  | some rest =>
    match c with
    | .flac => .ok (0, [])
    | .opus =>
      match rest with
      | b :: _ => if b.toNat % 2 = 1 then .ok (0, rest) else .ok (rest.length, [])
      | [] => .ok (0, [])
    | _ => .ok (rest.length, [])

/-! ### VComment.load: the vendor string and the comments it returns -/

/-- `is_valid_key`: printable ASCII 0x20–0x7D without '=', not empty -/
def validKey (k : Bytes) : Bool :=
  !k.isEmpty && k.all fun b => decide (0x20 ≤ b.toNat) && decide (b.toNat ≤ 0x7D) && decide (b ≠ Vorbis.eqSign)

/-- "unknown%d" % i, the key given to a comment without '=' -/
def unknownKey (i : Nat) : Bytes := ("unknown" ++ toString i).toUTF8.toList

/-- the comment loop of `VComment.load(errors='replace')` at byte level: per comment a 4-byte length
(`none`: fewer than 4 bytes left, `cdata.error`), as many bytes as are there, split at the first '=' (no
'=': key "unknown<i>"), kept when the key is valid.  Keys with non-ASCII bytes go through
`decode('utf-8', 'replace')` / `encode('ascii', 'replace')`: outside the model (`some none`). -/
def loadComments : Nat → Nat → Bytes → Option (Option (List (Bytes × Bytes) × Bytes))
  | 0, _, d => some (some ([], d))
  | n + 1, i, d =>
    if d.length < 4 then none
    else
      let s := (d.drop 4).take (ofLE (d.take 4))
      let rest := (d.drop 4).drop (ofLE (d.take 4))
      let kv := match Vorbis.splitEq s with
        | some kv => kv
        | none => (unknownKey i, s)
      if !(kv.1.all fun b => decide (b.toNat < 128)) then some none
      else
        match loadComments n (i + 1) rest with
        | none => none
        | some none => some none
        | some (some (cs, tail)) => some (some (if validKey kv.1 then kv :: cs else cs, tail))

/-- `VComment.load(fileobj, errors='replace', framing)` on the bytes `d`: vendor string, comments (key,
value as bytes; UTF-8 decoding of valid UTF-8 is a separate layer), and what is left of `d` behind the
comment (and the framing bit).  MutagenError for a truncated header or an unset framing bit. -/
def loadVC (d : Bytes) (framing : Bool) : Except PyErr (Bytes × List (Bytes × Bytes) × Bytes) :=
  if d.length < 4 then .error .mutagen
  else
    let vendor := (d.drop 4).take (ofLE (d.take 4))
    let r1 := (d.drop 4).drop (ofLE (d.take 4))
    if r1.length < 4 then .error .mutagen
    else
      match loadComments (ofLE (r1.take 4)) 0 (r1.drop 4) with
      | none => .error .mutagen
      | some none => .error .notImplemented
      | some (some (cs, r2)) =>
        if framing then
          match r2 with
          | b :: r3 => if b.toNat % 2 = 1 then .ok (vendor, cs, r3) else .error .mutagen
          | [] => .error .mutagen
        else .ok (vendor, cs, r2)

/-- what `OggX(fileobj).tags` holds after loading: the codec's comment constructor (given `info.serial`
and the position the info constructor left) followed by `VComment.load` -/
def readTags (c : Codec) (f : Bytes) (serial pos : Nat) : Except PyErr (Bytes × List (Bytes × Bytes) × Bytes) :=
  match readComment c f serial pos with
  | .error e => .error e
  | .ok data => loadVC data c.framing

/-! ### specification side -/

/-- the bytes of a page: what `Page.render` returns when it returns something -/
def rb (p : Page) : Bytes := p.renderWith (toLE 4 (crc (p.renderWith [0, 0, 0, 0])).toNat)

/-- the file made of these pages -/
def renderPages (ps : List Page) : Bytes := (ps.map rb).flatten

/-- a page of the comment packet's run and the pages of other streams that follow it in the file -/
abbrev Slot := Page × List Page

def slotPages (m : List Slot) : List Page := (m.map fun s => s.1 :: s.2).flatten

/-- a file as the pages before the comment packet's first page (`pre`), the pages of the comment
packet's run, each with the foreign pages that follow it (`slots`), and all pages behind the
last of them (`post`) -/
structure Layout where
  pre : List Page
  slots : List Slot
  post : List Page

def Layout.pages (L : Layout) : List Page := L.pre ++ slotPages L.slots ++ L.post
def Layout.render (L : Layout) : Bytes := renderPages L.pages
/-- `old_pages` -/
def Layout.oldPages (L : Layout) : List Page := L.slots.map (·.1)
def Layout.c1 (L : Layout) : Page := L.oldPages.headD {}
def Layout.cK (L : Layout) : Page := L.oldPages.getLastD {}
/-- the serial number of the stream that is edited -/
def Layout.serial (L : Layout) : Nat := L.c1.serial

/-- pages of the serial get consecutive numbers from `n` on -/
def renum (ser : Nat) : Nat → List Page → List Page
  | _, [] => []
  | n, p :: r => if p.serial = ser then { p with sequence := n } :: renum ser (n + 1) r else p :: renum ser n r

/-- one list of new pages per old page: the surplus on the last, nothing for old pages that are
left over -/
def fitPages (nOld : Nat) (new : List Page) : List (List Page) :=
  if new.length ≤ nOld then new.map (fun p => [p]) ++ List.replicate (nOld - new.length) []
  else (new.take (nOld - 1)).map (fun p => [p]) ++ [new.drop (nOld - 1)]

/-- the pages of the slots replaced, the foreign pages in between kept -/
def splicePages : List (List Page) → List Slot → List Page
  | d :: ds, s :: m => d ++ s.2 ++ splicePages ds m
  | _, _ => []

/-- the pages of the file after the edit: the new pages (numbered and flagged by `replace`) in the
places of the old ones, the pages of the stream behind them renumbered when the number of pages
changed, everything else as it was -/
def Layout.after (L : Layout) (new : List Page) : List Page :=
  L.pre ++ splicePages (fitPages L.slots.length (prepare L.c1 L.cK new)) L.slots ++
    (if L.slots.length ≠ new.length then renum L.serial (L.c1.sequence + new.length) L.post else L.post)

/-- strict reader: the whole file must be pages, one after the other, each with the checksum
RFC 3533 prescribes -/
def readAll : Nat → Bytes → Option (List Page)
  | 0, _ => none
  | fuel + 1, d =>
    match parse d with
    | .error .eof => some []
    | .error .bad => none
    | .ok (p, rest) =>
      -- rendering the page gives exactly the bytes read (so the checksum in the file is the
      -- one of the page and the lacing values are the canonical ones)
      if p.render ≠ .ok (d.take (d.length - rest.length)) then none
      else (readAll fuel rest).map (p :: ·)

/-- the pages of one logical stream -/
def stream (serial : Nat) (ps : List Page) : List Page := ps.filter (·.serial = serial)

/-- the pages that do not belong to it -/
def others (serial : Nat) (ps : List Page) : List Page := ps.filter (·.serial ≠ serial)

end Mutagen.OggInj
