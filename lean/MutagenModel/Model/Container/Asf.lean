/-
Model/Container/Asf.lean — ASF files (WMA/WMV): [Header Object][Data Object][index objects …].

Code side (mutagen/asf/__init__.py ASF.load / save / delete; mutagen/asf/_objects.py
HeaderObject.parse_full / parse_size / render_full, the object classes' parse / render;
mutagen/asf/_attrs.py): `parseFull` (the object tree `ASF._header` holds after loading),
`loadedTags`, `distribute` (the decision logic at the top of `ASF.save`), `addMissing`,
`renderFull`, `saveTree` (a save through an `ASF` object that is already loaded: the tree is
mutable state and is returned), `save`, `delete` — functions from the bytes of the file to the bytes of
the file.  `resize_bytes(old_size -> new size at offset 0)`, `seek(0)`, `write(data)` leave
`data ++ drop old_size` (`replaceRegion_clean` in Proofs/FileOps.lean).  The file object is at
position 0 when `save` is entered (a file opened by name; callers that pass a file object have to
rewind it: `parse_size` reads the 30 header bytes at the current position).

Objects nest in the Header Object and in the Header Extension Object only: a Header Extension
Object inside a Header Extension Object is an ASFHeaderError ("nested header extension"), a Header
Object inside the header or the Header Extension an ASFHeaderError ("nested header object").
A struct.error raised while rendering (a count or length that does not fit its field) leaves
`ASF.save` as ASFError.

Spec side (ASF specification §2–§4: an object is a 16-byte GUID, a 64-bit little-endian size that
includes the 24 header bytes, and the payload; the Header Object carries the number of its child
objects and two reserved bytes 01 02; the Header Extension Object's payload is an 18-byte reserved
field, a 32-bit data size and child objects filling exactly that): `Object`, `Item`, `Layout`,
`render`, and the strict readers `readObjects`, `readLayout`.
-/
import MutagenModel.Model.AsfAttr
import MutagenModel.Model.Padding
set_option linter.unusedVariables false
namespace Mutagen.Asf
open Mutagen Mutagen.AsfAttr

/-! ### GUIDs (guid2bytes of the registered classes) -/

def gHeader : Bytes := [0x30, 0x26, 0xB2, 0x75, 0x8E, 0x66, 0xCF, 0x11, 0xA6, 0xD9, 0x00, 0xAA, 0x00, 0x62, 0xCE, 0x6C]
def gCD : Bytes := [0x33, 0x26, 0xB2, 0x75, 0x8E, 0x66, 0xCF, 0x11, 0xA6, 0xD9, 0x00, 0xAA, 0x00, 0x62, 0xCE, 0x6C]
def gECD : Bytes := [0x40, 0xA4, 0xD0, 0xD2, 0x07, 0xE3, 0xD2, 0x11, 0x97, 0xF0, 0x00, 0xA0, 0xC9, 0x5E, 0xA8, 0x50]
def gFileProps : Bytes := [0xA1, 0xDC, 0xAB, 0x8C, 0x47, 0xA9, 0xCF, 0x11, 0x8E, 0xE4, 0x00, 0xC0, 0x0C, 0x20, 0x53, 0x65]
def gStreamProps : Bytes := [0x91, 0x07, 0xDC, 0xB7, 0xB7, 0xA9, 0xCF, 0x11, 0x8E, 0xE6, 0x00, 0xC0, 0x0C, 0x20, 0x53, 0x65]
def gCodecList : Bytes := [0x40, 0x52, 0xD1, 0x86, 0x1D, 0x31, 0xD0, 0x11, 0xA3, 0xA4, 0x00, 0xA0, 0xC9, 0x03, 0x48, 0xF6]
def gPadding : Bytes := [0x74, 0xD4, 0x06, 0x18, 0xDF, 0xCA, 0x09, 0x45, 0xA4, 0xBA, 0x9A, 0xAB, 0xCB, 0x96, 0xAA, 0xE8]
def gExt : Bytes := [0xB5, 0x03, 0xBF, 0x5F, 0x2E, 0xA9, 0xCF, 0x11, 0x8E, 0xE3, 0x00, 0xC0, 0x0C, 0x20, 0x53, 0x65]
def gMeta : Bytes := [0xEA, 0xCB, 0xF8, 0xC5, 0xAF, 0x5B, 0x77, 0x48, 0x84, 0x67, 0xAA, 0x8C, 0x44, 0xFA, 0x4C, 0xCA]
def gMetaLib : Bytes := [0x94, 0x1C, 0x23, 0x44, 0x98, 0x94, 0xD1, 0x49, 0xA1, 0x41, 0x1D, 0x13, 0x4E, 0x45, 0x70, 0x54]
/-- StreamPropertiesObject.AUDIO_MEDIA -/
def gAudioMedia : Bytes := [0x40, 0x9E, 0x69, 0xF8, 0x4D, 0x5B, 0xCF, 0x11, 0xA8, 0xFD, 0x00, 0x80, 0x5F, 0x5C, 0x44, 0x2B]

/-- the 18 bytes `HeaderExtensionObject.render` writes in front of the data size: Reserved Field 1
(ASF_Reserved_1) and Reserved Field 2 (6) -/
def extReserved : Bytes :=
  [0x11, 0xD2, 0xD3, 0xAB, 0xBA, 0xA9, 0xCF, 0x11, 0x8E, 0xE6, 0x00, 0xC0, 0x0C, 0x20, 0x53, 0x65, 0x06, 0x00]

/-- ContentDescriptionObject.NAMES: Title, Author, Copyright, Description, Rating (code points) -/
def cdNames : List (List Nat) :=
  [[84, 105, 116, 108, 101], [65, 117, 116, 104, 111, 114], [67, 111, 112, 121, 114, 105, 103, 104, 116],
   [68, 101, 115, 99, 114, 105, 112, 116, 105, 111, 110], [82, 97, 116, 105, 110, 103]]

/-! ### tags -/

/-- the value of an attribute object (`ASFUnicodeAttribute` … `ASFGUIDAttribute`); text as code points -/
inductive Val
  | unicode (cs : List Nat)
  | bytes (b : Bytes)
  | bool (v : Bool)
  | dword (n : Nat)
  | qword (n : Nat)
  | word (n : Nat)
  | guid (b : Bytes)
deriving DecidableEq, Repr

/-- one entry of `ASFTags`: the name (code points) and the attribute with its `language` / `stream`
(`None` or a number) -/
structure Tag where
  name : List Nat
  val : Val
  language : Option Nat
  stream : Option Nat
deriving DecidableEq, Repr

/-- `TYPE` -/
def Val.typ : Val → Nat
  | .unicode _ => 0 | .bytes _ => 1 | .bool _ => 2 | .dword _ => 3 | .qword _ => 4 | .word _ => 5 | .guid _ => 6

def isScalar (c : Nat) : Bool := decide (c < 0x110000) && !(decide (0xD800 ≤ c) && decide (c < 0xE000))

/-- `str.encode("utf-16-le")`: lone surrogates raise UnicodeEncodeError -/
def encodeStr (cs : List Nat) : Except PyErr Bytes :=
  if cs.all isScalar then .ok (encodeUtf16 cs) else .error .unicode

/-- `data_size()` (for text: `len(self._render())`, which must be encodable — see `distribute`) -/
def Val.dataSize : Val → Nat
  | .unicode cs => (encodeUtf16 cs).length + 2
  | .bytes b => b.length
  | .bool _ => 4
  | .dword _ => 4
  | .qword _ => 8
  | .word _ => 2
  | .guid b => b.length

def Val.encodable : Val → Bool
  | .unicode cs => cs.all isScalar
  | _ => true

/-- `_render()` (`_render(dword=False)` for BOOL in the Metadata objects); `struct.pack` rejects
numbers that do not fit -/
def Val.render (v : Val) (dword : Bool) : Except PyErr Bytes :=
  match v with
  | .unicode cs => match encodeStr cs with
    | .error e => .error e
    | .ok b => .ok (b ++ nul2)
  | .bytes b => .ok b
  | .bool x => .ok (renderBool x dword)
  | .dword n => if n < 256 ^ 4 then .ok (toLE 4 n) else .error .struct_
  | .qword n => if n < 256 ^ 8 then .ok (toLE 8 n) else .error .struct_
  | .word n => if n < 256 ^ 2 then .ok (toLE 2 n) else .error .struct_
  | .guid b => .ok b

/-! ### the decision logic at the top of `ASF.save` -/

/-- `to_content_description`, `to_extended_content_description`, `to_metadata` (dicts, in insertion
order; at most one entry per name) and `to_metadata_library` (a list) -/
structure Dist where
  cd : List Tag
  ecd : List Tag
  mo : List Tag
  ml : List Tag
deriving DecidableEq, Repr

def Dist.empty : Dist := ⟨[], [], [], []⟩

def hasName (n : List Nat) (l : List Tag) : Bool := l.any fun t => t.name == n

/-- one round of the loop `for name, value in self.tags` -/
def distStep (d : Dist) (t : Tag) : Dist :=
  let libraryOnly := decide (t.val.dataSize > 0xFFFF) || t.val.typ == 6
  if libraryOnly || t.language.isSome then { d with ml := d.ml ++ [t] }
  else if t.stream.isSome then
    if !hasName t.name d.mo then { d with mo := d.mo ++ [t] } else { d with ml := d.ml ++ [t] }
  else if cdNames.contains t.name then
    if !hasName t.name d.cd && t.val.typ == 0 then { d with cd := d.cd ++ [t] } else { d with ml := d.ml ++ [t] }
  else
    if !hasName t.name d.ecd then { d with ecd := d.ecd ++ [t] } else { d with ml := d.ml ++ [t] }

def distPure (tags : List Tag) : Dist := tags.foldl distStep Dist.empty

/-- the whole loop; `data_size()` of a text value renders it, so text with lone surrogates raises
UnicodeEncodeError here -/
def distribute (tags : List Tag) : Except PyErr Dist :=
  if tags.all (fun t => t.val.encodable) then .ok (distPure tags) else .error .unicode

/-! ### rendering the four metadata objects -/

/-- name (encoded, without the terminator), type and rendered value as an attribute record -/
def attrOf (t : Tag) (dword : Bool) (lang stream : Nat) : Except PyErr Attr :=
  match encodeStr t.name with
  | .error e => .error e
  | .ok nm =>
    match t.val.render dword with
    | .error e => .error e
    | .ok data => .ok { language := lang, stream := stream, name := nm, typ := t.val.typ, data := data }

/-- `attr.render(name)`; the `struct.pack("<H…")` calls reject what does not fit -/
def recECD (t : Tag) : Except PyErr Bytes :=
  match attrOf t true 0 0 with
  | .error e => .error e
  | .ok a => if a.name.length + 2 < 65536 ∧ a.data.length < 65536 then .ok (renderECD a) else .error .struct_

/-- `attr.render_m(name)` -/
def recM (t : Tag) : Except PyErr Bytes :=
  match attrOf t false 0 (t.stream.getD 0) with
  | .error e => .error e
  | .ok a =>
    if a.stream < 65536 ∧ a.name.length + 2 < 65536 ∧ a.data.length < 4294967296 then .ok (renderML a) else .error .struct_

/-- `attr.render_ml(name)` -/
def recML (t : Tag) : Except PyErr Bytes :=
  match attrOf t false (t.language.getD 0) (t.stream.getD 0) with
  | .error e => .error e
  | .ok a =>
    if a.language < 65536 ∧ a.stream < 65536 ∧ a.name.length + 2 < 65536 ∧ a.data.length < 4294967296 then .ok (renderML a)
    else .error .struct_

/-- `b"".join(f(x) for x in xs)` where `f` may raise -/
def concatMapE {α : Type} (f : α → Except PyErr Bytes) : List α → Except PyErr Bytes
  | [] => .ok []
  | x :: r =>
    match f x with
    | .error e => .error e
    | .ok b =>
      match concatMapE f r with
      | .error e => .error e
      | .ok bs => .ok (b ++ bs)

/-- an object: GUID, size (24 + payload), payload -/
def object (guid payload : Bytes) : Bytes := guid ++ toLE 8 (24 + payload.length) ++ payload

/-- count + records, as the three attribute-list objects lay them out -/
def listPayload (rec : Tag → Except PyErr Bytes) (ts : List Tag) : Except PyErr Bytes :=
  match concatMapE rec ts with
  | .error e => .error e
  | .ok data => if ts.length < 65536 then .ok (toLE 2 ts.length ++ data) else .error .struct_

/-- `render_text(name)` of ContentDescriptionObject.render -/
def cdText (d : Dist) (name : List Nat) : Except PyErr Bytes :=
  match d.cd.find? (fun t => t.name == name) with
  | none => .ok []
  | some t =>
    match t.val with
    | .unicode cs =>
      match encodeStr cs with
      | .error e => .error e
      | .ok b => .ok (b ++ nul2)
    | _ => .error .notImplemented      -- `distribute` puts text values only

/-- the five texts in NAMES order -/
def cdTexts (d : Dist) : List (List Nat) → Except PyErr (List Bytes)
  | [] => .ok []
  | n :: r =>
    match cdText d n with
    | .error e => .error e
    | .ok t =>
      match cdTexts d r with
      | .error e => .error e
      | .ok ts => .ok (t :: ts)

def cdPayload (d : Dist) : Except PyErr Bytes :=
  match cdTexts d cdNames with
  | .error e => .error e
  | .ok ts =>
    if ts.all (fun t => t.length < 65536) then .ok ((ts.map fun t => toLE 2 t.length).flatten ++ ts.flatten)
    else .error .struct_

/-! ### the object tree -/

/-- an object that has no children.  `raw`: UnknownObject and the registered classes that keep
their payload and render it back (File Properties, Stream Properties, Codec List, Padding, …);
the four metadata objects keep the payload they were parsed from (`self.data`), but render from
the tags. -/
inductive Leaf
  | raw (guid data : Bytes)
  | cd (data : Bytes)
  | ecd (data : Bytes)
  | mo (data : Bytes)
  | metaLib (data : Bytes)
deriving DecidableEq, Repr

inductive Obj
  | leaf (l : Leaf)
  /-- HeaderExtensionObject with its `objects` -/
  | ext (children : List Leaf)
deriving DecidableEq, Repr

/-- `obj.GUID` -/
def Leaf.guid : Leaf → Bytes
  | .raw g _ => g | .cd _ => gCD | .ecd _ => gECD | .mo _ => gMeta | .metaLib _ => gMetaLib

def Obj.guid : Obj → Bytes
  | .leaf l => l.guid | .ext _ => gExt

/-! ### parsing (ASF.load) -/

/-- `data.decode("utf-16-le").strip("\x00")`; `none`: UnicodeDecodeError -/
def decodeText (b : Bytes) : Option (List Nat) := (decodeUtf16 b).map stripNul

/-- `attr_type(data=value[, dword=False])`: `none` = unknown type (ASFError), `struct.error` on a
value of the wrong length, UnicodeDecodeError -/
def parseVal (typ : Nat) (data : Bytes) (dword : Bool) : Option Val :=
  if typ = 0 then (decodeText data).map Val.unicode
  else if typ = 1 then some (.bytes data)
  else if typ = 2 then
    if data.length = (if dword then 4 else 2) then some (.bool (ofLE data == 1)) else none
  else if typ = 3 then if data.length = 4 then some (.dword (ofLE data)) else none
  else if typ = 4 then if data.length = 8 then some (.qword (ofLE data)) else none
  else if typ = 5 then if data.length = 2 then some (.word (ofLE data)) else none
  else if typ = 6 then some (.guid data)
  else none

/-- the loop of ContentDescriptionObject.parse over the five lengths; `d` = the payload from `pos` on -/
def parseCDTexts : List Nat → Bytes → Option (List (Option (List Nat)))
  | [], _ => some []
  | len :: r, d =>
    if len > 0 then
      match decodeText (d.take len) with
      | none => none
      | some t => (parseCDTexts r (d.drop len)).map fun ts => some t :: ts
    else (parseCDTexts r d).map fun ts => none :: ts

/-- ContentDescriptionObject.parse; `none`: the exceptions `parse_full` turns into ASFHeaderError -/
def parseCD (data : Bytes) : Option (List Tag) :=
  if data.length < 10 then none
  else
    let lens := (List.range 5).map fun i => ofLE ((data.drop (2 * i)).take 2)
    match parseCDTexts lens (data.drop 10) with
    | none => none
    | some texts =>
      some ((cdNames.zip texts).filterMap fun (n, t) =>
        t.map fun cs => { name := n, val := .unicode cs, language := none, stream := none })

/-- the loop of ExtendedContentDescriptionObject.parse; slices beyond the end are short, `struct.unpack`
of a short slice raises -/
def parseECDRecs : Nat → Bytes → Option (List Tag)
  | 0, _ => some []
  | n + 1, d =>
    if d.length < 2 then none
    else
      let nl := ofLE (d.take 2)
      let r1 := d.drop 2
      match decodeText (r1.take nl) with
      | none => none
      | some name =>
        let r2 := r1.drop nl
        if r2.length < 4 then none
        else
          let typ := ofLE (r2.take 2)
          let vl := ofLE ((r2.drop 2).take 2)
          let r3 := r2.drop 4
          match parseVal typ (r3.take vl) true with
          | none => none
          | some v =>
            (parseECDRecs n (r3.drop vl)).map fun ts =>
              { name := name, val := v, language := none, stream := none } :: ts

def parseECD (data : Bytes) : Option (List Tag) :=
  if data.length < 2 then none else parseECDRecs (ofLE (data.take 2)) (data.drop 2)

/-- the loop of MetadataObject.parse (`lib = false`: the first field is reserved, `language` stays
None) and MetadataLibraryObject.parse (`lib = true`) -/
def parseMLRecs (lib : Bool) : Nat → Bytes → Option (List Tag)
  | 0, _ => some []
  | n + 1, d =>
    if d.length < 12 then none
    else
      let lang := ofLE (d.take 2)
      let stream := ofLE ((d.drop 2).take 2)
      let nl := ofLE ((d.drop 4).take 2)
      let typ := ofLE ((d.drop 6).take 2)
      let vl := ofLE ((d.drop 8).take 4)
      let r1 := d.drop 12
      match decodeText (r1.take nl) with
      | none => none
      | some name =>
        let r2 := r1.drop nl
        match parseVal typ (r2.take vl) false with
        | none => none
        | some v =>
          (parseMLRecs lib n (r2.drop vl)).map fun ts =>
            { name := name, val := v, language := if lib then some lang else none, stream := some stream } :: ts

def parseML (lib : Bool) (data : Bytes) : Option (List Tag) :=
  if data.length < 2 then none else parseMLRecs lib (ofLE (data.take 2)) (data.drop 2)

/-- `cdata.uint16_le_from(data, offset)`: `none` = cdata.error -/
def u16At (data : Bytes) (off : Nat) : Option Nat :=
  if off + 2 ≤ data.length then some (ofLE ((data.drop off).take 2)) else none

/-- CodecListObject._parse_entry: the next offset and the entry's type -/
def codecEntry (data : Bytes) (off : Nat) : Option (Nat × Nat) :=
  match u16At data off with
  | none => none
  | some typ =>
    match u16At data (off + 2) with
    | none => none
    | some u1 =>
      let o2 := off + 4 + u1 * 2
      match u16At data o2 with
      | none => none
      | some u2 =>
        let o3 := o2 + 2 + u2 * 2
        match u16At data o3 with
        | none => none
        | some nb =>
          let o4 := o3 + 2
          if nb = 2 ∧ (u16At data o4).isNone then none else some (o4 + nb, typ)

/-- the loop of CodecListObject.parse: stops at the first audio entry (type 2) -/
def codecLoop (data : Bytes) : Nat → Nat → Bool
  | 0, _ => true
  | n + 1, off =>
    match codecEntry data off with
    | none => false
    | some (off', typ) => if typ = 2 then true else codecLoop data n off'

/-- do the info-only parsers accept the payload?  (FilePropertiesObject, StreamPropertiesObject,
CodecListObject; everything else keeps its payload unread) -/
def rawOK (guid data : Bytes) : Bool :=
  if guid = gFileProps then decide (64 ≤ data.length)
  else if guid = gStreamProps then
    if data.take 16 = gAudioMedia then decide (66 ≤ data.length) else true
  else if guid = gCodecList then
    if data.length < 20 then false else codecLoop data (ofLE ((data.drop 16).take 4)) 20
  else true

/-- `BaseObject._get_object(guid)` and `obj.parse(asf, data)` for everything but the Header
Extension Object.  Errors: the module's `error` (what `parse_full` makes of struct.error and
UnicodeDecodeError, and ASFError); a Header Object here is an ASFHeaderError too ("nested header object"). -/
def leafOf (guid data : Bytes) : Except PyErr Leaf :=
  if guid = gHeader then .error .mutagen                 -- HeaderObject.parse: ASFHeaderError("nested header object")
  else if guid = gCD then (if (parseCD data).isSome then .ok (.cd data) else .error .mutagen)
  else if guid = gECD then (if (parseECD data).isSome then .ok (.ecd data) else .error .mutagen)
  else if guid = gMeta then (if (parseML false data).isSome then .ok (.mo data) else .error .mutagen)
  else if guid = gMetaLib then (if (parseML true data).isSome then .ok (.metaLib data) else .error .mutagen)
  else if rawOK guid data then .ok (.raw guid data) else .error .mutagen

/-- the loop of HeaderExtensionObject.parse: `data` is the object's payload, `datapos` the position
in the data area that starts at byte 22.  Every round needs 24 bytes at `22 + datapos` and moves
on by at least one byte, so `len(data) + 1` rounds suffice (`diverge` does not happen). -/
def extLoop (data : Bytes) (datasize : Nat) : Nat → Nat → Except PyErr (List Leaf)
  | 0, datapos => if datapos < datasize then .error .diverge else .ok []
  | fuel + 1, datapos =>
    if datapos < datasize then
      let h := (data.drop (22 + datapos)).take 24
      if h.length < 24 then .error .mutagen
      else
        let guid := h.take 16
        let size := ofLE (h.drop 16)
        if size < 1 then .error .mutagen
        else if guid = gExt then .error .mutagen            -- ASFHeaderError("nested header extension")
        else
          -- data[22 + datapos + 24 : 22 + datapos + size]
          match leafOf guid ((data.drop (46 + datapos)).take (size - 24)) with
          | .error e => .error e
          | .ok l =>
            match extLoop data datasize fuel (datapos + size) with
            | .error e => .error e
            | .ok ls => .ok (l :: ls)
    else .ok []

/-- HeaderExtensionObject.parse -/
def parseExt (data : Bytes) : Except PyErr (List Leaf) :=
  let ds := (data.drop 18).take 4
  if ds.length < 4 then .error .mutagen else extLoop data (ofLE ds) (data.length + 1) 0

def objOf (guid data : Bytes) : Except PyErr Obj :=
  if guid = gExt then
    match parseExt data with
    | .error e => .error e
    | .ok cs => .ok (.ext cs)
  else
    match leafOf guid data with
    | .error e => .error e
    | .ok l => .ok (.leaf l)

/-- HeaderObject.parse_size: (size, num_objects) -/
def parseSize (f : Bytes) : Except PyErr (Nat × Nat) :=
  let h := f.take 30
  if h.length ≠ 30 ∨ h.take 16 ≠ gHeader then .error .mutagen
  else .ok (ofLE ((h.drop 16).take 8), ofLE ((h.drop 24).take 4))

/-- the loop `for i in range(num_objects)` of parse_full: `pos` = file position, `remaining` =
`remaining_header` (a header size below 30 makes it negative: the first round fails just as with 0).
A size field below 24 (negative `payload_size`) is refused as "invalid object size". -/
def parseObjects (f : Bytes) : Nat → Nat → Nat → Except PyErr (List Obj)
  | 0, _, _ => .ok []
  | n + 1, pos, remaining =>
    if remaining < 24 then .error .mutagen
    else
      let h := readAt f pos 24
      if h.length ≠ 24 then .error .mutagen
      else
        let guid := h.take 16
        let size := ofLE (h.drop 16)
        if size < 24 then .error .mutagen
        else if remaining - 24 < size - 24 then .error .mutagen
        else
          let data := readAt f (pos + 24) (size - 24)
          if data.length ≠ size - 24 then .error .mutagen
          else
            match objOf guid data with
            | .error e => .error e
            | .ok o =>
              match parseObjects f n (pos + size) (remaining - size) with
              | .error e => .error e
              | .ok os => .ok (o :: os)

/-- HeaderObject.parse_full: `header.objects` -/
def parseFull (f : Bytes) : Except PyErr (List Obj) :=
  match parseSize f with
  | .error e => .error e
  | .ok (size, count) => parseObjects f count 30 (size - 30)

/-- all objects in the order their `parse` ran -/
def leaves : List Obj → List Leaf
  | [] => []
  | .leaf l :: r => l :: leaves r
  | .ext cs :: r => cs ++ leaves r

/-- `self.tags` after loading: what the Content Description objects gave, then the Extended Content
Description, the Metadata and the Metadata Library objects -/
def loadedTags (objs : List Obj) : List Tag :=
  let ls := leaves objs
  (ls.map fun l => match l with | .cd d => (parseCD d).getD [] | _ => []).flatten ++
  (ls.map fun l => match l with | .ecd d => (parseECD d).getD [] | _ => []).flatten ++
  (ls.map fun l => match l with | .mo d => (parseML false d).getD [] | _ => []).flatten ++
  (ls.map fun l => match l with | .metaLib d => (parseML true d).getD [] | _ => []).flatten

/-! ### saving -/

/-- `obj.render(asf)` -/
def renderLeaf (d : Dist) : Leaf → Except PyErr Bytes
  | .raw g data => .ok (object g data)
  | .cd _ => match cdPayload d with
    | .error e => .error e
    | .ok p => .ok (object gCD p)
  | .ecd _ => match listPayload recECD d.ecd with
    | .error e => .error e
    | .ok p => .ok (object gECD p)
  | .mo _ => match listPayload recM d.mo with
    | .error e => .error e
    | .ok p => .ok (object gMeta p)
  | .metaLib _ => match listPayload recML d.ml with
    | .error e => .error e
    | .ok p => .ok (object gMetaLib p)

def isPad (l : Leaf) : Bool := l.guid == gPadding

/-- payload of a Header Extension Object around the rendered children -/
def extPayload (body : Bytes) : Bytes := extReserved ++ toLE 4 body.length ++ body

def renderObj (d : Dist) : Obj → Except PyErr Bytes
  | .leaf l => renderLeaf d l
  | .ext cs =>
    -- padding objects at this level are skipped
    match concatMapE (renderLeaf d) (cs.filter fun l => !isPad l) with
    | .error e => .error e
    | .ok body => if body.length < 4294967296 then .ok (object gExt (extPayload body)) else .error .struct_

/-- `get_child(guid) is None` -/
def lacks (g : Bytes) (gs : List Bytes) : Bool := !gs.contains g

/-- the Header Extension Object gets the two metadata objects it lacks -/
def extAdd (cs : List Leaf) : List Leaf :=
  let c1 := if lacks gMeta (cs.map Leaf.guid) then cs ++ [.mo []] else cs
  if lacks gMetaLib (c1.map Leaf.guid) then c1 ++ [.metaLib []] else c1

/-- apply `extAdd` to the first Header Extension Object (`header.get_child`) -/
def onFirstExt : List Obj → List Obj
  | [] => []
  | .ext cs :: r => .ext (extAdd cs) :: r
  | .leaf l :: r => .leaf l :: onFirstExt r

/-- "Add missing objects" -/
def addMissing (objs : List Obj) : List Obj :=
  let o1 := if lacks gCD (objs.map Obj.guid) then objs ++ [.leaf (.cd [])] else objs
  let o2 := if lacks gECD (o1.map Obj.guid) then o1 ++ [.leaf (.ecd [])] else o1
  let o3 := if lacks gExt (o2.map Obj.guid) then o2 ++ [.ext []] else o2
  onFirstExt o3

def Obj.isPad : Obj → Bool
  | .leaf l => Asf.isPad l
  | .ext _ => false

/-- the Padding Object render_full appends -/
def padObject (p : Nat) : Bytes := object gPadding (zeros p)

/-- the Header Object around `n` rendered children -/
def headerBytes (n : Nat) (body : Bytes) : Bytes :=
  gHeader ++ toLE 8 (body.length + 30) ++ toLE 4 n ++ [1, 2] ++ body

/-- is this the object whose File Size field `render_full` keeps up to date? -/
def Obj.isFileProps (o : Obj) : Bool := o.guid == gFileProps

/-- HeaderObject.render_full(asf, fileobj, available, padding_func) on a file of `fileLen` bytes.
A negative answer of the callback gives no padding (`b"\x00" * padding`).  When one of the rendered
children is a File Properties Object, bytes 16..24 of the payload of the first one (File Size) are
overwritten, in the assembled header, with the size of the whole file after the save
(`len(header) + content_size`; `struct.pack("<Q")` rejects what does not fit). -/
def renderFull (d : Dist) (objs : List Obj) (fileLen available : Nat) (pad : PadChoice) : Except PyErr Bytes :=
  let kept := objs.filter fun o => !o.isPad
  match concatMapE (renderObj d) kept with
  | .error e => .error e
  | .ok data =>
    let needed : Nat := data.length + 30 + 24
    if fileLen < available then .error .mutagen      -- "truncated content"
    else
      let p := (getPadding pad ((available : Int) - needed) (fileLen - available)).toNat
      let header := headerBytes (kept.length + 1) (data ++ padObject p)
      if kept.any Obj.isFileProps then
        -- `file_props_offset = len(data)` when the first File Properties Object is met
        match concatMapE (renderObj d) (kept.takeWhile fun o => !o.isFileProps) with
        | .error e => .error e
        | .ok pre =>
          let total := header.length + (fileLen - available)
          if total < 2 ^ 64 then .ok (writeAt header (30 + pre.length + 24 + 16) (toLE 8 total)) else .error .struct_
      else .ok header

/-- what `ASF.save` makes of an exception raised while rendering: struct.error (a count or length
that does not fit its field) becomes ASFError; everything else passes -/
def structToMutagen (e : PyErr) : PyErr := if e = .struct_ then .mutagen else e

/-- `ASF.save` through an object whose `_header.objects` is `objs`: the new file and the tree the
object holds afterwards -/
def saveTree (objs : List Obj) (f : Bytes) (tags : List Tag) (pad : PadChoice) : Except PyErr (Bytes × List Obj) :=
  match distribute tags with
  | .error e => .error e
  | .ok d =>
    let objs' := addMissing objs
    match parseSize f with
    | .error e => .error e
    | .ok (oldSize, _) =>
      -- `try: … render_full(…) except struct.error as e: raise ASFError(e)`
      match renderFull d objs' f.length oldSize pad with
      | .error e => .error (structToMutagen e)
      | .ok data => .ok (data ++ f.drop oldSize, objs')

/-- `ASF(file)` then `save(padding=…)` with `tags` as the tag list -/
def save (f : Bytes) (tags : List Tag) (pad : PadChoice) : Except PyErr Bytes :=
  match parseFull f with
  | .error e => .error e
  | .ok objs =>
    match saveTree objs f tags pad with
    | .error e => .error e
    | .ok (out, _) => .ok out

/-- `ASF.delete`: `self.tags.clear(); self.save(filething, padding=lambda x: 0)` -/
def padZero : PadChoice := .callback fun _ _ => 0

def delete (f : Bytes) : Except PyErr Bytes := save f [] padZero

/-- two saves through the same `ASF` object (the tree is not re-read) -/
def saveTwice (f : Bytes) (tags1 : List Tag) (pad1 : PadChoice) (tags2 : List Tag) (pad2 : PadChoice) :
    Except PyErr (Bytes × Bytes) :=
  match parseFull f with
  | .error e => .error e
  | .ok objs =>
    match saveTree objs f tags1 pad1 with
    | .error e => .error e
    | .ok (f1, objs1) =>
      match saveTree objs1 f1 tags2 pad2 with
      | .error e => .error e
      | .ok (f2, _) => .ok (f1, f2)

/-! ### specification side -/

structure Object where
  /-- 16 bytes -/
  guid : Bytes
  data : Bytes
deriving DecidableEq, Repr

def Object.render (o : Object) : Bytes := object o.guid o.data

def renderObjects : List Object → Bytes
  | [] => []
  | o :: r => o.render ++ renderObjects r

/-- strict reading of an object sequence: every header complete, every size field at least 24 and
inside the sequence, nothing left over -/
def readObjects : Nat → Bytes → Option (List Object)
  | 0, b => if b = [] then some [] else none
  | fuel + 1, b =>
    if b = [] then some []
    else if b.length < 24 then none
    else
      let size := ofLE ((b.drop 16).take 8)
      if size < 24 ∨ b.length < size then none
      else
        match readObjects fuel (b.drop size) with
        | none => none
        | some os => some (⟨b.take 16, (b.drop 24).take (size - 24)⟩ :: os)

/-- what sits inside the Header Extension Object -/
inductive SubItem
  | foreign (o : Object)
  | mo (data : Bytes)
  | metaLib (data : Bytes)
  | pad (data : Bytes)
deriving DecidableEq, Repr

/-- a child of the Header Object -/
inductive Item
  | foreign (o : Object)
  | cd (data : Bytes)
  | ecd (data : Bytes)
  | pad (data : Bytes)
  | ext (subs : List SubItem)
deriving DecidableEq, Repr

def SubItem.toObject : SubItem → Object
  | .foreign o => o
  | .mo d => ⟨gMeta, d⟩
  | .metaLib d => ⟨gMetaLib, d⟩
  | .pad d => ⟨gPadding, d⟩

def Item.toObject : Item → Object
  | .foreign o => o
  | .cd d => ⟨gCD, d⟩
  | .ecd d => ⟨gECD, d⟩
  | .pad d => ⟨gPadding, d⟩
  | .ext subs => ⟨gExt, extPayload (renderObjects (subs.map SubItem.toObject))⟩

structure Layout where
  /-- the children of the Header Object -/
  top : List Item
  /-- Data Object, index objects, … -/
  rest : Bytes
deriving DecidableEq, Repr

def Layout.headerLen (L : Layout) : Nat := 30 + (renderObjects (L.top.map Item.toObject)).length

def Layout.render (L : Layout) : Bytes :=
  headerBytes L.top.length (renderObjects (L.top.map Item.toObject)) ++ L.rest

/-- the GUIDs whose objects `save` owns or that structure the header -/
def special : List Bytes := [gHeader, gCD, gECD, gExt, gMeta, gMetaLib, gPadding]

def classifySub (o : Object) : SubItem :=
  if o.guid = gMeta then .mo o.data
  else if o.guid = gMetaLib then .metaLib o.data
  else if o.guid = gPadding then .pad o.data
  else .foreign o

/-- strict reading of a Header Extension payload: the reserved fields as specified, a data size
equal to what follows it, filled exactly by objects -/
def readExt (data : Bytes) : Option (List SubItem) :=
  if data.length < 22 ∨ data.take 18 ≠ extReserved ∨ ofLE ((data.drop 18).take 4) ≠ data.length - 22 then none
  else (readObjects data.length (data.drop 22)).map fun os => os.map classifySub

def classify (o : Object) : Option Item :=
  if o.guid = gCD then some (.cd o.data)
  else if o.guid = gECD then some (.ecd o.data)
  else if o.guid = gPadding then some (.pad o.data)
  else if o.guid = gExt then (readExt o.data).map Item.ext
  else some (.foreign o)

def classifyAll : List Object → Option (List Item)
  | [] => some []
  | o :: r =>
    match classify o with
    | none => none
    | some i => (classifyAll r).map fun is => i :: is

/-- strict reading of a file: the Header Object's GUID, a size field that lies inside the file and is
filled exactly by the child objects, a count equal to their number, the reserved bytes 01 02, a
well-formed Header Extension payload wherever there is one; the rest of the file is the rest -/
def readLayout (f : Bytes) : Option Layout :=
  if f.length < 30 ∨ f.take 16 ≠ gHeader then none
  else
    let size := ofLE ((f.drop 16).take 8)
    if size < 30 ∨ f.length < size ∨ (f.drop 28).take 2 ≠ [1, 2] then none
    else
      match readObjects size ((f.drop 30).take (size - 30)) with
      | none => none
      | some os =>
        if ofLE ((f.drop 24).take 4) ≠ os.length then none
        else (classifyAll os).map fun is => ⟨is, f.drop size⟩

end Mutagen.Asf
