/-
Model/Container/IffLoadM.lean — LOADING the ID3 chunk of an AIFF / WAVE / DSDIFF file as a program over the file object
(Model/FileM.lean), for ANY byte string and ANY fault environment: every call `_IFFID3(fileobj)` / `_WaveID3(fileobj)` /
`_DSDIFFID3(fileobj)` makes on the file object, in its order, up to the point where the ID3 tag parser takes over —

  `verify_fileobj`: read(0);
  `IffFile.__init__`: seek(0), `IffChunk.parse`: read(HEADER_SIZE), tell (`data_offset`), for the root container read(4);
  `subchunks()`: seek(0, 2), tell (`_get_actual_data_size`), per sub-chunk seek(next), read(HEADER_SIZE), tell, and
  read(name_size) for a container sub-chunk; WAVE looks up twice ('ID3' in `_WaveFile.__init__`, then 'id3'): an empty
  list is walked again;
  `_pre_load_header`: seek(chunk.data_offset)

— driven by what the reads RETURN (unlike `saveM`/`deleteM` of IffM.lean, which take the positions from a layout): a
read that comes back short is what the code sees.  `EmptyChunk`/`InvalidChunk` inside the walk end it (`ok none` of
`parseChunkM`); everything else that goes wrong in the parser is the module's `error`; exceptions of the file object
pass through to `@convert_error(IOError, error)`.  Not included: the ID3 header/frame reads behind the seek
(Model/Container/Id3File.lean and the ID3 models), the second pass of the `FileType` constructors for the stream info
(`AIFFInfo`, `WaveStreamInfo`, `DSDIFFInfo`: the same `IffFile` calls again, then `chunk.read()`).
-/
import MutagenModel.Model.Container.Iff
import MutagenModel.Model.FileOps
set_option linter.unusedVariables false
namespace Mutagen.Iff
open Mutagen

/-- `IffChunk.parse(fileobj, parent)` at the current position: `ok none` = EmptyChunk / InvalidChunk; the chunk comes with
the container name it read (empty for a plain chunk).  `chunk.offset` is `tell() - HEADER_SIZE`. -/
def parseChunkM (d : Dialect) : FileM (Option (Rec × Bytes)) := do
  let h ← fread (hs d)
  if h.length < hs d then pure none
  else
    match chunkId (h.take 4) with
    | none => pure none
    | some id =>
      let n := dec d (h.drop 4)
      let dataOff ← ftell
      match d.containers.lookup id with
      | none => pure (some (⟨id, dataOff - hs d, n⟩, []))
      | some ns =>
        -- init_container(name_size)
        if n < ns then pure none
        else if ns > 0 then do
          let name ← fread ns
          if name.all (fun b => b.toNat < 128) then pure (some (⟨id, dataOff - hs d, n⟩, name)) else raise .mutagen
        else pure (some (⟨id, dataOff - hs d, n⟩, []))

/-- `AIFFFile(fileobj)` / `_WaveFile(fileobj)` / `DSDIFFFile(fileobj)` up to the root chunk: its `data_size` -/
def rootParseM (d : Dialect) : FileM Nat := do
  fseek 0
  match ← parseChunkM d with
  | none => raise .mutagen
  | some (r, name) =>
    if r.id ≠ d.rootId then raise .mutagen
    else
      match d.formType with
      | none => pure r.dataSize
      | some t => if name ≠ t then raise .mutagen else pure r.dataSize

/-- the loop of `subchunks()` -/
def walkLoopM (d : Dialect) (endOff : Nat) : Nat → Nat → FileM (List Rec)
  | 0, next => if next < endOff then raise .diverge else pure []
  | fuel + 1, next =>
    if next < endOff then do
      fseek next
      match ← parseChunkM d with
      | none => pure []
      | some (r, _) =>
        let rs ← walkLoopM d endOff fuel (r.offset + r.size d)
        pure (r :: rs)
    else pure []

/-- `root.subchunks()` when the list is still empty: `_get_actual_data_size` (seek(0,2), tell), then the loop.  The root's
`data_offset` is `HEADER_SIZE` (it was parsed at position 0). -/
def subchunksWalkM (d : Dialect) (rootSize : Nat) : FileM (List Rec) := do
  fseekEnd
  let size ← ftell
  let endOff := hs d + min (rootSize + rootSize % 2) (size - hs d)
  walkLoopM d endOff size (hs d + nameSize)

/-- the file class and the lookup of the ID3 chunk.  AIFF, DSDIFF: `_load_file(fileobj)['ID3']`.  WAVE: `'ID3' in self`
(renaming the chunk object) in `_WaveFile.__init__`, then `['id3']` — a second call of `subchunks()`, which walks
again when the first walk found nothing, and then only "id3" matches. -/
def locateM (d : Dialect) : FileM (Option Rec) := do
  let rs ← rootParseM d
  let l1 ← subchunksWalkM d rs
  if l1.isEmpty ∧ d.loadIds.length > 1 then do
    let l2 ← subchunksWalkM d rs
    pure (find [d.key] l2)
  else pure (find d.loadIds l1)

/-- `_pre_load_header`: `fileobj.seek(file['ID3'].data_offset)`; KeyError (and InvalidChunk) become ID3NoHeaderError.
Gives the data offset the ID3 parser starts at. -/
def preLoadHeaderM (d : Dialect) : FileM Nat := do
  match ← locateM d with
  | none => raise .mutagen
  | some c =>
    fseek (c.offset + hs d)
    pure (c.offset + hs d)

/-- `verify_fileobj(fileobj)`: `read(0)`; whatever it raises becomes ValueError -/
def verifyReadM : FileM Unit :=
  tryCatch (do let _ ← fread 0; pure ()) (fun _ => true) (fun _ => raise .value)

/-- `ID3.load` of the three tag classes (`@convert_error(IOError, error) @loadfile()`) up to the ID3 header -/
def loadM (d : Dialect) : FileM Nat := do
  verifyReadM
  preLoadHeaderM d

def loadEntry (d : Dialect) : FileM Nat := convertError PyErr.isIO .mutagen (loadM d)

end Mutagen.Iff
