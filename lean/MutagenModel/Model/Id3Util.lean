/-
Model/Id3Util.lean — mutagen/id3/_util.py: BitPaddedInt (parse / to_str /
has_valid_padding) and the unsynchronisation codec.
-/
import MutagenModel.Model.Basic
set_option linter.unusedVariables false
namespace Mutagen

/-! ### BitPaddedInt -/

/-- fixed width `to_str` loop, little-endian digit order.  `none` = the `IndexError` that
becomes `ValueError('Value too wide')`. -/
def digitsLE (bits : Nat) : Nat → Nat → Option (List Nat)
  | 0, v => if v = 0 then some [] else none
  | w+1, v => (digitsLE bits w (v / 2 ^ bits)).map ((v % 2 ^ bits) :: ·)

/-- growing `to_str` loop (`width == -1`): `while value: append(value & mask); value >>= bits`.
`none` = the loop does not terminate (`bits = 0`, value non-zero). -/
def digitsGrow (bits : Nat) (v : Nat) : Option (List Nat) :=
  if h : v = 0 then some []
  else if hb : bits = 0 then none
  else (digitsGrow bits (v / 2 ^ bits)).map ((v % 2 ^ bits) :: ·)
termination_by v
decreasing_by
  apply Nat.div_lt_self (by omega)
  exact Nat.one_lt_two_pow hb

/-- bytearray assignment/append rejects values above 255 with ValueError -/
def digitsToBytes (ds : List Nat) : Except PyErr Bytes :=
  if ds.all (· < 256) then .ok (ds.map UInt8.ofNat) else .error .value

/-- `_BitPaddedMixin.to_str(value, bits, bigendian, width, minwidth)` -/
def bpToStr (value : Int) (bits : Nat) (bigendian : Bool) (width : Int) (minwidth : Nat) :
    Except PyErr Bytes :=
  if value < 0 then .error .value       -- see DESIGN §6-F2 (repaired: was a non-terminating loop for width = -1)
  else
    let v := value.toNat
    let le : Except PyErr (List Nat) :=
      if width = -1 then
        match digitsGrow bits v with
        | none => .error .diverge
        | some ds => .ok (ds ++ List.replicate (minwidth - ds.length) 0)
      else if width < 0 then .error .value       -- bytearray(negative)
      else match digitsLE bits width.toNat v with
        | none => .error .value
        | some ds => .ok ds
    match le with
    | .error e => .error e
    | .ok ds =>
      match digitsToBytes ds with
      | .error e => .error e
      | .ok b => .ok (if bigendian then b.reverse else b)

/-- each byte masked to `bits` bits, shifted by `bits` per position (little-endian order) -/
def fromLE (bits : Nat) : List Nat → Nat
  | [] => 0
  | d :: r => d % 2 ^ bits + 2 ^ bits * fromLE bits r

/-- `BitPaddedInt(bytes, bits, bigendian)` -/
def bpFromBytes (bits : Nat) (bigendian : Bool) (b : Bytes) : Nat :=
  fromLE bits ((if bigendian then b.reverse else b).map UInt8.toNat)

/-- base-256 digits of an int, least significant first -/
def bytesOfNat (v : Nat) : List Nat :=
  if h : v = 0 then [] else (v % 256) :: bytesOfNat (v / 256)
termination_by v
decreasing_by omega

/-- `BitPaddedInt(int, bits)` -/
def bpFromInt (bits : Nat) (value : Int) : Except PyErr Nat :=
  if value < 0 then .error .value else .ok (fromLE bits (bytesOfNat value.toNat))

/-- `has_valid_padding(bytes, bits)`; `bits ≤ 8` is asserted by the code -/
def bpValidPaddingBytes (bits : Nat) (b : Bytes) : Except PyErr Bool :=
  if bits > 8 then .error .assertion
  else .ok (b.all fun x => x.toNat / 2 ^ bits % 2 ^ (8 - bits) = 0)

/-- `has_valid_padding(int, bits)` for non-negative ints (negative ints loop forever:
`value >>= 8` never reaches 0; the only caller passes sizes read from bytes) -/
def bpValidPaddingInt (bits : Nat) (value : Int) : Except PyErr Bool :=
  if bits > 8 then .error .assertion
  else if value < 0 then .error .diverge
  else .ok ((bytesOfNat value.toNat).all fun x => x / 2 ^ bits % 2 ^ (8 - bits) = 0)

/-! ### unsynchronisation: two-state list machines equivalent to the split(b'\xff')
formulation of the code (the state is "the previous byte was 0xFF") -/

def unsEnc : Bool → Bytes → Bytes
  | true, [] => [0x00]
  | false, [] => []
  | true, n :: r =>
      if n ≥ 0xE0 ∨ n = 0x00 then 0x00 :: n :: unsEnc (n == 0xFF) r else n :: unsEnc (n == 0xFF) r
  | false, b :: r => b :: unsEnc (b == 0xFF) r

def unsDec : Bool → Bytes → Option Bytes
  | true, [] => none
  | false, [] => some []
  | true, n :: r =>
      if n ≥ 0xE0 then none
      else if n = 0x00 then (unsDec false r).map id
      else (unsDec (n == 0xFF) r).map (n :: ·)
  | false, b :: r => (unsDec (b == 0xFF) r).map (b :: ·)

/-- `unsynch.encode` -/
def unsynchEncode (b : Bytes) : Bytes := unsEnc false b
/-- `unsynch.decode` (ValueError on unsafe input) -/
def unsynchDecode (b : Bytes) : Except PyErr Bytes :=
  match unsDec false b with | some r => .ok r | none => .error .value

/-- free of false MPEG sync: no 0xFF followed by a byte ≥ 0xE0, and no trailing 0xFF -/
def noSync : Bool → Bytes → Bool
  | true, [] => false
  | false, [] => true
  | true, n :: r => !(decide (n ≥ 0xE0)) && noSync (n == 0xFF) r
  | false, b :: r => noSync (b == 0xFF) r

end Mutagen
