/-
Model/TagOrder.lean — the order in which unordered tags are written.

APEv2.save: `tags.sort(key=lambda tag: (len(tag), tag))` over the encoded items.
ID3Tags._write: `sorted(framedata, key=(get_prio(frame), len(data), frame.HashKey))`.
Python compares tuples lexicographically, `bytes` by byte value and `str` by code point.
-/
import MutagenModel.Model.Ape
namespace Mutagen.TagOrder
open Mutagen

/-- lexicographic `<=` on sequences of naturals (Python `str`/`bytes` comparison) -/
def lexLe : List Nat → List Nat → Bool
  | [], _ => true
  | _ :: _, [] => false
  | a :: as, b :: bs => decide (a < b) || (decide (a = b) && lexLe as bs)

def bytesNat (b : Bytes) : List Nat := b.map (·.toNat)

/-- `(len(tag), tag) <= (len(tag'), tag')` -/
def apeLe (a b : Bytes) : Bool :=
  decide (a.length < b.length) || (decide (a.length = b.length) && lexLe (bytesNat a) (bytesNat b))

/-- the item bytes in the order APEv2.save writes them -/
def apeBody (items : List Ape.Item) : Bytes := ((items.map Ape.encodeItem).mergeSort apeLe).flatten

/-- a rendered ID3 frame with what the sort key looks at -/
structure Frame where
  prio : Nat            -- index in ["TIT2","TPE1","TRCK","TALB","TPOS","TDRC","TCON"], 7 otherwise
  data : Bytes          -- save_frame(f, config)
  hashKey : List Nat    -- frame.HashKey, code points
deriving DecidableEq, Repr

def frameLe (a b : Frame) : Bool :=
  decide (a.prio < b.prio) || (decide (a.prio = b.prio) &&
    (decide (a.data.length < b.data.length) || (decide (a.data.length = b.data.length) && lexLe a.hashKey b.hashKey)))

/-- the frame bytes in the order ID3Tags._write writes them -/
def id3Body (frames : List Frame) : Bytes := ((frames.mergeSort frameLe).map (·.data)).flatten

end Mutagen.TagOrder
