/-
Model/DictFile.lean — `FileType` (mutagen/_file.py) as a dictionary: a file object forwards the
mapping interface to its tags (property C16, "a file object proxies the same behaviour to its
tags").

    __getitem__(key):        if self.tags is None: raise KeyError(key)   else: return self.tags[key]
    __setitem__(key, value): if self.tags is None: self.add_tags()       self.tags[key] = value
    __delitem__(key):        if self.tags is None: raise KeyError(key)   else: del self.tags[key]
    keys():                  if self.tags is None: return []             else: return self.tags.keys()

everything else is `DictMixin` over these four.  The state is `Option S` (`none`: `tags is
None`); `fresh` is what `add_tags()` makes (`FileType.add_tags` itself raises
`NotImplementedError`; the formats create their empty tag object).

One thing the four-primitives shape cannot show: when `__setitem__` raises on a tag-less file,
`add_tags()` has already run, so the file is left with EMPTY tags, not with `None`
(`fileSetResidue`).  `Props/C16_File.lean: file_none_like_fresh` shows that the two states
answer every primitive alike when invalid keys are `KeyError`s.
-/
import MutagenModel.Model.DictK
set_option linter.unusedVariables false
namespace Mutagen.Dict
open Mutagen

/-- `FileType` over the tag store `m`; `fresh` = the result of `add_tags()` -/
def fileImpl {S K V : Type} (m : MapImpl S K V) (fresh : Except PyErr S) : MapImpl (Option S) K V where
  keys
    | none => []
    | some s => m.keys s
  getitem
    | none, _ => .error .key
    | some s, k => m.getitem s k
  setitem
    | none, k, v =>
      match fresh with
      | .error e => .error e
      | .ok s0 =>
        match m.setitem s0 k v with
        | .ok s' => .ok (some s')
        | .error e => .error e
    | some s, k, v =>
      match m.setitem s k v with
      | .ok s' => .ok (some s')
      | .error e => .error e
  delitem
    | none, _ => .error .key
    | some s, k =>
      match m.delitem s k with
      | .ok s' => .ok (some s')
      | .error e => .error e

/-- the state a raising `file[key] = value` really leaves: `add_tags()` has run -/
def fileSetResidue {S : Type} (fresh : Except PyErr S) : Option S → Option S
  | none => match fresh with
    | .ok s0 => some s0
    | .error _ => none
  | some s => some s

/-- invariant / abstraction of the file object from those of its tags -/
def fileInv {S : Type} (inv : S → Prop) : Option S → Prop
  | none => True
  | some s => inv s

def fileAbs {S K V : Type} (abs : S → RefDict K V) : Option S → RefDict K V
  | none => []
  | some s => abs s

end Mutagen.Dict
