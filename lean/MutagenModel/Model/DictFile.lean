/-
Model/DictFile.lean — `FileType` (mutagen/_file.py) as a dictionary: a file object forwards the
mapping interface to its tags (property C16, "a file object proxies the same behaviour to its
tags").

    __getitem__(key):        if self.tags is None: raise KeyError(key)   else: return self.tags[key]
    __setitem__(key, value): if self.tags is None: self.add_tags()       self.tags[key] = value
    __delitem__(key):        if self.tags is None: raise KeyError(key)   else: del self.tags[key]
    keys():                  if self.tags is None: return []             else: return self.tags.keys()

everything else is `DictMixin` over these four.  The state is `Option S` (`none`: `tags is
None`); `fresh` is what `add_tags()` makes (`FileType.add_tags` itself raises
`NotImplementedError`; the formats create their empty tag object).

One thing the four-primitives shape cannot show: when `__setitem__` raises on a tag-less file,
`add_tags()` has already run, so the file is left with EMPTY tags, not with `None`
(`fileSetResidue`).  `Props/C16_File.lean: file_none_like_fresh` shows that the two states
answer every primitive alike when invalid keys are `KeyError`s.
-/
import MutagenModel.Model.DictK
set_option linter.unusedVariables false
namespace Mutagen.Dict
open Mutagen

/-- `FileType` over the tag store `m`; `fresh` = the result of `add_tags()` -/
def fileImpl {S K V : Type} (m : MapImpl S K V) (fresh : Except PyErr S) : MapImpl (Option S) K V where
  keys
    | none => []
    | some s => m.keys s
  getitem
    | none, _ => .error .key
    | some s, k => m.getitem s k
  setitem
    | none, k, v =>
      match fresh with
      | .error e => .error e
      | .ok s0 =>
        match m.setitem s0 k v with
        | .ok s' => .ok (some s')
        | .error e => .error e
    | some s, k, v =>
      match m.setitem s k v with
      | .ok s' => .ok (some s')
      | .error e => .error e
  delitem
    | none, _ => .error .key
    | some s, k =>
      match m.delitem s k with
      | .ok s' => .ok (some s')
      | .error e => .error e

/-- the state a raising `file[key] = value` really leaves: `add_tags()` has run -/
def fileSetResidue {S : Type} (fresh : Except PyErr S) : Option S → Option S
  | none => match fresh with
    | .ok s0 => some s0
    | .error _ => none
  | some s => some s

/-- invariant / abstraction of the file object from those of its tags -/
def fileInv {S : Type} (inv : S → Prop) : Option S → Prop
  | none => True
  | some s => inv s

def fileAbs {S K V : Type} (abs : S → RefDict K V) : Option S → RefDict K V
  | none => []
  | some s => abs s

/-! ### the real object, operation by operation (with the residue), and `ID3` as a tag store -/

section fileStep
variable {S K V : Type} (m : MapImpl S K V) (fresh : Except PyErr S)

/-- `file.update(pairs)`: as `DictMixin.update`, the first raising pair leaves `fileSetResidue` -/
def fileUpdateFull : List (K × V) → Option S → Except PyErr Unit × Option S
  | [], s => (.ok (), s)
  | (k, v) :: l, s =>
    match (fileImpl m fresh).setitem s k v with
    | .ok s' => fileUpdateFull l s'
    | .error e => (.error e, fileSetResidue fresh s)

/-- one operation on the real file object: `DictMixin` over the four forwarded primitives, a
raising `__setitem__` (set / setdefault / update) leaves the tags `add_tags()` has made -/
def fileStep (s : Option S) : Op K V → Out K V × Option S
  | .set k v =>
    match (fileImpl m fresh).setitem s k v with
    | .ok s' => (.unit, s')
    | .error e => (.err e, fileSetResidue fresh s)
  | .update l => (outOf (fun _ => .unit) (fileUpdateFull m fresh l s).1, (fileUpdateFull m fresh l s).2)
  | .setdefault k d =>
    match (fileImpl m fresh).getitem s k with
    | .ok v => (.val v, s)
    | .error e =>
      if e = .key then
        match (fileImpl m fresh).setitem s k d with
        | .ok s' => (.val d, s')
        | .error e' => (.err e', fileSetResidue fresh s)
      else (.err e, s)
  | op => (fileImpl m fresh).step s op

end fileStep

/-- a frame object, as far as the dictionary interface of `ID3` cares: an opaque token (the
harness names every frame it makes; `255` is no ASF type) -/
def isFrameTok : PVal → Bool
  | .item (.asf 255 _) => true
  | _ => false

/-- `ID3Tags` (`DictProxy` + `if not isinstance(tag, Frame): raise TypeError` in `__setitem__`);
keys are whatever hashes (open finding id3-nonstr-keys), an unhashable key is a `TypeError` -/
def id3TagImpl : MapImpl (RefDict PKey PVal) PKey PVal where
  keys s := keysOf s
  getitem s k := if k.hashable then lookupE k s else .error .type_
  setitem s k v := if isFrameTok v && k.hashable then .ok (insert k v s) else .error .type_
  delitem s k :=
    if k.hashable then
      match lookup k s with
      | some _ => .ok (erase k s)
      | none => .error .key
    else .error .type_

end Mutagen.Dict
