/-
Model/DictEasyMp4.lean — `EasyMP4Tags` (mutagen/easymp4.py) as a dictionary over an `MP4Tags`
(property C16).

`EasyMP4Tags(DictMixin, Tags)` owns an `MP4Tags` (`self.__mp4`, here the state itself: the model
of Model/DictMp4.lean) and three class-level registries `Get` / `Set` / `Delete` (and an empty
`List`) of closures made by `RegisterTextKey` / `RegisterIntKey` / `RegisterIntPairKey` /
`RegisterFreeformKey`.  `__getitem__` / `__setitem__` / `__delitem__`:

    if not isinstance(key, str): raise EasyMP4KeyError        # a KeyError
    key = key.lower()
    (set only) if isinstance(value, str): value = [value]
    func = dict_match(self.<Registry>, key)                   # exact, else fnmatch patterns
    if func is None: raise EasyMP4KeyError
    return func(self.__mp4, key[, value])

and `keys()` = the keys of `Get`, in registration order, that are `in self` (`DictMixin`'s
`__contains__`: `self[key]` does not raise `KeyError`).  The handlers read / write / delete ONE
atom of the native tags through the native `__getitem__` / `__setitem__` / `__delitem__`, so
every native rule (Model/DictMp4.lean) applies underneath.

`easyMp4Registry` is the registry as /repo fills it at import time (compared with the live
class by the harness: `dictx table=easymp4`).  No registered key contains a glob character, so
`dict_match` is an exact lookup.

Python functions modelled here: `str.lower()` as far as it can produce an ASCII key (`A`–`Z`,
and U+212A KELVIN SIGN → `k`); `int(x)` for `str` (ASCII digits, sign, single underscores,
surrounding whitespace incl. the non-ASCII space characters; a string with another character
above U+00FF — where Unicode decimal digits live — is outside the model:
`PyErr.notImplemented`), `bytes`, `int`, `bool`, `float`; `str(int)`; `str.split("/")`;
`"%d"`; UTF-8 encode / strict decode (`errors="replace"` only matters for bytes that never
come out of the setter: `PyErr.notImplemented`).
-/
import MutagenModel.Model.DictMp4
import MutagenModel.Model.Utf8
set_option linter.unusedVariables false
namespace Mutagen.Dict
open Mutagen

/-! ### Python helpers -/

/-- `str.lower()` restricted to what can yield an ASCII letter -/
def pyLowerC (c : Nat) : Nat := if 65 ≤ c ∧ c ≤ 90 then c + 32 else if c = 8490 then 107 else c
def pyLower (k : Text) : Text := k.map pyLowerC

/-- whitespace `int()` strips: ASCII `" \t\n\v\f\r"` and the non-ASCII `str.isspace()` characters -/
def isIntSpace (c : Nat) : Bool :=
  c == 32 || (9 ≤ c && c ≤ 13) || c == 133 || c == 160 || c == 5760 || (8192 ≤ c && c ≤ 8202) ||
    c == 8232 || c == 8233 || c == 8239 || c == 8287 || c == 12288

def isDigitC (c : Nat) : Bool := 48 ≤ c && c ≤ 57

/-- digits with single underscores between them (after the sign); value accumulated -/
def parseDigits : List Nat → Nat → Bool → Option Nat
  | [], acc, lastDigit => if lastDigit then some acc else none
  | c :: t, acc, lastDigit =>
    if isDigitC c then parseDigits t (acc * 10 + (c - 48)) true
    else if c = 95 ∧ lastDigit then
      match t with
      | d :: _ => if isDigitC d then parseDigits t acc false else none
      | [] => none
    else none

def dropWhileEnd (p : Nat → Bool) (l : List Nat) : List Nat := ((l.reverse).dropWhile p).reverse

/-- `int(s)` for a `str` -/
def pyIntText (s : Text) : Except PyErr Int :=
  if s.any (fun c => decide (c > 255) && !isIntSpace c) then .error .notImplemented
  else
    let body := dropWhileEnd isIntSpace (s.dropWhile isIntSpace)
    let (neg, ds) := match body with
      | 45 :: r => (true, r)
      | 43 :: r => (false, r)
      | r => (false, r)
    match ds with
    | [] => .error .value
    | d :: _ =>
      if isDigitC d then
        match parseDigits ds 0 false with
        | some n => .ok (if neg then -(n : Int) else (n : Int))
        | none => .error .value
      else .error .value

/-- `int(x)` -/
def pyInt : Item → Except PyErr Int
  | .prim (.str t) => pyIntText t
  | .prim (.bytes b) => pyIntText (b.map (·.toNat))
  | .cover b _ => pyIntText (b.map (·.toNat))
  | .prim (.int n) => .ok n
  | .prim (.bool b) => .ok (if b then 1 else 0)
  | .prim (.float m) => .ok (Int.tdiv m 1000)
  | _ => .error .type_

/-- decimal digits of a natural number, most significant first (`fuel` ≥ number of digits) -/
def natDigits : Nat → Nat → List Nat
  | 0, _ => []
  | fuel + 1, n => if n < 10 then [48 + n] else natDigits fuel (n / 10) ++ [48 + n % 10]

/-- `str(n)` / `"%d" % n` for an `int` -/
def intStr (n : Int) : Text :=
  match n with
  | .ofNat m => natDigits (m + 1) m
  | .negSucc m => 45 :: natDigits (m + 2) (m + 1)

/-- `s.split(sep)` for a one-character separator -/
def splitOnC (sep : Nat) : Text → List Text
  | [] => [[]]
  | c :: t =>
    if c = sep then [] :: splitOnC sep t
    else match splitOnC sep t with
      | h :: r => (c :: h) :: r
      | [] => [[c]]

/-- `int(min(max(lo, x), hi))` -/
def clampI (lo hi x : Int) : Int := min (max lo x) hi

/-! ### the registry -/

/-- the closure kinds of easymp4.py -/
inductive EMKind
  | text | int (lo hi : Int) | pair (lo hi : Int) | freeform
deriving DecidableEq, Repr, Inhabited

structure EMEntry where
  key : Text
  atom : Text
  kind : EMKind
deriving DecidableEq, Repr, Inhabited

/-- "----:com.apple.iTunes:" -/
def ffPrefix : Text := [45, 45, 45, 45, 58, 99, 111, 109, 46, 97, 112, 112, 108, 101, 46, 105, 84, 117, 110, 101, 115, 58]

/-- `EasyMP4Tags.Get` (= `Set` = `Delete`) in registration order: key, atom id, closure kind -/
def easyMp4Registry : List EMEntry :=
  [⟨[116, 105, 116, 108, 101], [169, 110, 97, 109], .text⟩,
   ⟨[97, 108, 98, 117, 109], [169, 97, 108, 98], .text⟩,
   ⟨[97, 114, 116, 105, 115, 116], [169, 65, 82, 84], .text⟩,
   ⟨[97, 108, 98, 117, 109, 97, 114, 116, 105, 115, 116], [97, 65, 82, 84], .text⟩,
   ⟨[100, 97, 116, 101], [169, 100, 97, 121], .text⟩,
   ⟨[99, 111, 109, 109, 101, 110, 116], [169, 99, 109, 116], .text⟩,
   ⟨[100, 101, 115, 99, 114, 105, 112, 116, 105, 111, 110], [100, 101, 115, 99], .text⟩,
   ⟨[103, 114, 111, 117, 112, 105, 110, 103], [169, 103, 114, 112], .text⟩,
   ⟨[103, 101, 110, 114, 101], [169, 103, 101, 110], .text⟩,
   ⟨[99, 111, 112, 121, 114, 105, 103, 104, 116], [99, 112, 114, 116], .text⟩,
   ⟨[97, 108, 98, 117, 109, 115, 111, 114, 116], [115, 111, 97, 108], .text⟩,
   ⟨[97, 108, 98, 117, 109, 97, 114, 116, 105, 115, 116, 115, 111, 114, 116], [115, 111, 97, 97], .text⟩,
   ⟨[97, 114, 116, 105, 115, 116, 115, 111, 114, 116], [115, 111, 97, 114], .text⟩,
   ⟨[116, 105, 116, 108, 101, 115, 111, 114, 116], [115, 111, 110, 109], .text⟩,
   ⟨[99, 111, 109, 112, 111, 115, 101, 114, 115, 111, 114, 116], [115, 111, 99, 111], .text⟩,
   ⟨[109, 117, 115, 105, 99, 98, 114, 97, 105, 110, 122, 95, 97, 114, 116, 105, 115, 116, 105, 100],
     ffPrefix ++ [77, 117, 115, 105, 99, 66, 114, 97, 105, 110, 122, 32, 65, 114, 116, 105, 115, 116, 32, 73, 100], .freeform⟩,
   ⟨[109, 117, 115, 105, 99, 98, 114, 97, 105, 110, 122, 95, 116, 114, 97, 99, 107, 105, 100],
     ffPrefix ++ [77, 117, 115, 105, 99, 66, 114, 97, 105, 110, 122, 32, 84, 114, 97, 99, 107, 32, 73, 100], .freeform⟩,
   ⟨[109, 117, 115, 105, 99, 98, 114, 97, 105, 110, 122, 95, 97, 108, 98, 117, 109, 105, 100],
     ffPrefix ++ [77, 117, 115, 105, 99, 66, 114, 97, 105, 110, 122, 32, 65, 108, 98, 117, 109, 32, 73, 100], .freeform⟩,
   ⟨[109, 117, 115, 105, 99, 98, 114, 97, 105, 110, 122, 95, 97, 108, 98, 117, 109, 97, 114, 116, 105, 115, 116, 105, 100],
     ffPrefix ++ [77, 117, 115, 105, 99, 66, 114, 97, 105, 110, 122, 32, 65, 108, 98, 117, 109, 32, 65, 114, 116, 105, 115, 116, 32, 73, 100], .freeform⟩,
   ⟨[109, 117, 115, 105, 99, 105, 112, 95, 112, 117, 105, 100],
     ffPrefix ++ [77, 117, 115, 105, 99, 73, 80, 32, 80, 85, 73, 68], .freeform⟩,
   ⟨[109, 117, 115, 105, 99, 98, 114, 97, 105, 110, 122, 95, 97, 108, 98, 117, 109, 115, 116, 97, 116, 117, 115],
     ffPrefix ++ [77, 117, 115, 105, 99, 66, 114, 97, 105, 110, 122, 32, 65, 108, 98, 117, 109, 32, 83, 116, 97, 116, 117, 115], .freeform⟩,
   ⟨[109, 117, 115, 105, 99, 98, 114, 97, 105, 110, 122, 95, 97, 108, 98, 117, 109, 116, 121, 112, 101],
     ffPrefix ++ [77, 117, 115, 105, 99, 66, 114, 97, 105, 110, 122, 32, 65, 108, 98, 117, 109, 32, 84, 121, 112, 101], .freeform⟩,
   ⟨[114, 101, 108, 101, 97, 115, 101, 99, 111, 117, 110, 116, 114, 121],
     ffPrefix ++ [77, 117, 115, 105, 99, 66, 114, 97, 105, 110, 122, 32, 82, 101, 108, 101, 97, 115, 101, 32, 67, 111, 117, 110, 116, 114, 121], .freeform⟩,
   ⟨[98, 112, 109], [116, 109, 112, 111], .int 0 65535⟩,
   ⟨[116, 114, 97, 99, 107, 110, 117, 109, 98, 101, 114], [116, 114, 107, 110], .pair 0 65535⟩,
   ⟨[100, 105, 115, 99, 110, 117, 109, 98, 101, 114], [100, 105, 115, 107], .pair 0 65535⟩]

/-- `dict_match(registry, key)`: no registered key has a glob character, so an exact lookup -/
def emFind (key : Text) : Option EMEntry := easyMp4Registry.find? (fun e => decide (e.key = key))

/-! ### the getters: native value → what the view shows -/

/-- `str(x)` for the items the int getter can meet (`int`, `str`); other native items only
arise through the native interface: outside the model -/
def emStrOf : Item → Except PyErr Item
  | .prim (.int n) => .ok (.prim (.str (intStr n)))
  | .prim (.str t) => .ok (.prim (.str t))
  | _ => .error .notImplemented

/-- truthiness -/
def Prim.truthy : Prim → Bool
  | .int n => n != 0 | .bool b => b | .str t => !t.isEmpty | .bytes b => !b.isEmpty | .none => false
  | .float m => m != 0

/-- `"%d" % x` -/
def fmtD : Prim → Except PyErr Text
  | .int n => .ok (intStr n)
  | .bool b => .ok (if b then [49] else [48])
  | .float m => .ok (intStr (Int.tdiv m 1000))
  | _ => .error .type_

/-- one `(track, total)` of the pair getter -/
def emPairStr (v : Item) : Except PyErr Item :=
  match unpack2 v with
  | .error e => .error e
  | .ok (track, total) =>
    if total.truthy then
      match fmtD track, fmtD total with
      | .ok a, .ok b => .ok (.prim (.str (a ++ [47] ++ b)))
      | .error e, _ => .error e
      | _, .error e => .error e
    else
      match track with
      | .int n => .ok (.prim (.str (intStr n)))
      | .str t => .ok (.prim (.str t))
      | _ => .error .notImplemented

/-- `s.decode("utf-8", "replace")` of one freeform value -/
def emDecode : Item → Except PyErr Item
  | .prim (.bytes b) =>
    match Utf8.decode b with
    | some t => .ok (.prim (.str t))
    | none => .error .notImplemented
  | .cover b _ =>
    match Utf8.decode b with
    | some t => .ok (.prim (.str t))
    | none => .error .notImplemented
  | _ => .error .attribute

/-- what the getter of kind `kd` makes of the native value -/
def emRead (kd : EMKind) (nv : PVal) : Except PyErr PVal :=
  match kd with
  | .text => .ok nv
  | .int _ _ =>
    match iterVal nv with
    | .error e => .error e
    | .ok items => (mapE emStrOf items).map PVal.list
  | .pair _ _ =>
    match iterVal nv with
    | .error e => .error e
    | .ok items => (mapE emPairStr items).map PVal.list
  | .freeform =>
    match iterVal nv with
    | .error e => .error e
    | .ok items => (mapE emDecode items).map PVal.list

/-! ### the setters: value → native value -/

/-- one item of the pair setter:
`try: tracks, total = v.split("/"); …clamp(int(·))… except (ValueError, TypeError): tracks =
clamp(int(v)); total = min_value`.  `v.split` of something that is neither `str` nor `bytes`
is an `AttributeError`, which is not caught (open finding easy-nonstr-value-AttributeError);
`bytes.split("/")` is a `TypeError`, which is. -/
def emPairOf (lo hi : Int) (v : Item) : Except PyErr Item :=
  let fallback : Except PyErr Item :=
    match pyInt v with
    | .ok n => .ok (.tuple [.int (clampI lo hi n), .int lo])
    | .error e => .error e
  match v with
  | .prim (.str t) =>
    match splitOnC 47 t with
    | [a, b] =>
      match pyIntText a, pyIntText b with
      | .ok x, .ok y => .ok (.tuple [.int (clampI lo hi x), .int (clampI lo hi y)])
      | .error .notImplemented, _ => .error .notImplemented
      | .ok _, .error .notImplemented => .error .notImplemented
      | _, _ => fallback
    | _ => fallback
  | .prim (.bytes _) => fallback
  | .cover _ _ => fallback
  | _ => .error .attribute

/-- one item of the freeform setter -/
def emEncode : Item → Except PyErr Item
  | .prim (.str t) => if t.all (fun c => decide (Utf8.Scalar c)) then .ok (.prim (.bytes (Utf8.encode t))) else .error .value
  | _ => .error .type_

/-- `if isinstance(value, str): value = [value]` -/
def emWrapStr : PVal → PVal
  | .item (.prim (.str t)) => .list [.prim (.str t)]
  | v => v

/-- what the setter of kind `kd` hands to the native `__setitem__` -/
def emConv (kd : EMKind) (v : PVal) : Except PyErr PVal :=
  match kd with
  | .text => .ok v
  | .int lo hi =>
    match iterVal v with
    | .error e => .error e
    | .ok items => (mapE pyInt items).map (fun ns => PVal.list (ns.map (fun n => .prim (.int (clampI lo hi n)))))
  | .pair lo hi =>
    match iterVal v with
    | .error e => .error e
    | .ok items => (mapE (emPairOf lo hi) items).map PVal.list
  | .freeform =>
    match iterVal v with
    | .error e => .error e
    | .ok items => (mapE emEncode items).map PVal.list

/-! ### the four primitives of the view -/

/-- the registry entry for a key as given: `isinstance(key, str)`, `key.lower()`, `dict_match` -/
def emEntryOf : PKey → Option EMEntry
  | .str t => emFind (pyLower t)
  | _ => none

def easyMp4Get (s : Mp4) (k : PKey) : Except PyErr PVal :=
  match emEntryOf k with
  | none => .error .key
  | some e =>
    match mp4Impl.getitem s (.str e.atom) with
    | .error err => .error err
    | .ok nv => emRead e.kind nv

def easyMp4Set (s : Mp4) (k : PKey) (v : PVal) : Except PyErr Mp4 :=
  match emEntryOf k with
  | none => .error .key
  | some e =>
    match emConv e.kind (emWrapStr v) with
    | .error err => .error err
    | .ok nv => mp4Impl.setitem s (.str e.atom) nv

def easyMp4Del (s : Mp4) (k : PKey) : Except PyErr Mp4 :=
  match emEntryOf k with
  | none => .error .key
  | some e => mp4Impl.delitem s (.str e.atom)

/-- `key in self` for one key of `Get` -/
def emPresent (s : Mp4) (e : EMEntry) : Bool :=
  match easyMp4Get s (.str e.key) with
  | .error .key => false
  | _ => true

/-- `key in self` for the loop of `keys()`: `self[key]` raises no `KeyError`.  (Another
exception would leave `keys()` itself; under `EasyMp4Inv` — every state the view produces —
the getters raise nothing but `KeyError`: Props/C16_EasyMp4.lean.) -/
def easyMp4Keys (s : Mp4) : List PKey :=
  (easyMp4Registry.filter (emPresent s)).map (fun e => PKey.str e.key)

/-- an exception other than `KeyError` from the getter of one key of `Get` -/
def emOtherErr (s : Mp4) (e : EMEntry) : Option PyErr :=
  match easyMp4Get s (.str e.key) with
  | .error .key => none
  | .error err => some err
  | .ok _ => none

/-- the real `keys()`: the first getter error other than `KeyError` leaves it -/
def easyMp4KeysE (s : Mp4) : Except PyErr (List PKey) :=
  match easyMp4Registry.findSome? (emOtherErr s) with
  | some err => .error err
  | none => .ok (easyMp4Keys s)

def easyMp4Impl : MapImpl Mp4 PKey PVal where
  keys := easyMp4Keys
  getitem := easyMp4Get
  setitem := easyMp4Set
  delitem := easyMp4Del

/-- the documented key / value rules of the view: a key is a `str` whose lower-cased form is
registered (else `KeyError`, for every access); `view[k] = v` stores, and `view[k]` reads back,
what the getter of `k` makes of what the setter of `k` makes of `v` — or raises the setter's /
the native tags' error -/
def easyMp4Policy : KPolicy PKey PVal where
  norm k := match emEntryOf k with
    | some e => .ok (.str e.key)
    | none => .error .key
  coerce k v := match emEntryOf k with
    | none => .error .key
    | some e =>
      match emConv e.kind (emWrapStr v) with
      | .error err => .error err
      | .ok nv =>
        match mp4Check (.str e.atom) nv with
        | .error err => .error err
        | .ok () =>
          match emRead e.kind nv with
          | .ok vv => .ok (some vv)
          | .error err => .error err

/-- what the view shows for one registry entry: the getter's reading of the entry's atom, if the
atom is present (and readable) -/
def emView (s : Mp4) (e : EMEntry) : Option PVal :=
  match lookup (PKey.str e.atom) s with
  | none => none
  | some nv =>
    match emRead e.kind nv with
    | .ok vv => some vv
    | .error _ => none

/-- the view of a native state: for every registered key whose atom is present and readable,
the value its getter shows; in registration order -/
def easyMp4Abs (s : Mp4) : RefDict PKey PVal :=
  easyMp4Registry.filterMap (fun e => (emView s e).map (fun vv => (PKey.str e.key, vv)))

/-- the atoms the view can touch -/
def easyMp4Atoms : List PKey := easyMp4Registry.map (fun e => PKey.str e.atom)

end Mutagen.Dict
