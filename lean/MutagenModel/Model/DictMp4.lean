/-
Model/DictMp4.lean — `MP4Tags` (mutagen/mp4/__init__.py) as a dictionary (property C16).

`MP4Tags(DictProxy, Tags)`: a wrapped builtin dict whose `__setitem__` is

    if not isinstance(key, str): raise TypeError
    self._render(key, value)          # result thrown away: only its exceptions matter
    super().__setitem__(key, value)   # the value is stored as given

`_render` encodes the key as Latin-1 (`UnicodeEncodeError`, a `ValueError`, otherwise), takes the
first four bytes as the atom name, looks the render function up in `__atoms` (unknown atoms
render as text) and runs it on the value.  `mp4Check` is that run, reduced to "raises what /
returns": which exception class each render function raises first, in Python's evaluation
order (iteration of the value, unpacking, comparisons, `struct.pack`).  Keys are
case-sensitive; get / del / `in` are plain dict lookups (a key that is not `str` is simply
absent, an unhashable one is a `TypeError`).

Not modelled: `MP4FreeForm` objects, `AtomDataType` other than the cover formats, values that
are objects with their own `__iter__` / `__bool__`.
-/
import MutagenModel.Model.DictK
set_option linter.unusedVariables false
namespace Mutagen.Dict
open Mutagen

/-- the render function `MP4Tags.__atoms` associates with an atom name -/
inductive Mp4Kind
  | freeform | pair | pairNoTrailing | genre | integer (minBytes : Nat) | bool | cover | text
deriving DecidableEq, Repr, Inhabited

/-- `MP4Tags.__atoms` (name as Latin-1 code points → render function); the text atoms registered
by the loop below the dict literal included.  Compared with the live dict by the harness
(`dictx table=mp4atoms`). -/
def mp4Atoms : List (Text × Mp4Kind) :=
  [([45, 45, 45, 45], .freeform), ([116, 114, 107, 110], .pair), ([100, 105, 115, 107], .pairNoTrailing),
   ([103, 110, 114, 101], .genre),
   ([112, 108, 73, 68], .integer 8), ([99, 110, 73, 68], .integer 4), ([103, 101, 73, 68], .integer 4),
   ([97, 116, 73, 68], .integer 4), ([115, 102, 73, 68], .integer 4), ([99, 109, 73, 68], .integer 4),
   ([97, 107, 73, 68], .integer 1), ([116, 118, 115, 110], .integer 4), ([116, 118, 101, 115], .integer 4),
   ([116, 109, 112, 111], .integer 2), ([169, 109, 118, 105], .integer 2), ([169, 109, 118, 99], .integer 2),
   ([99, 112, 105, 108], .bool), ([112, 103, 97, 112], .bool), ([112, 99, 115, 116], .bool),
   ([115, 104, 119, 109], .integer 1), ([115, 116, 105, 107], .integer 1), ([104, 100, 118, 100], .integer 1),
   ([114, 116, 110, 103], .integer 1), ([99, 111, 118, 114], .cover),
   ([112, 117, 114, 108], .text), ([101, 103, 105, 100], .text),
   ([169, 110, 97, 109], .text), ([169, 97, 108, 98], .text), ([169, 65, 82, 84], .text), ([97, 65, 82, 84], .text),
   ([169, 119, 114, 116], .text), ([169, 100, 97, 121], .text), ([169, 99, 109, 116], .text),
   ([100, 101, 115, 99], .text), ([112, 117, 114, 100], .text), ([169, 103, 114, 112], .text),
   ([169, 103, 101, 110], .text), ([169, 108, 121, 114], .text), ([99, 97, 116, 103], .text),
   ([107, 101, 121, 119], .text), ([169, 116, 111, 111], .text), ([99, 112, 114, 116], .text),
   ([115, 111, 97, 108], .text), ([115, 111, 97, 97], .text), ([115, 111, 97, 114], .text),
   ([115, 111, 110, 109], .text), ([115, 111, 99, 111], .text), ([115, 111, 115, 110], .text),
   ([116, 118, 115, 104], .text)]

/-- the render function for a (Latin-1 encodable) key: `__atoms.get(_key2name(key)[:4], text)` -/
def mp4KindOf (k : Text) : Mp4Kind := (lookup (k.take 4) mp4Atoms).getD .text

/-- `for v in value`: what iterating a Python value yields, `TypeError` if it is not iterable -/
def iterVal : PVal → Except PyErr (List Item)
  | .list l => .ok l
  | .item (.prim (.str t)) => .ok (t.map fun c => .prim (.str [c]))
  | .item (.prim (.bytes b)) => .ok (b.map fun x => .prim (.int x.toNat))
  | .item (.tuple l) => .ok (l.map .prim)
  | .item (.cover b _) => .ok (b.map fun x => .prim (.int x.toNat))
  | .item _ => .error .type_

def Item.isStr : Item → Bool
  | .prim (.str _) => true
  | _ => false

/-- `bytes` or a subclass (`MP4Cover`) -/
def Item.isBytes : Item → Bool
  | .prim (.bytes _) => true
  | .cover _ _ => true
  | _ => false

/-- `__render_text`: a `str` is one value; otherwise every item of the iterable must be `str` -/
def mp4CheckText (v : PVal) : Except PyErr Unit :=
  match v with
  | .item (.prim (.str _)) => .ok ()
  | v =>
    match iterVal v with
    | .error e => .error e
    | .ok items => if items.all Item.isStr then .ok () else .error .type_

/-- `track, total = v` -/
def unpack2 : Item → Except PyErr (Prim × Prim)
  | .tuple [a, b] => .ok (a, b)
  | .tuple _ => .error .value
  | .prim (.str [a, b]) => .ok (.str [a], .str [b])
  | .prim (.str _) => .error .value
  | .prim (.bytes [a, b]) => .ok (.int a.toNat, .int b.toNat)
  | .prim (.bytes _) => .error .value
  | .cover [a, b] _ => .ok (.int a.toNat, .int b.toNat)
  | .cover _ _ => .error .value
  | _ => .error .type_

/-- `0 <= x < 1 << 16` (`TypeError` where `int` does not compare with the operand) -/
def inU16 : Prim → Except PyErr Bool
  | .int n => .ok (decide (0 ≤ n) && decide (n < 65536))
  | .bool _ => .ok true
  | .float m => .ok (decide (0 ≤ m) && decide (m < 65536000))
  | _ => .error .type_

def Prim.isFloat : Prim → Bool
  | .float _ => true
  | _ => false

/-- `if 0 <= track < 1 << 16 and 0 <= total < 1 << 16: struct.pack(...) else: raise
MP4MetadataValueError`; `struct.pack(">4H", …)` of a float is a `struct.error` -/
def checkPair (p : Prim × Prim) : Except PyErr Unit :=
  match inU16 p.1 with
  | .error e => .error e
  | .ok false => .error .value
  | .ok true =>
    match inU16 p.2 with
    | .error e => .error e
    | .ok false => .error .value
    | .ok true => if p.1.isFloat || p.2.isFloat then .error .struct_ else .ok ()

/-- the loop of `__render_pair` (`catchType`: `except TypeError: raise ValueError` around the
unpacking) / `__render_pair_no_trailing` (no such handler) -/
def checkPairs (catchType : Bool) : List Item → Except PyErr Unit
  | [] => .ok ()
  | v :: t =>
    match unpack2 v with
    | .error e => .error (if catchType && e = .type_ then .value else e)
    | .ok p =>
      match checkPair p with
      | .error e => .error e
      | .ok () => checkPairs catchType t

def mp4CheckPair (catchType : Bool) (v : PVal) : Except PyErr Unit :=
  match iterVal v with
  | .error e => .error e
  | .ok items => checkPairs catchType items

/-- one item of `__render_integer`: an `int` (or `bool`) in the int64 range; everything else
(comparison `TypeError`, `struct.error` for a float, out of range) ends as
`MP4MetadataValueError` -/
def Item.isInt64 : Item → Bool
  | .prim (.int n) => decide (-9223372036854775808 ≤ n) && decide (n ≤ 9223372036854775807)
  | .prim (.bool _) => true
  | _ => false

/-- `__render_integer`: the whole loop is inside `try … except (TypeError, ValueError,
cdata.error): raise MP4MetadataValueError`; `min_bytes` only picks the width -/
def mp4CheckInt (v : PVal) : Except PyErr Unit :=
  match iterVal v with
  | .error _ => .error .value
  | .ok items => if items.all Item.isInt64 then .ok () else .error .value

/-- `__render_cover`: `struct.pack(">2I", imageformat, 0) + cover` needs a bytes-like item -/
def mp4CheckCover (v : PVal) : Except PyErr Unit :=
  match iterVal v with
  | .error e => .error e
  | .ok items => if items.all Item.isBytes then .ok () else .error .type_

/-- `__render_freeform`: a `bytes` value is one value; the key must split into three parts at
`:` (else the unpacking raises `ValueError`) — checked before the values are looked at;
`data += v` needs bytes -/
def mp4CheckFreeform (k : Text) (v : PVal) : Except PyErr Unit :=
  if (k.filter (fun c => c == 58)).length < 2 then .error .value
  else
    match v with
    | .item (.prim (.bytes _)) => .ok ()
    | .item (.cover _ _) => .ok ()
    | v =>
      match iterVal v with
      | .error e => .error e
      | .ok items => if items.all Item.isBytes then .ok () else .error .type_

/-- `isinstance(key, str)`, then `self._render(key, value)`, as far as exceptions go -/
def mp4Check : PKey → PVal → Except PyErr Unit
  | .str k, v =>
    if k.all (fun c => decide (c < 256)) then
      match mp4KindOf k with
      | .freeform => mp4CheckFreeform k v
      | .pair => mp4CheckPair true v
      | .pairNoTrailing => mp4CheckPair false v
      | .genre => .error .type_          -- the render function is `None`: calling it is a TypeError
      | .integer _ => mp4CheckInt v
      | .bool => .ok ()                  -- `bool(value)`
      | .cover => mp4CheckCover v
      | .text => mp4CheckText v
    else .error .value                   -- UnicodeEncodeError from `key.encode("latin-1")`
  | _, _ => .error .type_

/-- no `float` among the scalars of the value (directly or inside a tuple) -/
def Item.noFloat : Item → Bool
  | .tuple l => l.all (fun p => !p.isFloat)
  | .prim p => !p.isFloat
  | _ => true

/-- no `float` anywhere in the value -/
def PVal.noFloat : PVal → Bool
  | .item i => i.noFloat
  | .list l => l.all Item.noFloat

/-- the wrapped dict -/
abbrev Mp4 := RefDict PKey PVal

/-- `dict[key]`: hashing an unhashable key is a `TypeError` -/
def mp4Get (s : Mp4) (k : PKey) : Except PyErr PVal :=
  if k.hashable then lookupE k s else .error .type_

def mp4Set (s : Mp4) (k : PKey) (v : PVal) : Except PyErr Mp4 :=
  match mp4Check k v with
  | .ok () => .ok (insert k v s)
  | .error e => .error e

def mp4Del (s : Mp4) (k : PKey) : Except PyErr Mp4 :=
  if k.hashable then
    match lookup k s with
    | some _ => .ok (erase k s)
    | none => .error .key
  else .error .type_

def mp4Impl : MapImpl Mp4 PKey PVal where
  keys s := keysOf s
  getitem := mp4Get
  setitem := mp4Set
  delitem := mp4Del

/-- keys are filed as they are (case-sensitive); an unhashable key is a `TypeError` on every
access; `__setitem__` raises what `mp4Check` says, else the value is stored as given -/
def mp4Policy : KPolicy PKey PVal where
  norm k := if k.hashable then .ok k else .error .type_
  coerce k v := match mp4Check k v with
    | .ok () => .ok (some v)
    | .error e => .error e

end Mutagen.Dict
