/-
Model/AsfAttr.lean — ASF attribute records at byte level (ASF specification 3.11 Extended Content
Description Object, 4.7 Metadata Object, 4.8 Metadata Library Object): what
ASFBaseAttribute.render / render_m / render_ml and the objects' render() write, strict decoders
written from the record layouts, the typed values (BOOL/DWORD/QWORD/WORD) and UTF-16-LE text
with the terminating NUL.
-/
import MutagenModel.Model.IntCodec
set_option linter.unusedVariables false
namespace Mutagen.AsfAttr
open Mutagen

/-- one attribute record; `name` is the UTF-16-LE name without its terminator, `data` the
rendered value (`_render()`); language / stream are 0 where the object has no such field -/
structure Attr where
  language : Nat
  stream : Nat
  name : Bytes
  typ : Nat
  data : Bytes
deriving DecidableEq, Repr

def nul2 : Bytes := [0, 0]

/-- value sizes the specification fixes per data type; BOOL is 4 bytes in the Extended Content
Description Object and 2 bytes in the Metadata / Metadata Library Objects -/
def sizeOK (typ len boolSize : Nat) : Bool :=
  if typ = 2 then len == boolSize
  else if typ = 3 then len == 4
  else if typ = 4 then len == 8
  else if typ = 5 then len == 2
  else if typ = 6 then len == 16
  else typ < 2

/-- ASFBaseAttribute.render(name): descriptor of the Extended Content Description Object -/
def renderECD (a : Attr) : Bytes :=
  toLE 2 (a.name.length + 2) ++ (a.name ++ nul2) ++ toLE 2 a.typ ++ toLE 2 a.data.length ++ a.data

/-- ASFBaseAttribute.render_ml(name) (render_m writes the same record with language 0) -/
def renderML (a : Attr) : Bytes :=
  toLE 2 a.language ++ toLE 2 a.stream ++ toLE 2 (a.name.length + 2) ++ toLE 2 a.typ ++ toLE 4 a.data.length ++
    (a.name ++ nul2) ++ a.data

/-- object payload after GUID and size: count, records -/
def encodeECD (as : List Attr) : Bytes := toLE 2 as.length ++ (as.map renderECD).flatten
def encodeML (as : List Attr) : Bytes := toLE 2 as.length ++ (as.map renderML).flatten

/-- a name field must end with the 2-byte terminator, which is not part of the name -/
def stripZ (n : Bytes) : Option Bytes :=
  if n.length < 2 ∨ n.drop (n.length - 2) ≠ nul2 then none else some (n.take (n.length - 2))

def decodeECDRecs : Nat → Bytes → Option (List Attr × Bytes)
  | 0, d => some ([], d)
  | n + 1, d =>
    if d.length < 2 then none
    else
      let nl := ofLE (d.take 2)
      let r1 := d.drop 2
      if r1.length < nl + 4 then none
      else match stripZ (r1.take nl) with
        | none => none
        | some name =>
          let r2 := r1.drop nl
          let typ := ofLE (r2.take 2)
          let vl := ofLE ((r2.drop 2).take 2)
          let r3 := r2.drop 4
          if r3.length < vl ∨ !sizeOK typ vl 4 then none
          else (decodeECDRecs n (r3.drop vl)).map fun (as, t) =>
            ({ language := 0, stream := 0, name := name, typ := typ, data := r3.take vl } :: as, t)

/-- strict: the declared number of descriptors fills the payload exactly -/
def decodeECD (d : Bytes) : Option (List Attr) :=
  if d.length < 2 then none
  else match decodeECDRecs (ofLE (d.take 2)) (d.drop 2) with
    | some (as, []) => some as
    | _ => none

def decodeMLRecs : Nat → Bytes → Option (List Attr × Bytes)
  | 0, d => some ([], d)
  | n + 1, d =>
    if d.length < 12 then none
    else
      let lang := ofLE (d.take 2)
      let stream := ofLE ((d.drop 2).take 2)
      let nl := ofLE ((d.drop 4).take 2)
      let typ := ofLE ((d.drop 6).take 2)
      let vl := ofLE ((d.drop 8).take 4)
      let r1 := d.drop 12
      if r1.length < nl + vl ∨ !sizeOK typ vl 2 then none
      else match stripZ (r1.take nl) with
        | none => none
        | some name =>
          (decodeMLRecs n ((r1.drop nl).drop vl)).map fun (as, t) =>
            ({ language := lang, stream := stream, name := name, typ := typ, data := (r1.drop nl).take vl } :: as, t)

def decodeML (d : Bytes) : Option (List Attr) :=
  if d.length < 2 then none
  else match decodeMLRecs (ofLE (d.take 2)) (d.drop 2) with
    | some (as, []) => some as
    | _ => none

/-! ## typed values -/

/-- ASFBoolAttribute._render(dword) / parse(dword): 4 bytes (ECD) or 2 bytes (Metadata objects) -/
def renderBool (v : Bool) (dword : Bool) : Bytes := toLE (if dword then 4 else 2) (if v then 1 else 0)
def parseBool (b : Bytes) : Bool := ofLE b == 1

/-- DWORD / QWORD / WORD: struct.pack("<L" / "<Q" / "<H") -/
def renderUInt (w v : Nat) : Bytes := toLE w v
def parseUInt (b : Bytes) : Nat := ofLE b

/-! ## UTF-16-LE text -/

def units1 (c : Nat) : List Nat :=
  if c < 0x10000 then [c] else [0xD800 + (c - 0x10000) / 1024, 0xDC00 + (c - 0x10000) % 1024]

def toUnits (cs : List Nat) : List Nat := (cs.map units1).flatten

def unitsLE (us : List Nat) : Bytes := (us.map (toLE 2)).flatten

/-- str.encode("utf-16-le") on a list of Unicode scalar values -/
def encodeUtf16 (cs : List Nat) : Bytes := unitsLE (toUnits cs)

def bytesToUnits : Bytes → Option (List Nat)
  | [] => some []
  | [_] => none
  | a :: b :: r => (bytesToUnits r).map (fun us => (a.toNat + 256 * b.toNat) :: us)

/-- strict: unpaired surrogates are rejected -/
def fromUnits : List Nat → Option (List Nat)
  | [] => some []
  | u :: r =>
    if 0xD800 ≤ u ∧ u < 0xDC00 then
      match r with
      | v :: r' =>
        if 0xDC00 ≤ v ∧ v < 0xE000 then (fromUnits r').map (fun cs => (0x10000 + (u - 0xD800) * 1024 + (v - 0xDC00)) :: cs)
        else none
      | [] => none
    else if 0xDC00 ≤ u ∧ u < 0xE000 then none
    else (fromUnits r).map (fun cs => u :: cs)

def decodeUtf16 (b : Bytes) : Option (List Nat) := (bytesToUnits b).bind fromUnits

def stripFront (cs : List Nat) : List Nat := cs.dropWhile (· == 0)
def stripNul (cs : List Nat) : List Nat := (stripFront (stripFront cs).reverse).reverse

/-- ASFUnicodeAttribute._render: the text and a terminating NUL -/
def renderText (cs : List Nat) : Bytes := encodeUtf16 cs ++ nul2
/-- ASFUnicodeAttribute.parse: decode, then strip NULs at both ends -/
def parseText (b : Bytes) : Option (List Nat) := (decodeUtf16 b).map stripNul

end Mutagen.AsfAttr
