/-
Model/Info/Aiff.lean — mutagen/aiff.py `AIFFInfo.__init__` and `read_float`, statement by statement, on
the bytes of the file (code side).  Chunk machinery: Model/Container/Iff.lean, dialect `aiff`.

`read_float` computes in IEEE doubles: `(himant * 0x100000000 + lomant) * pow(2.0, expon - 63)`.  The
model computes the same value in integers: the 64-bit mantissa is rounded to 53 significant bits (round
to nearest, ties to even — the int → float conversion of the multiplication), the power of two is exact
(`pow` raises OverflowError from 2.0**1024 on and gives 0.0 below 2.0**-1074), the product is exact
unless it reaches 2**1024 (then it is `inf`, and `int(inf)` raises OverflowError) or falls below the
normal range (then it is below 1 and `int()` gives 0 anyway); `int()` truncates.
-/
import MutagenModel.Model.Info.IffRead
set_option linter.unusedVariables false
namespace Mutagen.Info.Aiff
open Mutagen Mutagen.Iff Mutagen.Info

structure Info where
  channels : Int
  /-- also `sample_size` -/
  bitsPerSample : Int
  sampleRate : Nat
  bitrate : Int
  length : LExpr
deriving DecidableEq, Repr

/-- how many low bits a mantissa below 2^64 loses when it becomes a double -/
def sh53 (m : Nat) : Nat :=
  if m < 2 ^ 53 then 0 else if m < 2 ^ 54 then 1 else if m < 2 ^ 55 then 2 else if m < 2 ^ 56 then 3
  else if m < 2 ^ 57 then 4 else if m < 2 ^ 58 then 5 else if m < 2 ^ 59 then 6 else if m < 2 ^ 60 then 7
  else if m < 2 ^ 61 then 8 else if m < 2 ^ 62 then 9 else if m < 2 ^ 63 then 10 else 11

/-- `float(m)` for `m < 2^64`, as an integer: round to nearest, ties to even -/
def round53 (m : Nat) : Nat :=
  let s := sh53 m
  let q := m / 2 ^ s
  let r := m % 2 ^ s
  if 2 * r > 2 ^ s ∨ (2 * r = 2 ^ s ∧ q % 2 = 1) then (q + 1) * 2 ^ s else q * 2 ^ s

/-- `int(read_float(data))` for 10 bytes; `none`: OverflowError (from `read_float` or from `int()`) -/
def readFloatInt (b : Bytes) : Option Int :=
  let expon16 := ofBE (readAt b 0 2)
  let himant := ofBE (readAt b 2 4)
  let lomant := ofBE (readAt b 6 4)
  -- `'>h'`: negative means the sign bit is set; `expon + 0x8000`
  let neg : Bool := decide (expon16 ≥ 0x8000)
  let expon := if neg then expon16 - 0x8000 else expon16
  if expon = 0 ∧ himant = 0 ∧ lomant = 0 then some 0
  else if expon = 0x7FFF then none
  else
    let m := round53 (himant * 0x100000000 + lomant)
    -- pow(2.0, (expon - 16383) - 63)
    if expon ≥ 16383 + 63 + 1024 then none
    else
      let v := if expon ≥ 16446 then m * 2 ^ (expon - 16446) else m / 2 ^ (16446 - expon)
      if v ≥ 2 ^ 1024 then none else some (if neg then -(v : Int) else (v : Int))

/-- "COMM" -/
def idComm : Bytes := [0x43, 0x4F, 0x4D, 0x4D]

/-- `struct.unpack('>hLh10s', data[:18])` and the rest of `__init__` -/
def ofComm (data : Bytes) : Except PyErr Info :=
  let channels := signed16 (ofBE (readAt data 0 2))
  let frameCount := ofBE (readAt data 2 4)
  let sampleSize := signed16 (ofBE (readAt data 6 2))
  match readFloatInt (readAt data 8 10) with
  | none => .error .mutagen                               -- OverflowError → error("Invalid sample rate")
  | some r =>
    if r < 0 then .error .mutagen
    else
      .ok { channels := channels, bitsPerSample := sampleSize, sampleRate := r.toNat,
            bitrate := channels * sampleSize * r,
            -- the class attribute `length = 0` stays when the rate is 0
            length := if r ≠ 0 then .div (.nat frameCount) (.flt (.int r)) else .int 0 }

/-- `AIFFInfo(fileobj)` -/
def parse (f : Bytes) : Except PyErr Info :=
  match parseRoot aiff f with
  | .error e => .error e
  | .ok rs =>
    match walk aiff f rs with
    | .error e => .error e
    | .ok recs =>
      match find [idComm] recs with
      | none => .error .mutagen
      | some c =>
        let data := chunkRead aiff f c
        if data.length < 18 then .error .mutagen
        else ofComm data

end Mutagen.Info.Aiff
