/-
Model/Info/Tak.lean — mutagen/tak.py `TAKInfo.__init__`, `_parse_stream_info`,
`_parse_encoder_info` and the bit reader `_LSBBitReader` (`bits`, `_lsb`) with the inherited
`BitReader.skip / align / bytes`, statement by statement.

The reader state is the file from the current position on (`rem`), `_buffer` and `_bits`.
Bit operations are written as arithmetic: `buffer & (0xff >> (8 - count))` is
`buffer % 2^count` (count ≤ 8 in every call), `buffer >> count` is `buffer / 2^count`,
`(b << shift) | value` is `b·2^shift + value` (value < 2^shift at every call).
The two `assert`s are modelled (`AssertionError`) and proved unreachable
(`Mutagen.C05.tak_info_total`).  Quirks kept: `skip` with more bits than buffered drops the
buffered bits (`align`) and reads the remainder from fresh bytes; STREAM_INFO is accepted for
sizes 11..23 (the limits are the floats 10.875 and 23.625); ENCODER_INFO reads three bytes
whatever its size says; the last STREAM_INFO / ENCODER_INFO block wins; the position after a
block is `pos + size` even when more was read.
-/
import MutagenModel.Model.Info.Rd
set_option linter.unusedVariables false
namespace Mutagen.Info.Tak
open Mutagen Mutagen.Info

structure Info where
  channels : Nat
  sampleRate : Nat
  bitsPerSample : Nat
  length : Ratio
  /-- (major, minor, patch) of `encoder_info = "TAK %d.%d.%d"`, `none` for "" -/
  encoder : Option (Nat × Nat × Nat)
deriving DecidableEq, Repr

/-- `_LSBBitReader` -/
structure BR where
  rem : Bytes
  buffer : Nat
  bits : Nat
deriving DecidableEq, Repr

/-- `_lsb(count)` -/
def BR.lsb (r : BR) (count : Nat) : Nat × BR :=
  (r.buffer % 2 ^ count, { r with buffer := r.buffer / 2 ^ count, bits := r.bits - count })

/-- `for b in bytearray(data):` of `_LSBBitReader.bits` -/
def feed : Bytes → Nat → Nat → Nat → BR → Nat × BR
  | [], _, _, value, r => (value, r)
  | b :: bs, remaining, shift, value, r =>
    if remaining > 8 then feed bs (remaining - 8) (shift + 8) (b.toNat * 2 ^ shift + value) r
    else
      let p := ({ r with buffer := b.toNat, bits := 8 } : BR).lsb remaining
      feed bs remaining shift (p.1 * 2 ^ shift + value) p.2

/-- `_LSBBitReader.bits(count)`; a short read is `BitReaderError`, converted to `TAKHeaderError` -/
def BR.readBits (r : BR) (count : Nat) : Except PyErr (Nat × BR) :=
  let res : Except PyErr (Nat × BR) :=
    if count ≤ r.bits then .ok (r.lsb count)
    else
      let first := if r.bits > 0 then (r.lsb r.bits, count - r.bits, r.bits) else ((0, r), count, 0)
      let value := first.1.1
      let r1 := first.1.2
      let remaining := first.2.1
      let shift := first.2.2
      let nBytes := (remaining - r1.bits + 7) / 8
      let data := r1.rem.take nBytes
      if data.length ≠ nBytes then .error .mutagen
      else .ok (feed data remaining shift value { r1 with rem := r1.rem.drop nBytes })
  match res with
  | .error e => .error e
  | .ok (v, r') => if r'.bits < 8 then .ok (v, r') else .error .assertion

/-- `BitReader.skip(count)` (calls the overridden `bits`) -/
def BR.skip (r : BR) (count : Nat) : Except PyErr BR :=
  if count ≤ r.bits then (r.readBits count).map (·.2)
  else
    let count := count - r.bits
    let nBytes := count / 8
    let r1 : BR := { rem := r.rem.drop nBytes, buffer := 0, bits := 0 }
    (r1.readBits (count - nBytes * 8)).map (·.2)

/-- `BitReader.bytes(count)` -/
def BR.readBytes (r : BR) : Nat → Except PyErr (Bytes × BR)
  | count =>
    if r.bits = 0 then
      let data := r.rem.take count
      if data.length ≠ count then .error .mutagen else .ok (data, { r with rem := r.rem.drop count })
    else
      -- `bytes(bytearray(self.bits(8) for _ in range(count)))`
      let rec go : Nat → BR → Bytes → Except PyErr (Bytes × BR)
        | 0, r, acc => .ok (acc.reverse, r)
        | n + 1, r, acc =>
          match r.readBits 8 with
          | .error e => .error e
          | .ok (v, r') => go n r' (UInt8.ofNat v :: acc)
      go count r []

structure StreamInfo where
  numberOfSamples : Nat
  sampleRate : Nat
  bitsPerSample : Nat
  channels : Nat
deriving DecidableEq, Repr

/-- `_parse_stream_info(bitreader, size)`; `size < 10.875 or size > 23.625` -/
def parseStreamInfo (r : BR) (size : Nat) : Except PyErr (StreamInfo × BR) := do
  if size < 11 ∨ size > 23 then throw .mutagen
  let r ← r.skip 6
  let r ← r.skip 4
  let r ← r.skip 4
  let (n, r) ← r.readBits 35
  let r ← r.skip 3
  let (rate, r) ← r.readBits 18
  let (bits, r) ← r.readBits 5
  let (ch, r) ← r.readBits 4
  let r ← r.skip 1
  pure ({ numberOfSamples := n, sampleRate := rate + 6000, bitsPerSample := bits + 8, channels := ch + 1 }, r)

/-- `_parse_encoder_info`: (major, minor, patch) -/
def parseEncoderInfo (r : BR) : Except PyErr ((Nat × Nat × Nat) × BR) := do
  let (patch, r) ← r.readBits 8
  let (minor, r) ← r.readBits 8
  let (major, r) ← r.readBits 8
  pure ((major, minor, patch), r)

/-- b"tBaK" -/
def magic : Bytes := [0x74, 0x42, 0x61, 0x4b]

/-- the `while True:` loop.  `pos` is the file position of the next metadata header.  The fuel is
never used up: every round consumes at least the four header bytes. -/
def loop (f : Bytes) : Nat → Nat → BR → Option StreamInfo → Option (Nat × Nat × Nat) →
    Except PyErr (Option StreamInfo × Option (Nat × Nat × Nat))
  | fuel, pos, r, si, enc =>
    match r.readBits 7 with
    | .error e => .error e
    | .ok (type, r) =>
    match r.skip 1 with
    | .error e => .error e
    | .ok r =>
    match r.readBytes 3 with
    | .error e => .error e
    | .ok (sz, r) =>
      let size := ofLE sz
      let pos' := pos + 4
      if type = 0 then .ok (si, enc)
      else
        let step : Except PyErr (BR × Option StreamInfo × Option (Nat × Nat × Nat)) :=
          if type = 1 then (parseStreamInfo r size).map fun p => (p.2, some p.1, enc)
          else if type = 4 then (parseEncoderInfo r).map fun p => (p.2, si, some p.1)
          else .ok (r, si, enc)
        match step with
        | .error e => .error e
        | .ok (r, si, enc) =>
          if r.bits ≠ 0 then .error .assertion
          else
            match fuel with
            | 0 => .error .diverge
            | fuel + 1 => loop f fuel (pos' + size) { r with rem := f.drop (pos' + size) } si enc

def parse (f : Bytes) : Except PyErr Info :=
  let streamId := readAt f 0 4
  if streamId.length ≠ 4 ∨ streamId ≠ magic then .error .mutagen
  else
    match loop f f.length 4 { rem := f.drop 4, buffer := 0, bits := 0 } none none with
    | .error e => .error e
    | .ok (none, _) => .error .mutagen
    | .ok (some si, enc) =>
      .ok { channels := si.channels, sampleRate := si.sampleRate, bitsPerSample := si.bitsPerSample,
            length := if si.sampleRate > 0 then ⟨si.numberOfSamples, si.sampleRate⟩ else ⟨0, 1⟩,
            encoder := enc }

end Mutagen.Info.Tak
