/-
Model/Info/Mpeg.lean — mutagen/mp3/__init__.py MPEGFrame.__init__: the 32 header bits to
version / layer / bitrate / sample rate / channels / padding / frame length.
Tables come from Generated/Tables.lean (regenerated from the source on every run).
-/
import MutagenModel.Model.Bits
import MutagenModel.Generated.Tables
set_option linter.unusedVariables false
namespace Mutagen.Mpeg
open Mutagen

structure FrameInfo where
  /-- 10 × MPEG version: 10, 20, 25 -/
  version10 : Nat
  layer : Nat
  bitrate : Nat
  sampleRate : Nat
  channels : Nat
  mode : Nat
  padding : Bool
  crcProtected : Bool
  frameLength : Nat
deriving DecidableEq, Repr

def lookupBitrate (tbl : List (Nat × Nat × List Nat)) (ver lay idx : Nat) : Option Nat :=
  match tbl.find? (fun e => e.1 == ver && e.2.1 == lay) with
  | some (_, _, l) => l[idx]?
  | none => none

def lookupRate (tbl : List (Nat × List Nat)) (ver idx : Nat) : Option Nat :=
  match tbl.find? (fun e => e.1 == ver) with
  | some (_, l) => l[idx]?
  | none => none

/-- from the decoded header fields (sync already checked): `invalid header` → mutagen error;
a missing table entry would be a KeyError/IndexError -/
def ofFields (version layer protection bitrate sampleRate padding mode : Nat) : Except PyErr FrameInfo :=
  if version = 1 ∨ layer = 0 ∨ sampleRate = 3 ∨ bitrate = 15 ∨ bitrate = 0 then .error .mutagen
  else
    let ver := match version with | 0 => 25 | 2 => 20 | _ => 10
    let lay := 4 - layer
    match lookupBitrate Generated.mpegBitrates ver lay bitrate, lookupRate Generated.mpegRates ver sampleRate with
    | some br, some sr =>
      let bitrate' := br * 1000
      let (frameSize, slot) :=
        if lay = 1 then (384, 4) else if ver ≥ 20 ∧ lay = 3 then (576, 1) else (1152, 1)
      if sr = 0 then .error .zeroDiv
      else
        .ok { version10 := ver, layer := lay, bitrate := bitrate', sampleRate := sr,
              channels := if mode = 3 then 1 else 2, mode := mode, padding := padding = 1,
              crcProtected := protection = 0,
              frameLength := (frameSize / 8 / slot * bitrate' / sr + padding) * slot }
    | _, _ => .error .key

/-- MPEGFrame.__init__ on the bytes at the frame offset (truncated or no sync: HeaderNotFoundError) -/
def decodeHeader (b : Bytes) : Except PyErr FrameInfo :=
  match readFields [11, 2, 2, 1, 4, 2, 1, 1, 2, 6] (bytesToBits (b.take 4)) with
  | some ([sync, version, layer, protection, bitrate, sampleRate, padding, _priv, mode, _rest], _) =>
    if sync ≠ 0x7ff then .error .mutagen
    else ofFields version layer protection bitrate sampleRate padding mode
  | _ => .error .mutagen

end Mutagen.Mpeg
