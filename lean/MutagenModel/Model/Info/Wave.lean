/-
Model/Info/Wave.lean — mutagen/wave.py `WaveStreamInfo.__init__`, statement by statement, on the bytes
of the file (code side).  The chunk machinery (`_WaveFile(fileobj)`, `wave_file['fmt']`) is the one of
Model/Container/Iff.lean (dialect `wave`): `parseRoot` (RIFF root, form type "WAVE"), `walk`
(`subchunks()`, also run by `'ID3' in self` in `_WaveFile.__init__`), `find`.
-/
import MutagenModel.Model.Info.IffRead
set_option linter.unusedVariables false
namespace Mutagen.Info.Wave
open Mutagen Mutagen.Iff Mutagen.Info

structure Info where
  audioFormat : Nat
  channels : Nat
  sampleRate : Nat
  bitsPerSample : Nat
  /-- `channels * bits_per_sample * sample_rate` -/
  bitrate : Nat
  length : LExpr
deriving DecidableEq, Repr

/-- "fmt" (the id after `rstrip()`) -/
def idFmt : Bytes := [0x66, 0x6D, 0x74]
/-- "data" -/
def idData : Bytes := [0x64, 0x61, 0x74, 0x61]

/-- `struct.unpack('<HHLLHH', data[:16])` and the rest of `__init__`, once the fmt chunk's data is read -/
def ofFmt (data : Bytes) (dataChunk : Option Rec) : Info :=
  let audioFormat := ofLE (readAt data 0 2)
  let channels := ofLE (readAt data 2 2)
  let sampleRate := ofLE (readAt data 4 4)
  let blockAlign := ofLE (readAt data 12 2)
  let bits := ofLE (readAt data 14 2)
  -- `self._number_of_samples = 0`, then `data_chunk.data_size / block_align` (a float)
  let samples : LExpr :=
    if blockAlign > 0 then
      match dataChunk with
      | some c => .div (.nat c.dataSize) (.nat blockAlign)
      | none => .int 0
    else .int 0
  { audioFormat := audioFormat, channels := channels, sampleRate := sampleRate, bitsPerSample := bits,
    bitrate := channels * bits * sampleRate,
    -- the class attribute `length = 0.0` stays when the rate is 0
    length := if sampleRate > 0 then .div samples (.nat sampleRate) else .flt (.int 0) }

/-- `WaveStreamInfo(fileobj)`.  Every `raise` is `error` / `InvalidChunk` (MutagenError). -/
def parse (f : Bytes) : Except PyErr Info :=
  match parseRoot wave f with
  | .error e => .error e
  | .ok rs =>
    match walk wave f rs with
    | .error e => .error e
    | .ok recs =>
      match find [idFmt] recs with
      | none => .error .mutagen                       -- KeyError → error
      | some c =>
        let data := chunkRead wave f c
        if data.length < 16 then .error .mutagen      -- InvalidChunk
        else .ok (ofFmt data (find [idData] recs))

end Mutagen.Info.Wave
