/-
Model/Info/Ac3.lean — mutagen/ac3.py `AC3Info.__init__`, `_read_header`, `_read_header_normal`,
`_read_header_enhanced`, `_skip_unused_header_bits_normal / _enhanced`, `_get_channels`,
`_guess_length`, statement by statement.  The `BitReader` is the bit-position reader of
Model/Info/Aac.lean (created at file offset 2).

`length = 8.0 · (file size - tell()) / bitrate` is kept as its operands; it is `None` when the bit
rate is 0.  Tables come from Generated/Tables.lean; a missing row would be an `IndexError` (the code
only catches `KeyError`).

The header functions are written as `…Fields` (the bit reads in order) and `…Values` (the checks, table
look-ups and arithmetic): the `raise AC3Error` statements that stand between the reads are evaluated after the
fixed fields were read; a file that ends in between gives BitReaderError instead, which `_read_header` converts
to the same AC3Error.

Quirks kept: the bitstream id is taken from byte 5 before anything else (also for E-AC-3, where
those bits belong to other fields of short headers); the optional fields behind the channel data
are skipped only to find where the audio starts; in the E-AC-3 skipper a set `mixmdate` stops the
skipping; a skip may run past the end of the file without an error.
-/
import MutagenModel.Model.Info.Aac
set_option linter.unusedVariables false
namespace Mutagen.Info.Ac3
open Mutagen Mutagen.Info Mutagen.Info.Aac

structure Info where
  channels : Nat
  sampleRate : Nat
  bitrate : Nat
  /-- `none` is Python's None -/
  length : Option Ratio
  /-- codec "ec-3" (true) or "ac-3" -/
  eac3 : Bool
deriving DecidableEq, Repr

/-- `if c: r.skip(n)` -/
def condSkip (f : Bytes) (r : R) (c : Bool) (n : Nat) : Option R := if c then r.skip f n else some r

/-- `x = r.bits(n) if c else d` -/
def condBits (f : Bytes) (r : R) (c : Bool) (n d : Nat) : Option (Nat × R) := if c then r.bits f n else some (d, r)

/-- `if r.bits(1): r.skip(n)` -/
def optSkip (f : Bytes) (r : R) (n : Nat) : Option R :=
  match r.bits f 1 with
  | none => none
  | some (b, r) => if b ≠ 0 then r.skip f n else some r

/-- the dialnorm / compr / langcod / audprodi group of `_skip_unused_header_bits_normal` -/
def skipGroupNormal (f : Bytes) (r : R) : Option R := do
  let r ← r.skip f 5
  let r ← optSkip f r 8
  let r ← optSkip f r 8
  optSkip f r 7

/-- `if r.bits(1): addbsil = r.bits(6); r.skip((addbsil + 1) * 8)` -/
def skipAddbsi (f : Bytes) (r : R) : Option R :=
  match r.bits f 1 with
  | none => none
  | some (b, r) =>
    if b ≠ 0 then
      match r.bits f 6 with
      | none => none
      | some (addbsil, r) => r.skip f ((addbsil + 1) * 8)
    else some r

/-- `if c: <dialnorm group>` -/
def condGroup (f : Bytes) (r : R) (c : Bool) : Option R := if c then skipGroupNormal f r else some r

/-- `if c: if r.bits(1): r.skip(n)` -/
def condOptSkip (f : Bytes) (r : R) (c : Bool) (n : Nat) : Option R := if c then optSkip f r n else some r

def skipUnusedNormal (f : Bytes) (r : R) (channelMode : Nat) : Option R := do
  let r ← skipGroupNormal f r
  let r ← condGroup f r (decide (channelMode = 0))
  let r ← r.skip f 2
  let (timecod1e, r) ← r.bits f 1
  let (timecod2e, r) ← r.bits f 1
  let r ← condSkip f r (decide (timecod1e ≠ 0)) 14
  let r ← condSkip f r (decide (timecod2e ≠ 0)) 14
  skipAddbsi f r

/-- `r.skip(5); if r.bits(1): r.skip(8)` (dialnorm, compr) -/
def skipDialnormCompr (f : Bytes) (r : R) : Option R :=
  match r.skip f 5 with
  | none => none
  | some r => optSkip f r 8

/-- the informational metadata of `_skip_unused_header_bits_enhanced` (behind `infomdate = 1`) -/
def skipInfoBody (f : Bytes) (r : R) (channelMode srCode : Nat) : Option R := do
  let r ← r.skip f 5
  let r ← condSkip f r (decide (channelMode = 2)) 4
  let r ← condSkip f r (decide (channelMode ≠ 2 ∧ channelMode ≥ 6)) 2
  let r ← optSkip f r 8
  let r ← condOptSkip f r (decide (channelMode = 0)) 8
  condSkip f r (decide (srCode < 3)) 1

/-- `if r.bits(1): <informational metadata>` -/
def skipInfoEnhanced (f : Bytes) (r : R) (channelMode srCode : Nat) : Option R :=
  match r.bits f 1 with
  | none => none
  | some (infomdate, r) => if infomdate ≠ 0 then skipInfoBody f r channelMode srCode else some r

/-- the rest of `_skip_unused_header_bits_enhanced` behind `mixmdate = 0` -/
def skipAfterMix (f : Bytes) (r : R) (frameType channelMode srCode numblocksCode : Nat) : Option R := do
  let r ← skipInfoEnhanced f r channelMode srCode
  let r ← condSkip f r (decide (frameType = 0 ∧ numblocksCode = 3)) 1
  let r ← condOptSkip f r (decide (frameType = 2 ∧ numblocksCode ≠ 3)) 6
  skipAddbsi f r

/-- `if c: r.skip(5); if r.bits(1): r.skip(8)` -/
def condDialnormCompr (f : Bytes) (r : R) (c : Bool) : Option R := if c then skipDialnormCompr f r else some r

def skipUnusedEnhanced (f : Bytes) (r : R) (frameType channelMode srCode numblocksCode : Nat) : Option R := do
  let r ← skipDialnormCompr f r
  let r ← condDialnormCompr f r (decide (channelMode = 0))
  let r ← condOptSkip f r (decide (frameType = 1)) 16
  let (mixmdate, r) ← r.bits f 1
  if mixmdate ≠ 0 then some r else skipAfterMix f r frameType channelMode srCode numblocksCode

/-- the fixed fields of `_read_header_normal` in reading order: (sr_code, frame_size_code, channel_mode, lfe_on);
`none` is BitReaderError.  (The two `raise AC3Error` between the reads are evaluated in `normalValues`: a file
that ends before `lfe_on` gives BitReaderError instead, which `_read_header` converts to the same AC3Error.) -/
def normalFields (f : Bytes) (r : R) : Option (Nat × Nat × Nat × Nat × R) := do
  let r ← r.skip f 16
  let (srCode, r) ← r.bits f 2
  let (frameSizeCode, r) ← r.bits f 6
  let r ← r.skip f 5
  let r ← r.skip f 3
  let (cm, r) ← r.bits f 3
  let r ← condSkip f r (decide (cm % 2 = 1 ∧ cm ≠ 1)) 2
  let r ← condSkip f r (decide (cm / 4 % 2 = 1)) 2
  let r ← condSkip f r (decide (cm = 2)) 2
  let (lfeOn, r) ← r.bits f 1
  pure (srCode, frameSizeCode, cm, lfeOn, r)

/-- the checks and table look-ups of `_read_header_normal`: (sample_rate, bitrate, channels) -/
def normalValues (bsid srCode frameSizeCode cm lfeOn : Nat) : Except PyErr (Nat × Nat × Nat) :=
  if srCode = 3 then .error .mutagen
  else if frameSizeCode > 37 then .error .mutagen
  else
    let srShift := max bsid 8 - 8
    match Generated.ac3SampleRates[srCode]?, Generated.ac3Bitrates[frameSizeCode / 2]?, Generated.ac3Channels[cm]? with
    | some sr, some br, some ch => .ok (sr / 2 ^ srShift, br * 1000 / 2 ^ srShift, ch + lfeOn)
    | some _, some _, none => .error .mutagen     -- `_get_channels` turns KeyError into AC3Error
    | _, _, _ => .error .index

/-- `_read_header_normal`; `none` is BitReaderError -/
def readNormal (f : Bytes) (r : R) (bsid : Nat) : Option (Except PyErr (Nat × Nat × Nat × R)) :=
  match normalFields f r with
  | none => none
  | some (srCode, frameSizeCode, cm, lfeOn, r) =>
    match normalValues bsid srCode frameSizeCode cm lfeOn with
    | .error e => some (.error e)
    | .ok (sr, br, ch) =>
      match skipUnusedNormal f r cm with
      | none => none
      | some r => some (.ok (sr, br, ch, r))

/-- the fixed fields of `_read_header_enhanced`: (frame_type, frmsiz field, sr_code, sr_code2, numblocks_code,
channel_mode, lfe_on) and the reader behind the bitstream id -/
def enhancedFields (f : Bytes) (r : R) : Option (Nat × Nat × Nat × Nat × Nat × Nat × Nat × R) := do
  let (frameType, r) ← r.bits f 2
  let r ← r.skip f 3
  let (fs, r) ← r.bits f 11
  let (srCode, r) ← r.bits f 2
  let (srCode2, r) ← condBits f r (decide (srCode = 3)) 2 0
  let (numblocksCode, r) ← condBits f r (decide (srCode ≠ 3)) 2 3
  let (cm, r) ← r.bits f 3
  let (lfeOn, r) ← r.bits f 1
  let r ← r.skip f 5
  pure (frameType, fs, srCode, srCode2, numblocksCode, cm, lfeOn, r)

/-- the checks and computations of `_read_header_enhanced`: (sample_rate, bitrate, channels) -/
def enhancedValues (frameType fs srCode srCode2 numblocksCode cm lfeOn : Nat) : Except PyErr (Nat × Nat × Nat) :=
  if frameType = 3 then .error .mutagen
  else
    let frameSize := (fs + 1) * 2
    if frameSize < 7 then .error .mutagen
    else if srCode = 3 ∧ srCode2 = 3 then .error .mutagen
    else
      match Generated.ac3SampleRates[if srCode = 3 then srCode2 else srCode]? with
      | none => .error .index
      | some sr0 =>
        let sampleRate := if srCode = 3 then sr0 / 2 else sr0
        match Generated.eac3Blocks[numblocksCode]? with
        | none => .error .index
        | some blocks =>
          if blocks * 256 = 0 then .error .zeroDiv
          else
            match Generated.ac3Channels[cm]? with
            | none => .error .mutagen
            | some ch => .ok (sampleRate, 8 * frameSize * sampleRate / (blocks * 256), ch + lfeOn)

/-- `_read_header_enhanced` -/
def readEnhanced (f : Bytes) (r : R) : Option (Except PyErr (Nat × Nat × Nat × R)) :=
  match enhancedFields f r with
  | none => none
  | some (frameType, fs, srCode, srCode2, numblocksCode, cm, lfeOn, r) =>
    match enhancedValues frameType fs srCode srCode2 numblocksCode cm lfeOn with
    | .error e => some (.error e)
    | .ok (sr, br, ch) =>
      match skipUnusedEnhanced f r frameType cm srCode numblocksCode with
      | none => none
      | some r => some (.ok (sr, br, ch, r))

def parse (f : Bytes) : Except PyErr Info :=
  let header := readAt f 0 6
  if header.length < 6 then .error .mutagen
  else if ¬ startsWith header [0x0b, 0x77] then .error .mutagen
  else
    let bsid := uLE header 5 1 / 8
    if bsid > 16 then .error .mutagen
    else
      let r : R := { start := 2, pos := 0 }
      match (if bsid ≤ 10 then readNormal f r bsid else readEnhanced f r) with
      | none => .error .mutagen
      | some (.error e) => .error e
      | some (.ok (sampleRate, bitrate, channels, r)) =>
        let start := 2 + (r.pos + 7) / 8
        .ok { channels := channels, sampleRate := sampleRate, bitrate := bitrate,
              length := if bitrate = 0 then none else some ⟨8 * ((f.length : Int) - start), bitrate⟩,
              eac3 := bsid > 10 }

end Mutagen.Info.Ac3
