/-
Model/Info/OptimFROG.lean — mutagen/optimfrog.py `OptimFROGInfo.__init__`, statement by statement.

Quirks kept: always 76 bytes are read (a shorter file is "not an OptimFROG file"); sizes 12 and
≥ 15 are accepted; `bits_per_sample` is `SAMPLE_TYPE_BITS.get(sample_type)` (None for a type
outside the table); the length is the literal 0.0 for rate 0; the encoder string is built from
the decimal digits of `(encoder_id >> 4) + 4500` (always four digits).
-/
import MutagenModel.Model.Info.Rd
import MutagenModel.Generated.Tables
set_option linter.unusedVariables false
namespace Mutagen.Info.OptimFROG
open Mutagen Mutagen.Info

structure Info where
  channels : Nat
  sampleRate : Nat
  /-- `none` is Python's None -/
  bitsPerSample : Option Nat
  length : Ratio
  /-- the characters of `encoder_info` -/
  encoderInfo : List Char
deriving DecidableEq, Repr

/-- b"OFR " -/
def magic : Bytes := [0x4f, 0x46, 0x52, 0x20]

/-- `"%s.%s" % (version[0], version[1:])` with `version = str(v)` -/
def encoderString (v : Nat) : List Char :=
  let version := Nat.toDigits 10 v
  version.take 1 ++ ['.'] ++ version.drop 1

def parse (f : Bytes) : Except PyErr Info :=
  let header := readAt f 0 76
  if header.length ≠ 76 ∨ ¬ startsWith header magic then .error .mutagen
  else
    let dataSize := uLE header 4 4
    if dataSize ≠ 12 ∧ dataSize < 15 then .error .mutagen
    else
      let totalSamples : Nat := uLE header 8 4 + uLE header 12 2 * 2 ^ 32
      let sampleType := uLE header 14 1
      let channels : Nat := uLE header 15 1 + 1
      let sampleRate := uLE header 16 4
      .ok { channels := channels, sampleRate := sampleRate,
            bitsPerSample := (Generated.ofrSampleTypeBits.find? (·.1 == sampleType)).map (·.2),
            length := if sampleRate ≠ 0 then ⟨totalSamples, (channels * sampleRate : Nat)⟩ else ⟨0, 1⟩,
            encoderInfo := if dataSize ≥ 15 then encoderString (uLE header 20 2 / 16 + 4500) else [] }

end Mutagen.Info.OptimFROG
