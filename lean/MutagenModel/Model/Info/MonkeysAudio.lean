/-
Model/Info/MonkeysAudio.lean — mutagen/monkeysaudio.py `MonkeysAudioInfo.__init__`, statement by
statement.

Quirks kept: always 76 bytes are read (a shorter file is "not a Monkey's Audio file"); for
version ≥ 3980 the header is taken from the fixed offset 56..76 (descriptor assumed to be 52
bytes); for older versions `bits_per_sample` is 0 unless the bytes 48.. start with b"WAVEfmt"
(an embedded RIFF header at offset 40), in which case it is the 16-bit word at 74; the length
is the literal 0.0 when the rate is 0 or there are no frames.  `version` is the raw word
(Python divides it by 1000.0).
-/
import MutagenModel.Model.Info.Rd
set_option linter.unusedVariables false
namespace Mutagen.Info.MonkeysAudio
open Mutagen Mutagen.Info

structure Info where
  /-- `info.version * 1000` -/
  version : Nat
  channels : Nat
  sampleRate : Nat
  bitsPerSample : Nat
  length : Ratio
deriving DecidableEq, Repr

structure Raw where
  blocksPerFrame : Nat
  finalFrameBlocks : Nat
  totalFrames : Nat
  bitsPerSample : Nat
  channels : Nat
  sampleRate : Nat
deriving DecidableEq, Repr

/-- b"MAC " -/
def magic : Bytes := [0x4d, 0x41, 0x43, 0x20]
/-- b"WAVEfmt" -/
def waveFmt : Bytes := [0x57, 0x41, 0x56, 0x45, 0x66, 0x6d, 0x74]

/-- `struct.unpack("<IIIHHI", header[56:76])` -/
def rawNew (header : Bytes) : Raw :=
  { blocksPerFrame := uLE header 56 4, finalFrameBlocks := uLE header 60 4, totalFrames := uLE header 64 4,
    bitsPerSample := uLE header 68 2, channels := uLE header 70 2, sampleRate := uLE header 72 4 }

def rawOld (version : Nat) (header : Bytes) : Raw :=
  let compressionLevel := uLE header 6 2
  { channels := uLE header 10 2, sampleRate := uLE header 12 4,
    totalFrames := uLE header 24 4, finalFrameBlocks := uLE header 28 4,
    blocksPerFrame :=
      if version ≥ 3950 then 73728 * 4
      else if version ≥ 3900 ∨ (version ≥ 3800 ∧ compressionLevel = 4000) then 73728
      else 9216,
    bitsPerSample := if startsWith (readAt header 48 28) waveFmt then uLE header 74 2 else 0 }

/-- the statements after the version switch -/
def finish (version : Nat) (r : Raw) : Info :=
  { version := version, channels := r.channels, sampleRate := r.sampleRate, bitsPerSample := r.bitsPerSample,
    length :=
      if r.sampleRate ≠ 0 ∧ r.totalFrames > 0 then
        ⟨((r.totalFrames - 1) * r.blocksPerFrame + r.finalFrameBlocks : Nat), r.sampleRate⟩
      else ⟨0, 1⟩ }

def parse (f : Bytes) : Except PyErr Info :=
  let header := readAt f 0 76
  if header.length ≠ 76 ∨ ¬ startsWith header magic then .error .mutagen
  else
    let version := uLE header 4 2
    .ok (finish version (if version ≥ 3980 then rawNew header else rawOld version header))

end Mutagen.Info.MonkeysAudio
