/-
Model/Info/Dsf.lean — mutagen/dsf.py: `DSFFile(fileobj)` (`DSDChunk.load`, `FormatChunk.load`,
`DataChunk.load`, each reading from where the previous one stopped) and the properties of `DSFInfo`
(code side).  `DSFInfo.length` is computed when it is read: `float(sample_count) / sample_rate`; `FormatChunk.load`
refuses a sampling frequency of 0 (since 71557fa; before, the file loaded and reading `info.length`
raised ZeroDivisionError).  `parse` is "load, then read every attribute".
-/
import MutagenModel.Model.Info.Common
set_option linter.unusedVariables false
namespace Mutagen.Info.Dsf
open Mutagen Mutagen.Info

/-- the fields `FormatChunk.load` keeps -/
structure Fmt where
  channelType : Nat
  channelNum : Nat
  samplingFrequency : Nat
  bitsPerSample : Nat
  sampleCount : Nat
deriving DecidableEq, Repr

structure Info where
  channels : Nat
  sampleRate : Nat
  bitsPerSample : Nat
  /-- `sample_rate * bits_per_sample * channels` -/
  bitrate : Nat
  length : LExpr
deriving DecidableEq, Repr

/-- `DSFFile(fileobj)` with the file object at 0 -/
def load (f : Bytes) : Except PyErr Fmt :=
  -- DSDChunk.load
  let d := readAt f 0 28
  if d.length ≠ 28 then .error .mutagen
  else if readAt d 0 4 ≠ ascii "DSD " then .error .mutagen
  else if ofLE (readAt d 4 8) ≠ 28 then .error .mutagen
  else if ofLE (readAt d 20 8) > 2 ^ 63 - 1 then .error .mutagen
  else
    -- FormatChunk.load
    let m := readAt f 28 52
    if m.length ≠ 52 then .error .mutagen
    else if readAt m 0 4 ≠ ascii "fmt " then .error .mutagen
    else if ofLE (readAt m 4 8) ≠ 52 then .error .mutagen
    else if ofLE (readAt m 12 4) ≠ 1 then .error .mutagen
    else if ofLE (readAt m 16 4) ≠ 0 then .error .mutagen
    else if ofLE (readAt m 28 4) = 0 then .error .mutagen       -- "sampling frequency can't be zero"
    else
      -- DataChunk.load
      let a := readAt f 80 12
      if a.length ≠ 12 then .error .mutagen
      else if readAt a 0 4 ≠ ascii "data" then .error .mutagen
      else if ofLE (readAt a 4 8) < 12 then .error .mutagen
      else
        .ok { channelType := ofLE (readAt m 20 4), channelNum := ofLE (readAt m 24 4),
              samplingFrequency := ofLE (readAt m 28 4), bitsPerSample := ofLE (readAt m 32 4),
              sampleCount := ofLE (readAt m 36 8) }

/-- reading `channels`, `sample_rate`, `bits_per_sample`, `bitrate`, `length` of `DSFInfo(fmt_chunk)`
(the sampling frequency is not 0: `FormatChunk.load` refuses that) -/
def attrs (c : Fmt) : Except PyErr Info :=
  .ok { channels := c.channelNum, sampleRate := c.samplingFrequency, bitsPerSample := c.bitsPerSample,
             bitrate := c.samplingFrequency * c.bitsPerSample * c.channelNum,
             length := .div (.flt (.nat c.sampleCount)) (.nat c.samplingFrequency) }

def parse (f : Bytes) : Except PyErr Info :=
  match load f with
  | .error e => .error e
  | .ok c => attrs c

end Mutagen.Info.Dsf
