/-
Model/Info/MpegInfo.lean — mutagen/mp3/__init__.py `MPEGInfo.__init__` (code side): `skip_id3`, the sync
search `iter_sync`, `MPEGFrame(fileobj)` with `_parse_vbr_header`, the "up to four consecutive frames" logic
with its `sketchy` handling, the length estimate from the file size; and mutagen/mp3/_util.py: `XingHeader`,
`LAMEHeader.parse_version`, `LAMEHeader.__init__`, `guess_settings`, `VBRIHeader`.
The 4-byte frame header is Model/Info/Mpeg.lean `decodeHeader` (tables regenerated from the source).

Floats: `length`, the replay-gain values and the Xing / VBRI bitrates are expression trees over Python ints
(`LExpr`; `NumExpr` adds `round(x)` — `intround` — and `int(x)`); the tie lets Python evaluate them.

`iter_sync` reads the file in chunks of 2, 4, 8, … bytes and looks for 0xFF followed by a byte with the top
three bits set, inside a chunk and across the boundary of two chunks; the consumer's seeks do not affect it.
What it yields is every such position among the first `max_read` bytes behind the ID3 tags, in order:
`syncScan`.  `syncChunks` is the chunk loop itself; `syncChunks … = syncScan …` on every input is proved
(Proofs/Info/MpegSync.lean, `mpeg_iter_sync_chunks`), and the driver exposes both for the tie with the real generator.
-/
import MutagenModel.Model.Info.Mpeg
import MutagenModel.Model.Info.Common
import MutagenModel.Generated.Vbr
set_option linter.unusedVariables false
namespace Mutagen.Info.Mp3
open Mutagen Mutagen.Info

/-- an int, `round(x)` (`intround`: ties to even) or `int(x)` of a float expression -/
inductive NumExpr
  | int (n : Int)
  | round (x : LExpr)
  | trunc (x : LExpr)
deriving DecidableEq, Repr, Inhabited

def NumExpr.render : NumExpr → String
  | .int n => if n < 0 then s!"({n})" else s!"{n}"
  | .round x => s!"round({x.render})"
  | .trunc x => s!"int({x.render})"

/-! ### skip_id3 -/

/-- `BitPaddedInt(insize)` of four bytes: the low seven bits of each -/
def bitPadded (b : Bytes) : Nat := b.foldl (fun acc x => acc * 128 + x.toNat % 128) 0

/-- the loop of `skip_id3` with the file object at `pos`: the position it leaves (possibly behind the end) -/
def skipId3 (f : Bytes) : Nat → Nat → Nat
  | 0, pos => pos
  | fuel + 1, pos =>
    let idata := readAt f pos 10
    if idata.length = 10 ∧ idata.take 3 = [0x49, 0x44, 0x33] ∧ bitPadded (idata.drop 6) > 0 then
      skipId3 f fuel (pos + 10 + bitPadded (idata.drop 6))
    else pos

/-! ### iter_sync -/

def isSecond (b : UInt8) : Bool := b.toNat / 32 = 7

/-- the positions `pos ≤ i`, `i + 1 < stop`, with `f[i] = 0xFF` and the top three bits of `f[i+1]` set -/
def syncScanFrom : Bytes → Nat → Nat → List Nat
  | x :: y :: r, i, n => (if x = 0xFF ∧ isSecond y ∧ n ≥ 2 then [i] else []) ++ syncScanFrom (y :: r) (i + 1) (n - 1)
  | _, _, _ => []

/-- what `iter_sync(fileobj, max_read)` yields with the file object at `pos` -/
def syncScan (f : Bytes) (pos maxRead : Nat) : List Nat :=
  syncScanFrom (f.drop pos) pos (min maxRead (f.length - pos))

/-- the chunk loop of `iter_sync` itself: `read` bytes so far, chunk `size`, `last` byte of the previous chunk -/
def syncChunks (f : Bytes) (maxRead : Nat) : Nat → Nat → Nat → Nat → Option UInt8 → List Nat
  | 0, _, _, _, _ => []
  | fuel + 1, pos, read, size, last =>
    if read < maxRead then
      let new := readAt f pos (min (maxRead - read) size)
      if new.isEmpty then []
      else
        let boundary := match last, new.head? with
          | some l, some h => if l = 0xFF ∧ isSecond h then [pos - 1] else []
          | _, _ => []
        boundary ++ syncScanFrom new pos new.length ++
          syncChunks f maxRead fuel (pos + new.length) (read + new.length) (size * 2) new.getLast?
    else []

/-! ### XingHeader, LAMEHeader, VBRIHeader -/

def asciiB (s : String) : Bytes := s.toList.map fun c => UInt8.ofNat c.toNat

/-- `"%d" % n` -/
def decimal (n : Int) : Bytes := asciiB (toString n)

/-- `LAMEHeader.parse_version` on the 20 bytes read: `none` = LAMEError; else the version, its description and
whether the extended header follows -/
def parseVersion (data : Bytes) : Option ((Nat × Nat) × Bytes × Bool) :=
  if data.length ≠ 20 then none
  else if ¬ ((asciiB "LAME").isPrefixOf data ∨ (asciiB "L3.99").isPrefixOf data) then none
  else
    let d := data.dropWhile fun b => (asciiB "EMAL").contains b
    let major := d.take 1
    let d := (d.drop 1).dropWhile fun b => b = 0x2E
    let minor := d.takeWhile fun b => 48 ≤ b.toNat ∧ b.toNat ≤ 57
    let d := d.drop minor.length
    -- int(major.decode("ascii")), int(minor.decode("ascii")): ValueError → LAMEError
    match major with
    | [mj] =>
      if ¬ (48 ≤ mj.toNat ∧ mj.toNat ≤ 57) ∨ minor = [] then none
      else
        let ma := mj.toNat - 48
        let mi := minor.foldl (fun acc b => acc * 10 + (b.toNat - 48)) 0
        let early : Bool := decide (ma < 3 ∨ (ma = 3 ∧ mi < 90)) ||
          (decide (ma = 3 ∧ mi = 90) && decide (11 ≤ d.length ∧ d[d.length - 11]? = some 0x28))
        if early then
          -- data.strip(b"\x00").rstrip()
          let isWs : UInt8 → Bool := fun b => b = 0x20 ∨ (9 ≤ b.toNat ∧ b.toNat ≤ 13)
          let s := ((d.dropWhile (· = 0)).reverse.dropWhile (· = 0)).dropWhile isWs |>.reverse
          let flagString := if s.all (fun b => b.toNat < 128) then s else asciiB " (?)"
          some ((ma, mi), decimal ma ++ asciiB "." ++ decimal mi ++ flagString, false)
        else if d.length < 11 then none
        else
          let flag := ((d.take (d.length - 11)).reverse.dropWhile (· = 0)).reverse
          let (patch, flagString) : Bytes × Bytes :=
            if flag = asciiB "a" then ([], asciiB " (alpha)")
            else if flag = asciiB "b" then ([], asciiB " (beta)")
            else if flag = asciiB "r" then (asciiB ".1+", [])
            else if flag = asciiB " " then (if ma > 3 ∨ (ma = 3 ∧ mi > 96) then asciiB ".0" else asciiB ".0+", [])
            else if flag = [] ∨ flag = asciiB "." then (asciiB ".0+", [])
            else ([], asciiB " (?)")
          some ((ma, mi), decimal ma ++ asciiB "." ++ decimal mi ++ patch ++ flagString, true)
    | _ => none

/-- the fields of `LAMEHeader` the info needs -/
structure Lame where
  vbrMethod : Nat
  lowpass : Nat
  quality : Int
  vbrQuality : Int
  trackPeak : Option LExpr
  trackGain : Option LExpr
  albumGain : Option LExpr
  encodingFlags : Nat
  athType : Nat
  bitrate : Nat
  delay : Nat
  padding : Nat
  presetUsed : Nat
deriving DecidableEq, Repr

/-- bits `[p, p + c)` of the 27 bytes (MSB first) -/
def bitsOf (payload : Bytes) (p c : Nat) : Nat := ofBE payload / 2 ^ (216 - p - c) % 2 ^ c

/-- `LAMEHeader(xing, fileobj)` on the 27 bytes read; `none` = LAMEError -/
def parseLame (vbrScale : Int) (payload : Bytes) : Option Lame :=
  if payload.length ≠ 27 then none
  else if bitsOf payload 0 4 ≠ 0 then none
  else
    let peak := bitsOf payload 16 32
    let tgType := bitsOf payload 48 3
    let tgSign := bitsOf payload 54 1
    let tgAdj : LExpr := .div (.nat (bitsOf payload 55 9)) (.flt (.int 10))
    let tgAdj := if tgSign = 1 then LExpr.mul tgAdj (.int (-1)) else tgAdj
    let agType := bitsOf payload 64 3
    let agSign := bitsOf payload 70 1
    let agAdj : LExpr := .div (.nat (bitsOf payload 71 9)) (.flt (.int 10))
    let agAdj := if agSign = 1 then LExpr.mul agAdj (.int (-1)) else agAdj
    some { vbrMethod := bitsOf payload 4 4, lowpass := bitsOf payload 8 8 * 100,
           quality := (100 - vbrScale) % 10, vbrQuality := (100 - vbrScale) / 10,
           trackPeak := if peak = 0 then none else some (.div (.nat peak) (.nat (2 ^ 23))),
           trackGain := if tgType = 1 then some tgAdj else none,
           albumGain := if agType = 2 then some agAdj else none,
           encodingFlags := bitsOf payload 80 4, athType := bitsOf payload 84 4, bitrate := bitsOf payload 88 8,
           delay := bitsOf payload 96 12, padding := bitsOf payload 108 12, presetUsed := bitsOf payload 141 11 }

/-- `guess_settings(major, minor)` -/
def guessSettings (l : Lame) (major minor : Nat) : Bytes :=
  let ver39x (a b : Nat) : Bool := decide (major = 3 ∧ a ≤ minor ∧ minor ≤ b)
  let vq := decimal l.vbrQuality
  if l.vbrMethod = 2 then
    if ver39x 90 92 ∧ l.encodingFlags ≠ 0 then
      (if l.bitrate < 255 then asciiB "--alt-preset " ++ decimal l.bitrate else asciiB "--alt-preset " ++ decimal l.bitrate ++ asciiB "+")
    else if l.presetUsed ≠ 0 then asciiB "--preset " ++ decimal l.presetUsed
    else if l.bitrate < 255 then asciiB "--abr " ++ decimal l.bitrate
    else asciiB "--abr " ++ decimal l.bitrate ++ asciiB "+"
  else if l.vbrMethod = 1 then
    if l.presetUsed = 0 then (if l.bitrate < 255 then asciiB "-b " ++ decimal l.bitrate else asciiB "-b 255+")
    else if l.presetUsed = 1003 then asciiB "--preset insane"
    else asciiB "-b " ++ decimal l.presetUsed
  else if ver39x 90 92 then
    if l.vbrQuality = 1 ∧ l.quality = 2 ∧ l.vbrMethod = 4 ∧ l.lowpass = 19500 ∧ l.athType = 3 then asciiB "--preset r3mix"
    else if l.vbrQuality = 2 ∧ l.quality = 2 ∧ l.vbrMethod = 3 ∧ l.lowpass = 19000 ∧ l.athType = 4 then asciiB "--alt-preset standard"
    else if l.vbrQuality = 2 ∧ l.quality = 2 ∧ l.vbrMethod = 3 ∧ l.lowpass = 19500 ∧ l.athType = 2 then asciiB "--alt-preset extreme"
    else if l.vbrMethod = 3 then asciiB "-V " ++ vq
    else if l.vbrMethod = 4 ∨ l.vbrMethod = 5 then asciiB "-V " ++ vq ++ asciiB " --vbr-new"
    else []
  else if ver39x 93 97 then
    if l.presetUsed = 1001 then asciiB "--preset standard"
    else if l.presetUsed = 1002 then asciiB "--preset extreme"
    else if l.presetUsed = 1004 then asciiB "--preset fast standard"
    else if l.presetUsed = 1005 then asciiB "--preset fast extreme"
    else if l.presetUsed = 1006 then asciiB "--preset medium"
    else if l.presetUsed = 1007 then asciiB "--preset fast medium"
    else if l.vbrMethod = 3 then asciiB "-V " ++ vq
    else if l.vbrMethod = 4 ∨ l.vbrMethod = 5 then asciiB "-V " ++ vq ++ asciiB " --vbr-new"
    else []
  else if major = 3 ∧ minor = 98 then
    if l.vbrMethod = 3 then asciiB "-V " ++ vq ++ asciiB " --vbr-old"
    else if l.vbrMethod = 4 ∨ l.vbrMethod = 5 then asciiB "-V " ++ vq
    else []
  else if major > 3 ∨ (major = 3 ∧ minor ≥ 99) then
    if l.vbrMethod = 3 then asciiB "-V " ++ vq ++ asciiB " --vbr-old"
    else if l.vbrMethod = 4 ∨ l.vbrMethod = 5 then
      let p : Int := if l.vbrQuality = 5 ∧ l.bitrate = 32 ∧ l.lowpass = 0 then 7
        else if l.vbrQuality = 5 ∧ l.bitrate = 8 ∧ l.lowpass = 0 then 8
        else if l.vbrQuality = 6 ∧ l.bitrate = 8 ∧ l.lowpass = 0 then 9 else l.vbrQuality
      asciiB "-V " ++ decimal p
    else []
  else []

structure Xing where
  isInfo : Bool
  /-- -1: unknown -/
  frames : Int
  bytes : Int
  vbrScale : Int
  lameVersion : Nat × Nat
  lameDesc : Bytes
  lame : Option Lame
deriving DecidableEq, Repr

/-- `XingHeader(fileobj)` with the file object at `pos`; `none` = XingHeaderError -/
def parseXing (f : Bytes) (pos : Nat) : Option Xing :=
  let data := readAt f pos 8
  if data.length ≠ 8 ∨ ¬ (data.take 4 = asciiB "Xing" ∨ data.take 4 = asciiB "Info") then none
  else
    let flags := ofBE (data.drop 4)
    let rd (p n : Nat) : Option Bytes := let d := readAt f p n; if d.length = n then some d else none
    let p := pos + 8
    -- frames
    match (if flags % 2 = 1 then (rd p 4).map (fun d => (Int.ofNat (ofBE d), p + 4)) else some (-1, p)) with
    | none => none
    | some (frames, p) =>
      match (if flags / 2 % 2 = 1 then (rd p 4).map (fun d => (Int.ofNat (ofBE d), p + 4)) else some (-1, p)) with
      | none => none
      | some (bytes, p) =>
        match (if flags / 4 % 2 = 1 then (rd p 100).map (fun _ => p + 100) else some p) with
        | none => none
        | some p =>
          match (if flags / 8 % 2 = 1 then (rd p 4).map (fun d => (Int.ofNat (ofBE d), p + 4)) else some (-1, p)) with
          | none => none
          | some (scale, p) =>
            let x0 : Xing := { isInfo := data.take 4 = asciiB "Info", frames := frames, bytes := bytes, vbrScale := scale,
                               lameVersion := (0, 0), lameDesc := [], lame := none }
            match parseVersion (readAt f p 20) with
            | none => some x0
            | some (ver, desc, hasHeader) =>
              let x1 := { x0 with lameVersion := ver, lameDesc := desc }
              if hasHeader then
                -- parse_version seeks back 11 bytes
                some { x1 with lame := parseLame scale (readAt f (p + 9) 27) }
              else some x1

structure Vbri where
  bytes : Nat
  frames : Nat
deriving DecidableEq, Repr

/-- `VBRIHeader(fileobj)` with the file object at `pos`; `none` = VBRIHeaderError -/
def parseVbri (f : Bytes) (pos : Nat) : Option Vbri :=
  let data := readAt f pos 26
  if data.length ≠ 26 ∨ data.take 4 ≠ asciiB "VBRI" then none
  else if ofBE (readAt data 4 2) ≠ 1 then none
  else
    let tocEntries := ofBE (readAt data 18 2)
    let entrySize := ofBE (readAt data 22 2)
    let tocSize := entrySize * tocEntries
    if (readAt f (pos + 26) tocSize).length ≠ tocSize then none
    else if entrySize ≠ 2 ∧ entrySize ≠ 4 then none
    else some { bytes := ofBE (readAt data 10 4), frames := ofBE (readAt data 14 4) }

/-! ### MPEGFrame -/

/-- BitrateMode: UNKNOWN 0, CBR 1, VBR 2, ABR 3 -/
def guessXingMode (x : Xing) : Nat :=
  let byLame : Option Nat := match x.lame with
    | some l => if l.vbrMethod = 1 ∨ l.vbrMethod = 8 then some 1
                else if l.vbrMethod = 2 ∨ l.vbrMethod = 9 then some 3
                else if 3 ≤ l.vbrMethod ∧ l.vbrMethod ≤ 6 then some 2 else none
    | none => none
  match byLame with
  | some m => m
  | none => if x.isInfo then 1 else if x.vbrScale ≠ -1 ∨ x.lameDesc ≠ [] then 2 else 0

structure Frame where
  offset : Nat
  h : Mpeg.FrameInfo
  sketchy : Bool := true
  bitrate : NumExpr
  /-- `none`: the attribute `length` is not set -/
  length : Option LExpr := none
  bitrateMode : Option Nat := none
  encoderInfo : Option Bytes := none
  encoderSettings : Option Bytes := none
  trackGain : Option (Option LExpr) := none
  trackPeak : Option (Option LExpr) := none
  albumGain : Option (Option LExpr) := none
deriving DecidableEq, Repr

/-- samples per frame as `MPEGFrame.__init__` has them -/
def frameSize (h : Mpeg.FrameInfo) : Nat :=
  if h.layer = 1 then 384 else if h.version10 ≥ 20 ∧ h.layer = 3 then 576 else 1152

/-- `_parse_vbr_header` -/
def vbrHeader (f : Bytes) (fr : Frame) : Frame :=
  let fs := frameSize fr.h
  let ver := if fr.h.version10 = 10 then 1 else 2
  match parseXing f (fr.offset + Generated.xingOffset ver fr.h.mode) with
  | some x =>
    let fr := { fr with sketchy := false, bitrateMode := some (guessXingMode x),
                        encoderSettings := some (match x.lame with | some l => guessSettings l x.lameVersion.1 x.lameVersion.2 | none => []) }
    let fr :=
      if x.frames ≠ -1 then
        let samples : Int := fs * x.frames
        let fr := if x.bytes ≠ -1 ∧ samples > 0 then
            let audioBytes : Int := max 0 (x.bytes - fr.h.frameLength)
            { fr with bitrate := .round (.div (.int (audioBytes * 8 * fr.h.sampleRate)) (.flt (.int samples))) }
          else fr
        let samples := match x.lame with | some l => samples - l.delay - l.padding | none => samples
        let samples := if samples < 0 then 0 else samples
        { fr with length := some (.div (.flt (.int samples)) (.nat fr.h.sampleRate)) }
      else fr
    let fr := if x.lameDesc ≠ [] then { fr with encoderInfo := some (asciiB "LAME " ++ x.lameDesc) } else fr
    match x.lame with
    | some l => { fr with trackGain := some l.trackGain, trackPeak := some l.trackPeak, albumGain := some l.albumGain }
    | none => fr
  | none =>
    match parseVbri f (fr.offset + Generated.vbriOffset ver fr.h.mode) with
    | some v =>
      let len : LExpr := .div (.flt (.nat (fs * v.frames))) (.nat fr.h.sampleRate)
      { fr with sketchy := false, bitrateMode := some 2, encoderInfo := some (asciiB "FhG"), length := some len,
                -- `if self.length:` — the length is 0.0 exactly when there are no frames
                bitrate := if fs * v.frames ≠ 0 then .trunc (.div (.nat (v.bytes * 8)) len) else fr.bitrate }
    | none => fr

/-- `MPEGFrame(fileobj)` with the file object at `pos`: the frame and the position behind it; `none` =
HeaderNotFoundError.  (`decodeHeader` has no other error: `decodeHeader_clean`.) -/
def mpegFrame (f : Bytes) (pos : Nat) : Except PyErr (Option (Frame × Nat)) :=
  match Mpeg.decodeHeader (f.drop pos) with
  | .error .mutagen => .ok none
  | .error e => .error e
  | .ok h =>
    let fr : Frame := { offset := pos, h := h, bitrate := .int h.bitrate }
    let fr := if h.layer = 3 then vbrHeader f fr else fr
    .ok (some (fr, pos + h.frameLength))

/-! ### MPEGInfo -/

/-- `for _ in range(enough_frames)`: up to `n` consecutive frames from `pos`, stopping behind a frame that is
not sketchy -/
def takeFrames (f : Bytes) : Nat → Nat → Except PyErr (List Frame)
  | 0, _ => .ok []
  | n + 1, pos =>
    match mpegFrame f pos with
    | .error e => .error e
    | .ok none => .ok []
    | .ok (some (fr, next)) =>
      if !fr.sketchy then .ok [fr]
      else
        match takeFrames f n next with
        | .error e => .error e
        | .ok r => .ok (fr :: r)

/-- the loop over the syncs: `budget` = max_syncs, `saved` = first_frame so far; gives first_frame and `self.sketchy` -/
def syncLoop (f : Bytes) : List Nat → Nat → Option Frame → Except PyErr (Option Frame × Bool)
  | [], _, saved => .ok (saved, true)
  | o :: rest, budget, saved =>
    -- max_syncs -= 1; if max_syncs <= 0: break
    if budget ≤ 1 then .ok (saved, true)
    else
      match takeFrames f 4 o with
      | .error e => .error e
      | .ok frames =>
        let saved := if frames.length ≥ 2 ∧ saved.isNone then frames.head? else saved
        match frames.getLast? with
        | some last =>
          if !last.sketchy then .ok (some last, false)
          else if frames.length ≥ 4 then .ok (frames.head?, false)
          else syncLoop f rest (budget - 1) saved
        | none => syncLoop f rest (budget - 1) saved

structure Info where
  length : LExpr
  bitrate : NumExpr
  channels : Nat
  sampleRate : Nat
  version10 : Nat
  layer : Nat
  mode : Nat
  crcProtected : Bool
  padding : Bool
  sketchy : Bool
  bitrateMode : Nat
  encoderInfo : Bytes
  encoderSettings : Bytes
  trackGain : Option LExpr
  trackPeak : Option LExpr
  albumGain : Option LExpr
  frameOffset : Nat
deriving DecidableEq, Repr

/-- `MPEGInfo(fileobj, offset)`: `fileobj.seek(offset, 0)` (a position behind the end is allowed; a negative offset is
not modelled), then as without an offset — `skip_id3` from there (a file has at most `f.length / 11` tags: the fuel
`f.length + 1` is never used up), the syncs among the next `max_read` bytes -/
def parseFrom (f : Bytes) (offset : Nat) : Except PyErr Info :=
  let start := skipId3 f (f.length + 1) offset
  match syncLoop f (syncScan f start (1024 * 1024)) 1500 none with
  | .error e => .error e
  | .ok (none, _) => .error .mutagen                       -- "can't sync to MPEG frame"
  | .ok (some fr, sketchy) =>
    .ok { length := match fr.length with
            | some l => l
            -- `8 * content_size / float(self.bitrate)`
            | none => .div (.int (8 * ((f.length : Int) - fr.offset))) (.flt (.int fr.h.bitrate)),
          bitrate := fr.bitrate, channels := fr.h.channels, sampleRate := fr.h.sampleRate, version10 := fr.h.version10,
          layer := fr.h.layer, mode := fr.h.mode, crcProtected := fr.h.crcProtected, padding := fr.h.padding, sketchy := sketchy,
          bitrateMode := fr.bitrateMode.getD 0, encoderInfo := fr.encoderInfo.getD [], encoderSettings := fr.encoderSettings.getD [],
          trackGain := (fr.trackGain.getD none), trackPeak := (fr.trackPeak.getD none), albumGain := (fr.albumGain.getD none),
          frameOffset := fr.offset }

/-- `MPEGInfo(fileobj)` (offset None: `fileobj.seek(0, 0)`) -/
def parse (f : Bytes) : Except PyErr Info := parseFrom f 0

end Mutagen.Info.Mp3
