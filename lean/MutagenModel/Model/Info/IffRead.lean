/-
Model/Info/IffRead.lean — what the info classes of the IFF family (wave.py, aiff.py, dsdiff.py) use of
mutagen/_iff.py beyond the chunk walk of Model/Container/Iff.lean: `IffChunk.read()` and the
`subchunks()` of a nested container chunk.
-/
import MutagenModel.Model.Container.Iff
import MutagenModel.Model.Info.Common
namespace Mutagen.Info
open Mutagen Mutagen.Iff

/-- `chunk.read()`: `size = min(data_size, _get_actual_data_size()); seek(data_offset); read(size)` -/
def chunkRead (d : Dialect) (f : Bytes) (c : Rec) : Bytes :=
  readAt f (c.offset + hs d) (min c.dataSize (actual f (c.offset + hs d) c.dataSize))

/-- `container.subchunks()` of a chunk that is not the root (`PROP`: name size 4, `DST`: 0) -/
def subWalk (d : Dialect) (f : Bytes) (c : Rec) (nameSz : Nat) : Except PyErr (List Rec) :=
  walkFrom d f (c.offset + hs d + actual f (c.offset + hs d) c.dataSize) f.length (c.offset + hs d + nameSz)

end Mutagen.Info
