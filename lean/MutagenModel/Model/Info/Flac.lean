/-
Model/Info/Flac.lean — mutagen/flac.py StreamInfo.load / write.  The code reads byte groups
big-endian and shifts; the model reads the same nine bit fields MSB-first (the two are the
same function — tied by the correspondence check on field extremes).
-/
import MutagenModel.Model.Bits
set_option linter.unusedVariables false
namespace Mutagen.Flac
open Mutagen

structure StreamInfo where
  minBlocksize : Nat
  maxBlocksize : Nat
  minFramesize : Nat
  maxFramesize : Nat
  sampleRate : Nat
  channels : Nat
  bitsPerSample : Nat
  totalSamples : Nat
  md5 : Nat
deriving DecidableEq, Repr

def siWidths : List Nat := [16, 16, 24, 24, 20, 3, 5, 36, 128]

/-- StreamInfo.load on the block payload (a short block makes the strict reader raise `error`) -/
def siLoad (data : Bytes) : Except PyErr StreamInfo :=
  if data.length < 34 then .error .mutagen
  else match readFields siWidths (bytesToBits (data.take 34)) with
    | some ([a, b, c, d, rate, ch, bps, total, md5], _) =>
      if rate = 0 then .error .mutagen
      else .ok { minBlocksize := a, maxBlocksize := b, minFramesize := c, maxFramesize := d,
                 sampleRate := rate, channels := ch + 1, bitsPerSample := bps + 1,
                 totalSamples := total, md5 := md5 }
    | _ => .error .mutagen

/-- StreamInfo.write: every field masked to its width -/
def siWrite (s : StreamInfo) : Bytes :=
  bitsToBytes (packFields [(16, s.minBlocksize % 2 ^ 16), (16, s.maxBlocksize % 2 ^ 16),
    (24, s.minFramesize % 2 ^ 24), (24, s.maxFramesize % 2 ^ 24), (20, s.sampleRate % 2 ^ 20),
    (3, (s.channels - 1) % 8), (5, (s.bitsPerSample - 1) % 32), (36, s.totalSamples % 2 ^ 36),
    (128, s.md5 % 2 ^ 128)])

end Mutagen.Flac
