/-
Model/Info/OggCodecs.lean — the five Ogg info classes (code side): mutagen/oggvorbis.py `OggVorbisInfo`,
oggopus.py `OggOpusInfo`, oggspeex.py `OggSpeexInfo`, oggtheora.py `OggTheoraInfo`, oggflac.py
`OggFLACStreamInfo` — `__init__` (from the start of the file) and `_post_tags` (the last page of the
stream).  `raw` is "construct, then `_post_tags`" with the exceptions as they are raised; `parse` puts the
handlers of `OggFileType.load` around it.  (The tag class that `load` runs in between is not part of
the stream information and is not modelled here.)
-/
import MutagenModel.Model.Info.OggCommon
import MutagenModel.Model.Info.Flac
set_option linter.unusedVariables false
namespace Mutagen.Info
open Mutagen Mutagen.Ogg Mutagen.Info Mutagen.Info.OggC

/-! ### Vorbis -/
namespace Vorbis

structure Info where
  channels : Nat
  sampleRate : Nat
  bitrate : Int
  serial : Nat
  length : LExpr
deriving DecidableEq, Repr

def magic : Bytes := [0x01, 0x76, 0x6F, 0x72, 0x62, 0x69, 0x73]

def init (f : Bytes) : Except PyErr Info :=
  match nextPage f with
  | .error e => .error e
  | .ok (p0, rest) =>
    if p0.packets = [] then .error .mutagen          -- "page has not packets"
    else
      match findLoop magic f.length p0 rest with
      | .error e => .error e
      | .ok page =>
        if !page.first then .error .mutagen
        else
          let pk := page.packets.headD []
          if pk.length < 28 then .error .mutagen
          else
            -- struct.unpack("<BI3i", packet[11:28])
            let channels := ofLE (readAt pk 11 1)
            let rate := ofLE (readAt pk 12 4)
            let maxB := ofSignedLE (readAt pk 16 4)
            let nomB := ofSignedLE (readAt pk 20 4)
            let minB := ofSignedLE (readAt pk 24 4)
            if rate = 0 then .error .mutagen
            else
              let maxB := max 0 maxB
              let minB := max 0 minB
              let nomB := max 0 nomB
              let bitrate : Int :=
                if nomB = 0 then (maxB + minB) / 2
                else if maxB ≠ 0 ∧ maxB < nomB then maxB
                else if minB > nomB then minB
                else nomB
              .ok { channels := channels, sampleRate := rate, bitrate := bitrate, serial := page.serial,
                    length := .flt (.int 0) }

def post (f : Bytes) (i : Info) : Except PyErr Info :=
  match findLast f i.serial with
  | .error e => .error e
  | .ok none => .error .mutagen
  | .ok (some page) => .ok { i with length := .div (.int page.position) (.flt (.nat i.sampleRate)) }

def raw (f : Bytes) : Except PyErr Info :=
  match init f with
  | .error e => .error e
  | .ok i => post f i

def parse (f : Bytes) : Except PyErr Info := loadWrap (raw f)

end Vorbis

/-! ### Opus -/
namespace Opus

structure Info where
  channels : Nat
  serial : Nat
  preSkip : Nat
  length : LExpr
deriving DecidableEq, Repr

/-- "OpusHead" -/
def magic : Bytes := [0x4F, 0x70, 0x75, 0x73, 0x48, 0x65, 0x61, 0x64]

def init (f : Bytes) : Except PyErr Info :=
  match findHeader magic f with
  | .error e => .error e
  | .ok page =>
    if !page.first then .error .mutagen
    else
      let pk := page.packets.headD []
      if pk.length < 19 then .error .mutagen
      else
        -- struct.unpack("<BBHIhB", packet[8:19])
        let version := ofLE (readAt pk 8 1)
        let channels := ofLE (readAt pk 9 1)
        let preSkip := ofLE (readAt pk 10 2)
        if version / 16 ≠ 0 then .error .mutagen
        else .ok { channels := channels, serial := page.serial, preSkip := preSkip, length := .int 0 }

def post (f : Bytes) (i : Info) : Except PyErr Info :=
  match findLast f i.serial with
  | .error e => .error e
  | .ok none => .error .mutagen
  | .ok (some page) =>
    .ok { i with length := .div (.int (page.position - i.preSkip)) (.flt (.int 48000)) }

def raw (f : Bytes) : Except PyErr Info :=
  match init f with
  | .error e => .error e
  | .ok i => post f i

def parse (f : Bytes) : Except PyErr Info := loadWrap (raw f)

end Opus

/-! ### Speex -/
namespace Speex

structure Info where
  sampleRate : Nat
  channels : Nat
  bitrate : Int
  serial : Nat
  length : LExpr
deriving DecidableEq, Repr

/-- "Speex   " -/
def magic : Bytes := [0x53, 0x70, 0x65, 0x65, 0x78, 0x20, 0x20, 0x20]

def init (f : Bytes) : Except PyErr Info :=
  match findHeader magic f with
  | .error e => .error e
  | .ok page =>
    if !page.first then .error .mutagen
    else
      let pk := page.packets.headD []
      if pk.length < 56 then .error .mutagen            -- "truncated ID header"
      else
        -- cdata.uint_le(packet[36:40]), cdata.uint_le(packet[48:52]), cdata.int_le(packet[52:56])
        let rate := ofLE (readAt pk 36 4)
        if rate = 0 then .error .mutagen
        else
          .ok { sampleRate := rate, channels := ofLE (readAt pk 48 4), bitrate := max 0 (ofSignedLE (readAt pk 52 4)),
                serial := page.serial, length := .int 0 }

def post (f : Bytes) (i : Info) : Except PyErr Info :=
  match findLast f i.serial with
  | .error e => .error e
  | .ok none => .error .mutagen
  | .ok (some page) => .ok { i with length := .div (.int page.position) (.flt (.nat i.sampleRate)) }

def raw (f : Bytes) : Except PyErr Info :=
  match init f with
  | .error e => .error e
  | .ok i => post f i

def parse (f : Bytes) : Except PyErr Info := loadWrap (raw f)

end Speex

/-! ### Theora -/
namespace Theora

structure Info where
  /-- `fps = fps_num / float(fps_den)` -/
  fpsNum : Nat
  fpsDen : Nat
  bitrate : Nat
  granuleShift : Nat
  serial : Nat
  length : LExpr
deriving DecidableEq, Repr

def magic : Bytes := [0x80, 0x74, 0x68, 0x65, 0x6F, 0x72, 0x61]

def fps (i : Info) : LExpr := .div (.nat i.fpsNum) (.flt (.nat i.fpsDen))

def init (f : Bytes) : Except PyErr Info :=
  match findHeader magic f with
  | .error e => .error e
  | .ok page =>
    if !page.first then .error .mutagen
    else
      let data := page.packets.headD []
      if data.length < 42 then .error .mutagen
      else
        let vmaj := ofBE (readAt data 7 1)
        let vmin := ofBE (readAt data 8 1)
        if ¬ (vmaj = 3 ∧ vmin = 2) then .error .mutagen
        else
          let frn := ofBE (readAt data 22 4)
          let frd := ofBE (readAt data 26 4)
          if frd = 0 ∨ frn = 0 then .error .mutagen
          else
            .ok { fpsNum := frn, fpsDen := frd, bitrate := ofBE (readAt data 37 3),
                  granuleShift := ofBE (readAt data 40 2) / 32 % 32, serial := page.serial, length := .int 0 }

/-- `position >> shift` and `position & mask` on a Python int (floor semantics for negatives) -/
def frames (position : Int) (shift : Nat) : Int :=
  position / (2 ^ shift : Nat) + position % (2 ^ shift : Nat)

def post (f : Bytes) (i : Info) : Except PyErr Info :=
  match findLast f i.serial with
  | .error e => .error e
  | .ok none => .error .mutagen
  | .ok (some page) =>
    -- `assert self.fps` holds: both operands are positive
    .ok { i with length := .div (.int (frames page.position i.granuleShift)) (.flt (fps i)) }

def raw (f : Bytes) : Except PyErr Info :=
  match init f with
  | .error e => .error e
  | .ok i => post f i

def parse (f : Bytes) : Except PyErr Info := loadWrap (raw f)

end Theora

/-! ### FLAC in Ogg -/
namespace OggFlac

structure Info where
  minBlocksize : Nat
  maxBlocksize : Nat
  sampleRate : Nat
  channels : Nat
  bitsPerSample : Nat
  totalSamples : Nat
  /-- the number of header packets the mapping header announces (`self.packets`) -/
  packets : Nat
  serial : Nat
  length : LExpr
deriving DecidableEq, Repr

def magic : Bytes := [0x7F, 0x46, 0x4C, 0x41, 0x43]

def init (f : Bytes) : Except PyErr Info :=
  match findHeader magic f with
  | .error e => .error e
  | .ok page =>
    let pk := page.packets.headD []
    if pk.length < 13 then .error .mutagen               -- "truncated ID header"
    else
    -- struct.unpack(">BBH4s", packet[5:13])
    let s := readAt pk 5 8
    if readAt s 4 4 ≠ [0x66, 0x4C, 0x61, 0x43] then .error .mutagen
    else if ¬ (ofBE (readAt s 0 1) = 1 ∧ ofBE (readAt s 1 1) = 0) then .error .mutagen
    else
      -- FLACStreamInfo(BytesIO(packet[17:])): `load` on what `read()` returns
      match Flac.siLoad (pk.drop 17) with
      | .error _ => .error .mutagen
      | .ok si =>
        .ok { minBlocksize := si.minBlocksize, maxBlocksize := si.maxBlocksize, sampleRate := si.sampleRate,
              channels := si.channels, bitsPerSample := si.bitsPerSample, totalSamples := si.totalSamples,
              packets := ofBE (readAt s 2 2), serial := page.serial,
              -- StreamInfo.load: `self.length = self.total_samples / float(self.sample_rate)`
              length := .div (.nat si.totalSamples) (.flt (.nat si.sampleRate)) }

def post (f : Bytes) (i : Info) : Except PyErr Info :=
  -- `if self.length: return`
  if i.totalSamples ≠ 0 then .ok i
  else
    match findLast f i.serial with
    | .error e => .error e
    | .ok none => .error .mutagen
    | .ok (some page) => .ok { i with length := .div (.int page.position) (.flt (.nat i.sampleRate)) }

def raw (f : Bytes) : Except PyErr Info :=
  match init f with
  | .error e => .error e
  | .ok i => post f i

def parse (f : Bytes) : Except PyErr Info := loadWrap (raw f)

end OggFlac

end Mutagen.Info
