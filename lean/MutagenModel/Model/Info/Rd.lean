/-
Model/Info/Rd.lean — what the fixed-header stream-info parsers share: Python slices of a
header, `startswith`, `cdata.uint_le`, and the operands of the final float division.
-/
import MutagenModel.Model.IntCodec
namespace Mutagen.Info
open Mutagen

/-- the operands of the division that produces `info.length` (or another float attribute):
the attribute is the Python value `num / float(den)`.  `den = 0` never occurs in an `ok`
result (the code either guards it or the model reports `ZeroDivisionError`). -/
structure Ratio where
  num : Int
  den : Int
deriving DecidableEq, Repr

/-- `b.startswith(p)` -/
def startsWith (b p : Bytes) : Bool := readAt b 0 p.length == p

/-- `header[i:i+n]` -/
abbrev slice (b : Bytes) (i n : Nat) : Bytes := readAt b i n

/-- `cdata.uint_le / ushort_le / struct.unpack('<I' …)` on `header[i:i+n]` (the slice has
the full width in every use: the header length is checked first) -/
def uLE (b : Bytes) (i n : Nat) : Nat := ofLE (readAt b i n)

def uBE (b : Bytes) (i n : Nat) : Nat := ofBE (readAt b i n)

/-- signed little-endian (`struct.unpack('<h')`) -/
def sLE (b : Bytes) (i n : Nat) : Int := ofSignedLE (readAt b i n)

end Mutagen.Info
