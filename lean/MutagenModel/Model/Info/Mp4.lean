/-
Model/Info/Mp4.lean — the two fixed-layout decoders inside `MP4Info.load` (mutagen/mp4/__init__.py) and
`AudioSampleEntry.__init__` (mutagen/mp4/_as_entry.py), on the PAYLOAD of the atoms (code side):
`mdhd` → `length`, and the common part of the first `stsd` entry → `channels`, `sample_size`,
`sample_rate`.  NOT modelled here: the atom tree (`Atoms`, Model/Container/Mp4.lean `parse`), the track
search, and the codec-specific boxes (`esds`, `alac`, `dac3`) that may overwrite these values.
-/
import MutagenModel.Model.Info.Common
import MutagenModel.Model.Container.Mp4
set_option linter.unusedVariables false
namespace Mutagen.Info.Mp4
open Mutagen Mutagen.Info

/-- `parse_full_atom(data)`: ValueError (→ MP4StreamInfoError) on less than four bytes; gives the
version and the rest -/
def fullAtom (data : Bytes) : Except PyErr (Nat × Bytes) :=
  if data.length < 4 then .error .mutagen else .ok (ofBE (data.take 1), data.drop 4)

/-- the `mdhd` part of `MP4Info.load`: `self.length`.  A payload that ends inside the two fields makes
`struct.unpack` raise struct.error (which `MP4.load` turns into MP4StreamInfoError). -/
def mdhdLength (payload : Bytes) : Except PyErr LExpr :=
  match fullAtom payload with
  | .error e => .error e
  | .ok (version, data) =>
    if version = 0 then
      -- struct.unpack(">2I", data[8:16])
      let s := readAt data 8 8
      if s.length ≠ 8 then .error .struct_
      else
        let unit := ofBE (s.take 4)
        let length := ofBE (s.drop 4)
        .ok (if unit = 0 then .int 0 else .div (.flt (.nat length)) (.nat unit))
    else if version = 1 then
      -- struct.unpack(">IQ", data[16:28])
      let s := readAt data 16 12
      if s.length ≠ 12 then .error .struct_
      else
        let unit := ofBE (s.take 4)
        let length := ofBE (s.drop 4)
        .ok (if unit = 0 then .int 0 else .div (.flt (.nat length)) (.nat unit))
    else .error .mutagen

structure Entry where
  channels : Nat
  sampleSize : Nat
  sampleRate : Nat
deriving DecidableEq, Repr

/-- the BitReader part of `AudioSampleEntry.__init__` on the entry's payload: 28 bytes are needed
(BitReaderError → ASEntryError → MP4StreamInfoError) -/
def entryBase (payload : Bytes) : Except PyErr Entry :=
  if payload.length < 28 then .error .mutagen
  else .ok { channels := ofBE (readAt payload 16 2), sampleSize := ofBE (readAt payload 18 2),
             sampleRate := ofBE (readAt payload 24 4) / 2 ^ 16 }

/-- `extra = Atom(fileobj)` behind the fixed fields: the header of the first child box must be readable
and its size field sensible (AtomError → ASEntryError → MP4StreamInfoError).  A child with one of the
container names makes `Atom.__init__` descend into it: outside this model. -/
def extraAtom (d : Bytes) : Except PyErr Unit :=
  let hdr := d.take 8
  if hdr.length < 8 then .error .mutagen
  else
    let len := ofBE (hdr.take 4)
    let name := hdr.drop 4
    let sized : Except PyErr Unit :=
      if len = 1 then
        let ext := readAt d 8 8
        if ext.length < 8 then .error .mutagen else if ofBE ext < 16 then .error .mutagen
        -- `fileobj.seek(self.offset + self.length)`: OverflowError → AtomError; the box starts at byte 28 of the payload
        else if 28 + ofBE ext ≥ 2 ^ 63 then .error .mutagen
        else .ok ()
      else if len = 0 then .ok ()
      else if len < 8 then .error .mutagen
      else .ok ()
    match sized with
    | .error e => .error e
    | .ok _ => if Mutagen.Mp4C.isContainer name then .error .notImplemented else .ok ()

/-- `AudioSampleEntry(atom, fileobj)` up to the codec-specific part, on the entry's payload -/
def entry (payload : Bytes) : Except PyErr Entry :=
  match entryBase payload with
  | .error e => .error e
  | .ok r =>
    match extraAtom (payload.drop 28) with
    | .error e => .error e
    | .ok _ => .ok r

end Mutagen.Info.Mp4
