/-
Model/Info/Mp4.lean — the two fixed-layout decoders inside `MP4Info.load` (mutagen/mp4/__init__.py) and
`AudioSampleEntry.__init__` (mutagen/mp4/_as_entry.py), on the PAYLOAD of the atoms (code side):
`mdhd` → `length`, and the common part of the first `stsd` entry → `channels`, `sample_size`,
`sample_rate`; then the whole of `MP4Info.load` as `MP4.load` runs it: the atom tree (`Atoms`,
Model/Container/Mp4.lean `parse`), the search for the audio track, `mdhd`, `stsd` with its FullBox header,
`AudioSampleEntry` with the codec-specific boxes `esds` (ES_Descriptor → DecoderConfigDescriptor →
AudioSpecificConfig with GASpecificConfig and program_config_element), `alac` and `dac3`.
Not modelled: `codec_description`.
-/
import MutagenModel.Model.Info.Common
import MutagenModel.Model.Container.Mp4
import MutagenModel.Model.Bits
import MutagenModel.Generated.Tables
set_option linter.unusedVariables false
namespace Mutagen.Info.Mp4
open Mutagen Mutagen.Info

/-- `parse_full_atom(data)`: ValueError (→ MP4StreamInfoError) on less than four bytes; gives the
version and the rest -/
def fullAtom (data : Bytes) : Except PyErr (Nat × Bytes) :=
  if data.length < 4 then .error .mutagen else .ok (ofBE (data.take 1), data.drop 4)

/-- the `mdhd` part of `MP4Info.load`: `self.length`.  A payload that ends inside the two fields makes
`struct.unpack` raise struct.error (which `MP4.load` turns into MP4StreamInfoError). -/
def mdhdLength (payload : Bytes) : Except PyErr LExpr :=
  match fullAtom payload with
  | .error e => .error e
  | .ok (version, data) =>
    if version = 0 then
      -- struct.unpack(">2I", data[8:16])
      let s := readAt data 8 8
      if s.length ≠ 8 then .error .struct_
      else
        let unit := ofBE (s.take 4)
        let length := ofBE (s.drop 4)
        .ok (if unit = 0 then .int 0 else .div (.flt (.nat length)) (.nat unit))
    else if version = 1 then
      -- struct.unpack(">IQ", data[16:28])
      let s := readAt data 16 12
      if s.length ≠ 12 then .error .struct_
      else
        let unit := ofBE (s.take 4)
        let length := ofBE (s.drop 4)
        .ok (if unit = 0 then .int 0 else .div (.flt (.nat length)) (.nat unit))
    else .error .mutagen

/-! ### the atoms -/

open Mutagen.Mp4C in
/-- `atom.read(fileobj)`: `none` when fewer than `datalength` bytes are there -/
def atomRead (f : Bytes) (a : PAtom) : Option Bytes :=
  let n := a.length - (a.dataoffset - a.offset)
  let d := readAt f a.dataoffset n
  if d.length = n then some d else none

open Mutagen.Mp4C in
/-- `Atom(fileobj)` (level 0) with the file object at `pos` of `d`.  `fileobj.seek(offset + length)` of a
childless atom raises OverflowError (→ AtomError) from 2^63 on. -/
def atomAt (d : Bytes) (pos : Nat) : Except PyErr PAtom :=
  match parseAtom (d.length + 4) d pos 0 with
  | .error e => .error e
  | .ok (a, _) =>
    if !isContainer a.name && decide (a.offset + a.length ≥ 2 ^ 63) then .error .mutagen else .ok a

/-! ### BitReader: a cursor `p` (bits consumed or skipped) over the bits `b` of the data -/

/-- `r.bits(c)`: BitReaderError when the bits are not there -/
def getBits (b : List Bool) (p c : Nat) : Option (Nat × Nat) :=
  if c = 0 then some (0, p)
  else if p + c ≤ b.length then some (bitsToNat ((b.drop p).take c), p + c) else none

/-- `r.skip(c)`: whole bytes are skipped with `seek` (also beyond the end); only a last partial byte is read -/
def skipBits (b : List Bool) (p c : Nat) : Option Nat :=
  if (p + c) % 8 ≠ 0 ∧ (p + c) / 8 ≥ b.length / 8 then none else some (p + c)

/-! ### esds -/

/-- `DecoderSpecificInfo` (AudioSpecificConfig) as far as the attributes need it -/
structure Asc where
  aot : Nat
  freq : Nat
  chanConf : Nat
  /-- sbrPresentFlag: -1, 0, 1 -/
  sbr : Int := -1
  ps : Int := -1
  extFreq : Nat := 0
  extChanConf : Option Nat := none
  pceChannels : Option Nat := none
deriving DecidableEq, Repr

/-- `_get_audio_object_type` -/
def getAot (b : List Bool) (p : Nat) : Option (Nat × Nat) :=
  match getBits b p 5 with
  | none => none
  | some (t, p) => if t = 31 then (match getBits b p 6 with | none => none | some (e, p) => some (32 + e, p)) else some (t, p)

/-- `_get_sampling_freq` (the table: `Generated.aacFreqs`, regenerated from mutagen/aac.py; `_as_entry.py`
carries a copy of the same list — the tie goes through every index) -/
def getFreq (b : List Bool) (p : Nat) : Option (Nat × Nat) :=
  match getBits b p 4 with
  | none => none
  | some (i, p) => if i = 15 then getBits b p 24 else some (Generated.aacFreqs.getD i 0, p)

/-- the loop over the front, side and back elements of `program_config_element` -/
def pceElems (b : List Bool) : Nat → Nat → Nat → Option (Nat × Nat)
  | 0, p, ch => some (ch, p)
  | n + 1, p, ch =>
    match getBits b p 1 with
    | none => none
    | some (cpe, p) =>
      match skipBits b p 4 with
      | none => none
      | some p => pceElems b n p (ch + 1 + (if cpe = 1 then 1 else 0))

/-- `ProgramConfigElement(r)` (mutagen/aac.py): the channel count and the cursor -/
def pce (b : List Bool) (p : Nat) : Option (Nat × Nat) := do
  let (_, p) ← getBits b p 4
  let (_, p) ← getBits b p 2
  let (_, p) ← getBits b p 4
  let (nf, p) ← getBits b p 4
  let (ns, p) ← getBits b p 4
  let (nb, p) ← getBits b p 4
  let (nl, p) ← getBits b p 2
  let (na, p) ← getBits b p 3
  let (nc, p) ← getBits b p 4
  let (mono, p) ← getBits b p 1
  let p ← if mono = 1 then skipBits b p 4 else some p
  let (stereo, p) ← getBits b p 1
  let p ← if stereo = 1 then skipBits b p 4 else some p
  let (mat, p) ← getBits b p 1
  let p ← if mat = 1 then skipBits b p 3 else some p
  let (ch, p) ← pceElems b (nf + ns + nb) p 0
  let p ← skipBits b p (4 * nl)
  let p ← skipBits b p (4 * na)
  let p ← skipBits b p (5 * nc)
  -- r.align()
  let p := (p + 7) / 8 * 8
  let (cb, p) ← getBits b p 8
  let p ← skipBits b p (8 * cb)
  some (ch + nl, p)

/-- `GASpecificConfig(r, info)`: the cursor, `pce_channels`, and whether NotImplementedError ended it -/
def gaSpecific (b : List Bool) (p : Nat) (aot chanConf : Nat) : Option (Nat × Option Nat × Bool) := do
  let p ← skipBits b p 1
  let (dep, p) ← getBits b p 1
  let p ← if dep = 1 then skipBits b p 14 else some p
  let (extFlag, p) ← getBits b p 1
  let (pc, p) ← if chanConf = 0 then (do let (c, p) ← pce b p; some (some c, p)) else some (none, p)
  let p ← if aot = 6 ∨ aot = 20 then skipBits b p 3 else some p
  if extFlag = 1 then
    let p ← if aot = 22 then skipBits b p 16 else some p
    let p ← if aot = 17 ∨ aot = 19 ∨ aot = 20 ∨ aot = 23 then skipBits b p 3 else some p
    let (e3, p) ← getBits b p 1
    some (p, pc, decide (e3 ≠ 0))
  else some (p, pc, false)

/-- the part of `_parse` behind GASpecificConfig: epConfig and the backward compatible SBR / PS signalling -/
def ascTail (b : List Bool) (len : Nat) (a : Asc) (extAot : Nat) (p : Nat) : Option Asc := do
  let (stop, p) ←
    if a.aot ∈ [17, 19, 20, 21, 22, 23, 24, 25, 26, 27, 39] then
      (do let (ep, p) ← getBits b p 2; some (decide (ep = 2 ∨ ep = 3), p))
    else some (false, p)
  if stop then some a
  else if extAot ≠ 5 ∧ (len * 8 : Int) - p ≥ 16 then
    let (sync, p) ← getBits b p 11
    if sync = 0x2b7 then
      let (ext, p) ← getAot b p
      let (a, p) ←
        if ext = 5 then
          (do let (sbr, p) ← getBits b p 1
              if sbr = 1 then
                let (ef, p) ← getFreq b p
                let a := { a with sbr := 1, extFreq := ef }
                if (len * 8 : Int) - p ≥ 12 then
                  let (s2, p) ← getBits b p 11
                  if s2 = 0x548 then
                    let (ps, p) ← getBits b p 1
                    some ({ a with ps := ps }, p)
                  else some (a, p)
                else some (a, p)
              else some ({ a with sbr := sbr }, p))
        else some (a, p)
      if ext = 22 then
        let (sbr, p) ← getBits b p 1
        let (a, p) ← if sbr = 1 then (do let (ef, p) ← getFreq b p; some ({ a with sbr := 1, extFreq := ef }, p))
                      else some ({ a with sbr := sbr }, p)
        let (ecc, _) ← getBits b p 4
        some { a with extChanConf := some ecc }
      else some a
    else some a
  else some a

/-- `DecoderSpecificInfo._parse(r, length)` on the bits `b` of the descriptor's contents -/
def ascParse (b : List Bool) (len : Nat) : Option Asc := do
  let (aot, p) ← getAot b 0
  let (freq, p) ← getFreq b p
  let (cc, p) ← getBits b p 4
  let a0 : Asc := { aot := aot, freq := freq, chanConf := cc }
  let (a, extAot, p) ←
    if aot = 5 ∨ aot = 29 then
      (do let (ef, p) ← getFreq b p
          let (aot2, p) ← getAot b p
          let a : Asc := { a0 with aot := aot2, sbr := 1, ps := if aot = 29 then 1 else -1, extFreq := ef }
          if aot2 = 22 then
            let (ecc, p) ← getBits b p 4
            some ({ a with extChanConf := some ecc }, 5, p)
          else some (a, 5, p))
    else some (a0, 0, p)
  if a.aot ∈ [1, 2, 3, 4, 6, 7, 17, 19, 20, 21, 22, 23] then
    let (p, pc, notImpl) ← gaSpecific b p a.aot a.chanConf
    let a := { a with pceChannels := pc }
    if notImpl then some a else ascTail b len a extAot p
  else some a

/-- `DecoderSpecificInfo.sample_rate` -/
def Asc.sampleRate (a : Asc) : Nat :=
  if a.sbr = 1 then a.extFreq
  else if a.sbr = 0 then a.freq
  else if a.aot ∉ [1, 2, 3, 4, 6, 17, 19, 20, 22] then a.freq
  else if a.freq > 24000 then a.freq
  else 0

/-- `DecoderSpecificInfo.channels` -/
def Asc.channels (a : Asc) : Nat :=
  match a.pceChannels with
  | some c => c
  | none =>
    let conf := a.extChanConf.getD a.chanConf
    if conf = 1 then (if a.ps = -1 then 0 else if a.ps = 1 then 2 else 1)
    else if conf = 7 then 8
    else if conf > 7 then 0
    else conf

/-- `_parse_desc_length_file`: up to four bytes of 7 bits; `none`: ValueError -/
def descLen (d : Bytes) : Nat → Nat → Nat → Option (Nat × Nat)
  | 0, _, _ => none
  | n + 1, pos, v =>
    match d[pos]? with
    | none => none
    | some x =>
      let v := v * 128 + x.toNat % 128
      if x.toNat / 128 = 0 then some (v, pos + 1) else descLen d n (pos + 1) v

structure Entry where
  channels : Nat
  sampleSize : Nat
  sampleRate : Nat
  bitrate : Nat := 0
  /-- what is appended to the entry's name in `codec` (".40.2") as (objectTypeIndication, audioObjectType) -/
  codecParam : Option (Nat × Option Nat) := none
deriving DecidableEq, Repr

/-- the BitReader part of `AudioSampleEntry.__init__` on the entry's payload: 28 bytes are needed
(BitReaderError → ASEntryError → MP4StreamInfoError) -/
def entryBase (payload : Bytes) : Except PyErr Entry :=
  if payload.length < 28 then .error .mutagen
  else .ok { channels := ofBE (readAt payload 16 2), sampleSize := ofBE (readAt payload 18 2),
             sampleRate := ofBE (readAt payload 24 4) / 2 ^ 16 }

/-- `_parse_esds` on the payload of the esds box; every exception becomes MP4StreamInfoError -/
def parseEsds (e : Entry) (payload : Bytes) : Except PyErr Entry :=
  match fullAtom payload with
  | .error err => .error err
  | .ok (version, d) =>
    if version ≠ 0 then .error .mutagen
    else
      let r : Option Entry := do
        let tag ← d[0]?
        if tag.toNat ≠ 3 then none
        -- ES_Descriptor.parse
        let (_, pos) ← descLen d 4 1 0
        -- ES_ID, flags
        if d.length < pos + 3 then none
        let flags := (d[pos + 2]?.map UInt8.toNat).getD 0
        let pos := pos + 3
        let pos ← if flags / 128 % 2 = 1 then (if d.length < pos + 2 then none else some (pos + 2)) else some pos
        let pos ← if flags / 64 % 2 = 1 then
            (do let n ← d[pos]?
                -- `r.bytes(URLlength)`
                if d.length < pos + 1 + n.toNat then none else some (pos + 1 + n.toNat))
          else some pos
        let pos ← if flags / 32 % 2 = 1 then (if d.length < pos + 2 then none else some (pos + 2)) else some pos
        let tag ← d[pos]?
        if tag.toNat ≠ 4 then none
        -- DecoderConfigDescriptor.parse
        let (dlen, pos) ← descLen d 4 (pos + 1) 0
        if d.length < pos + 13 then none
        let oti := ofBE (readAt d pos 1)
        let streamType := ofBE (readAt d (pos + 1) 1) / 4
        let avg := ofBE (readAt d (pos + 9) 4)
        let e1 : Entry := { e with bitrate := avg, codecParam := some (oti, none) }
        if ¬ (oti = 0x40 ∧ streamType = 5) then some e1
        else if dlen = 13 then some e1
        else
          let tag ← d[pos + 13]?
          if tag.toNat ≠ 5 then some e1
          else
            -- DecoderSpecificInfo.parse
            let (alen, pos) ← descLen d 4 (pos + 14) 0
            let a ← ascParse (bytesToBits (d.drop pos)) alen
            some { e1 with codecParam := some (oti, some a.aot),
                           channels := if a.channels ≠ 0 then a.channels else e1.channels,
                           sampleRate := if a.sampleRate ≠ 0 then a.sampleRate else e1.sampleRate }
      match r with
      | none => .error .mutagen
      | some e' => .ok e'

/-- `_parse_alac` on the payload of the inner alac box (ALAC magic cookie) -/
def parseAlac (e : Entry) (payload : Bytes) : Except PyErr Entry :=
  match fullAtom payload with
  | .error err => .error err
  | .ok (version, d) =>
    if version ≠ 0 then .error .mutagen
    else if d.length < 5 then .error .mutagen
    else if ofBE (readAt d 4 1) ≠ 0 then .ok e            -- compatibleVersion
    else if d.length < 24 then .error .mutagen
    else .ok { e with sampleSize := ofBE (readAt d 5 1), channels := ofBE (readAt d 9 1), bitrate := ofBE (readAt d 16 4),
                      sampleRate := ofBE (readAt d 20 4) }

/-- `_parse_dac3`: fscod 2, bsid 5, bsmod 3, acmod 3, lfeon 1, bit_rate_code 5, reserved 5 (the tables:
`Generated.ac3Channels`, `Generated.ac3Bitrates`, regenerated from mutagen/ac3.py; `_as_entry.py` carries copies) -/
def parseDac3 (e : Entry) (payload : Bytes) : Except PyErr Entry :=
  if payload.length < 3 then .error .mutagen
  else
    let v := ofBE (payload.take 3)
    let acmod := v / 2 ^ 11 % 8
    let lfeon := v / 2 ^ 10 % 2
    let brc := v / 2 ^ 5 % 32
    .ok { e with channels := Generated.ac3Channels.getD acmod 0 + lfeon,
                 bitrate := match Generated.ac3Bitrates[brc]? with | some k => k * 1000 | none => e.bitrate }

def nMp4a : Bytes := [0x6d, 0x70, 0x34, 0x61]
def nEsds : Bytes := [0x65, 0x73, 0x64, 0x73]
def nAlac : Bytes := [0x61, 0x6c, 0x61, 0x63]
def nAc3 : Bytes := [0x61, 0x63, 0x2d, 0x33]
def nDac3 : Bytes := [0x64, 0x61, 0x63, 0x33]

open Mutagen.Mp4C in
/-- `AudioSampleEntry(atom, fileobj)` with `d` the bytes the entry atom was read from; gives the entry and
the atom's name (`codec` starts with it) -/
def sampleEntry (d : Bytes) (ea : PAtom) : Except PyErr Entry :=
  match atomRead d ea with
  | none => .error .mutagen
  | some payload =>
    match entryBase payload with
    | .error e => .error e
    | .ok base =>
      match atomAt payload 28 with
      | .error e => .error e
      | .ok extra =>
        let inner : Except PyErr Bytes := match atomRead payload extra with | none => .error .mutagen | some x => .ok x
        if ea.name = nMp4a ∧ extra.name = nEsds then
          (match inner with | .error e => .error e | .ok x => parseEsds base x)
        else if ea.name = nAlac ∧ extra.name = nAlac then
          (match inner with | .error e => .error e | .ok x => parseAlac base x)
        else if ea.name = nAc3 ∧ extra.name = nDac3 then
          (match inner with | .error e => .error e | .ok x => parseDac3 base x)
        else .ok base

structure Info where
  length : LExpr
  channels : Nat
  bitsPerSample : Nat
  sampleRate : Nat
  bitrate : Nat
  /-- the name of the sample entry … -/
  codecName : Bytes
  /-- … and what `_parse_esds` appends -/
  codecParam : Option (Nat × Option Nat)
deriving DecidableEq, Repr

/-- `MP4Info()` -/
def Info.default : Info :=
  { length := .flt (.int 0), channels := 0, bitsPerSample := 0, sampleRate := 0, bitrate := 0, codecName := [], codecParam := none }

/-- `_parse_stsd` on the payload of the stsd atom -/
def parseStsd (i : Info) (payload : Bytes) : Except PyErr Info :=
  match fullAtom payload with
  | .error e => .error e
  | .ok (version, d) =>
    if version ≠ 0 then .error .mutagen
    else if d.length < 4 then .error .mutagen              -- cdata.uint32_be_from
    else if ofBE (d.take 4) = 0 then .ok i
    else
      let ed := d.drop 4
      match atomAt ed 0 with
      | .error e => .error e
      | .ok ea =>
        match sampleEntry ed ea with
        | .error e => .error e
        | .ok en =>
          .ok { i with channels := en.channels, bitsPerSample := en.sampleSize, sampleRate := en.sampleRate,
                       bitrate := en.bitrate, codecName := ea.name, codecParam := en.codecParam }

def nHdlr : Bytes := [0x68, 0x64, 0x6c, 0x72]
def nMdhd : Bytes := [0x6d, 0x64, 0x68, 0x64]
def nStsd : Bytes := [0x73, 0x74, 0x73, 0x64]
def nSoun : Bytes := [0x73, 0x6f, 0x75, 0x6e]

open Mutagen.Mp4C in
/-- the loop `for trak in moov.findall(b"trak")`: the first track whose handler type is "soun";
`ok none`: no such track (MP4NoTrackError) -/
def findAudioTrak (f : Bytes) : List PAtom → Except PyErr (Option PAtom)
  | [] => .ok none
  | t :: r =>
    if t.name = nTrak then
      match (path? t.children [nMdia, nHdlr]).bind List.getLast? with
      | none => .error .mutagen                          -- KeyError (wrapped by MP4.load)
      | some hdlr =>
        match atomRead f hdlr with
        | none => .error .mutagen
        | some data => if readAt data 8 4 = nSoun then .ok (some t) else findAudioTrak f r
    else findAudioTrak f r

open Mutagen.Mp4C in
/-- `Atoms(fileobj)` and `MP4Info.load(atoms, fileobj)` as `MP4.load` runs them: AtomError and every
exception of `load` become the module's error (a struct.error from a short `mdhd` included),
MP4NoTrackError leaves the default values. -/
def parse (f : Bytes) : Except PyErr Info :=
  match Mp4C.parse f with
  | .error e => .error e
  | .ok atoms =>
    match child? atoms nMoov with
    | none => .error .mutagen
    | some moov =>
      match findAudioTrak f moov.children with
      | .error e => .error e
      | .ok none => .ok Info.default
      | .ok (some trak) =>
        match (path? trak.children [nMdia, nMdhd]).bind List.getLast? with
        | none => .error .mutagen
        | some mdhd =>
          match atomRead f mdhd with
          | none => .error .mutagen
          | some data =>
            match mdhdLength data with
            | .error _ => .error .mutagen
            | .ok len =>
              let i := { Info.default with length := len }
              match (path? trak.children [nMdia, nMinf, nStbl, nStsd]).bind List.getLast? with
              | none => .ok i
              | some stsd =>
                match atomRead f stsd with
                | none => .error .mutagen
                | some sd => parseStsd i sd

end Mutagen.Info.Mp4
