/-
Model/Info/OggCommon.lean — what the five Ogg info classes share (code side): reading pages one after
the other (`OggPage(fileobj)`, Model/Ogg.lean `parse`), the search for the identification header
(`while not (page.packets and page.packets[0].startswith(magic)): page = OggPage(fileobj)`),
`OggPage.find_last(fileobj, serial, finishing=True)`, and the exception handlers of
`OggFileType.load`.
-/
import MutagenModel.Model.Ogg
import MutagenModel.Model.Info.Common
set_option linter.unusedVariables false
namespace Mutagen.Info.OggC
open Mutagen Mutagen.Ogg Mutagen.Info

/-- `OggPage(fileobj)` with `d` the bytes from the file position on: EOFError at the end of the file,
`error` for everything else that is wrong -/
def nextPage (d : Bytes) : Except PyErr (Page × Bytes) :=
  match parse d with
  | .ok r => .ok r
  | .error .eof => .error .eof
  | .error .bad => .error .mutagen

/-- `page.packets and page.packets[0].startswith(magic)` -/
def hasMagic (magic : Bytes) (p : Page) : Bool :=
  match p.packets with
  | [] => false
  | x :: _ => magic.isPrefixOf x

/-- the search loop, starting with an already read page; every round reads a page of at least 27
bytes, so `len(file)` rounds suffice (`diverge` marks fuel exhaustion and does not happen) -/
def findLoop (magic : Bytes) : Nat → Page → Bytes → Except PyErr Page
  | 0, p, _ => if hasMagic magic p then .ok p else .error .diverge
  | fuel + 1, p, d =>
    if hasMagic magic p then .ok p
    else
      match nextPage d with
      | .error e => .error e
      | .ok (q, rest) => findLoop magic fuel q rest

/-- `page = OggPage(fileobj); while not (…): page = OggPage(fileobj)` from the start of the file -/
def findHeader (magic : Bytes) (f : Bytes) : Except PyErr Page :=
  match nextPage f with
  | .error e => .error e
  | .ok (p, rest) => findLoop magic f.length p rest

/-- `data.rindex(pat)` by one left-to-right scan: `i` is the index of the head of the list, `best` the
last match so far -/
def rindexFrom (pat : Bytes) : Bytes → Nat → Option Nat → Option Nat
  | [], _, best => best
  | x :: r, i, best => rindexFrom pat r (i + 1) (if pat.isPrefixOf (x :: r) then some i else best)

def rindex (pat d : Bytes) : Option Nat := rindexFrom pat d 0 none

def oggS : Bytes := [0x4F, 0x67, 0x67, 0x53]

/-- the slow way of `find_last`: all pages from the start of the file; `error` and EOFError end it -/
def slowLast (serial : Nat) : Nat → Bytes → Option Page → Except PyErr (Option Page)
  | 0, d, best => match parse d with | .error _ => .ok best | .ok _ => .error .diverge
  | fuel + 1, d, best =>
    match parse d with
    | .error _ => .ok best
    | .ok (p, rest) =>
      if p.serial = serial then
        let best' := if p.position ≠ -1 then some p else best
        if p.last then .ok best' else slowLast serial fuel rest best'
      else slowLast serial fuel rest best

/-- `seek_end(fileobj, w); data = fileobj.read()`: the last `w` bytes (the whole file if it is shorter).
(Written with `take` on the reversed list rather than `drop (length - w)`: the kernel unfolds a
subtraction of the literal 65536 from a variable 65536 levels deep.) -/
def lastBytes (w : Nat) (f : Bytes) : Bytes := (f.reverse.take w).reverse

/-- `OggPage(BytesIO(data[index:]))`: `error` is passed over (EOFError cannot happen: the data starts
with the four bytes that were found) -/
def fastPage (data : Bytes) (index : Nat) : Option Page :=
  match parse (data.drop index) with
  | .ok (p, _) => some p
  | .error _ => none

/-- what `find_last` does with the page found at the last "OggS" -/
def afterFast (f : Bytes) (serial : Nat) : Option Page → Except PyErr (Option Page)
  | some p =>
    if p.serial = serial ∧ p.position ≠ -1 then
      if p.last then .ok (some p) else slowLast serial f.length f (some p)
    else slowLast serial f.length f none
  | none => slowLast serial f.length f none

/-- `find_last` with the size of the window at the end of the file as a parameter -/
def findLastW (w : Nat) (f : Bytes) (serial : Nat) : Except PyErr (Option Page) :=
  match rindex oggS (lastBytes w f) with
  | none => .error .mutagen            -- "unable to find final Ogg header"
  | some index => afterFast f serial (fastPage (lastBytes w f) index)

/-- `OggPage.find_last(fileobj, serial, finishing=True)`: the window is `256 * 256` bytes -/
def findLast (f : Bytes) (serial : Nat) : Except PyErr (Option Page) := findLastW 65536 f serial

/-- the handlers of `OggFileType.load`: `error`/IOError, EOFError and ValueError become the format's
error class; everything else escapes -/
def loadWrap {α : Type} (r : Except PyErr α) : Except PyErr α :=
  match r with
  | .ok v => .ok v
  | .error .eof => .error .mutagen
  | .error .value => .error .mutagen
  | .error .unicode => .error .mutagen
  | .error .io => .error .mutagen
  | .error e => .error e

end Mutagen.Info.OggC
