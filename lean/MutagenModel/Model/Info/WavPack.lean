/-
Model/Info/WavPack.lean — mutagen/wavpack.py `WavPackInfo.__init__` and
`_WavPackHeader.from_fileobj`, statement by statement, on the bytes of the file.

Quirks kept: only the low 32 bits of the sample count are read (header bytes 10 and 11 are
`track_no`/`index_no` and unused), the all-ones value means "unknown", in which case — and
whenever the first block's index is not 0 — the block sample counts of every block that
can be reached by following `block_size` are added up until something that is not a block
header is met; `channels` is `True` for mono (compares equal to 1); flag bit 31 multiplies
the rate by four and sets the sample size to 1.
-/
import MutagenModel.Model.Info.Rd
import MutagenModel.Generated.Tables
set_option linter.unusedVariables false
namespace Mutagen.Info.WavPack
open Mutagen Mutagen.Info

structure Info where
  version : Nat
  channels : Nat
  sampleRate : Nat
  bitsPerSample : Nat
  length : Ratio
deriving DecidableEq, Repr

/-- `_WavPackHeader` (the attributes that are used) -/
structure Header where
  blockSize : Nat
  version : Nat
  /-- `none` is Python's -1 -/
  totalSamples : Option Nat
  blockIndex : Nat
  blockSamples : Nat
  flags : Nat
deriving DecidableEq, Repr

/-- b"wvpk" -/
def magic : Bytes := [0x77, 0x76, 0x70, 0x6b]

/-- `_WavPackHeader.from_fileobj` with the file position at `pos` -/
def fromFileobj (f : Bytes) (pos : Nat) : Except PyErr Header :=
  let header := readAt f pos 32
  if header.length ≠ 32 ∨ ¬ startsWith header magic then .error .mutagen
  else
    let samples := uLE header 12 4
    .ok { blockSize := uLE header 4 4, version := uLE header 8 2,
          totalSamples := if samples = 2 ^ 32 - 1 then none else some samples,
          blockIndex := uLE header 16 4, blockSamples := uLE header 20 4, flags := uLE header 24 4 }

/-- the `while 1:` loop; `pos` is the file position the relative seek arrives at (the seek
offset `block_size - 32 + 8` is at least -24 after 32 bytes were read, so the position never
becomes negative and grows by at least 8 per round).  The fuel is never used up
(`sumBlocks_no_diverge`). -/
def sumBlocks (f : Bytes) : Nat → Nat → Nat → Except PyErr Nat
  | fuel, pos, samples =>
    match fromFileobj f pos with
    | .error _ => .ok samples
    | .ok h =>
      match fuel with
      | 0 => .error .diverge
      | fuel + 1 => sumBlocks f fuel (pos + 8 + h.blockSize) (samples + h.blockSamples)

def parse (f : Bytes) : Except PyErr Info :=
  match fromFileobj f 0 with
  | .error _ => .error .mutagen
  | .ok h =>
    match Generated.wavpackRates[h.flags / 2 ^ 23 % 16]? with
    | none => .error .mutagen
    | some r =>
      let dsd := h.flags / 2 ^ 31 % 2 = 1
      let rate := if dsd then r * 4 else r
      let bits := if dsd then 1 else (h.flags % 4 + 1) * 8
      let samples : Except PyErr Nat :=
        match h.totalSamples, h.blockIndex with
        | some total, 0 => .ok total
        | _, _ => sumBlocks f f.length (8 + h.blockSize) h.blockSamples
      match samples with
      | .error e => .error e
      | .ok n =>
        if rate = 0 then .error .zeroDiv
        else .ok { version := h.version, channels := if h.flags / 4 % 2 = 1 then 1 else 2,
                   sampleRate := rate, bitsPerSample := bits, length := ⟨n, rate⟩ }

end Mutagen.Info.WavPack
