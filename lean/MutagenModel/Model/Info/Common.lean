/-
Model/Info/Common.lean — shared vocabulary of the stream-info models (C05, second batch).

Durations are Python floats.  The models do not compute floats: `length` is the small expression
tree over Python ints that mutagen really evaluates (`LExpr`); the tie renders it as a Python
expression and lets Python evaluate it (`render`), so the comparison with `info.length` is exact.
-/
import MutagenModel.Model.Basic
import MutagenModel.Model.IntCodec
namespace Mutagen.Info
open Mutagen

/-- Python arithmetic on ints and floats, as far as the info classes use it -/
inductive LExpr
  /-- a Python int -/
  | int (n : Int)
  /-- `float(e)` -/
  | flt (e : LExpr)
  /-- `a / b` (true division) -/
  | div (a b : LExpr)
  | mul (a b : LExpr)
  | sub (a b : LExpr)
  /-- `max(a, b)` -/
  | max (a b : LExpr)
deriving DecidableEq, Repr, Inhabited

/-- a Python expression with the same value (no blanks: it travels in one driver token) -/
def LExpr.render : LExpr → String
  | .int n => if n < 0 then s!"({n})" else s!"{n}"
  | .flt e => s!"float({e.render})"
  | .div a b => s!"({a.render}/{b.render})"
  | .mul a b => s!"({a.render}*{b.render})"
  | .sub a b => s!"({a.render}-{b.render})"
  | .max a b => s!"max({a.render},{b.render})"

/-- `LExpr.int` of a natural number -/
def LExpr.nat (n : Nat) : LExpr := .int (n : Int)

/-- `struct.unpack('>h')` / `'<h'` of an unsigned 16-bit reading -/
def signed16 (n : Nat) : Int := if n < 2 ^ 15 then (n : Int) else (n : Int) - 2 ^ 16

/-- two's complement of a 16-bit signed value -/
def unsigned16 (i : Int) : Nat := if i < 0 then (i + 2 ^ 16).toNat else i.toNat

/-- ASCII bytes of a string literal (chunk ids, magics) -/
def ascii (s : String) : Bytes := s.toList.map fun c => UInt8.ofNat c.toNat

end Mutagen.Info
