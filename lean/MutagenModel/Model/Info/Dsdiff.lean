/-
Model/Info/Dsdiff.lean — mutagen/dsdiff.py `DSDIFFInfo.__init__`, statement by statement, on the bytes
of the file (code side).  Chunk machinery: Model/Container/Iff.lean, dialect `dsdiff` (12-byte chunk
headers; `FRM8` and `PROP` are containers with a 4-byte name, `DST` is a container without one).
-/
import MutagenModel.Model.Info.IffRead
set_option linter.unusedVariables false
namespace Mutagen.Info.Dsdiff
open Mutagen Mutagen.Iff Mutagen.Info

structure Info where
  channels : Nat
  sampleRate : Nat
  /-- always 1 -/
  bitsPerSample : Nat
  /-- an int for DSD, a float expression for DST -/
  bitrate : LExpr
  length : LExpr
  /-- `None`, or the right-stripped compression id -/
  compression : Option Bytes
deriving DecidableEq, Repr

def idProp : Bytes := [0x50, 0x52, 0x4F, 0x50]
def idFS : Bytes := [0x46, 0x53]
def idChnl : Bytes := [0x43, 0x48, 0x4E, 0x4C]
def idCmpr : Bytes := [0x43, 0x4D, 0x50, 0x52]
def idDSD : Bytes := [0x44, 0x53, 0x44]
def idDST : Bytes := [0x44, 0x53, 0x54]
def idFrte : Bytes := [0x46, 0x52, 0x54, 0x45]
/-- "SND " -/
def nameSnd : Bytes := [0x53, 0x4E, 0x44, 0x20]

/-- what the loop over the PROP chunk's sub-chunks assigns -/
structure PropState where
  sampleRate : Nat := 0
  channels : Nat := 0
  compression : Option Bytes := none
deriving DecidableEq, Repr

/-- one round of `for chunk in prop_chunk.subchunks()` -/
def propStep (f : Bytes) (st : PropState) (c : Rec) : Except PyErr PropState :=
  if c.id = idFS ∧ c.dataSize = 4 then
    let data := chunkRead dsdiff f c
    if data.length < 4 then .error .mutagen else .ok { st with sampleRate := ofBE (data.take 4) }
  else if c.id = idChnl ∧ c.dataSize ≥ 2 then
    let data := chunkRead dsdiff f c
    if data.length < 2 then .error .mutagen else .ok { st with channels := ofBE (data.take 2) }
  else if c.id = idCmpr ∧ c.dataSize ≥ 4 then
    let data := chunkRead dsdiff f c
    if data.length < 4 then .error .mutagen
    else
      let cid := data.take 4
      -- `.decode('ascii')`: UnicodeDecodeError → InvalidChunk
      if cid.all (fun b => b.toNat < 128) then .ok { st with compression := some (rstrip cid) }
      else .error .mutagen
  else .ok st

def propLoop (f : Bytes) : PropState → List Rec → Except PyErr PropState
  | st, [] => .ok st
  | st, c :: r =>
    match propStep f st c with
    | .error e => .error e
    | .ok st' => propLoop f st' r

/-- the part of `__init__` behind the PROP loop; `recs` are the root's sub-chunks -/
def finish (f : Bytes) (recs : List Rec) (st : PropState) : Except PyErr Info :=
  let base : Info := { channels := st.channels, sampleRate := st.sampleRate, bitsPerSample := 1,
                       bitrate := .int 0, length := .int 0, compression := st.compression }
  if st.compression = some idDSD then
    match find [idDSD] recs with
    | none => .error .mutagen
    | some dsd =>
      -- `dsd_chunk.data_size * 8 / (self.channels or 1)`
      let sampleCount : LExpr := .div (.nat (dsd.dataSize * 8)) (.nat (if st.channels = 0 then 1 else st.channels))
      .ok { base with
            length := if st.sampleRate ≠ 0 then .div sampleCount (.flt (.nat st.sampleRate)) else .int 0,
            bitrate := .nat (st.channels * 1 * st.sampleRate) }
  else if st.compression = some idDST then
    match find [idDST] recs with
    | none => .error .mutagen
    | some dst =>
      -- `dst_frame['FRTE']`: the DST chunk is a container without a name
      match subWalk dsdiff f dst 0 with
      | .error e => .error e
      | .ok subs =>
        match find [idFrte] subs with
        | none => .error .mutagen
        | some frte =>
          if frte.dataSize ≥ 6 then
            let data := chunkRead dsdiff f frte
            if data.length < 6 then .error .mutagen
            else
              let frameCount := ofBE (readAt data 0 4)
              let frameRate := ofBE (readAt data 4 2)
              let dstDataSize : Int := (dst.dataSize : Int) - (frte.size dsdiff : Nat)
              .ok { base with
                    length := if frameRate ≠ 0 then .div (.nat frameCount) (.nat frameRate) else .int 0,
                    bitrate := if frameCount ≠ 0 then
                        .mul (.mul (.div (.int dstDataSize) (.nat frameCount)) (.int 8)) (.nat frameRate)
                      else .int 0 }
          else .ok base
  else .ok base

/-- `DSDIFFInfo(fileobj)` -/
def parse (f : Bytes) : Except PyErr Info :=
  match parseRoot dsdiff f with
  | .error e => .error e
  | .ok rs =>
    match walk dsdiff f rs with
    | .error e => .error e
    | .ok recs =>
      match find [idProp] recs with
      | none => .error .mutagen
      | some prop =>
        -- `prop_chunk.name == 'SND '`
        if readAt f (prop.offset + hs dsdiff) 4 = nameSnd then
          match subWalk dsdiff f prop 4 with
          | .error e => .error e
          | .ok subs =>
            match propLoop f {} subs with
            | .error e => .error e
            | .ok st => finish f recs st
        else finish f recs {}

end Mutagen.Info.Dsdiff
