/-
Model/Info/Musepack.lean — mutagen/musepack.py `MusepackInfo.__init__`, `__parse_sv8`,
`__parse_stream_header`, `__parse_replaygain_packet`, `__parse_sv467`, `_parse_sv8_int`,
statement by statement, on the bytes of the file (an `io.BytesIO`).

Floats are kept as their integer operands: `length = num / float(den)`; `bitrate` is either a
header value or `intround(bits / length)` with `bits = 8 · file size`; the replay-gain
attributes are the raw header integers together with the formula that Python applies.

Quirks kept: a leading ID3v2 tag is skipped by its size field only; the SV8 packet key test is
the lexicographic `b'AA' <= key <= b'ZZ'`; only SH and RG are looked at and the loop stops as
soon as both were seen (or at AP/SE); the replay-gain peaks are read as *signed* shorts; SV7
accepts the version nibbles 7..15, ignores the true-gapless field and always uses
`frames·1152 - 576`; the relative seek over an uninteresting packet fails on a BytesIO when
position + size exceeds 2^63 - 1 (`OverflowError`, caught and turned into `MusepackHeaderError`
since /repo a1d2e75; an OSError, hence also `MusepackHeaderError`, on a real file) — see
`Mutagen.C05.mpc_sv8_huge_packet_overflow`.
-/
import MutagenModel.Model.Info.Rd
import MutagenModel.Generated.Tables
set_option linter.unusedVariables false
namespace Mutagen.Info.Musepack
open Mutagen Mutagen.Info

/-- a replay-gain attribute: not set, or the raw integer and the generation of the formula
(SV7: gain `raw / 100.0`, peak `raw / 65535.0`; SV8: gain `64.82 - raw / 256.0`, peak
`10 ** (raw / (256.0 * 20.0)) / 65535.0`) -/
inductive RG
  | absent
  | sv7 (raw : Int)
  | sv8 (raw : Int)
deriving DecidableEq, Repr

/-- `info.bitrate`: a header value, or `intround(bits / info.length)` -/
inductive Bitrate
  | value (n : Nat)
  | fromSize (bits : Nat)
deriving DecidableEq, Repr

structure Info where
  version : Nat
  channels : Nat
  sampleRate : Nat
  length : Ratio
  bitrate : Bitrate
  titleGain : RG
  titlePeak : RG
  albumGain : RG
  albumPeak : RG
deriving DecidableEq, Repr

/-- `_parse_sv8_int(fileobj, limit)` at file position `pos`: `none` is EOFError / ValueError (both are
turned into `MusepackHeaderError` by the callers); the result is (number, bytes read) -/
def sv8Int (f : Bytes) : Nat → Nat → Nat → Nat → Option (Nat × Nat)
  | 0, _, _, _ => none
  | limit + 1, pos, num, i =>
    match f[pos]? with
    | none => none
    | some c =>
      let num := num * 128 + c.toNat % 128
      if c.toNat / 128 = 0 then some (num, i + 1) else sv8Int f limit (pos + 1) num (i + 1)

/-- `check_frame_key`: two bytes with `b'AA' <= key <= b'ZZ'` (bytes compare lexicographically) -/
def keyOK (k : Bytes) : Bool :=
  match k with
  | [a, b] => (a.toNat > 0x41 || (a.toNat == 0x41 && b.toNat ≥ 0x41)) &&
              (a.toNat < 0x5a || (a.toNat == 0x5a && b.toNat ≤ 0x5a))
  | _ => false

def keySH : Bytes := [0x53, 0x48]
def keyRG : Bytes := [0x52, 0x47]
def keyAP : Bytes := [0x41, 0x50]
def keySE : Bytes := [0x53, 0x45]

structure Sv8 where
  version : Nat := 0
  samples : Int := 0
  sampleRate : Nat := 0
  channels : Nat := 0
  titleGain : Int := 0
  titlePeak : Int := 0
  albumGain : Int := 0
  albumPeak : Int := 0
deriving DecidableEq, Repr

/-- `__parse_stream_header(fileobj, data_size)` with the file position `p`; returns the new position -/
def parseSH (f : Bytes) (p dataSize : Nat) (a : Sv8) : Except PyErr (Sv8 × Nat) :=
  let p1 := p + 4
  match f[p1]? with
  | none => .error .mutagen
  | some version =>
    match sv8Int f 9 (p1 + 1) 0 0 with
    | none => .error .mutagen
    | some (samples, l1) =>
      match sv8Int f 9 (p1 + 1 + l1) 0 0 with
      | none => .error .mutagen
      | some (samplesSkip, l2) =>
        -- a negative `remaining_size`: "SH packet ended unexpectedly."
        if dataSize < 4 + 1 + l1 + l2 then .error .mutagen
        else
          let remaining := dataSize - (4 + 1 + l1 + l2)
          let p3 := p1 + 1 + l1 + l2
          let data := readAt f p3 remaining
          if data.length ≠ remaining ∨ data.length < 2 then .error .mutagen
          else
            match Generated.musepackRates[(data.getD 0 0).toNat / 32]? with
            | none => .error .mutagen
            | some rate =>
              .ok ({ a with version := version.toNat, samples := (samples : Int) - samplesSkip, sampleRate := rate,
                            channels := (data.getD 1 0).toNat / 16 + 1 }, p3 + remaining)

/-- `__parse_replaygain_packet(fileobj, data_size)` -/
def parseRG (f : Bytes) (p dataSize : Nat) (a : Sv8) : Except PyErr (Sv8 × Nat) :=
  let data := readAt f p dataSize
  if dataSize < 9 then .error .mutagen
  else if data.length ≠ dataSize then .error .mutagen
  else
    .ok ({ a with titleGain := ofSignedLE (readAt data 1 2).reverse, titlePeak := ofSignedLE (readAt data 3 2).reverse,
                  albumGain := ofSignedLE (readAt data 5 2).reverse, albumPeak := ofSignedLE (readAt data 7 2).reverse },
         p + dataSize)

/-- the `while frame_type not in (b"AP", b"SE") and mandatory_packets:` loop; `pos` is the file position
behind the key `frameType`.  Every round consumes at least three bytes, so the fuel is never used up. -/
def sv8Loop (f : Bytes) : Nat → Nat → Bytes → Bool → Bool → Sv8 → Except PyErr (Bool × Bool × Sv8)
  | fuel, pos, frameType, needSH, needRG, a =>
    if frameType = keyAP ∨ frameType = keySE ∨ ¬ (needSH ∨ needRG) then .ok (needSH, needRG, a)
    else
      match sv8Int f 9 pos 0 0 with
      | none => .error .mutagen
      | some (frameSize, slen) =>
        if frameSize < 2 + slen then .error .mutagen
        else
          let dataSize := frameSize - 2 - slen
          let p := pos + slen
          let step : Except PyErr (Bool × Bool × Sv8 × Nat) :=
            if frameType = keySH then
              if ¬ needSH then .error .mutagen
              else (parseSH f p dataSize a).map fun r => (false, needRG, r.1, r.2)
            else if frameType = keyRG then
              if ¬ needRG then .error .mutagen
              else (parseRG f p dataSize a).map fun r => (needSH, false, r.1, r.2)
            else if p + dataSize > 2 ^ 63 - 1 then .error .mutagen
            else .ok (needSH, needRG, a, p + dataSize)
          match step with
          | .error e => .error e
          | .ok (needSH, needRG, a, p') =>
            let frameType := readAt f p' 2
            if ¬ keyOK frameType then .error .mutagen
            else
              match fuel with
              | 0 => .error .diverge
              | fuel + 1 => sv8Loop f fuel (p' + 2) frameType needSH needRG a

/-- `__parse_sv8` with the file position `pos` (behind b"MPCK") -/
def parseSv8 (f : Bytes) (pos : Nat) : Except PyErr Info :=
  let frameType := readAt f pos 2
  if ¬ keyOK frameType then .error .mutagen
  else
    match sv8Loop f f.length (pos + 2) frameType true true {} with
    | .error e => .error e
    | .ok (needSH, needRG, a) =>
      if needSH ∨ needRG then .error .mutagen
      else if a.sampleRate = 0 then .error .zeroDiv
      else
        let rg (x : Int) : RG := if x = 0 then .absent else .sv8 x
        .ok { version := a.version, channels := a.channels, sampleRate := a.sampleRate,
              length := ⟨a.samples, a.sampleRate⟩,
              bitrate := if a.samples ≠ 0 then .fromSize (8 * f.length) else .value 0,
              titleGain := rg a.titleGain, titlePeak := rg a.titlePeak, albumGain := rg a.albumGain,
              albumPeak := rg a.albumPeak }

/-- b"MP+" -/
def magic7 : Bytes := [0x4d, 0x50, 0x2b]
/-- b"MPCK" -/
def magic8 : Bytes := [0x4d, 0x50, 0x43, 0x4b]
/-- b"ID3" -/
def magicID3 : Bytes := [0x49, 0x44, 0x33]

/-- `__parse_sv467` with the header at file position `p0` -/
def parseSv467 (f : Bytes) (p0 : Nat) : Except PyErr Info :=
  let header := readAt f p0 32
  if header.length ≠ 32 then .error .mutagen
  else if startsWith header magic7 then
    let version := uLE header 3 1 % 16
    if version < 7 then .error .mutagen
    else
      let frames := uLE header 4 4
      let flags := uLE header 8 4
      match Generated.musepackRates[flags / 2 ^ 16 % 4]? with
      | none => .error .index
      | some rate =>
        if rate = 0 then .error .zeroDiv
        else
          .ok { version := version, channels := 2, sampleRate := rate,
                length := ⟨(frames : Int) * 1152 - 576, rate⟩, bitrate := .fromSize (8 * f.length),
                titlePeak := .sv7 (uLE header 12 2), titleGain := .sv7 (sLE header 14 2),
                albumPeak := .sv7 (uLE header 16 2), albumGain := .sv7 (sLE header 18 2) }
  else
    let headerDword := uLE header 0 4
    let version := headerDword / 2 ^ 11 % 2 ^ 10
    if version < 4 ∨ version > 6 then .error .mutagen
    else
      let bitrate := headerDword / 2 ^ 23 % 2 ^ 9
      let frames0 : Int := if version ≥ 5 then uLE header 4 4 else uLE header 6 2
      let frames : Int := if version < 6 then frames0 - 1 else frames0
      .ok { version := version, channels := 2, sampleRate := 44100,
            length := ⟨frames * 1152 - 576, 44100⟩,
            bitrate := if bitrate = 0 then .fromSize (8 * f.length) else .value bitrate,
            titleGain := .absent, titlePeak := .absent, albumGain := .absent, albumPeak := .absent }

/-- `BitPaddedInt(header[2:6])`: four big-endian 7-bit groups -/
def bitPadded (b : Bytes) : Nat := b.foldl (fun acc x => acc * 128 + x.toNat % 128) 0

def parse (f : Bytes) : Except PyErr Info :=
  let header := readAt f 0 4
  if header.length ≠ 4 then .error .mutagen
  else
    let start : Except PyErr (Bytes × Nat) :=
      if readAt header 0 3 = magicID3 then
        let h6 := readAt f 4 6
        if h6.length ≠ 6 then .error .mutagen
        else
          let size := 10 + bitPadded (readAt h6 2 4)
          let header := readAt f size 4
          if header.length ≠ 4 then .error .mutagen else .ok (header, size)
      else .ok (header, 0)
    match start with
    | .error e => .error e
    | .ok (header, p0) =>
      if startsWith header magic8 then parseSv8 f (p0 + 4) else parseSv467 f p0

end Mutagen.Info.Musepack
