/-
Model/Info/TrueAudio.lean — mutagen/trueaudio.py `TrueAudioInfo.__init__(fileobj, offset)`,
statement by statement.  `offset` is the size of a leading ID3v2 tag (`offset or 0`).

Quirks kept: only the three bytes b"TTA" are compared (any fourth byte passes), 18 bytes are
read (the CRC is not looked at), the length is the literal 0.0 for rate 0.
-/
import MutagenModel.Model.Info.Rd
set_option linter.unusedVariables false
namespace Mutagen.Info.TrueAudio
open Mutagen Mutagen.Info

structure Info where
  sampleRate : Nat
  length : Ratio
deriving DecidableEq, Repr

/-- b"TTA" -/
def magic : Bytes := [0x54, 0x54, 0x41]

def parse (f : Bytes) (offset : Nat := 0) : Except PyErr Info :=
  let header := readAt f offset 18
  if header.length ≠ 18 ∨ ¬ startsWith header magic then .error .mutagen
  else
    let sampleRate := uLE header 10 4
    let samples := uLE header 14 4
    .ok { sampleRate := sampleRate, length := if sampleRate ≠ 0 then ⟨samples, sampleRate⟩ else ⟨0, 1⟩ }

end Mutagen.Info.TrueAudio
