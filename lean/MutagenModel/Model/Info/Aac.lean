/-
Model/Info/Aac.lean — mutagen/aac.py `AACInfo.__init__`, `_parse_adts`, `_parse_adif`,
`_ADTSStream` (`find_stream`, `sync`, `parse_frame`, the properties) and `ProgramConfigElement`,
statement by statement.

The MSB-first `BitReader` is modelled by its bit position: `start` is the byte offset of the file
at which the reader was created, `pos` the value of `get_position()`.  A read of `n > 0` bits
succeeds iff the bytes it needs exist (`8·start + pos + n ≤ 8·len`); `skip` seeks without
looking and only fails if it ends inside a byte that does not exist; `align` rounds the position
up.  (`bytes(1)` is `bits(8)` at every call.)

Floats are kept as integer operands: `length = num / float(den)`; the ADTS `bitrate` is the floor
division `num // den` (Python computes it on floats whose values are exact integers); the ADIF
bit rate is the 23-bit header field.

Quirks kept: the ADTS stream is searched from `offset` which is advanced by `s.offset + 1` per try
and then added to `s.offset` *again* for the stream size; a frame counts even when the file ends
inside it; at most 100 frames are looked at; channel configuration 0 gives 0 channels, 7 gives 8;
an unknown frequency index gives 0 Hz and length 0.0; the CRC overhead is subtracted from the
payload (which may become negative).
-/
import MutagenModel.Model.Info.Rd
import MutagenModel.Model.Bits
import MutagenModel.Generated.Tables
set_option linter.unusedVariables false
namespace Mutagen.Info.Aac
open Mutagen Mutagen.Info

structure Info where
  channels : Nat
  sampleRate : Nat
  /-- `info.bitrate = num // den` (floor division) -/
  bitrate : Ratio
  length : Ratio
  /-- `_type`: true = ADIF -/
  adif : Bool
deriving DecidableEq, Repr

/-- `BitReader` -/
structure R where
  start : Nat
  pos : Nat
deriving DecidableEq, Repr

/-- the `n` bits of the file from absolute bit position `q` on, as a number (MSB first); only the bytes
that hold them are unpacked (`Mutagen.Info.Aac.bitsAt_eq`: the same as unpacking the whole file) -/
def bitsAt (f : Bytes) (q n : Nat) : Nat :=
  bitsToNat (((bytesToBits (readAt f (q / 8) ((q % 8 + n + 7) / 8))).drop (q % 8)).take n)

/-- `r.bits(n)`; `none` is `BitReaderError` -/
def R.bits (f : Bytes) (r : R) (n : Nat) : Option (Nat × R) :=
  if n = 0 then some (0, r)
  else if 8 * r.start + r.pos + n ≤ 8 * f.length then some (bitsAt f (8 * r.start + r.pos) n, { r with pos := r.pos + n })
  else none

/-- `r.skip(n)` -/
def R.skip (f : Bytes) (r : R) (n : Nat) : Option R :=
  if (r.pos + n) % 8 = 0 ∨ 8 * r.start + r.pos + n < 8 * f.length then some { r with pos := r.pos + n } else none

/-- `r.align()` -/
def R.align (r : R) : R := { r with pos := (r.pos + 7) / 8 * 8 }

/-- the loop of `_ADTSStream.sync` (the reader already aligned): `some r` = True with the reader
behind the 12 sync bits, `none` = False -/
def syncLoop (f : Bytes) : Nat → R → Option R
  | 0, _ => none
  | 1, r =>
    match r.bits f 8 with
    | none => none
    | some (b, r1) =>
      if b = 0xff then
        match r1.bits f 4 with
        | none => none
        | some (v, r2) => if v = 0xf then some r2 else none
      else none
  | m + 2, r =>
    match r.bits f 8 with
    | none => none
    | some (b, r1) =>
      if b = 0xff then
        match r1.bits f 4 with
        | none => none
        | some (v, r2) => if v = 0xf then some r2 else syncLoop f m r2.align
      else syncLoop f (m + 1) r1

/-- `sync(max_bytes)` -/
def sync (f : Bytes) (r : R) (maxBytes : Nat) : Option R := syncLoop f (max maxBytes 2) r.align

/-- `_ADTSStream` -/
structure Stream where
  r : R
  /-- `_fixed_header_key` (id, layer, protection_absent, profile, sampling_frequency_index, private_bit,
  channel_configuration, original_copy, home) -/
  key : Option (List Nat)
  offset : Nat
  parsedFrames : Nat
  samples : Nat
  /-- 8 · `_payload` (the sum of `left - crc_overhead`, in bits) -/
  payloadBits : Int
  /-- 8 · `_last` (bit position behind the last parsed frame) -/
  lastBits : Nat
deriving DecidableEq, Repr

/-- `_parse_frame`; `none` = False / BitReaderError -/
def parseFrame (f : Bytes) (s : Stream) : Option Stream := do
  let r := s.r
  let start : Int := (r.pos : Int) - 12
  let (id, r) ← r.bits f 1
  let (layer, r) ← r.bits f 2
  let (protectionAbsent, r) ← r.bits f 1
  let (profile, r) ← r.bits f 2
  let (sfi, r) ← r.bits f 4
  let (priv, r) ← r.bits f 1
  let (cc, r) ← r.bits f 3
  let (orig, r) ← r.bits f 1
  let (home, r) ← r.bits f 1
  let fixedKey := [id, layer, protectionAbsent, profile, sfi, priv, cc, orig, home]
  if s.key ≠ none ∧ s.key ≠ some fixedKey then none
  else
    let r ← r.skip f 2
    let (frameLength, r) ← r.bits f 13
    let r ← r.skip f 11
    let (nordbif, r) ← r.bits f 2
    let crcOverhead : Nat :=
      if protectionAbsent = 0 then (if nordbif ≠ 0 then (nordbif + 1) * 16 * 2 else (nordbif + 1) * 16) else 0
    let left : Int := (frameLength : Int) * 8 - ((r.pos : Int) - start)
    if left < 0 then none
    else
      let r ← r.skip f left.toNat
      pure { s with r := r, key := some fixedKey, parsedFrames := s.parsedFrames + 1,
                    samples := s.samples + (nordbif + 1) * 1024, payloadBits := s.payloadBits + (left - crcOverhead),
                    lastBits := r.pos }

/-- `find_stream(fileobj, max_bytes)` with the file position `offset` -/
def findStream (f : Bytes) (offset maxBytes : Nat) : Option Stream :=
  match sync f { start := offset, pos := 0 } maxBytes with
  | none => none
  | some r => some { r := r, key := none, offset := (r.pos - 12) / 8, parsedFrames := 0, samples := 0, payloadBits := 0, lastBits := 0 }

/-- `for i in range(frames_max): if not s.parse_frame(): break; if not s.sync(max_resync_read): break` -/
def framesLoop (f : Bytes) : Nat → Stream → Stream
  | 0, s => s
  | n + 1, s =>
    match parseFrame f s with
    | none => s
    | some s1 =>
      match sync f s1.r 10 with
      | none => s1
      | some r2 => framesLoop f n { s1 with r := r2 }

/-- `for i in range(max_sync_tries): … else: raise`; returns the stream and `offset` -/
def tries (f : Bytes) : Nat → Nat → Except PyErr (Stream × Nat)
  | 0, _ => .error .mutagen
  | n + 1, offset =>
    match findStream f offset 512 with
    | none => .error .mutagen
    | some s =>
      let offset := offset + s.offset + 1
      let s := framesLoop f 100 s
      if s.parsedFrames ≥ 3 then .ok (s, offset) else tries f n offset

def parseAdts (f : Bytes) (startOffset : Nat) : Except PyErr Info :=
  match tries f 10 startOffset with
  | .error e => .error e
  | .ok (s, offset) =>
    let key := s.key.getD []
    let frequency := (Generated.aacFreqs[key.getD 4 0]?).getD 0
    let bIndex := key.getD 6 0
    let channels := if bIndex = 7 then 8 else if bIndex > 7 then 0 else bIndex
    if s.parsedFrames = 0 then .error .assertion
    else
      let streamSize : Int := (f.length : Int) - (offset + s.offset : Nat)
      .ok { channels := channels, sampleRate := frequency,
            bitrate := if s.samples = 0 then ⟨0, 1⟩ else ⟨s.payloadBits * frequency, s.samples⟩,
            length := if frequency ≠ 0 then ⟨(s.samples : Int) * streamSize, ((s.lastBits / 8 * frequency : Nat) : Int)⟩ else ⟨0, 1⟩,
            adif := false }

/-- `if c: r.skip(n)` -/
def R.skipIf (f : Bytes) (r : R) (c : Bool) (n : Nat) : Option R := if c then r.skip f n else some r

/-- `ProgramConfigElement(r)`: (sampling_frequency_index, channels, reader) -/
def elmsLoop (f : Bytes) : Nat → R → Nat → Option (Nat × R)
  | 0, r, ch => some (ch, r)
  | n + 1, r, ch =>
    match r.bits f 1 with
    | none => none
    | some (cpe, r) =>
      match r.skip f 4 with
      | none => none
      | some r => elmsLoop f n r (ch + 1 + (if cpe ≠ 0 then 1 else 0))

def parsePce (f : Bytes) (r : R) : Option (Nat × Nat × R) := do
  let (_tag, r) ← r.bits f 4
  let (_objectType, r) ← r.bits f 2
  let (sfi, r) ← r.bits f 4
  let (front, r) ← r.bits f 4
  let (side, r) ← r.bits f 4
  let (back, r) ← r.bits f 4
  let (lfe, r) ← r.bits f 2
  let (assoc, r) ← r.bits f 3
  let (cc, r) ← r.bits f 4
  let (mono, r) ← r.bits f 1
  let r ← r.skipIf f (decide (mono = 1)) 4
  let (stereo, r) ← r.bits f 1
  let r ← r.skipIf f (decide (stereo = 1)) 4
  let (matrix, r) ← r.bits f 1
  let r ← r.skipIf f (decide (matrix = 1)) 3
  let (channels, r) ← elmsLoop f (front + side + back) r 0
  let r ← r.skip f (4 * lfe)
  let r ← r.skip f (4 * assoc)
  let r ← r.skip f (5 * cc)
  let r := r.align
  let (commentBytes, r) ← r.bits f 8
  let r ← r.skip f (8 * commentBytes)
  pure (sfi, channels + lfe, r)

def pceLoop (f : Bytes) : Nat → R → Option R
  | 0, r => some r
  | n + 1, r =>
    match parsePce f r with
    | none => none
    | some (_, _, r) => pceLoop f n r

def adifHeader (f : Bytes) (r : R) : Option (Nat × Nat × Nat × R) := do
  let (copyrightPresent, r) ← r.bits f 1
  let r ← r.skipIf f (decide (copyrightPresent ≠ 0)) 72
  let r ← r.skip f 2
  let (bitstreamType, r) ← r.bits f 1
  let (bitrate, r) ← r.bits f 23
  let (npce, r) ← r.bits f 4
  let r ← r.skipIf f (decide (bitstreamType = 0)) 20
  let (sfi, channels, r) ← parsePce f r
  let r ← pceLoop f npce r
  pure (bitrate, sfi, channels, r.align)

/-- `_parse_adif` with the file position `p0` (behind b"ADIF") -/
def parseAdif (f : Bytes) (p0 : Nat) : Except PyErr Info :=
  match adifHeader f { start := p0, pos := 0 } with
  | none => .error .mutagen
  | some (bitrate, sfi, channels, r) =>
    let start := p0 + r.pos / 8
    let length : Int := (f.length : Int) - start
    .ok { channels := channels, sampleRate := (Generated.aacFreqs[sfi]?).getD 0, bitrate := ⟨bitrate, 1⟩,
          length := if bitrate ≠ 0 then ⟨8 * length, bitrate⟩ else ⟨0, 1⟩, adif := true }

/-- b"ID3" / b"ADIF" -/
def magicID3 : Bytes := [0x49, 0x44, 0x33]
def magicADIF : Bytes := [0x41, 0x44, 0x49, 0x46]

def bitPadded (b : Bytes) : Nat := b.foldl (fun acc x => acc * 128 + x.toNat % 128) 0

def parse (f : Bytes) : Except PyErr Info :=
  let header := readAt f 0 10
  let startOffset := if startsWith header magicID3 then bitPadded (header.drop 6) + 10 else 0
  let adif := readAt f startOffset 4
  if adif = magicADIF then parseAdif f (startOffset + 4) else parseAdts f startOffset

end Mutagen.Info.Aac
