/-
Model/Info/Smf.lean — mutagen/smf.py (code side): `_var_int`, `_read_track` (running status, meta events, set-tempo,
sysex; returns the end tick of the track and its tempo changes `(tick, tempo)` in file order), `_read_midi_length`
(`read_chunk`, the MThd checks, the loop over `ntracks` chunks, in format 1 the tempo list of the first MTrk chunk for
all tracks, the integral of the tempo map over [0, end] per track), `SMFInfo`, `SMF.load`.
Every `raise SMFError` is `.mutagen` (SMFError is a MutagenError); `SMF.load` converts IOError to SMFError (a BytesIO
raises none).  `IndexError` of `data[offset]` in `_var_int` is caught there and re-raised as SMFError.

The length is a float computed per track as
    duration = 0;  per tempo segment: duration += ticks / float(tickdiv) * tempo;  duration / 10 ** 6
and `max(durations)`.  The model returns the integers that go into it — `tickdiv` and, per MTrk chunk, the list of
segments `(ticks, tempo)` — and `Info.render` writes the Python expression with the same operations in the same order; the
tie lets Python evaluate it and compares floats exactly.
-/
import MutagenModel.Model.Info.Common
set_option linter.unusedVariables false
namespace Mutagen.Info.Smf
open Mutagen Mutagen.Info

/-! ### `_var_int` -/

/-- the loop of `_var_int` on the bytes from `offset` on: `val` so far, the offset of the next byte -/
def varIntGo : Bytes → Nat → Nat → Except PyErr (Nat × Nat)
  | [], _, _ => .error .mutagen                                   -- IndexError → SMFError("Not enough data")
  | x :: r, val, off =>
    let val := val * 128 + x.toNat % 128
    if val > 0x0FFFFFFF then .error .mutagen                      -- "Variable-length quantity too large"
    else if x.toNat / 128 % 2 = 0 then .ok (val, off + 1)
    else varIntGo r val (off + 1)

/-- `_var_int(data, offset)` → `(val, offset)` -/
def varInt (data : Bytes) (offset : Nat) : Except PyErr (Nat × Nat) := varIntGo (data.drop offset) 0 offset

/-! ### `_read_track` -/

structure TrackState where
  off : Nat := 0
  deltasum : Nat := 0
  status : Nat := 0
  /-- `(deltasum, tempo)` in the order appended -/
  tempos : List (Nat × Nat) := []
deriving Repr

/-- one round of the `while off < len(chunk)` loop -/
def trackStep (chunk : Bytes) (s : TrackState) : Except PyErr TrackState :=
  match varInt chunk s.off with
  | .error e => .error e
  | .ok (delta, off) =>
    let deltasum := s.deltasum + delta
    if off ≥ chunk.length then .error .mutagen                    -- "Not enough data"
    else
      let eventType := (chunk.getD off 0).toNat
      let off := off + 1
      if eventType = 0xFF then
        if off ≥ chunk.length then .error .mutagen
        else
          let metaType := (chunk.getD off 0).toNat
          let off := off + 1
          match varInt chunk off with
          | .error e => .error e
          | .ok (num, off) =>
            if metaType = 0x51 then
              let data := readAt chunk off num
              if data.length ≠ 3 then .error .mutagen              -- `raise SMFError`
              else .ok { s with off := off + num, deltasum := deltasum, tempos := s.tempos ++ [(deltasum, ofBE data)] }
            else .ok { s with off := off + num, deltasum := deltasum }
      else if eventType = 0xF0 ∨ eventType = 0xF7 then
        match varInt chunk off with
        | .error e => .error e
        | .ok (val, off) => .ok { s with off := off + val, deltasum := deltasum }
      else
        if eventType < 0x80 then
          -- running status: the byte read is the first data byte
          let et := s.status
          let off := if et / 16 = 0xD ∨ et / 16 = 0xC then off + 1 - 1 else off + 1
          .ok { s with off := off, deltasum := deltasum }
        else if eventType < 0xF0 then
          let off := if eventType / 16 = 0xD ∨ eventType / 16 = 0xC then off + 2 - 1 else off + 2
          .ok { s with off := off, deltasum := deltasum, status := eventType }
        else .error .mutagen                                       -- "invalid event" (0xF1 … 0xF6, 0xF8 … 0xFE)

/-- the loop; every round consumes at least two bytes, so `chunk.length + 1` rounds are never used up
(`trackLoop_total` in Proofs/Info/Smf.lean); `.diverge` marks running out -/
def trackLoop (chunk : Bytes) : Nat → TrackState → Except PyErr TrackState
  | 0, s => if s.off < chunk.length then .error .diverge else .ok s
  | fuel + 1, s =>
    if s.off < chunk.length then
      match trackStep chunk s with
      | .error e => .error e
      | .ok s' => trackLoop chunk fuel s'
    else .ok s

/-- `_read_track(chunk)` → `(deltasum, tempos)`: the end tick and the tempo changes -/
def readTrack (chunk : Bytes) : Except PyErr (Nat × List (Nat × Nat)) :=
  match trackLoop chunk (chunk.length + 1) {} with
  | .error e => .error e
  | .ok s => .ok (s.deltasum, s.tempos)

/-! ### `_read_midi_length` -/

/-- `read_chunk(fileobj)` with the file object at `pos`: identifier, data, the position behind the chunk -/
def readChunk (f : Bytes) (pos : Nat) : Except PyErr (Bytes × Bytes × Nat) :=
  let info := readAt f pos 8
  if info.length ≠ 8 then .error .mutagen
  else
    let chunklen := ofBE (info.drop 4)
    let data := readAt f (pos + 8) chunklen
    if data.length ≠ chunklen then .error .mutagen
    else .ok (info.take 4, data, pos + 8 + chunklen)

/-- the loop over the tempo changes of one track: a segment `(ticks, tempo)` for every `duration += …`, the last one
from the last change (or 0) to the end -/
def segsGo (end_ : Nat) : List (Nat × Nat) → Nat → Nat → List (Nat × Nat)
  | [], last, tempo => [(end_ - last, tempo)]
  | (tick, new) :: r, last, tempo => (min tick end_ - last, tempo) :: segsGo end_ r (min tick end_) new

def segs (end_ : Nat) (tempos : List (Nat × Nat)) : List (Nat × Nat) := segsGo end_ tempos 0 500000

/-- the loop `for tracknum in range(ntracks)`: the segments of every MTrk chunk; `tm` = `tempo_map` (`none`: None) -/
def tracksLoop (f : Bytes) (format : Nat) : Nat → Nat → Option (List (Nat × Nat)) → Except PyErr (List (List (Nat × Nat)))
  | 0, _, _ => .ok []
  | n + 1, pos, tm =>
    match readChunk f pos with
    | .error e => .error e
    | .ok (ident, chunk, pos') =>
      if ident ≠ [0x4D, 0x54, 0x72, 0x6B] then tracksLoop f format n pos' tm             -- not "MTrk": continue
      else
        match readTrack chunk with
        | .error e => .error e
        | .ok (end_, tempos) =>
          -- format 1: the tempo list of the first MTrk chunk (also when it is empty) applies to all tracks
          let tm' : Option (List (Nat × Nat)) := if format = 1 then (match tm with | some l => some l | none => some tempos) else tm
          let tempos' := if format = 1 then (match tm with | some l => l | none => tempos) else tempos
          match tracksLoop f format n pos' tm' with
          | .error e => .error e
          | .ok rest => .ok (segs end_ tempos' :: rest)

structure Info where
  tickdiv : Nat
  /-- per MTrk chunk, in file order: the segments `(ticks, tempo)` -/
  tracks : List (List (Nat × Nat))
deriving DecidableEq, Repr

/-- `_read_midi_length(fileobj)` / `SMFInfo(fileobj)` / `SMF.load` -/
def parse (f : Bytes) : Except PyErr Info :=
  match readChunk f 0 with
  | .error e => .error e
  | .ok (ident, chunk, pos) =>
    if ident ≠ [0x4D, 0x54, 0x68, 0x64] then .error .mutagen                              -- "Not a MIDI file"
    else if chunk.length ≠ 6 then .error .mutagen                                          -- "truncated"
    else
      let format := ofBE (chunk.take 2)
      let ntracks := ofBE ((chunk.drop 2).take 2)
      let tickdiv := ofBE (chunk.drop 4)
      if format > 1 then .error .mutagen                                                   -- "Not supported format"
      else if tickdiv / 2 ^ 15 ≠ 0 then .error .mutagen                                    -- SMPTE: "Not supported timing interval"
      else if tickdiv = 0 then .error .mutagen                                             -- "Invalid timing interval"
      else
        match tracksLoop f format ntracks pos none with
        | .error e => .error e
        | .ok tracks =>
          if tracks.isEmpty then .error .mutagen                                           -- "No tracks found"
          else .ok { tickdiv := tickdiv, tracks := tracks }

/-- the Python expression of the length (no blanks: it travels as one token of the driver's answer) -/
def Info.render (i : Info) : String :=
  let dur (ps : List (Nat × Nat)) : String :=
    "(" ++ ps.foldl (fun acc p => s!"({acc}+({p.1}/float({i.tickdiv}))*{p.2})") "0" ++ "/10**6)"
  "max([" ++ ",".intercalate (i.tracks.map dur) ++ "])"

end Mutagen.Info.Smf
