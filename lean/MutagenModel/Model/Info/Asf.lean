/-
Model/Info/Asf.lean — the stream information `ASF.load` collects (code side): `HeaderObject.parse_full`
is Model/Container/Asf.lean `parseFull` (every header object, the children of the Header Extension Object
included, is constructed and parsed in file order); `FilePropertiesObject.parse` sets `info.length`,
`StreamPropertiesObject.parse` of an audio stream sets `channels`, `sample_rate`, `bitrate`
(mutagen/asf/_objects.py).  Later objects overwrite what earlier ones set.
(`codec_type`, `codec_name`, `codec_description` of the Codec List Object are not modelled here.)
-/
import MutagenModel.Model.Container.Asf
import MutagenModel.Model.Info.Common
set_option linter.unusedVariables false
namespace Mutagen.Info.Asf
open Mutagen Mutagen.Asf Mutagen.Info

structure Info where
  length : LExpr
  sampleRate : Nat
  bitrate : Nat
  channels : Nat
deriving DecidableEq, Repr

/-- `ASFInfo()` -/
def init : Info := { length := .flt (.int 0), sampleRate := 0, bitrate := 0, channels := 0 }

/-- `max((length / 10000000.0) - (preroll / 1000.0), 0.0)` -/
def lengthOf (playDuration preroll : Nat) : LExpr :=
  .max (.sub (.div (.nat playDuration) (.flt (.int 10000000))) (.div (.nat preroll) (.flt (.int 1000)))) (.flt (.int 0))

/-- what `obj.parse(asf, data)` does to `asf.info` (the payload has passed `rawOK`: 64 resp. 66 bytes are there) -/
def step (i : Info) : Leaf → Info
  | .raw g d =>
    if g = gFileProps then
      -- struct.unpack("<QQQ", data[40:64]): play duration, send duration, preroll
      { i with length := lengthOf (ofLE (readAt d 40 8)) (ofLE (readAt d 56 8)) }
    else if g = gStreamProps ∧ d.take 16 = gAudioMedia then
      -- struct.unpack("<HII", data[56:66])
      { i with channels := ofLE (readAt d 56 2), sampleRate := ofLE (readAt d 58 4), bitrate := ofLE (readAt d 62 4) * 8 }
    else i
  | _ => i

/-- `ASF(fileobj).info` -/
def parse (f : Bytes) : Except PyErr Info :=
  match parseFull f with
  | .error e => .error e
  | .ok objs => .ok ((leaves objs).foldl step init)

end Mutagen.Info.Asf
