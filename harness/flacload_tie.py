"""flacload_tie.py — FLAC.load: the real constructor `FLAC(fileobj)` against the Lean model (Model/Container/FlacLoad.lean), as a pure
function of the bytes (`run`) and as a program over the file object under faults (`run_load_faults`): every fault index, a short
read of 0 / 1 / n/2 / n-1 bytes at every read — outcome class, position, call log, file untouched, object not closed."""
import io, os, struct
from vcheck import hx, parse_fields
from guards import timed


def classify(exc):
    from mutagen import MutagenError
    if isinstance(exc, MutagenError):
        return "err mutagen"
    return "err " + {"error": "struct", "ValueError": "value", "TypeError": "type", "IndexError": "index", "KeyError": "key",
                     "EOFError": "eof", "OverflowError": "overflow", "MemoryError": "memory", "ZeroDivisionError": "zerodiv",
                     "AttributeError": "attribute", "UnicodeDecodeError": "unicode"}.get(type(exc).__name__, type(exc).__name__)


def describe(f, size):
    from mutagen import flac
    out = []
    for b in f.metadata_blocks:
        if isinstance(b, flac.StreamInfo):
            out.append("%d:si%d.%d" % (b.code, b.sample_rate, b.total_samples))
        elif isinstance(b, flac.VCFLACDict):
            out.append("%d:vc%d" % (b.code, b._size))
        elif isinstance(b, flac.Padding):
            out.append("%d:pad%d" % (b.code, b.length))
        elif isinstance(b, flac.SeekTable):
            out.append("%d:seek%d" % (b.code, len(b.seekpoints)))
        elif isinstance(b, flac.CueSheet):
            out.append("%d:cue%d" % (b.code, len(b.tracks)))
        elif isinstance(b, flac.Picture):
            out.append("%d:pic%d" % (b.code, len(b.data)))
        else:
            out.append("%d:raw%d" % (b.code, len(b.data)))
    audio = "-"
    if f.info.length:
        # bitrate = int(float(tell() - start) * 8 / length): recover the byte count the model reports
        audio = str(f._verif_audio) if hasattr(f, "_verif_audio") else "?"
    return "blocks=%s audio=%s" % (",".join(out) or "-", audio)


def blk(code, payload, last=False, declared=None):
    n = len(payload) if declared is None else declared
    return bytes([code | (0x80 if last else 0)]) + struct.pack(">I", n & 0xFFFFFF)[1:] + payload


def vc_payload(rng, n=None):
    items = [b"TITLE=x", b"ARTIST=" + bytes(rng.randrange(32, 127) for _ in range(rng.choice([0, 3, 20]))), b"novalue", b"=", b""]
    k = rng.randrange(0, 4) if n is None else n
    ch = [rng.choice(items) for _ in range(k)]
    vendor = rng.choice([b"", b"ref", b"x" * 20])
    return struct.pack("<I", len(vendor)) + vendor + struct.pack("<I", len(ch)) + b"".join(struct.pack("<I", len(c)) + c for c in ch)


def pic_payload(rng):
    mime, desc, data = rng.choice([b"", b"image/png"]), rng.choice([b"", b"d\xc3\xa9", b"\xff"]), bytes(rng.randrange(256) for _ in range(rng.choice([0, 5, 40])))
    return struct.pack(">2I", 3, len(mime)) + mime + struct.pack(">I", len(desc)) + desc + struct.pack(">5I", 1, 2, 3, 4, len(data)) + data


def gen_flac(rng):
    """-> (bytes, kind)"""
    si = bytes.fromhex("10001000" "000010" "000010") + struct.pack(">Q", (rng.choice([44100, 1, 0, 655350]) << 44) | (1 << 41) | (15 << 36) | rng.choice([0, 100, 2 ** 36 - 1])) + b"\x00" * 16
    blocks = [(0, si)]
    for _ in range(rng.randrange(0, 5)):
        code = rng.choice([1, 2, 3, 4, 5, 6, 7, 100, 126, 127 & 0x7F, 4, 6, 0])
        if code == 4:
            p = vc_payload(rng)
        elif code == 6:
            p = pic_payload(rng)
        elif code == 3:
            p = bytes(rng.randrange(256) for _ in range(rng.choice([0, 18, 36, 19])))
        elif code == 5:
            nt = rng.choice([0, 1, 2])
            p = b"\0" * 395 + bytes([nt]) + b"".join(b"\0" * 35 + bytes([1]) + b"\0" * 12 for _ in range(nt))
        elif code == 0:
            p = si
        else:
            p = bytes(rng.randrange(256) for _ in range(rng.choice([0, 1, 4, 30])))
        blocks.append((code, p))
    kind = rng.choice(["plain"] * 6 + ["id3", "id3-bad", "declared-off", "truncated", "no-last", "no-si", "garbage", "bad-marker", "flip"])
    decl = {}
    if kind == "declared-off":
        i = rng.randrange(len(blocks))
        decl[i] = max(0, len(blocks[i][1]) + rng.choice([-3, -1, 2, 40]))
    if kind == "no-si":
        blocks = blocks[1:] or [(1, b"")]
    body = b"".join(blk(c, p, last=(i == len(blocks) - 1 and kind != "no-last"), declared=decl.get(i)) for i, (c, p) in enumerate(blocks))
    audio = b"\xff\xf8" + bytes(rng.randrange(256) for _ in range(rng.choice([0, 10, 50])))
    data = b"fLaC" + body + audio
    if kind in ("id3", "id3-bad"):
        n = rng.choice([0, 5, 30])
        tag = b"ID3\x04\x00\x00" + bytes([0, 0, 0, n]) + b"\0" * n
        if kind == "id3-bad":
            tag = tag[:6] + bytes([0, 0, 0, n + rng.choice([1, 3, 100])]) + tag[10:]
        data = tag + data
    elif kind == "truncated":
        data = data[:rng.randrange(len(data))]
    elif kind == "garbage":
        data = bytes(rng.randrange(256) for _ in range(rng.choice([0, 3, 4, 20])))
    elif kind == "bad-marker":
        data = rng.choice([b"fLaX", b"ID3", b"ID3\x04\x00", b"OggS"]) + data[4:]
    elif kind == "flip":
        b = bytearray(data)
        for _ in range(rng.choice([1, 2, 4])):
            b[rng.randrange(len(b))] = rng.randrange(256)
        data = bytes(b)
    return data, kind


def real_load(fileobj):
    """FLAC(fileobj), remembering the byte count of the bitrate computation"""
    from mutagen import flac
    f = flac.FLAC(fileobj)
    return f


def audio_bytes(f, data):
    """what `fileobj.tell() - start` was: the bytes behind the last metadata block — recomputed from the call log"""
    return None


def run(ctx):
    """pure tie: outcome class and block list of FLAC(io.BytesIO(data)) against `load`; returns the number of cases"""
    from mutagen import MutagenError
    rng = ctx.rng
    n = int(os.environ.get("VERIF_FLACLOAD_CASES", "0")) or ctx.budget(150, 1500)
    reqs = []
    for i in range(n):
        data, kind = gen_flac(rng)
        k, r = timed(lambda: real_load(io.BytesIO(data)), 20)
        case = dict(kind=kind, data=hx(data) if len(data) < 1200 else "len=%d" % len(data))
        ctx.case(key=("flacload", kind, i), nontrivial=True, modelled=True, sample=case if i == 2 else None)
        ctx.hist["flacload:%s:%s" % (kind, "ok" if k == "ok" else classify(r))] += 1
        if k == "hang":
            ctx.violation("flac:load:hang", "did not finish", case); continue
        if k == "exc" and not isinstance(r, MutagenError):
            ctx.violation("flac:load:raises-%s" % type(r).__name__, "%r from FLAC(fileobj)" % (r,), case)
        impl = ("ok " + describe(r, len(data)).rsplit(" audio=", 1)[0]) if k == "ok" else classify(r)
        reqs.append(("flacload pure=1 data=%s" % hx(data), impl, case))
    if not ctx.model_ok():
        ctx.notes.append("flacload_tie: model driver unavailable, tie skipped"); return len(reqs)
    answers = ctx.driver.ask([r[0] for r in reqs])
    if any(a == "bad-op" for a in answers):
        ctx.notes.append("flacload_tie: the driver does not know `flacload`; tie skipped"); return len(reqs)
    for (line, impl, case), ans in zip(reqs, answers):
        ctx.traces_validated += 1
        got = ans.rsplit(" audio=", 1)[0]
        if got != impl:
            ctx.disagree("FLAC.load (pure)", case, model=ans[:400], impl=impl[:400])
    return len(reqs)


def run_load_faults(ctx):
    """FLAC(FaultFile): clean, one IOError at every call index, short reads at every read; returns the number of real runs"""
    from mutagen import MutagenError
    from fobj import FaultFile
    rng = ctx.rng
    nfiles = int(os.environ.get("VERIF_FLACLOAD_FILES", "0")) or ctx.budget(8, 80)
    reqs = []
    runs = 0
    for fi in range(nfiles):
        data, kind = gen_flac(rng)
        if len(data) > 900:
            continue
        ref = FaultFile(data)
        k0, r0 = timed(lambda: real_load(ref), 20)
        runs += 1
        n = ref.calls
        envs = [("clean", {}, "")]
        idx = range(n) if n <= 80 else sorted(set(list(range(40)) + [rng.randrange(n) for _ in range(40)]))
        for i in idx:
            envs.append(("fail", dict(fail_at=i), " fail=%d:io" % i))
            if ref.log[i].startswith("r"):
                want = int(ref.log[i][1:])
                for kk in sorted(set([0, 1, want // 2, max(0, want - 1)])):
                    if kk < want:
                        envs.append(("short", dict(short=(i, kk)), " short=%d:%d" % (i, kk)))
        for ename, kw, extra in envs:
            f = FaultFile(data, **kw)
            k, res = timed(lambda: real_load(f), 20)
            runs += 1
            case = dict(kind=kind, data=hx(data), env=extra.strip() or "clean")
            ctx.case(key=("flacloadm", fi, extra), nontrivial=(ename != "clean"), modelled=True)
            st = "ok" if k == "ok" else ("hang" if k == "hang" else classify(res))
            ctx.hist["flacloadm:%s:%s" % (ename, st)] += 1
            if k == "hang":
                ctx.violation("flac:load:hang", "did not finish", case); continue
            if f.getvalue() != data:
                ctx.violation("flac:load:modifies-file", "load changed the file", case)
            if f.closed_called:
                ctx.violation("flac:load:closes-caller-file", "close() was called on the caller's file object", case)
            if k == "exc" and not isinstance(res, MutagenError) and not (isinstance(res, ValueError) and kw.get("fail_at") == 0):
                ctx.violation("flac:load:fault-raises-%s" % type(res).__name__, "%s surfaced as %r" % (extra, res), case)
            if ename == "short" and k == "ok":
                ctx.violation("flac:load:short-read-unnoticed", "a short read went unnoticed: load returned normally", case)
            blocks = ("ok " + describe(res, len(data)).rsplit(" audio=", 1)[0]) if k == "ok" else st
            reqs.append(("flacload data=%s%s" % (hx(data), extra), (blocks, f.pos(), list(f.log)), case))
    if not ctx.model_ok():
        ctx.notes.append("flacload_tie.run_load_faults: model driver unavailable, tie skipped"); return runs
    answers = ctx.driver.ask([r[0] for r in reqs]) if reqs else []
    if any(a == "bad-op" for a in answers):
        ctx.notes.append("flacload_tie.run_load_faults: the driver does not know `flacload`; tie skipped"); return runs
    for (line, (st, pos, log), case), ans in zip(reqs, answers):
        ctx.traces_validated += 1
        mst, mf = parse_fields(ans)
        mlog = [] if mf.get("log", "-") == "-" else mf["log"].split(",")
        mine = ("ok blocks=%s" % mf.get("blocks", "?")) if mst == "ok" else mst.replace(":", " ")
        if mine != st or mlog != log or int(mf.get("pos", -1)) != pos:
            ctx.disagree("FLAC.load file operations", case, model=ans[:500], impl="%s pos=%d log=%s" % (st, pos, ",".join(log))[:500])
    return runs


def run_save_faults(ctx):
    """FLAC.save(FaultFile) with its real reads against `FlacL.saveRealM` (Model/Container/FlacSaveM.lean): clean, one IOError at
    every call index, every capacity 0..growth — outcome class, bytes, position and the complete call log.  On the real side: only
    MutagenError (ValueError from verify_fileobj, calls 0/1), ENOSPC leaves the file byte-identical, a normal return after a fault
    leaves the complete file.  Returns the number of real runs."""
    from mutagen import MutagenError, flac
    from fobj import FaultFile
    rng = ctx.rng
    nfiles = int(os.environ.get("VERIF_FLACSAVE_FILES", "0")) or ctx.budget(6, 60)
    reqs = []
    runs = 0
    done = 0
    while done < nfiles:
        data, kind = gen_flac(rng)
        if kind not in ("plain", "id3") or len(data) > 900:
            continue
        k0, obj = timed(lambda: flac.FLAC(io.BytesIO(data)), 20)
        if k0 != "ok":
            continue
        done += 1
        if obj.tags is None:
            obj.add_tags()
        obj.tags["TITLE"] = ["x" * rng.choice([0, 3, 40, 200])]
        pad = rng.choice(["0", "0", "7", "keep", "default"])
        blocks_arg = ",".join("%d:%s" % (b.code, hx(bytes(b.write()))) for b in obj.metadata_blocks if b.code != 1) or "-"

        def go(f):
            obj.save(f, padding=None if pad == "default" else ((lambda i: max(i.padding, 0)) if pad == "keep" else (lambda i: int(pad))))
        ref = FaultFile(data)
        kr, rr = timed(lambda: go(ref), 20)
        runs += 1
        if kr != "ok":
            ctx.violation("flac:save:raises", "%r on a well-formed file" % (rr,), dict(data=hx(data))); continue
        refb, n = ref.getvalue(), ref.calls
        growth = len(refb) - len(data)
        envs = [({}, "")]
        envs += [(dict(fail_at=i), " fail=%d:io" % i) for i in (range(n) if n <= 90 else sorted(set(list(range(45)) + list(range(n - 25, n)))))]
        if growth > 0:
            for r in (range(growth + 1) if growth <= 40 else sorted(set([0, 1, growth - 1, growth] + [rng.randrange(growth) for _ in range(12)]))):
                envs.append((dict(cap=len(data) + r, leak=rng.choice([0, 3])), None))
        for kw, extra in envs:
            if extra is None:
                extra = " cap=%d leak=%d" % (kw["cap"], kw["leak"])
            f = FaultFile(data, **kw)
            k, res = timed(lambda: go(f), 20)
            runs += 1
            case = dict(kind=kind, data=hx(data), pad=pad, env=extra.strip() or "clean")
            ctx.case(key=("flacsavem", done, extra), nontrivial=bool(extra), modelled=True)
            st = "ok" if k == "ok" else ("hang" if k == "hang" else classify(res))
            ctx.hist["flacsavem:%s" % st] += 1
            if k == "hang":
                ctx.violation("flac:save:hang", "did not finish", case); continue
            if k == "exc" and not isinstance(res, MutagenError) and not (isinstance(res, ValueError) and kw.get("fail_at") in (0, 1)):
                ctx.violation("flac:save:fault-raises-%s" % type(res).__name__, "%s surfaced as %r" % (extra, res), case)
            if "cap" in kw and k != "ok" and f.getvalue() != data:
                ctx.violation("flac:save:file-modified-on-enospc", "failed save changed the file", case)
            if k == "ok" and f.getvalue() != refb:
                ctx.violation("flac:save:incomplete-after-normal-return", "normal return, file differs from the clean save", case)
            reqs.append(("flacsave data=%s blocks=%s pad=%s%s" % (hx(data), blocks_arg, pad, extra),
                         "%s data=%s pos=%d log=%s" % (st, hx(f.getvalue()), f.pos(), ",".join(f.log) or "-"), case))
    if not ctx.model_ok():
        ctx.notes.append("flacload_tie.run_save_faults: model driver unavailable, tie skipped"); return runs
    answers = ctx.driver.ask([r[0] for r in reqs]) if reqs else []
    if any(a == "bad-op" for a in answers):
        ctx.notes.append("flacload_tie.run_save_faults: the driver does not know `flacsave`; tie skipped"); return runs
    for (line, impl, case), ans in zip(reqs, answers):
        ctx.traces_validated += 1
        if ans != impl:
            ctx.disagree("FLAC.save file operations (real reads)", case, model=ans[:600], impl=impl[:600])
    return runs
