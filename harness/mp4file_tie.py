"""mp4file_tie.py — correspondence of the Lean model of MP4.load / MP4Tags.save / MP4Tags.delete on ARBITRARY bytes
(lean/MutagenModel/Model/Container/Mp4.lean: `load`, `openSave`, `openDelete`, `saveTags`; Props/C04_Mp4.lean) with
the real code: the exception CLASS that ends the call and the bytes left in the file, on damaged files, for an
io.BytesIO (mem=1) and for a real file (mem=0).  What is rendered for the tags is taken from the real code
(`MP4Tags._render`): it is a parameter of the model."""
import io, os, struct, tempfile
from vcheck import hx, unhx, parse_fields
from guards import timed


def box(name, payload, wide=False, size=None):
    if wide:
        return struct.pack(">I4sQ", 1, name, (len(payload) + 16) if size is None else size) + payload
    return struct.pack(">I4s", (len(payload) + 8) if size is None else size, name) + payload


def item(name, text):
    return box(name, box(b"data", struct.pack(">2I", 1, 0) + text))


def stco(entries, wide=False):
    return box(b"stco", b"\0\0\0\0" + struct.pack(">I", len(entries)) + b"".join(struct.pack(">I", e) for e in entries), wide=wide)


def co64(entries):
    return box(b"co64", b"\0\0\0\0" + struct.pack(">I", len(entries)) + b"".join(struct.pack(">Q", e) for e in entries))


def tfhd(base, flag=1):
    return box(b"tfhd", struct.pack(">II", flag, 1) + (struct.pack(">Q", base) if flag & 1 else b""))


def trak(rng, table):
    hdlr = box(b"hdlr", b"\0" * 8 + b"soun" + b"\0" * 12)
    mdhd = box(b"mdhd", b"\0" * 12 + struct.pack(">2I", 44100, 88200) + b"\0" * 4)
    return box(b"trak", box(b"mdia", hdlr + mdhd + box(b"minf", box(b"stbl", table))))


def gen_file(rng):
    """a small file with one or more unusual features; returns (bytes, label)"""
    feats = set()
    for name, p in (("stco-in-ilst", 0.12), ("short-table", 0.12), ("free-before", 0.25), ("free-after", 0.25),
                    ("free-long", 0.08), ("wide-moov", 0.1), ("wide-udta", 0.08), ("wide-table", 0.08), ("no-udta", 0.12),
                    ("no-meta", 0.1), ("no-ilst", 0.12), ("no-moov", 0.06), ("moof", 0.25), ("zero-last", 0.1),
                    ("trak", 0.6), ("mdat-first", 0.3), ("big-ilst", 0.2), ("foreign-in-ilst", 0.2), ("co64", 0.2),
                    ("ilst-overshoot", 0.06), ("two-moov", 0.05), ("nested", 0.05), ("tfhd-short", 0.08),
                    ("deep-moof", 0.06), ("deep-ilst", 0.05), ("deep-only", 0.02)):
        if rng.random() < p:
            feats.add(name)
    items = [item(b"\xa9nam", b"title")] if rng.random() < 0.7 else []
    if "big-ilst" in feats:
        items.append(item(b"\xa9cmt", b"c" * rng.choice([40, 200, 900])))
    if "foreign-in-ilst" in feats:
        items.append(box(b"xxxx", b"\0" * rng.choice([0, 3, 30])))
    if "stco-in-ilst" in feats:
        t = rng.choice([stco([rng.choice([0, 10, 5000])]), co64([7]), box(b"stco", b""), stco([1, 2], wide=True)])
        items.insert(rng.randrange(0, len(items) + 1), t)
        if rng.random() < 0.5:
            items.append(box(b"free", b"\0" * rng.choice([60, 300])))
    if "nested" in feats:
        items.append(box(b"trak", box(b"mdia", stco([3]))))
    if "deep-ilst" in feats:
        # container atoms below ilst (level 3): the reader refuses a container at a level above 64
        d = stco([5])
        for _ in range(rng.choice([10, 60, 61, 62, 63, 70])):
            d = box(b"trak", d)
        items.append(d)
    ilst = box(b"ilst", b"".join(items))
    if "ilst-overshoot" in feats:
        ilst = box(b"ilst", b"".join(items) + box(b"yyyy", b"", size=rng.choice([40, 1000])))
    kids = box(b"hdlr", b"\0" * 8 + b"mdirappl" + b"\0" * 9)
    if "free-before" in feats:
        kids += box(b"free", b"\0" * rng.choice([0, 8, 200]))
    if "no-ilst" not in feats:
        kids += ilst
    if "free-after" in feats:
        n = rng.choice([0, 8, 200])
        kids += box(b"free", b"\0" * n, size=(n + 8 + rng.choice([50, 100000])) if "free-long" in feats else None)
    meta = box(b"meta", b"\0\0\0\0" + kids)
    udta = box(b"udta", (meta if "no-meta" not in feats else b"") + (box(b"name", b"x") if rng.random() < 0.2 else b""),
               wide="wide-udta" in feats)
    tables = b""
    if "trak" in feats:
        if "short-table" in feats:
            table = rng.choice([box(b"stco", b""), box(b"stco", b"\0"), box(b"co64", b"\0\0"), box(b"stco", b"\0\0\0"),
                                box(b"stco", b"\0\0\0\0"), box(b"stco", b"\0" * 6), box(b"stco", b"", wide=True)])
        elif "co64" in feats:
            table = co64([rng.choice([0, 8, 100, 2 ** 63])])
        else:
            table = stco([rng.choice([0, 8, 100, 0xFFFFFFF0]), 500], wide="wide-table" in feats)
        tables = trak(rng, table)
    body = [tables, udta] if rng.random() < 0.5 else [udta, tables]
    if "no-udta" in feats:
        body = [tables]
    moov = box(b"moov", b"".join(body), wide="wide-moov" in feats)
    top = []
    if "no-moov" not in feats:
        top.append(moov)
    if "two-moov" in feats:
        top.append(box(b"moov", trak(rng, stco([9]))))
    mdat = box(b"mdat", b"M" * rng.choice([0, 4, 64]))
    if "mdat-first" in feats:
        top.insert(0, mdat)
    else:
        top.append(mdat)
    if "moof" in feats:
        t = tfhd(rng.choice([0, 50, 400])) if "tfhd-short" not in feats else rng.choice([box(b"tfhd", b""), box(b"tfhd", b"\0\0\0\1"), box(b"tfhd", b"\0\0\0\1" + b"\0" * 9)])
        top.append(box(b"moof", box(b"traf", t)))
        top.append(box(b"mdat", b"F" * 8))
    if "deep-moof" in feats:
        d = tfhd(rng.choice([0, 50, 400]))
        for _ in range(rng.choice([30, 63, 64, 65, 66, 200, 600])):
            d = box(b"traf", d)
        top.append(box(b"moof", d))
    if "deep-only" in feats:
        d = b""
        for _ in range(rng.choice([64, 65, 66, 67, 500, 1200])):
            d = box(b"moov", d)
        top = [d]
    data = b"".join(top)
    if "zero-last" in feats and top:
        k = len(data) - len(top[-1])
        data = data[:k] + b"\0\0\0\0" + data[k + 4:]
    # damage
    r = rng.random()
    if r < 0.12 and len(data) > 8:
        data = data[:rng.randrange(0, len(data))]; feats.add("cut")
    elif r < 0.3 and len(data) > 8:
        # a size field somewhere: find a plausible atom start by scanning for a known name
        names = [b"moov", b"udta", b"meta", b"ilst", b"free", b"stco", b"trak", b"mdia", b"stbl", b"minf", b"moof", b"traf", b"tfhd", b"mdat"]
        nm = rng.choice(names)
        k = data.find(nm)
        if k >= 4:
            old = struct.unpack(">I", data[k - 4:k])[0]
            new = rng.choice([0, 1, 7, 8, max(0, old - 1), old + 1, old + 8, old + 1000, 0xFFFFFFFF])
            data = data[:k - 4] + struct.pack(">I", new) + data[k:]
            feats.add("size:%s" % nm.decode())
    elif r < 0.34:
        data = bytes(rng.randrange(256) for _ in range(rng.choice([0, 3, 8, 40])))
        feats = {"random"}
    return data, ",".join(sorted(feats)) or "plain"


def classify(exc):
    from mutagen import MutagenError
    if isinstance(exc, MutagenError):
        return "err:mutagen"
    return "err:" + {"ValueError": "value", "KeyError": "key", "IndexError": "index", "error": "struct",
                     "OverflowError": "overflow", "TypeError": "type", "AssertionError": "assertion"}.get(type(exc).__name__, type(exc).__name__)


def render_ilst(tags):
    """`Atom.render(b"ilst", b"".join(values))` as MP4Tags.save builds it (the model's parameter `ilstData`)"""
    from mutagen.mp4 import _item_sort_key, _key2name
    from mutagen.mp4._atom import Atom
    values = []
    for key, value in sorted(tags.items(), key=lambda kv: _item_sort_key(*kv)):
        values.append(tags._render(key, value))
    for key, failed in tags._failed_atoms.items():
        if key in tags:
            continue
        for data in failed:
            values.append(Atom.render(_key2name(key), data))
    return Atom.render(b"ilst", b"".join(values))


class Target:
    """the file the operation works on: io.BytesIO or a real file"""

    def __init__(self, data, mem, tmpdir):
        self.mem = mem
        if mem:
            self.f = io.BytesIO(data)
        else:
            fd, self.f = tempfile.mkstemp(suffix=".m4a", dir=tmpdir)
            os.write(fd, data); os.close(fd)

    def arg(self):
        if self.mem:
            self.f.seek(0)
        return self.f

    def bytes(self):
        if self.mem:
            return self.f.getvalue()
        with open(self.f, "rb") as h:
            return h.read()

    def close(self):
        if not self.mem:
            os.unlink(self.f)


GOOD = box(b"moov", box(b"udta", box(b"meta", b"\0\0\0\0" + box(b"ilst", item(b"\xa9nam", b"other")))))


def run(ctx, report=False):
    """report=True (for a C04 run): an exception other than MutagenError from load / save / delete through what was opened is
    recorded as a violation of the property; otherwise it is only counted (`mp4file:real-escape:…`) — the model has to
    say the same class either way"""
    from mutagen.mp4 import MP4
    rng = ctx.rng
    reqs = []
    tmpdir = tempfile.mkdtemp(prefix="mp4tie")
    pads = ["default", "0", "1", "7", "100", "3000", "-5"]
    for i in range(ctx.budget(500, 6000)):
        data, label = gen_file(rng)
        mem = rng.random() < 0.6
        pad = rng.choice(pads)
        padf = None if pad == "default" else (lambda info, n=int(pad): n)
        case = {"layout": label, "mem": int(mem), "pad": pad, "data": hx(data) if len(data) < 3000 else "len=%d" % len(data)}
        tgt = Target(data, mem, tmpdir)
        try:
            k, m = timed(lambda: MP4(tgt.arg()), 20)
            if k == "hang":
                ctx.violation("mp4file:load:hang", "did not finish", case); continue
            if k == "exc":
                impl_load = classify(m)
                if impl_load != "err:mutagen":
                    ctx.hist["mp4file:real-escape:load:%s" % type(m).__name__] += 1
                    if report:
                        ctx.violation("mp4file:load:%s" % type(m).__name__, "MP4() raised %r" % (m,), case)
                kind = "savetags"
            else:
                impl_load = "ok"
                kind = rng.choice(["delete", "save", "save", "savetags"]) if m.tags is not None else rng.choice(["addsave", "addsave", "save", "delete", "savetags"])
            case["op"] = kind
            # the model's load accepts more files than the real one (stream info, ilst children are not modelled):
            # what it refuses the real code must refuse
            reqs.append(("mp4 op=c04 kind=load data=%s" % hx(data), ("load", impl_load, None if k == "exc" else int(m.tags is not None)), case))
            if kind == "delete":
                k2, r = timed(lambda: m.delete(tgt.arg()), 20)
                line = "mp4 op=c04 kind=delete mem=%d data=%s" % (mem, hx(data))
            elif kind in ("save", "addsave"):
                if kind == "addsave":
                    m.add_tags()
                    m.tags["\xa9alb"] = ["album" * rng.choice([1, 1, 30])]
                elif m.tags is not None and rng.random() < 0.6:
                    m.tags["\xa9ART"] = ["artist" * rng.choice([1, 20, 200])]
                ilst = render_ilst(m.tags) if m.tags is not None else b""
                k2, r = timed(lambda: m.save(tgt.arg(), padding=padf), 20)
                line = "mp4 op=c04 kind=%s mem=%d data=%s ilst=%s pad=%s" % (kind, mem, hx(data), hx(ilst), pad)
            else:
                other = MP4(io.BytesIO(GOOD))
                ilst = render_ilst(other.tags)
                k2, r = timed(lambda: other.tags.save(tgt.arg(), padding=padf), 20)
                line = "mp4 op=c04 kind=savetags mem=%d data=%s ilst=%s pad=%s" % (mem, hx(data), hx(ilst), pad)
            if k2 == "hang":
                ctx.violation("mp4file:%s:hang" % kind, "did not finish", case); continue
            out = tgt.bytes()
            st = "ok" if k2 == "ok" else classify(r)
            ctx.case(key=("mp4file", kind, i, len(data)), nontrivial=(out != data or st != "ok"), modelled=True, sample=case if i == 7 else None)
            ctx.hist["mp4file:%s:%s:%s" % (kind, "mem" if mem else "file", st)] += 1
            if st not in ("ok", "err:mutagen") and kind != "savetags":
                # C04 on the real code: through what was opened only MutagenError may escape
                ctx.hist["mp4file:real-escape:%s:%s:%s" % (kind, "bytesio" if mem else "file", type(r).__name__)] += 1
                if report:
                    ctx.violation("mp4file:%s:%s:%s" % (kind, "bytesio" if mem else "file", type(r).__name__),
                                  "%s raised %s: %s" % (kind, type(r).__name__, str(r)[:80]), case)
            if not mem and st == "err:mutagen" and out == data and "Errno 22" in str(r):
                # a real file refuses to seek beyond the file system's maximum file size (EINVAL → IOError → AtomError →
                # error) where io.BytesIO (and the model's atom reader) read on: an atom length of 2^40 … 2^63 in a damaged
                # file.  The code fails with `error` before it writes; the model covers a superset here.
                ctx.hist["mp4file:seek-limit-of-real-files"] += 1
                continue
            reqs.append((line, ("op", st, out), case))
        finally:
            tgt.close()
    try:
        os.rmdir(tmpdir)
    except OSError:
        pass
    if ctx.model_ok() and reqs:
        answers = ctx.driver.ask([r[0] for r in reqs])
        for (line, (what, st, extra), case), ans in zip(reqs, answers):
            if ans.startswith("bad-op"):
                ctx.hist["model:not-wired"] += 1
                continue
            ctx.traces_validated += 1
            mst, f = parse_fields(ans)
            if what == "load":
                if mst != "ok" and st == "ok":
                    ctx.disagree("mp4 load: the model refuses a file the code loads", case, model=ans[:200], impl=st)
                if mst == "ok" and st == "ok" and f.get("tags") != str(extra):
                    ctx.disagree("mp4 load: tags present?", case, model=ans[:200], impl="tags=%s" % extra)
                if mst != "ok" and mst != "err:mutagen":
                    ctx.disagree("mp4 load: model class", case, model=ans[:200], impl=st)
                continue
            if mst != st or unhx(f.get("data", "-")) != extra:
                mb = unhx(f.get("data", "-"))
                j = next((k for k in range(min(len(mb), len(extra))) if mb[k] != extra[k]), min(len(mb), len(extra)))
                ctx.disagree("mp4 file %s" % case.get("op"), case, model="%s len=%d first-difference-at=%d" % (mst, len(mb), j),
                             impl="%s len=%d" % (st, len(extra)))
    return len(reqs)


# ---------------------------------------------------------------------------------------------------------------------
# C19 / C06 at the file-operation level: MP4Tags.save on a fault-injecting / capacity-limited file object against the
# FileM program `saveEntryM` (lean/MutagenModel/Model/Container/Mp4M.lean; Props/C19_Mp4.lean, Props/C06_Mp4.lean)

_BUF_NAMES = ("resize_file", "move_bytes", "insert_bytes", "delete_bytes", "resize_bytes")


class _Buffers(object):
    """substitute a small copy buffer for the 1 MiB default of the _util functions (as harness/props/c19.py does)"""

    def __init__(self, size):
        from mutagen import _util
        self.u = _util
        self.size = size
        self.funcs = [getattr(_util, n) for n in _BUF_NAMES]
        self.saved = [f.__defaults__ for f in self.funcs]

    def __enter__(self):
        if self.size is not None:
            for f, d in zip(self.funcs, self.saved):
                if d:
                    f.__defaults__ = tuple(self.size if x == self.u._DEFAULT_BUFFER_SIZE else x for x in d)
        return self

    def __exit__(self, *a):
        for f, d in zip(self.funcs, self.saved):
            f.__defaults__ = d


def _tags_for(kind, rng):
    """(MP4Tags to save, its rendered ilst, padding name, padding callback)"""
    from mutagen.mp4 import MP4, MP4Tags
    if kind == "delete":
        t = MP4Tags()
        return t, render_ilst(t), "0", (lambda info: 0)
    other = MP4(io.BytesIO(GOOD))
    other.tags["\xa9cmt"] = ["c" * rng.choice([0, 5, 40, 300])]
    pad = rng.choice(["default", "0", "0", "7", "100"])
    return other.tags, render_ilst(other.tags), pad, (None if pad == "default" else (lambda info, n=int(pad): n))


def run_faults(ctx, want=("cap", "io", "short")):
    """for generated files x {delete, save of other tags}: one clean run (the file-object calls of the real code after
    `Atoms(fileobj)` must be exactly the model's log), then every remaining capacity 0..growth x leak, an IOError at every
    modelled call index, short reads at every modelled read — real mutagen on `FaultFile` against the model: same outcome
    class, same bytes left.  Returns the number of comparisons."""
    from fobj import FaultFile
    from mutagen import MutagenError
    rng = ctx.rng
    reqs = []
    nfiles = ctx.budget(60, 500)
    tried = 0
    while nfiles > 0 and tried < 20000:
        tried += 1
        data, label = gen_file(rng)
        if len(data) > 700 or "deep" in label:
            continue
        kind = rng.choice(["delete", "save", "save"])
        bsize = rng.choice([None, None, 5, 32])
        tags, ilst, pad, padf = _tags_for(kind, rng)
        base = {"layout": label, "op": kind, "pad": pad, "buffer": bsize, "data": hx(data)}
        with _Buffers(bsize):
            ref = FaultFile(data)
            k0, r0 = timed(lambda: tags.save(ref, padding=padf), 20)
            if k0 == "hang":
                ctx.violation("mp4file:faults:hang", "did not finish", base); continue
            ref_log = list(ref.log); ref_bytes = ref.getvalue()
            st0 = "ok" if k0 == "ok" else classify(r0)
            # the model's clean run; its log must be the tail of the real log
            Barg = "" if bsize is None else " B=%d" % bsize
            if not ctx.model_ok():
                return 0
            probe = ctx.driver.ask(["mp4 op=m data=%s ilst=%s pad=%s%s" % (hx(data), hx(ilst), pad, Barg)])[0]
            if probe.startswith("bad-op"):
                ctx.hist["model:not-wired"] += 1
                return 0
            pst, pf = parse_fields(probe)
            mlog = [] if pf.get("log", "-") == "-" else pf["log"].split(",")
            n0 = len(ref_log) - len(mlog)
            if n0 < 0 or (mlog and n0 == 0):
                ctx.disagree("mp4 faults: log length", base, model=probe[:200], impl=",".join(ref_log)[-200:]); continue
            # where the parse left the file: the position get_size() restores
            pos = 0
            tail = ref_log[n0:]
            if len(tail) >= 4 and tail[0] == "t" and tail[1] == "e" and tail[2] == "t" and tail[3].startswith("s"):
                pos = int(tail[3][1:])
            line0 = "mp4 op=m data=%s ilst=%s pad=%s%s pos=%d" % (hx(data), hx(ilst), pad, Barg, pos)
            ctx.hist["mp4faults:clean:" + st0] += 1
            ctx.hist["mp4faults:modelled-calls"] += len(mlog)
            reqs.append((line0, (st0, ref_bytes, tail), dict(base, fault="none")))
            if not mlog:
                continue            # the save stopped before its first file-object call (AtomError, no moov, …)
            nfiles -= 1
            growth = len(ref_bytes) - len(data)
            plans = []
            if "cap" in want and growth > 0 and st0 == "ok":
                caps = list(range(growth + 1)) if growth <= ctx.budget(24, 400) else sorted(set([0, 1, growth // 2, growth - 1, growth] + [rng.randrange(growth) for _ in range(8)]))
                for r in caps:
                    for leak in ((0, 3) if r % 2 == 0 else (0,)):
                        plans.append(("cap", r, leak))
            if "io" in want:
                idx = list(range(len(mlog))) if len(mlog) <= ctx.budget(45, 400) else sorted(rng.sample(range(len(mlog)), 30))
                plans += [("io", j, None) for j in idx]
            if "short" in want:
                for j, c in enumerate(tail):
                    if c.startswith("r") and c[1:].isdigit() and int(c[1:]) > 0:
                        for k in sorted({0, 1, int(c[1:]) // 2}):
                            if k < int(c[1:]):
                                plans.append(("short", j, k))
            for what, a, b in plans:
                if what == "cap":
                    f = FaultFile(data, cap=len(data) + a, leak=b)
                    arg = " cap=%d leak=%d" % (len(data) + a, b)
                elif what == "io":
                    f = FaultFile(data, fail_at=n0 + a)
                    arg = " fail=%d:io" % a
                else:
                    f = FaultFile(data, short=(n0 + a, b))
                    arg = " short=%d:%d" % (a, b)
                t2, _, _, _ = (tags, None, None, None)
                k, r = timed(lambda: t2.save(f, padding=padf), 20)
                case = dict(base, fault=what, index_or_capacity=a, leak_or_short=b, growth=growth, first_modelled_call=n0)
                if k == "hang":
                    ctx.violation("mp4file:faults:hang", "did not finish", case); continue
                st = "ok" if k == "ok" else classify(r)
                after = f.getvalue()
                ctx.case(key=("mp4faults", label, kind, what, a, b, len(data)), nontrivial=True, modelled=True)
                ctx.hist["mp4faults:%s:%s" % (what, st)] += 1
                if st not in ("ok", "err:mutagen"):
                    ctx.violation("mp4file:faults:%s:%s" % (what, type(r).__name__), "%s escaped: %s" % (type(r).__name__, str(r)[:80]), case)
                if what == "cap" and st != "ok" and after != data:
                    ctx.violation("mp4file:faults:file-modified-on-enospc", "the file changed although the enlargement failed", case)
                if what == "cap" and a >= growth and st != "ok":
                    ctx.violation("mp4file:faults:fails-with-enough-space", "save failed although the growth fits", case)
                reqs.append((line0 + arg, (st, after, None), case))
    if ctx.model_ok() and reqs:
        answers = ctx.driver.ask([r[0] for r in reqs])
        for (line, (st, after, tail), case), ans in zip(reqs, answers):
            ctx.traces_validated += 1
            mst, mf = parse_fields(ans)
            if mst != st or unhx(mf.get("data", "-")) != after:
                ctx.disagree("mp4 file-operation model (%s)" % case.get("fault"), case, model=("%s data=%s" % (mst, mf.get("data", "")))[:260],
                             impl=("%s data=%s" % (st, hx(after)))[:260])
            elif tail is not None:
                mlog = [] if mf.get("log", "-") == "-" else mf["log"].split(",")
                if mlog != tail:
                    ctx.disagree("mp4 file-operation model: order of the file-object calls", case, model=",".join(mlog)[:300], impl=",".join(tail)[:300])
    return len(reqs)


# ---------------------------------------------------------------------------------------------------------------------
# C06 for the LOAD: MP4(fileobj) on a fault-injecting file object against the FileM program `loadM`
# (lean/MutagenModel/Model/Container/Mp4LoadM.lean; Props/C06_Mp4Load.lean)

def _load_outcome(m):
    """what the model reports of a successful load: number and raw payload lengths of the ilst children"""
    if m.tags is None:
        return "-"
    return "tags"


def gen_chap_file(rng):
    """a small file with moov.mvhd and moov.udta.chpl (Nero chapters), often damaged; returns (bytes, label)"""
    ver = rng.choice([0, 0, 0, 1, 1, 2, 255])
    ts = rng.choice([1000, 1000, 600, 44100, 1, 0, 0x7fffffff, 0x80000000, 0xffffffff])
    if ver == 1:
        mv = bytes([1, 0, 0, 0]) + b"\0" * 16 + struct.pack(">I", ts) + struct.pack(">Q", rng.choice([0, 5000, 2 ** 63]))
    else:
        mv = bytes([ver, 0, 0, 0]) + b"\0" * 8 + struct.pack(">I", ts) + struct.pack(">I", rng.choice([0, 5000, 0xffffffff]))
    r = rng.random()
    if r < 0.25:
        mv = mv[:rng.randrange(0, len(mv) + 1)]
    elif r < 0.3:
        mv += b"xx"
    titles = [b"Intro", "Caf\u00e9 \u4e16".encode("utf-8"), b"", b"\xff\xfe", b"\xc3", b"x" * 40, b"\xed\xa0\x80"]
    n = rng.choice([0, 1, 1, 2, 3])
    ents = b""
    for _ in range(n):
        t = rng.choice(titles[:3]) if rng.random() < 0.75 else rng.choice(titles)
        ln = len(t) if rng.random() < 0.85 else rng.choice([0, len(t) + 3, 255, max(0, len(t) - 1)])
        ents += struct.pack(">Q", rng.choice([0, 10000000, 123456789, 2 ** 64 - 1, 2 ** 53 + 1, 30000])) + bytes([ln]) + t
    cnt = n if rng.random() < 0.8 else rng.choice([0, n + 1, 255, max(0, n - 1)])
    ch = bytes([rng.choice([0, 1, 7]), 0, 0, 0]) + rng.choice([b"\0" * 4, b"\1\2\3\4"]) + bytes([cnt]) + ents
    r = rng.random()
    if r < 0.25:
        ch = ch[:rng.randrange(0, len(ch) + 1)]
    elif r < 0.35:
        ch += b"trailing"
    kids = []
    feats = ["v%d" % ver]
    if rng.random() < 0.93:
        kids.append(box(b"mvhd", mv))
    else:
        feats.append("no-mvhd")
    udta = []
    if rng.random() < 0.5:
        udta.append(box(b"meta", b"\0\0\0\0" + box(b"hdlr", b"\0" * 8 + b"mdirappl" + b"\0" * 9) + box(b"ilst", box(b"\xa9nam", box(b"data", b"\0\0\0\1\0\0\0\0hi")))))
        feats.append("tags")
    if rng.random() < 0.93:
        udta.append(box(b"chpl", ch))
    else:
        feats.append("no-chpl")
    if rng.random() < 0.1:
        udta.append(box(b"chpl", b"\0" * 9))
        feats.append("two-chpl")
    rng.shuffle(udta)
    kids.append(box(b"udta", b"".join(udta)))
    rng.shuffle(kids)
    data = box(b"ftyp", b"M4A \0\0\0\0") + box(b"moov", b"".join(kids))
    if rng.random() < 0.1:
        data = data[:len(data) - rng.randrange(1, 12)]
        feats.append("cut")
    return data, "chap:" + "+".join(feats)


def _chap_real(r):
    if r.chapters is None:
        return None
    return [(c.start, c.title) for c in r.chapters]


def _chap_model(field):
    if field in (None, "-"):
        return None
    ts, _, rest = field.partition(";")
    ts = int(ts)
    out = []
    for e in [x for x in rest.split(",") if x]:
        st, _, th = e.partition(":")
        out.append((int(st) / 10000 / ts, bytes.fromhex(th).decode("utf-8")))
    return out


def run_load_faults(ctx):
    """for generated files (with and without a Nero chapter list): one clean `MP4(FaultFile)` — the file-object calls behind loadfile's
    read(0) must be exactly the model's log — then an IOError at every call index and short reads (0, 1, n/2) at every
    read: outcome class, has-tags, file untouched, close() never called.  Returns the number of comparisons."""
    from fobj import FaultFile
    from mutagen.mp4 import MP4
    rng = ctx.rng
    reqs = []
    nfiles = ctx.budget(60, 600)
    tried = 0
    while nfiles > 0 and tried < 20000:
        tried += 1
        data, label = gen_chap_file(rng) if rng.random() < 0.45 else gen_file(rng)
        if len(data) > 900:
            continue
        base = {"layout": label, "data": hx(data)}
        ref = FaultFile(data)
        k0, r0 = timed(lambda: MP4(ref), 20)
        if k0 == "hang":
            ctx.violation("mp4file:load-faults:hang", "did not finish", base); continue
        ref_log = list(ref.log)
        if not ref_log or ref_log[0] != "r0":
            continue
        n0 = 1
        tail = ref_log[n0:]
        st0 = "ok" if k0 == "ok" else classify(r0)
        tags0 = (None if k0 != "ok" else ("-" if r0.tags is None else str(len(list(_ilst_children(data))) if False else "t")))
        line0 = "mp4 op=loadm data=%s" % hx(data)
        nfiles -= 1
        ctx.hist["mp4load:clean:" + st0] += 1
        reqs.append((line0, (st0, None if k0 != "ok" else (r0.tags is not None), tail), dict(base, fault="none", chap=(_chap_real(r0) if k0 == "ok" else None))))
        if k0 == "ok" and r0.chapters is not None:
            ctx.hist["mp4load:chapters:%d" % min(len(r0.chapters), 3)] += 1
        plans = [("io", j, None) for j in (range(len(tail)) if len(tail) <= ctx.budget(120, 1500) else sorted(rng.sample(range(len(tail)), 80)))]
        for j, c in enumerate(tail):
            if c.startswith("r") and c[1:].isdigit() and int(c[1:]) > 0:
                for k in sorted({0, 1, int(c[1:]) // 2}):
                    if k < int(c[1:]):
                        plans.append(("short", j, k))
        if len(plans) > ctx.budget(160, 4000):
            plans = rng.sample(plans, ctx.budget(160, 4000))
        for what, a, b in plans:
            if what == "io":
                f = FaultFile(data, fail_at=n0 + a); arg = " fail=%d:io" % a
            else:
                f = FaultFile(data, short=(n0 + a, b)); arg = " short=%d:%d" % (a, b)
            k, r = timed(lambda: MP4(f), 20)
            case = dict(base, fault=what, index=a, short_to=b, first_modelled_call=n0)
            if k == "hang":
                ctx.violation("mp4file:load-faults:hang", "did not finish", case); continue
            case["chap"] = _chap_real(r) if k == "ok" else None
            st = "ok" if k == "ok" else classify(r)
            ctx.case(key=("mp4load", label, what, a, b, len(data)), nontrivial=True, modelled=True)
            ctx.hist["mp4load:%s:%s" % (what, st)] += 1
            if st not in ("ok", "err:mutagen"):
                ctx.violation("mp4file:load-faults:%s:%s" % (what, type(r).__name__), "%s escaped from MP4(): %s" % (type(r).__name__, str(r)[:80]), case)
            if f.getvalue() != data:
                ctx.violation("mp4file:load-faults:file-modified", "load changed the file", case)
            if f.closed_called:
                ctx.violation("mp4file:load-faults:closes-caller-file", "close() was called on the caller's file object", case)
            if what == "short" and st == "ok" and k0 == "ok" and (r.tags is None) != (r0.tags is None):
                ctx.violation("mp4file:load-faults:short-read-taken-for-no-tags", "a short read changed whether tags are found", case)
            reqs.append((line0 + arg, (st, None if k != "ok" else (r.tags is not None), list(f.log)[n0:]), case))
    if ctx.model_ok() and reqs:
        answers = ctx.driver.ask([r[0] for r in reqs])
        for (line, (st, hastags, tail), case), ans in zip(reqs, answers):
            if ans.startswith("bad-op"):
                ctx.hist["model:not-wired"] += 1
                continue
            ctx.traces_validated += 1
            mst, mf = parse_fields(ans)
            mlog = [] if mf.get("log", "-") == "-" else mf["log"].split(",")
            mtags = None if mst != "ok" else (mf.get("tags") != "-")
            if mst != st or mtags != hastags or unhx(mf.get("data", "-")) != unhx(case["data"]):
                ctx.disagree("mp4 load model (%s)" % case.get("fault"), case, model=ans[:200], impl="%s tags=%s" % (st, hastags))
            elif mlog != tail:
                ctx.disagree("mp4 load model: order of the file-object calls (%s)" % case.get("fault"), case,
                             model=",".join(mlog)[:300], impl=",".join(tail)[:300])
            elif mst == "ok" and _chap_model(mf.get("chap")) != case.get("chap"):
                ctx.disagree("mp4 load model: chapters (%s)" % case.get("fault"), dict(case, chap=repr(case.get("chap"))), model=ans[:300], impl=repr(case.get("chap"))[:300])
    return len(reqs)


def _ilst_children(data):
    return []


# ---------------------------------------------------------------------------------------------------------------------
# C01 (a) / C07: mutagen's own reader of the ilst children (`MP4Tags.load`, `__parse_data`, the typed parsers, `_failed_atoms`)
# against lean/MutagenModel/Model/Container/Mp4Reader.lean (`loadTags`)

def _data(payload, flags=1, version=0, name=b"data", size=None, locale=0):
    body = struct.pack(">II", (version << 24) | flags, locale) + payload
    return struct.pack(">I4s", (len(body) + 8) if size is None else size, name) + body


def gen_ilst_child(rng):
    """one child of ilst: (bytes, label)"""
    kind = rng.choice(["text", "text", "unknown", "pair", "int", "bool", "covr", "gnre", "free", "free", "raw"])
    dmg = rng.random() < 0.3
    wide = rng.random() < 0.04
    if kind == "text":
        name = rng.choice([b"\xa9nam", b"\xa9ART", b"aART", b"desc", b"\xa9gen", b"purl", b"tvsh"])
        datas = [_data(rng.choice([b"", b"abc", "h\xe9llo 世".encode("utf-8"), b"\xff\xfe", b"\xed\xa0\x80", b"x" * 40]),
                       flags=rng.choice([1, 1, 1, 0, 2, 21]), version=rng.choice([0, 0, 0, 1])) for _ in range(rng.choice([0, 1, 1, 2, 3]))]
    elif kind == "unknown":
        name = rng.choice([b"xyzw", b"\xa9foo", b"AAAA", b"stik"[::-1]])
        datas = [_data(rng.choice([b"v", b"", b"\xc3\x28"]), flags=rng.choice([1, 1, 0, 13])) for _ in range(rng.choice([0, 1, 2]))]
    elif kind == "pair":
        name = rng.choice([b"trkn", b"disk"])
        datas = [_data(rng.choice([struct.pack(">4H", 0, 3, 9, 0), struct.pack(">3H", 0, 1, 2), b"\0\0\0\1\0", b"", b"\0" * 7 + b"\5" * 3]),
                       flags=rng.choice([0, 0, 21])) for _ in range(rng.choice([0, 1, 1, 2]))]
    elif kind == "int":
        name = rng.choice([b"tmpo", b"plID", b"stik", b"tves", b"\xa9mvi", b"rtng"])
        datas = [_data(rng.choice([b"\x7f", b"\x80", b"\x00\x80", b"\xff\xff\xfe", b"\x80\0\0\0", b"\0" * 7 + b"\1", b"\xff" * 8, b"", b"\1" * 5]),
                       flags=rng.choice([21, 21, 0, 1]), version=rng.choice([0, 0, 0, 2])) for _ in range(rng.choice([0, 1, 1, 2]))]
    elif kind == "bool":
        name = rng.choice([b"cpil", b"pgap", b"pcst"])
        datas = [_data(rng.choice([b"\1", b"\0", b"\7", b"\0\1", b""]), flags=rng.choice([21, 0])) for _ in range(rng.choice([0, 1, 1, 2, 3]))]
    elif kind == "covr":
        name = b"covr"
        datas = []
        for _ in range(rng.choice([0, 1, 2, 3])):
            r = rng.random()
            if r < 0.2:
                datas.append(struct.pack(">I4s", 12, b"name") + b"abcd")
            elif r < 0.3:
                datas.append(_data(b"img", flags=13, name=b"dat!"))
            else:
                datas.append(_data(rng.choice([b"\x89PNG....", b"\xff\xd8jpeg", b""]), flags=rng.choice([13, 14, 0, 27, 12]), version=rng.choice([0, 0, 1])))
    elif kind == "gnre":
        name = b"gnre"
        datas = [_data(struct.pack(">h", rng.choice([1, 2, 17, 80, 192, 193, 0, -1, -192, -193, 3000])) if rng.random() < 0.85 else rng.choice([b"\1", b"\0\0\1"]),
                       flags=0) for _ in range(rng.choice([0, 1, 1, 2]))]
    elif kind == "free":
        name = b"----"
        mean = rng.choice([b"com.apple.iTunes", b"", b"m"])
        nm = rng.choice([b"MusicBrainz Track Id", b"x", b"", b"a:b"])
        parts = [struct.pack(">I4sI", len(mean) + 12, b"mean", 0) + mean, struct.pack(">I4sI", len(nm) + 12, b"name", 0) + nm]
        if rng.random() < 0.12:
            parts = parts[:rng.choice([0, 1])]
        datas = parts + [_data(rng.choice([b"value", b"", b"\0\1\2"]), flags=rng.choice([1, 1, 0, 21]), version=rng.choice([0, 0, 3]),
                               name=rng.choice([b"data"] * 6 + [b"datb"])) for _ in range(rng.choice([0, 1, 1, 2]))]
    else:
        name = rng.choice([b"\xa9nam", b"trkn", b"covr", b"----", b"tmpo", b"cpil", b"gnre", b"qqqq"])
        datas = [bytes(rng.randrange(256) for _ in range(rng.choice([0, 3, 8, 11, 12, 16, 20])))]
    body = b"".join(datas)
    if dmg and body:
        r = rng.random()
        if r < 0.3:
            body = body[:rng.randrange(len(body))]
        elif r < 0.6 and len(body) >= 4:
            k = rng.choice([0] + [i for i in range(0, len(body) - 3, 4)][:3])
            v = rng.choice([0, 1, 8, 15, 16, 17, len(body), len(body) + 5, 0xFFFFFFFF])
            body = body[:k] + struct.pack(">I", v) + body[k + 4:]
        else:
            body = body + rng.choice([b"\0", b"\0\0\0\x10data", b"\0\0\0\0\0\0\0\0\0\0\0\0"])
    return box(name, body, wide=wide), "%s%s%s" % (kind, ":dmg" if dmg else "", ":wide" if wide else "")


def _canon_real(tags):
    from mutagen.mp4 import MP4FreeForm, MP4Cover
    items = []
    for key, value in tags.items():
        k = key.encode("latin-1").hex()
        if isinstance(value, bool):
            items.append("%s=B:%d" % (k, int(value))); continue
        vs = []
        kind = "E"
        for v in value:
            if isinstance(v, MP4FreeForm):
                kind = "F"; vs.append("%d.%d.%s" % (v.dataformat, v.version, hx(bytes(v))))
            elif isinstance(v, MP4Cover):
                kind = "C"; vs.append("%d.%s" % (v.imageformat, hx(bytes(v))))
            elif isinstance(v, str):
                kind = "T"; vs.append(hx(v.encode("utf-8")))
            elif isinstance(v, tuple):
                kind = "P"; vs.append("%d/%d" % v)
            else:
                kind = "I"; vs.append("%d" % v)
        items.append("%s=%s:%s" % (k, kind, "|".join(vs)))
    failed = ["%s=%s" % (k.encode("latin-1").hex(), "|".join(hx(d) for d in ds)) for k, ds in tags._failed_atoms.items()]
    return "items=%s failed=%s" % (";".join(items) or "-", ";".join(failed) or "-")


def _canon_model(ans):
    """empty value lists carry no kind in Python: `k=T:` -> `k=E:`"""
    import re
    return re.sub(r"=([TFPIC]):(?=;| )", "=E:", ans)


def run_reader(ctx):
    """generated ilst contents (well-formed and damaged children of every kind of the `__atoms` table, unknown names, 64-bit
    headers): the real `MP4(BytesIO(data))` — tags in insertion order with their Python types, `_failed_atoms` — against the
    model's reader.  Returns the number of comparisons."""
    from mutagen.mp4 import MP4
    from mutagen import MutagenError
    rng = ctx.rng
    reqs = []
    for i in range(ctx.budget(700, 8000)):
        kids = [gen_ilst_child(rng) for _ in range(rng.choice([1, 1, 2, 3, 5]))]
        ilst = box(b"ilst", b"".join(k[0] for k in kids))
        data = box(b"moov", box(b"udta", box(b"meta", b"\0\0\0\0" + ilst)))
        case = {"children": [k[1] for k in kids], "data": hx(data)}
        k, m = timed(lambda: MP4(io.BytesIO(data)), 20)
        if k == "hang":
            ctx.violation("mp4file:reader:hang", "did not finish", case); continue
        if k == "exc":
            impl = classify(m).replace(":", " ")
            if not isinstance(m, MutagenError):
                ctx.violation("mp4file:reader:%s" % type(m).__name__, "MP4() raised %r" % (m,), case)
        else:
            impl = "ok " + (_canon_real(m.tags) if m.tags is not None else "none")
        ctx.case(key=("mp4reader", i, len(data)), nontrivial=True, modelled=True, sample=case if i == 3 else None)
        for lab in case["children"]:
            ctx.hist["mp4reader:" + lab.split(":")[0]] += 1
        ctx.hist["mp4reader:outcome:" + impl.split(" ")[0] + ("" if k != "ok" else (":failed" if "failed=-" not in impl else ":clean"))] += 1
        reqs.append(("mp4 op=readtags data=%s" % hx(data), impl, case))
    if ctx.model_ok() and reqs:
        answers = ctx.driver.ask([r[0] for r in reqs])
        for (line, impl, case), ans in zip(reqs, answers):
            if ans.startswith("bad-op"):
                ctx.hist["model:not-wired"] += 1
                continue
            ctx.traces_validated += 1
            if _canon_model(ans + " ").strip() != impl:
                ctx.disagree("mp4 ilst reader", case, model=ans[:300], impl=impl[:300])
    return len(reqs)


# ---------------------------------------------------------------------------------------------------------------------
# the order of the items in the ilst `save` writes: `_item_sort_key` against `Mp4R.sortItems` (Model/Container/Mp4Reader.lean)

def run_order(ctx):
    """random tag dictionaries (keys of the `order` list of `_item_sort_key` and others, values whose reprs tie in length and
    content, every insertion order): `sorted(tags.items(), key=_item_sort_key)` of the real module against the model's
    stable sort on (key, repr(value)); and the children of the ilst atom a real save writes are in that order."""
    from mutagen.mp4 import MP4, MP4Cover, MP4FreeForm, _item_sort_key
    rng = ctx.rng
    keys = ["\xa9nam", "\xa9ART", "\xa9wrt", "\xa9alb", "\xa9gen", "trkn", "disk", "\xa9day", "cpil", "pgap", "tmpo", "\xa9too",
            "----:com.apple.iTunes:X", "----:a:b", "covr", "\xa9lyr", "desc", "aART", "soal", "purl", "\xa9cmt", "tvsh", "stik", "zzzz"]
    reqs = []
    for i in range(ctx.budget(300, 4000)):
        ks = rng.sample(keys, rng.choice([1, 2, 3, 5, 8, 12]))
        d = {}
        for k in ks:
            if k in ("trkn", "disk"):
                v = [(rng.choice([1, 2, 10]), rng.choice([0, 9]))]
            elif k in ("cpil", "pgap"):
                v = rng.choice([True, False])
            elif k in ("tmpo", "stik"):
                v = [rng.choice([1, 7, 120])]
            elif k == "covr":
                v = [MP4Cover(rng.choice([b"a", b"bb"]), rng.choice([13, 14]))]
            elif k.startswith("----"):
                v = [MP4FreeForm(rng.choice([b"v", b"ww"]))]
            else:
                v = [rng.choice(["a", "b", "ab", "\xe9", "x" * 3, "a'b"])] * rng.choice([1, 1, 2])
            d[k] = v
        order = [k for k, v in sorted(d.items(), key=lambda kv: _item_sort_key(*kv))]
        arg = ",".join("%s:%s" % (k.encode("latin-1").hex(), repr(v).encode("utf-8").hex()) for k, v in d.items())
        case = {"dict": {k: repr(v) for k, v in d.items()}}
        ctx.case(key=("mp4order", i), nontrivial=len(ks) > 1, modelled=True)
        reqs.append(("mp4 op=sortkeys items=%s" % arg, "ok order=" + ",".join(k.encode("latin-1").hex() for k in order), case))
        if i % 10 == 0:
            # the real save writes the children in this order
            m = MP4(io.BytesIO(GOOD)); m.tags.clear()
            for k, v in d.items():
                m.tags[k] = v
            f = io.BytesIO(GOOD); m.save(f)
            names = [a.name for a in __import__("mutagen.mp4._atom", fromlist=["Atoms"]).Atoms(io.BytesIO(f.getvalue()))[b"moov", b"udta", b"meta", b"ilst"].children]
            want = [k.encode("latin-1")[:4] for k in order]
            if names != want:
                ctx.violation("mp4file:order:ilst-children", "the ilst children are not in _item_sort_key order", case)
    if ctx.model_ok() and reqs:
        for (line, impl, case), ans in zip(reqs, ctx.driver.ask([r[0] for r in reqs])):
            if ans.startswith("bad-op"):
                ctx.hist["model:not-wired"] += 1; continue
            ctx.traces_validated += 1
            if ans != impl:
                ctx.disagree("mp4 item order", case, model=ans[:300], impl=impl[:300])
    return len(reqs)


def run_full_faults(ctx):
    """`MP4Tags.save` with its reads (`saveFullEntryM`): an IOError at EVERY file-object call behind loadfile's four probes —
    the calls of `Atoms(fileobj)` included — and short reads at every read: real mutagen on `FaultFile` against the model:
    outcome class, bytes left, and (clean run) the whole call log.  Returns the number of comparisons."""
    from fobj import FaultFile
    rng = ctx.rng
    reqs = []
    nfiles = ctx.budget(40, 400)
    tried = 0
    while nfiles > 0 and tried < 20000:
        tried += 1
        data, label = gen_file(rng)
        if len(data) > 600 or "deep" in label:
            continue
        kind = rng.choice(["delete", "save", "save"])
        tags, ilst, pad, padf = _tags_for(kind, rng)
        base = {"layout": label, "op": kind, "pad": pad, "data": hx(data)}
        ref = FaultFile(data)
        k0, r0 = timed(lambda: tags.save(ref, padding=padf), 20)
        if k0 == "hang":
            ctx.violation("mp4file:full-faults:hang", "did not finish", base); continue
        ref_log = list(ref.log)
        # loadfile's probes (read(0), write(0)) come first; Atoms(fileobj) starts with seek(0, 2)
        if "e" not in ref_log or any(c not in ("r0", "w0") for c in ref_log[:ref_log.index("e")]):
            continue
        n0 = ref_log.index("e")
        tail = ref_log[n0:]
        st0 = "ok" if k0 == "ok" else classify(r0)
        line0 = "mp4 op=mf data=%s ilst=%s pad=%s" % (hx(data), hx(ilst), pad)
        nfiles -= 1
        reqs.append((line0, (st0, ref.getvalue(), tail), dict(base, fault="none")))
        plans = [("io", j, None) for j in (range(len(tail)) if len(tail) <= ctx.budget(150, 1500) else sorted(rng.sample(range(len(tail)), 100)))]
        for j, c in enumerate(tail):
            if c.startswith("r") and c[1:].isdigit() and int(c[1:]) > 0:
                for k in sorted({0, 1, int(c[1:]) // 2}):
                    if k < int(c[1:]):
                        plans.append(("short", j, k))
        if len(plans) > ctx.budget(120, 3000):
            plans = rng.sample(plans, ctx.budget(120, 3000))
        for what, a, b in plans:
            if what == "io":
                f = FaultFile(data, fail_at=n0 + a); arg = " fail=%d:io" % a
            else:
                f = FaultFile(data, short=(n0 + a, b)); arg = " short=%d:%d" % (a, b)
            k, r = timed(lambda: tags.save(f, padding=padf), 20)
            case = dict(base, fault=what, index=a, short_to=b)
            if k == "hang":
                ctx.violation("mp4file:full-faults:hang", "did not finish", case); continue
            st = "ok" if k == "ok" else classify(r)
            ctx.case(key=("mp4full", label, kind, what, a, b, len(data)), nontrivial=True, modelled=True)
            ctx.hist["mp4full:%s:%s" % (what, st)] += 1
            if st not in ("ok", "err:mutagen"):
                ctx.violation("mp4file:full-faults:%s:%s" % (what, type(r).__name__), "%s escaped: %s" % (type(r).__name__, str(r)[:80]), case)
            reqs.append((line0 + arg, (st, f.getvalue(), None), case))
    if ctx.model_ok() and reqs:
        for (line, (st, after, tail), case), ans in zip(reqs, ctx.driver.ask([r[0] for r in reqs])):
            if ans.startswith("bad-op"):
                ctx.hist["model:not-wired"] += 1; continue
            ctx.traces_validated += 1
            mst, mf = parse_fields(ans)
            if mst != st or unhx(mf.get("data", "-")) != after:
                ctx.disagree("mp4 save with reads (%s)" % case.get("fault"), case, model=("%s data=%s" % (mst, mf.get("data", "")))[:240],
                             impl=("%s data=%s" % (st, hx(after)))[:240])
            elif tail is not None:
                mlog = [] if mf.get("log", "-") == "-" else mf["log"].split(",")
                if mlog != tail:
                    ctx.disagree("mp4 save with reads: order of the file-object calls", case, model=",".join(mlog)[:300], impl=",".join(tail)[:300])
    return len(reqs)
