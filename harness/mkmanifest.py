#!/usr/bin/env python3
"""writes /verif/MANIFEST.json from the table below (kept next to the code it describes)"""
import json, os
HERE = os.path.dirname(os.path.abspath(__file__))
VERIF = os.path.dirname(HERE)

CLAIMED = {
 "C11": dict(
  text="Lean 4 theorems (Props/C11.lean) over the FileM model of resize_file/move_bytes/insert_bytes/delete_bytes/resize_bytes: for every file, "
       "offset, sizes and every buffer size >= 1 the result is the slice specification (both move directions, any overlap), independent of the "
       "buffer size, and every out-of-range or negative request is rejected with ValueError before any write/truncate. Full strength, no partial "
       "statements. The model is tied to the code by regenerated buffer-size constants and by a correspondence check comparing status, final bytes "
       "and the exact file-object call trace of the real functions with the model on exhaustive small tuples, buffer-boundary lattices and the "
       "real 1 MiB buffer.",
  note="Trusted: Lean kernel; axioms propext/Classical.choice/Quot.sound; extract.py; the differential correspondence (BytesIO semantics = FS model); "
       "BUFFER_SIZE=0 is outside the quantifier (the Python loop does not terminate there; the model returns 'diverge').",
  technique="Lean 4 proof (loop invariants by fun_induction over a FileM effect model) + model/implementation trace correspondence",
  ref="DESIGN.md §5 C11"),

 "C14": dict(
  text="Lean 4 theorems (Props/C14.lean) over the model of BitPaddedInt.to_str / BitPaddedInt(bytes|int) / has_valid_padding and unsynch.encode/decode: "
       "for every bits in 1..8, width, endianness and every non-negative integer that fits, decode(encode v) = v with exactly `width` bytes and clear "
       "padding bits; values that do not fit and negative values are rejected with ValueError (for every width, the growing width -1 included); "
       "growing integers round-trip with minimal length; for every byte string unsynch.decode(unsynch.encode s) = s and the encoding has no false "
       "sync. Full strength. Correspondence: exhaustive small integers x bits x widths x endianness, carry lattice to 2**35, all strings over the "
       "8-letter sync alphabet up to length 5/7, random long strings; tag-level reading of hand-built unsynchronised v2.3/v2.4 tags is checked on the "
       "real code only (searched, not modelled).",
  note="Trusted: Lean kernel; axioms propext/Classical.choice/Quot.sound; the state-machine formulation of unsynch is tied to the split(b'\\xff') code by "
       "exhaustive correspondence; bits outside 1..8 and has_valid_padding on negative ints (non-terminating) are outside the quantifier.",
  technique="Lean 4 proof (induction over digits / two-state list machines) + exhaustive model/implementation correspondence",
  ref="DESIGN.md §5 C14"),
 "C15": dict(
  text="Props/C15_OggInject.lean: _from_packets_try_preserve, OggPage.replace and renumber themselves - try_preserve_roundtrip (ANY new packet list reassembles "
       "exactly and is numbered from the old first page), try_preserve_same_sizes / _other_sizes, replace_writes (ANY caller numbering, fewer / equal / more pages), "
       "replace_keeps_other_streams, replace_numbers_gapless, replace_first_last_flags, replace_pages_parse, replace_packets(_complete), renumber_renumbers; tied byte "
       "for byte by ogginject_tie.run_c15. Lean 4 theorems (Props/C15.lean) over the model of OggPage.from_packets/to_packets/write/size: for EVERY packet list, sequence start, "
       "255 <= default_size, wiggle room (and for every page-filling policy) reassembly of the produced pages gives the packets back; to_packets' "
       "own serial/sequence/continuation checks never fire on them (strict and non-strict); sequence numbers are consecutive, continuation flags "
       "consistent; with the code's policy and default_size <= 65024 every page needs <= 255 lacing values; size = length of the rendered page. "
       "Partial: parse(render p) = p and the replace/renumber refinement are not yet theorems - they are decided by the correspondence and by an "
       "independent RFC 3533 walker/CRC on the real output (CRC model checked against libogg-written sample files).",
  note="Trusted: Lean kernel; standard axioms; extract.py (default_size/wiggle_room regenerated); correspondence of page layouts (flags, numbers, packet "
       "lengths), rendered bytes and to_packets results incl. error classes; zlib.crc32 is not modelled - the model's CRC is the RFC's.",
  technique="Lean 4 proof (loop invariants of from_packets by fun_induction) + page-layout correspondence + independent RFC 3533 walker",
  ref="DESIGN.md §5 C15"),
 "C18": dict(
  text="Lean 4 theorems (Props/C18.lean): (1) pick_perm - for every valuation of the observations and every candidate list, File()'s choice "
       "(maximum of (score, class name)) is invariant under permutation of the options (proved generically, names shown distinct with and without "
       "easy=True and rank shown to be Python's name order); (2) pick_stable / pick_stable_easy / pick_stable_any_order - for every concrete format and "
       "EVERY feature state a well-formed file of it can be in before or after edits through that type (prefix magic incl. ID3 prefix, own markers "
       "in the 128-byte window, every extension the type's score looks at in exact and other letter case, nameless where the magic stays at offset 0, "
       "with/without APEv2 trailer) the regenerated score functions make File() choose that format, decided in the kernel (decide +kernel) over the "
       "finite state space and re-decided whenever a score function changes (Generated/Scores.lean is translated from the K.score sources on every "
       "run). Tie: each real K.score vs the generated expression on every observed file state, type(File(f)) vs pick (plain, easy, permuted), and "
       "membership of the observed valuation in the modelled state space.",
  note="Trusted: Lean kernel; axioms propext/Quot.sound/Classical.choice; extract.py's score translator (restricted expression language; anything else "
       "= broken tie); the hand-written feature model `shapes` of the formats' magic bytes (validated against all sample files and their edit "
       "histories); ASCII case folding (str.lower() on non-ASCII names is outside the model); the property's own assumption that tag text embeds "
       "no foreign marker in the first 128 bytes. Raw AAC with a foreign APEv2 trailer is excluded (detected as the generic APEv2File fallback).",
  technique="Lean 4 proof (generic max/permutation lemma + kernel-decided decision table regenerated from source) + score/pick correspondence",
  ref="DESIGN.md §5 C18"),
 "C20": dict(
  text="Lean 4 theorems (Props/C20.lean) over a state machine whose handler and block programs are translated from SignalHandler._handler/block "
       "on every run: tool_run_atomic - for every number of files, every number of operations per file and EVERY signal schedule (any number of "
       "signals at any positions, Interleave relation) the files updated are a prefix of the file list, each completely, the tool exits with "
       "SystemExit iff a signal arrived and touches no later file; outside_immediate; inside_deferred; saves_protected - every file-modifying "
       "call of mid3v2/mid3cp/mid3iconv/moggsplit found in the source lies inside `with _sig.block()` (directly or via its only call sites) and "
       "every entry_point installs the handler for SIGINT/SIGTERM/SIGHUP. Tie: the real main() in a forked child with the signal delivered at "
       "every event (before/after each block, each file operation) compared with the model's predicted operations-per-file and exit, plus "
       "final bytes against the undisturbed run.",
  note="Trusted: Lean kernel; standard axioms; extract.py's statement translator for SignalHandler and its AST scan of the tools; CPython delivers "
       "signal handlers between bytecodes of the main thread (assumed, not modelled); a body that itself raises is outside the model.",
  technique="Lean 4 proof (induction over files and over an interleaving relation of signals) + generated handler semantics + forked-child signal injection",
  ref="DESIGN.md §5 C20"),
 "C01": dict(
  text="File-level compositions (DESIGN.md 9.15): id3_file_roundtrip / id3_tag_roundtrip_safe / id3_file_roundtrip_any_order, id3_file_read_v22 / _v23 / _v24_frame_unsynch, ape_file_roundtrip, ogg_saved_comment_reads_back and ogg_saved_comment_decodes_strictly (five codecs), asf_saved_tags_read_back with an explicit canonical form, mp4_saved_tags_read_back, flac_saved_comment_reads_back, FLAC block codecs picture_/seektable_/cuesheet_/padding_roundtrip with strict readers (Props/C01_*.lean). Lean 4 theorems (Props/C01.lean, Props/C01b.lean) about the tag codecs, each a round trip encode -> strict spec decoder = identity for "
       "ALL contents (any number of keys/values, any Unicode scalars incl. astral planes, lengths up to the formats' 32-bit fields): "
       "utf8_roundtrip, utf16_roundtrip; vorbis_roundtrip (vendor + ordered (key, value) list, framing bit, any trailing bytes); ape_roundtrip "
       "(header + items + footer, key/kind/value); mp4_item/freeform/text/integer/pair_roundtrip (ilst data atoms); asf_ecd/metadata/uint/bool/"
       "text_roundtrip (Extended Content Description / Metadata(Library) attributes); ID3 frames via the C12 theorems. The encoders are tied "
       "to mutagen byte for byte (tagc/tagc2 driver commands on what mutagen wrote), the strict decoders are the independent reading. "
       "Container placement, Easy interfaces, save options and the reload comparison are decided on the real code: every taggable format x "
       "sample and synthesised layouts x generated tag sets (all Unicode classes, blobs crossing 65025/65307/65536 and up to 16 MiB, numeric "
       "extremes) x save options, compared with what was set (1) after reload and (2) through independent decoders (harness/refdec.py, "
       "id3spec.py) that do not import mutagen.",
  note="Trusted: Lean kernel; standard axioms; refdec.py/id3spec.py/walkers.py as the independent reading of the specifications; the "
       "canonical forms applied by the oracle are exactly those the property names (listed in RULE).",
  technique="Lean 4 proof (codec round trips against strict spec decoders) + byte-level model/implementation correspondence + independent decoders on the real output",
  ref="DESIGN.md §5 C01"),
 "C04": dict(
  text="File-type level (Props/C04_FileTypes.lean): <type>_file_load_clean for 23 format classes and file_detect_then_load_clean for mutagen.File - the composed load of every class ends in ok or MutagenError on "
       "every byte string; flac_load_clean for the whole of FLAC.load. Closure theorems on the container models, for EVERY byte string with no well-formedness hypothesis (Props/C04_<Part>.lean; DESIGN.md 9.13): load / save / delete of the "
       "model end in ok or MutagenError, never another class and never out of fuel - id3_header_clean, id3_save_clean, id3_delete_clean; ape_locate_clean, "
       "ape_save_clean, ape_delete_clean; iff_load_clean, iff_walk_finishes, iff_save_clean, iff_delete_clean; dsf_load_clean, dsf_save_clean, dsf_delete_clean; "
       "asf_load_clean, asf_load_never_diverges, asf_delete_clean, asf_resave_clean, asf_save_classes; ogg_load_clean, ogg_load_opus_clean, ogg_save_classes, "
       "ogg_delete_classes (+ *_clean_partial under NumberedRun); mp4_parse_clean, mp4_parse_finishes, mp4_load_clean, mp4_save_clean, mp4_delete_clean; and "
       "<fmt>_info_total for the WavPack / Monkey's Audio / OptimFROG / TrueAudio / TAK stream-info parsers (Props/C05_<Fmt>.lean). The stuck goals of these proofs "
       "were thirteen real escapes, each repaired as a fix: commit and kept as harness/corpus/c04 inputs. Remaining hypotheses are stated per theorem (v2_version in {3,4}; "
       "APE files of any length; the donor-only ValueError of to_packets). Partial beyond the models. Lean 4 theorems (Props/C04.lean): the modelled decoders are TOTAL and their only failure is the format error - "
       "mpeg_decode_total (every 32-bit header: a decoded header or HeaderNotFound, indices always inside the generated tables), "
       "streaminfo_load_total, unsynch_decode_total, bitpadded_parse_total, flac_walk_total, ogg_parse_total (any byte string: a page and "
       "the rest, end of stream, or the Ogg error; lacing sums stay inside the data), readBits_lt/readFields_bounds (bit reader never reads "
       "outside), entrypoints_convert (every load/save/delete entry point in the table REGENERATED from the decorators in /repo converts "
       "IOError to the format error). The rest of the parsers (about 30 formats) is not modelled: the property is searched on the real "
       "code by structured mutation of every sample file and synthesised header through all 32 openers x {open, save, reopen, delete} under "
       "a time limit and an address-space limit; any other exception class, a hang or a closed caller file object is a violation keyed by "
       "(exception, module, function).",
  note="Trusted: Lean kernel; standard axioms; extract.py (tables, decorator table); the fuzz harness, its timer-based hang guard and its "
       "generator (mutation kinds and their distribution are written to the evidence). A theorem covers only the modelled decoders; for all "
       "other parsers this check is a search, and says so.",
  technique="Lean 4 proof (totality of the modelled decoders, generated entry-point table) + mutation search over all openers on the real code",
  ref="DESIGN.md §5 C04"),
 "C05": dict(
  text="Stream-info parsers modelled in Lean with specification-side builders (Model/Info, Spec/Info, Props/C05_<Fmt>.lean): for ALL values of the header fields the "
       "specification allows, parsing the built header yields exactly the encoded values - wavpack_info_decodes_partial, ape_info_decodes_partial, "
       "apeold_info_decodes_partial, ofr_info_decodes (+ ofr_encoder_string for all 65536 ids), tta_info_decodes, tak_bitreader_fields, tak_info_decodes, mpc_sv7_info_decodes_partial, mpc_sv8_info_decodes, aac_adts_info_decodes_partial, ac3_values_decode, eac3_values_decode, wave_info_reports, wave_info_decodes_partial, aiff_info_decodes_partial (80-bit extended rate modelled exactly), dsf_info_decodes_partial, dsdiff_info_decodes, oggvorbis_/oggopus_/oggspeex_/oggflac_info_decodes, oggtheora_info_decodes_partial, asf_info_decodes, mp4_info_decodes (atom walk, stsd, esds, alac, dac3), mpeg_info_decodes_cbr / _xing / _vbri / _lame (MP3 incl. the sync search, mpeg_iter_sync_chunks), ac3_info_decodes_partial, eac3_fields_decode; every format with <fmt>_info_total (all byte strings end in ok or MutagenError); the "
       "hypotheses of the _partial ones exclude exactly the open findings, which are decide-witnesses in the same files; tied by harness/info_tie_a.py and info_tie_b.py (about 50 k traces per quick run). "
       "Theorem-instance oracle (Props/C05_Instances.lean, Spec/Info/Hyp.lean): <kind>_theorem_instance - a decidable predicate over the header fields and what follows them implies every hypothesis of the kind's decode theorem; "
       "the driver evaluates it on each generated header and a real class that reports anything but the encoded values there is a failing input. "
       "Lean 4 theorems (Props/C05.lean): mutagen's MPEG bitrate/sample-rate tables and the WavPack/Musepack/AAC/AC-3 rate tables (regenerated from "
       "source) equal the published tables; mpeg_header_decodes - for EVERY 32-bit MPEG audio header (all field combinations incl. reserved bits) "
       "the model decoder yields the ISO version/layer/bitrate/rate/channels/padding and the ISO frame length, and rejects exactly the ISO-invalid "
       "ones (symbolic bit-packing lemma + kernel-decided 16384-row product); streaminfo_decode_build - FLAC STREAMINFO decodes to its nine fields "
       "for every value up to the 16/24/20/3/5/36/128-bit limits. Partial: the other formats' header decoders are not yet modelled in Lean; for them "
       "the property is searched on the real code with spec-derived synthesised headers (field extremes, every rate-table row).",
  note="Trusted: Lean kernel; standard axioms; extract.py (tables by introspection); the bit-field formulation of StreamInfo.load is tied to the "
       "code's shift arithmetic by correspondence; floats: durations compared as the same Python expression on the same integers.",
  technique="Lean 4 proof (bit-packing round trip + decide +kernel over the full header product + table equalities) + header-builder correspondence",
  ref="DESIGN.md §5 C05"),
 "C02": dict(
  text='Further container models, each with code side, spec side and tie (DESIGN.md §9.10): DSF (dsf_save_preserves_chunks, dsf_delete_preserves_chunks, Props/C02_Dsf.lean), ASF (asf_save_preserves_foreign, asf_delete_preserves_foreign, asf_file_size_patch_only, asf_load_keeps_objects and the placement logic asf_placement_complete/_order/_fits/_names_unique, Props/C02_Asf.lean), Ogg comment injection for Vorbis/Opus/Speex/Theora/FLAC-in-Ogg incl. OggPage.replace/renumber (ogg_save_preserves_streams_and_packets, ogg_delete_preserves_streams_and_packets, ogg_two_vorbis_streams_first_is_edited, Props/C02_OggInject.lean). IFF-style chunk files (AIFF, WAVE, DSDIFF: one dialect-parametrised model, Model/Container/Iff.lean) and APEv2-tagged files (Model/Container/ApeFile.lean) are modelled and tied the same way: iff_save_preserves_chunks, iff_delete_preserves_chunks, ape_save_preserves_audio, ape_delete_preserves_audio, ape_delete_keeps_id3v1. Free-standing ID3 files (MP3, TrueAudio: [ID3v2][audio][ID3v1]) are modelled too (Model/Container/Id3File.lean: ID3Header, find_id3v1, ID3.save, id3.delete) and tied byte for byte on synthesised layouts: id3_save_preserves_audio, id3_delete_preserves_audio. Lean 4 theorems (Props/C02.lean) for FLAC: FLAC._save as a FileM program (resize_bytes; seek; write) on the bytes of any well-formed layout, for every buffer size, padding choice and new block list, leaves a file that the strict format walker accepts and whose prefix, foreign blocks (in order, byte-identical) and audio are unchanged; delete likewise. Partial: the other 21 taggable formats are decided by independent container walkers on the real output over random edit histories (foreign pieces compared byte for byte and in order after every save/delete).',
  note='Trusted: Lean kernel; standard axioms; for FLAC the block-level model (a block is (code, payload as written by its write())) tied to the code by the walker oracle on real output; for the other formats the independent Python walkers in harness/walkers.py (written from the format specifications) are the oracle and nothing is proved yet.',
  technique='Lean 4 proof (refinement of FLAC._save to a layout-level model via the C11 region-replacement theorem) + independent walkers over edit histories',
  ref='DESIGN.md §5 C02'),
 "C03": dict(
  text='DSF: dsf_save_wellformed, dsf_delete_wellformed, dsf_reader_strict (Props/C03_Dsf.lean); ASF: asf_save_wellformed, asf_delete_wellformed, asf_strict_reader_reads_layout, asf_ext_data_size, asf_file_size_field_correct(+_delete) (Props/C03_Asf.lean); Ogg: ogg_edit_pages_valid (every page renders and the strict reader with its own CRC reads the file back), ogg_edit_sequence_gapless, ogg_edit_continuation_consistent, ogg_edit_first_last_flags (Props/C03_OggInject.lean). IFF: iff_save_sizes_consistent, iff_delete_sizes_consistent, iff_save_keeps_wellformed (root size = extent, ID3 chunk size = data, pad byte iff odd, strict reader reads the layout back); APEv2: ape_save_wellformed. For free-standing ID3 files: id3_save_header_consistent (the header a reader accepts, its syncsafe size field = frames + padding = the bytes before the audio). Lean 4 theorems (Props/C03.lean) for FLAC: walk(render L) = L for well-formed layouts; by induction over ANY finite history of saves (any comment payload, any padding choice) and deletes the file stays accepted by the strict walker (exactly the final block flagged last, sizes = extents) with unchanged foreign data; the bytes written equal the rendering of the model layout. Ogg page-level validity is Props/C15.lean. Partial: for the other formats structural rules (sizes=extents at every level, even alignment, CRCs/sequence numbers, APEv2 header/footer agreement, DSF size/pointer fields, syncsafe ID3 sizes) and reload + unchanged stream info are checked by the walkers after every step of random histories.',
  note='Trusted: Lean kernel; standard axioms; for FLAC the block-level model (a block is (code, payload as written by its write())) tied to the code by the walker oracle on real output; for the other formats the independent Python walkers in harness/walkers.py (written from the format specifications) are the oracle and nothing is proved yet.',
  technique='Lean 4 proof (induction over edit histories of a layout-level model, parse/render round trip) + independent walkers',
  ref='DESIGN.md §5 C03'),
 "C07": dict(
  text="Order independence and re-save theorems: ape_order_independent, id3_order_independent, id3_resave_idempotent, ape_resave_idempotent, dsf_resave_idempotent, asf_save_twice_same_object, asf_save_reload_idempotent, asf_resave_keep_identical, ogg_save_same_packet_unchanged, ogg_second_save_identical (with the explicit bound: padding within the policy's upper bound), mp4_save_twice_identical, asf_load_save_roundtrip_identical. Lean 4 theorems (Props/C07.lean) for FLAC: saving the layout just saved with the default padding policy is the identity (uses the regenerated policy's idempotence), and an unchanged save keeps every non-padding block in order and byte-identical. Partial: for the other formats load-save-reload-save byte identity and tag equality are checked on the real code over random histories; the ID3/APEv2 insertion-order theorems are not yet built.",
  note='Trusted: Lean kernel; standard axioms; for FLAC the block-level model (a block is (code, payload as written by its write())) tied to the code by the walker oracle on real output; for the other formats the independent Python walkers in harness/walkers.py (written from the format specifications) are the oracle and nothing is proved yet.',
  technique='Lean 4 proof (idempotence of the layout-level save with the generated padding policy) + resave differential on real files',
  ref='DESIGN.md §5 C07'),
 "C08": dict(
  text='DSF, ASF, Ogg: dsf_delete_leaves_chunks, dsf_delete_idempotent, dsf_retag_after_delete, asf_delete_removes_tags, asf_empty_objects_hold_nothing, asf_delete_twice, asf_save_after_delete, ogg_delete_is_save_of_empty_comment, ogg_delete_packet(_special), ogg_delete_removes_only_the_comments, ogg_delete_again_unchanged; free-standing ID3: id3_delete_leaves_audio, id3_delete_idempotent, id3_retag_after_delete. IFF: iff_delete_removes_chunk, iff_delete_untagged, iff_delete_then_wellformed, iff_delete_idempotent, iff_retag_after_delete; APEv2: ape_delete_leaves_audio, ape_delete_idempotent_and_retag. Lean 4 theorems (Props/C08.lean) for FLAC: after delete no Vorbis comment block and no padding payload remain, foreign data is untouched, delete is idempotent, and a later save yields a well-formed file. Partial: for the other formats delete by method and by module function is checked on the real code: tags gone on reload, in-memory tags cleared, no byte of a removed (marked) value, no padding, no tag header for free-standing ID3/APEv2, idempotent, re-taggable, also after an intermediate save of the empty tags.',
  note='Trusted: Lean kernel; standard axioms; for FLAC the block-level model (a block is (code, payload as written by its write())) tied to the code by the walker oracle on real output; for the other formats the independent Python walkers in harness/walkers.py (written from the format specifications) are the oracle and nothing is proved yet.',
  technique='Lean 4 proof (layout-level delete) + marked-value search on real files',
  ref='DESIGN.md §5 C08'),
 "C09": dict(
  text="DSF, ASF, Ogg, ID3: dsf_padding_obeyed, dsf_keep_is_inplace, asf_padding_obeyed, asf_keep_is_inplace, asf_default_reuses_padding, ogg_padding_obeyed, ogg_negative_padding_is_none, ogg_default_padding, ogg_keep_is_inplace, ogg_opus_preserved_data_kept, oggflac_no_padding, id3_padding_obeyed, id3_keep_is_inplace. IFF: iff_padding_obeyed, iff_negative_padding_refused, iff_keep_is_inplace. Lean 4 theorems (Props/C09.lean): the default padding policy (translated from PaddingInfo.get_default_padding on every run) is non-negative, keeps existing padding up to 10 KiB + 1 % (in particular up to 1 KiB), is idempotent, and no callback = callback returning the default; for FLAC the padding in the saved file equals min(callback(available − needed, audio size), 2^24−1) and answering with the offered padding leaves the file length unchanged. Partial: for the other formats the callback's arguments and effect are checked on the real code (padding measured by the walkers, file-size change = answer − offered padding, keep ⇒ in place, exactly one call).",
  note='Trusted: Lean kernel; standard axioms; for FLAC the block-level model (a block is (code, payload as written by its write())) tied to the code by the walker oracle on real output; for the other formats the independent Python walkers in harness/walkers.py (written from the format specifications) are the oracle and nothing is proved yet.',
  technique='Lean 4 proof (arithmetic of the generated policy; FLAC layout-level save) + padding measurement on real files',
  ref='DESIGN.md §5 C09'),
 "C19": dict(
  text="Container models as programs over the file object (Props/C19_<X>.lean, DESIGN.md 9.14): asf_/mp4_/iff_/id3_save_enlarge_first - for EVERY capacity and leak the save completes with the pure result or raises MutagenError with the file byte-identical (ASF and MP4 for every file content); the exact partial states where the code does not enlarge first: iff_save_new_chunk_payload_intact (+ iff_partial_state_wellformed), dsf_save_enlarge_first / dsf_save_enospc_payload_intact, ogg_save_one_page_atomic / ogg_save_enlarge_first (slot by slot), id3_save_enlarge_first (ID3v1 block appended after the tag), ape_save_payload_intact; <x>_saveM_refines ties each program to the pure model; *_delete_never_enospc. Lean 4 theorems (Props/C19.lean) in environments with an arbitrary device capacity and an arbitrary leak of the failing write: "
       "resize_rollback - growing the file either succeeds or raises ENOSPC with the file byte-identical (whichever byte of the enlargement the "
       "device fills up at, every buffer size); insert_bytes_atomic and resize_bytes_atomic - the primitives under every saver complete or leave "
       "the file untouched (growth precedes the move; moves and shrinks only write inside the file and never hit the limit); flac_save_enlarge_first "
       "- FLAC._save as a FileM program completes with the rendering of the saved layout or raises with the file unchanged, length included. "
       "Partial: the other savers' effect order (ID3, MP4, ASF, Ogg, IFF) is not modelled; for them save() is run on a capacity-limited file "
       "object for every remaining capacity 0..growth (exception class, byte identity for enlarge-first formats, payload intact for append/create "
       "formats).",
  note="Trusted: Lean kernel; standard axioms; the FS/Env capacity semantics (a write that would grow the file beyond the capacity raises ENOSPC "
       "after `leak` bytes reached the file) as a model of a full device - real devices (buffering, copy-on-write, failing in-place writes) are "
       "not modelled; fobj.FaultFile implements the same semantics for the real code.",
  technique="Lean 4 proof (FileM programs under a capacity environment; rollback and enlarge-first theorems) + capacity sweep on the real savers",
  ref="DESIGN.md §5 C19"),
 "C06": dict(
  text="Load as a program over the file object (Props/C06_<X>Load.lean, DESIGN.md 9.16): asf_/dsf_/iff_/mp4_/flac_/id3_loadM_refines (fault-free, every byte string: the pure load, file unchanged), <x>_load_raises_only, <x>_load_io_faults, <x>_load_leaves_file_untouched for ASF, DSF, IFF, Ogg, MP4, FLAC, ID3 and APEv2 files; the short-read-as-end-of-file reads are stated exactly. Container models as programs over the file object (Model/Container/<X>M.lean; the ties compare the complete call log with the real code on fobj.FaultFile): asf_/iff_/dsf_/ogg_/mp4_/id3_/ape_save_raises_only, _save_io_faults, _save_ok_means_written and the same for delete (Props/C06_<X>.lean) - with arbitrary injected faults only MutagenError or the documented ValueError leaves the entry point, and a normal return without short reads leaves the complete new state. Lean 4 theorems (Props/C06.lean) over FileM programs in ARBITRARY fault environments (any exception at any file-object call, short reads, "
       "finite capacity): primitives_raise_only - resize_file/move_bytes/insert_bytes/delete_bytes/resize_bytes/read_full/get_size raise nothing but "
       "the injected exception, ENOSPC, ValueError (argument check) or IOError (read_full) by a compositional Raises judgement (one rule per "
       "construct incl. try/except, try/finally, convert_error); primitives_ok_means_no_fault - a normal return means no injected fault fired "
       "(OkAgree judgement: nothing is swallowed; resize_file's handler re-raises); for FLAC save as an entry point (convert_error around "
       "FLAC._save): only MutagenError (or ValueError) leaves under I/O faults, and a normal return leaves exactly the rendering of the saved "
       "layout. Partial: the other savers/loaders are not modelled; for them a fault is injected at every file-object call index and a short "
       "read at read calls for load / growing save / shrinking save / delete / module delete on the real code (exception class, close() not "
       "called, reload equals saved state after a normal return).",
  note="Trusted: Lean kernel; standard axioms; fobj.FaultFile as the fault injector; escape sites and undetected-fault sites are keyed by "
       "(exception class, module, function) of the mutagen frame - known_findings.json lists the open ones (short reads taken as 'no tag' in "
       "several parsers, verify_fileobj's ValueError).",
  technique="Lean 4 proof (compositional exception-class and no-swallow judgements over a FileM effect model) + exhaustive fault injection on the real code",
  ref="DESIGN.md §5 C06"),
 "C17": dict(
  text="Lean 4 theorems (Props/C17.lean) over the model of loadfile/_openfile's argument logic: owner_only_closes - mutagen closes exactly the "
       "handles it opened itself, never a caller-supplied object (positional, fileobj=, or inside a FileThing); caller_object_wins; "
       "keyword_equals_positional; path_forms_agree (str/bytes path, filename= as path or os.PathLike, positional os.PathLike resolve to the same plan); filename_kw_forms_agree; misuse_errors "
       "(TypeError / ValueError); only_documented_calls - the effect language of every modelled program has exactly the six documented calls. "
       "Partial: that the format code itself gives identical results for every kind of file thing is not a theorem (the format code is not "
       "modelled); it is checked on the real objects for 8 ways of passing a file x all formats x load/save/delete/module delete (tags, bytes, "
       "exception class, not closed, minimal-interface object).",
  note="Trusted: Lean kernel; standard axioms; the _openfile model is compared with the real generator over all 500+ argument combinations "
       "(fake open(), fake objects); OS file semantics vs BytesIO are not modelled.",
  technique="Lean 4 proof (decision logic of the file-argument resolution) + cross-kind differential on the real code",
  ref="DESIGN.md §5 C17"),
 "C10": dict(
  text="Lean 4 theorems (Props/C10.lean) over a byte-level model of MP4Tags.save's region replacement (parse, _find_padding, region, "
       "__update_parents, __update_offset_table, __update_tfhd) and an atom-tree specification (render / strict walk): splice_bytes and "
       "splice_offsets_follow - an offset patched by the code's rule reads the same bytes after the splice (with the decidable side condition "
       "Clear, shown necessary by splice_offsets_boundary); walk_render - the strict walker inverts rendering for all well-formed trees incl. "
       "64-bit sizes and the meta version field; parent_sizes - for any nested path, any siblings and any surrounding bytes, splice + parent "
       "size patching yields exactly the rendering of the tree with the new atoms in place; chunk_offsets_follow_partial - if the modelled "
       "save finishes on ANY byte string with one moov (any number of moof fragments) and SaveSafe tables, every stco/co64 entry and tfhd base "
       "offset is the patched old value and addresses the same media bytes. Partial: table atoms with a 64-bit size header are outside the "
       "theorem's hypotheses (modelled and tied, no theorem). The four defects found (second moof, size-0 moov, ilst-first/free-last, wide "
       "tables) were repaired in /repo; their witnesses are now positive instance theorems (two_moof_instance, size0_moov_instance, "
       "ilst_first_instance) replayed on the real code on every run.",
  note="Trusted: Lean kernel; standard axioms; the hand-written model of mp4/__init__.py and mp4/_atom.py, compared byte for byte with the real "
       "save (including saves that raise midway) on every generated layout; _CONTAINERS/_SKIP_SIZE compared with the imported module on every run; "
       "the independent Python walker as oracle for sample files.",
  technique="Lean 4 proof (splice/offset arithmetic, tree render/walk inversion, parent-size refinement, byte-level save theorem) + byte-for-byte model/implementation correspondence",
  ref="DESIGN.md §5 C10"),
 "C12": dict(
  text="Props/C12_More.lean closes the three gaps named below: read_write_rva / rva_write_domain (RVASpec for every value the writer accepts), id3_nested_tag_roundtrip (CHAP/CTOC of any depth), v22_table_plain, v22_pic_/v22_lnk_/v22_rva_upgrade_roundtrip, v22_crm_dropped. Lean 4 theorems (Props/C12.lean, 39 theorems) over a model of every ID3 spec kind, of frame read/write and of the frame-flag handling, "
       "instantiated on the frame table REGENERATED from mutagen/id3/_frames.py on every run (Generated/Id3Table.lean, 176 classes): "
       "frame_roundtrip / frame_roundtrip_v23 - for every class of the generated table and all valid field values, readFrame(writeFrame vals) = vals "
       "(v2.4 and v2.3 configuration), by induction over the spec list from read_write_spec (one lemma per spec kind: Latin-1/UTF-8/UTF-16 LE/BE "
       "codecs with surrogates and BOM, terminated text, multi-value lists, sized integers, volume adjustment/peak, synchronized text, key events, "
       "ASPI index, nested frames relative to the nested reader/writer); table_ok (decide +kernel over the generated table) establishes the "
       "structural side condition (a rest-consuming spec is last, no later spec shadows encoding/N/b); flags_equiv_unsynch/_datalen/"
       "_unsynch_datalen - re-framed input decodes like the plain frame. Partial: RVASpec (modelled and tied, instances only), zlib/encryption, "
       "v2.2 upgrade, tag-level frame ordering and determine_bpi are decided on the real code by the harness with the independent decoder "
       "harness/id3spec.py and by re-framing every generated frame.",
  note="Trusted: Lean kernel; standard axioms; harness/extract_id3.py (introspection of Frames/Frames_2_2; refuses unknown spec classes or "
       "changed read/write owners) and the correspondence of the hand-written spec-kind model with _specs.py, run on every generated frame "
       "(about 54k model traces per quick run); floats never enter a theorem.",
  technique="Lean 4 proof (per-spec-kind and per-frame round-trip by induction over the regenerated frame table) + model/implementation correspondence + independent ID3 decoder",
  ref="DESIGN.md §5 C12"),
 "C13": dict(
  text="Props/C13_Id3v1.lean and C13_Convert.lean: id3v1_make_layout, id3v1_roundtrip, id3v1_text_representable, id3v1_parse_total (ID3v1 codec with the regenerated genre table); v23_output_only_v23_keys, v23_join_split and instance round trips for update_to_v23 / update_to_v24 over the regenerated frame lists; tie id3convert_tie. Lean 4 theorems (Props/C13.lean) over the model of the date logic of update_to_v23/update_to_v24: date_carried - for every year 1..9999, "
       "month, day, hour (incl. 0) and minute (incl. 0) the recording date is written to TYER (4 digits), TDAT (DDMM) and TIME (HHMM) with exactly "
       "those digits; v23_v24_roundtrip - converting to v2.3 and back gives the same year/month/day/hour/minute, seconds 0; partial_dates. "
       "Partial: byte-level validity of v2.3/v2.4 output (version byte, plain vs syncsafe sizes, Latin-1/UTF-16 only, no v2.4-only frame ids), "
       "TDOR->TORY, TIPL+TMCL->IPLS, multi-value joining by separator, sub-frame conversion and the ID3v1 block are decided on the real code by "
       "an independent ID3v2/ID3v1 decoder (harness/id3spec.py) over generated tags x separators x v1 options.",
  note="Trusted: Lean kernel; standard axioms (decide +kernel over the 100 two-digit and 10000 four-digit renderings); the structured-date model "
       "is compared with update_to_v23 on every generated time stamp; harness/id3spec.py as the independent reading of the ID3 specifications.",
  technique="Lean 4 proof (digit-level date conversion, kernel-decided formatting tables) + independent ID3v2.3/ID3v1 decoder on the real output",
  ref="DESIGN.md §5 C13"),
 "C16": dict(
  text="Keyed policy layer kdictmixin_refines with instances mp4_refines, asf_refines, easymp4_refines (+ easymp4_set_native, easymp4_foreign_atoms_untouched: the Easy view and the native tags stay consistent), easyid3_refines_partial (53 single-frame keys) with easyid3_set_native / easyid3_foreign_frames_untouched / easyid3_keys_total, deviations as witnesses (easyid3_replaygain_coupling_witness, easyid3_glob_case_witness, asf_unhashable_key_witness, mp4_set_struct_error_witness, easymp4_attribute_error_witness); tie dict_tie_x (Props/C16_*.lean). Lean 4 theorems (Props/C16.lean): dictmixin_refines - proved ONCE and generically: if a store's four primitives (keys/getitem/setitem/"
       "delitem) refine a reference dictionary under an abstraction function, every DictMixin-derived operation (contains, values, items, clear, "
       "pop, popitem, update, setdefault, get, len) returns what the reference returns and commutes with the abstraction; proxy_refines, "
       "ape_refines (case-insensitive store with the APEv2 key rule, invalid key -> KeyError, spelling kept), vc_refines (VCommentDict: list of "
       "pairs, case-insensitive access, invalid key -> ValueError, list-valued semantics) and the VCommentDict overrides; trace_equiv / "
       "trace_equiv_det - for EVERY finite operation sequence the outputs equal the reference's (popitem angelic). Partial: ID3, MP4, ASF, the "
       "Easy views and the FileType proxies have no Lean model; they are checked against an independent Python reference dictionary over random "
       "operation sequences (shrunk by delta debugging), incl. Easy-view/native consistency.",
  note="Trusted: Lean kernel; standard axioms; the three store models are compared with the real DictProxy / APEv2 / VCommentDict objects on "
       "every generated sequence (items and len after every step); ASCII case folding. known_findings.json lists the open mapping-law "
       "violations of the Easy views (replay-gain key coupling, pattern-key case, missing KeyError, AttributeError on non-str keys), ASFTags "
       "and ID3 with non-str keys.",
  technique="Lean 4 proof (generic refinement of the DictMixin-derived operations + simulation of three stores, induction over operation sequences) + reference-dictionary differential",
  ref="DESIGN.md §5 C16"),
}

PENDING_REASON = "not claimed yet in this revision: the Lean model and theorems for this property are still being built (see DESIGN.md §7 build order); it is not 'not applicable' in principle"


def main():
    props = [json.loads(l) for l in open(os.path.join(VERIF, "properties.jsonl"))]
    checks = []
    na = []
    for p in props:
        pid = p["id"]
        if pid in CLAIMED:
            c = CLAIMED[pid]
            checks.append({
                "property_id": pid,
                "quick_cmd": "./check %s quick" % pid,
                "thorough_cmd": "./check %s thorough" % pid,
                "evidence_file": "evidence/%s.json" % pid,
                "replay_cmd_template": "./check %s --replay {path}" % pid,
                "engine": "lean4+mdriver",
                "level_claimed": {"category": "proof", "text": c["text"], "design_ref": c["ref"]},
                "level_note": c["note"],
                "technique": c["technique"],
            })
        else:
            na.append({"property_id": pid, "reason": PENDING_REASON})
    m = {
        "version": 1,
        "setup_cmd": "./setup.sh",
        "hooks": {
            "guard": "MUTAGEN_VERIF",
            "enable": "no source hooks exist; the checks import /repo's working tree in-process (PYTHONPATH=/repo) and regenerate lean/MutagenModel/Generated from it",
            "baseline_off_cmd": "cd /repo && /venv/bin/python -m pytest -ra -q -p no:cacheprovider --timeout=900 --continue-on-collection-errors",
            "source_commits": [],
            "add_only": True,
        },
        "engines": [{
            "name": "lean4+mdriver",
            "path": "lean/",
            "serves_properties": sorted(CLAIMED),
            "kind_free_text": "Lean 4.33 library MutagenModel (Model/Spec/Generated/Proofs/Props) + native line-protocol driver mdriver + Python harness (harness/vcheck.py) calling the real mutagen in-process",
        }],
        "checks": checks,
        "notes": "Every check: extract facts from /repo -> lake build + #print axioms audit -> correspondence model vs real code -> property oracle on the real output -> verdict. known_findings.json lists recorded/fixed defects.",
        "not_applicable": na,
    }
    with open(os.path.join(VERIF, "MANIFEST.json"), "w") as f:
        json.dump(m, f, indent=1)
    print("MANIFEST.json: %d checks, %d not claimed" % (len(checks), len(na)))


if __name__ == "__main__":
    main()
