#!/usr/bin/env python3
"""writes /verif/MANIFEST.json from the table below (kept next to the code it describes)"""
import json, os
HERE = os.path.dirname(os.path.abspath(__file__))
VERIF = os.path.dirname(HERE)

CLAIMED = {
 "C11": dict(
  text="Lean 4 theorems (Props/C11.lean) over the FileM model of resize_file/move_bytes/insert_bytes/delete_bytes/resize_bytes: for every file, "
       "offset, sizes and every buffer size >= 1 the result is the slice specification (both move directions, any overlap), independent of the "
       "buffer size, and every out-of-range or negative request is rejected with ValueError before any write/truncate. Full strength, no partial "
       "statements. The model is tied to the code by regenerated buffer-size constants and by a correspondence check comparing status, final bytes "
       "and the exact file-object call trace of the real functions with the model on exhaustive small tuples, buffer-boundary lattices and the "
       "real 1 MiB buffer.",
  note="Trusted: Lean kernel; axioms propext/Classical.choice/Quot.sound; extract.py; the differential correspondence (BytesIO semantics = FS model); "
       "BUFFER_SIZE=0 is outside the quantifier (the Python loop does not terminate there; the model returns 'diverge').",
  technique="Lean 4 proof (loop invariants by fun_induction over a FileM effect model) + model/implementation trace correspondence",
  ref="DESIGN.md §5 C11"),
}

PENDING_REASON = "not claimed yet in this revision: the Lean model and theorems for this property are still being built (see DESIGN.md §7 build order); it is not 'not applicable' in principle"


def main():
    props = [json.loads(l) for l in open(os.path.join(VERIF, "properties.jsonl"))]
    checks = []
    na = []
    for p in props:
        pid = p["id"]
        if pid in CLAIMED:
            c = CLAIMED[pid]
            checks.append({
                "property_id": pid,
                "quick_cmd": "./check %s quick" % pid,
                "thorough_cmd": "./check %s thorough" % pid,
                "evidence_file": "evidence/%s.json" % pid,
                "replay_cmd_template": "./check %s --replay {path}" % pid,
                "engine": "lean4+mdriver",
                "level_claimed": {"category": "proof", "text": c["text"], "design_ref": c["ref"]},
                "level_note": c["note"],
                "technique": c["technique"],
            })
        else:
            na.append({"property_id": pid, "reason": PENDING_REASON})
    m = {
        "version": 1,
        "setup_cmd": "./setup.sh",
        "hooks": {
            "guard": "MUTAGEN_VERIF",
            "enable": "no source hooks exist; the checks import /repo's working tree in-process (PYTHONPATH=/repo) and regenerate lean/MutagenModel/Generated from it",
            "baseline_off_cmd": "cd /repo && /venv/bin/python -m pytest -ra -q -p no:cacheprovider --timeout=900 --continue-on-collection-errors",
            "source_commits": [],
            "add_only": True,
        },
        "engines": [{
            "name": "lean4+mdriver",
            "path": "lean/",
            "serves_properties": sorted(CLAIMED),
            "kind_free_text": "Lean 4.33 library MutagenModel (Model/Spec/Generated/Proofs/Props) + native line-protocol driver mdriver + Python harness (harness/vcheck.py) calling the real mutagen in-process",
        }],
        "checks": checks,
        "notes": "Every check: extract facts from /repo -> lake build + #print axioms audit -> correspondence model vs real code -> property oracle on the real output -> verdict. known_findings.json lists recorded/fixed defects.",
        "not_applicable": na,
    }
    with open(os.path.join(VERIF, "MANIFEST.json"), "w") as f:
        json.dump(m, f, indent=1)
    print("MANIFEST.json: %d checks, %d not claimed" % (len(checks), len(na)))


if __name__ == "__main__":
    main()
