"""flacblocks_tie.py — correspondence of the Lean model of the FLAC metadata block classes
(lean/MutagenModel/Model/FlacBlocks.lean: Picture, SeekTable, CueSheet, Padding, MetadataBlock) with mutagen/flac.py,
on generated field lattices (in range, at the limits, beyond them) and damaged payloads (every truncation, random
bytes, reserved bits set, trailing bytes), plus the statements of C01 / C07 / C04 on the real classes:
load(write(v)) == v for values in range, write(load(b)) == b for canonical payloads, and only MutagenError from
`Class(data)` and from `FLAC(fileobj)` for a file carrying the payload."""
import io, os, struct
from vcheck import hx
from guards import timed

U32, U64 = 2 ** 32 - 1, 2 ** 64 - 1


def cps(s):
    return ",".join(str(ord(c)) for c in s) or "-"


def classify(exc):
    from mutagen import MutagenError
    if isinstance(exc, MutagenError):
        return "err mutagen"
    return "err " + {"error": "struct", "UnicodeEncodeError": "unicode", "ValueError": "value", "TypeError": "type",
                     "OverflowError": "overflow", "MemoryError": "memory", "IndexError": "index", "KeyError": "key",
                     "AttributeError": "attribute"}.get(type(exc).__name__, type(exc).__name__)


# ---- descriptions in the driver's notation

def d_picture(p):
    return "type=%d mime=%s desc=%s w=%d h=%d depth=%d colors=%d data=%s" % (
        p.type, cps(p.mime), cps(p.desc), p.width, p.height, p.depth, p.colors, hx(p.data))


def d_points(st):
    return "points=" + (",".join("%d:%d:%d" % (p.first_sample, p.byte_offset, p.num_samples) for p in st.seekpoints) or "-")


def d_tracks(tracks):
    return ";".join("%d:%d:%s:%d:%d:%s" % (t.track_number, t.start_offset, hx(t.isrc), t.type, int(bool(t.pre_emphasis)),
                                            "|".join("%d.%d" % (i.index_number, i.index_offset) for i in t.indexes) or "-")
                    for t in tracks) or "-"


def d_cue(c):
    return "mcn=%s leadin=%d cd=%d tracks=%s" % (hx(c.media_catalog_number), c.lead_in_samples, int(bool(c.compact_disc)), d_tracks(c.tracks))


# ---- generators

def g_text(rng):
    return rng.choice(["", "image/jpeg", "image/png", "-->", "x", "Ünï ✓", "\U0001F3B5 cover", "a" * 40, "\x00z", "\ud800"])


def g_u(rng, mx):
    return rng.choice([0, 1, 2, 255, 256, mx - 1, mx, mx, rng.randrange(mx + 1), mx + 1 if rng.random() < 0.3 else 7])


def g_picture(rng):
    from mutagen.flac import Picture
    p = Picture()
    p.type = rng.choice([0, 3, 20, 21, U32, U32 + 1]) if rng.random() < 0.5 else rng.randrange(21)
    p.mime, p.desc = g_text(rng), g_text(rng)
    p.width, p.height, p.depth, p.colors = (g_u(rng, U32) if rng.random() < 0.4 else rng.randrange(3000) for _ in range(4))
    p.data = bytes(rng.randrange(256) for _ in range(rng.choice([0, 1, 5, 64, 300])))
    return p


def g_seektable(rng):
    from mutagen.flac import SeekTable, SeekPoint
    st = SeekTable(None)
    for _ in range(rng.choice([0, 1, 2, 5])):
        st.seekpoints.append(SeekPoint(g_u(rng, U64) if rng.random() < 0.5 else rng.randrange(10 ** 6),
                                       g_u(rng, U64) if rng.random() < 0.3 else rng.randrange(10 ** 6),
                                       g_u(rng, 65535) if rng.random() < 0.5 else 4096))
    return st


def g_cuesheet(rng):
    from mutagen.flac import CueSheet, CueSheetTrack, CueSheetTrackIndex
    c = CueSheet(None)
    c.media_catalog_number = rng.choice([b"", b"1234567890123", b"x" * 128, b"y" * 129, b"ab\0", b"\0", b"a\0b"])
    c.lead_in_samples = g_u(rng, U64) if rng.random() < 0.4 else 88200
    c.compact_disc = rng.choice([True, False])
    for _ in range(rng.choice([0, 1, 2, 3, 3, 256 if rng.random() < 0.05 else 1])):
        t = CueSheetTrack(g_u(rng, 255) if rng.random() < 0.4 else rng.randrange(1, 100), g_u(rng, U64) if rng.random() < 0.3 else rng.randrange(10 ** 7),
                          rng.choice([b"", b"ABCDE1234567", b"short", b"toolongisrc-13", b"abc\0", b"\0"]), rng.choice([0, 1, 1, 2, 3]), rng.choice([True, False]))
        for _ in range(rng.choice([0, 1, 2, 256 if rng.random() < 0.03 else 1])):
            t.indexes.append(CueSheetTrackIndex(g_u(rng, 255) if rng.random() < 0.3 else rng.randrange(3), g_u(rng, U64) if rng.random() < 0.3 else 588 * rng.randrange(100)))
        c.tracks.append(t)
    return c


def write_line(kind, obj):
    if kind == "picture":
        return "flacblk op=write kind=picture " + d_picture(obj)
    if kind == "seektable":
        return "flacblk op=write kind=seektable " + d_points(obj)
    if kind == "cuesheet":
        return "flacblk op=write kind=cuesheet " + d_cue(obj)
    raise KeyError(kind)


def in_range(kind, o):
    """the values the model's `Fits` describes: what must survive write + load"""
    def scal(s):
        return all(not (0xD800 <= ord(ch) < 0xE000) for ch in s)
    if kind == "picture":
        return all(0 <= v <= U32 for v in (o.type, o.width, o.height, o.depth, o.colors)) and scal(o.mime) and scal(o.desc)
    if kind == "seektable":
        return all(0 <= p.first_sample <= U64 and 0 <= p.byte_offset <= U64 and 0 <= p.num_samples <= 65535 for p in o.seekpoints)
    if kind == "cuesheet":
        okb = lambda b, n: len(b) <= n and not b.endswith(b"\0")
        return (okb(o.media_catalog_number, 128) and o.lead_in_samples <= U64 and len(o.tracks) <= 255 and
                all(t.track_number <= 255 and t.start_offset <= U64 and okb(t.isrc, 12) and t.type in (0, 1) and len(t.indexes) <= 255 and
                    all(i.index_number <= 255 and i.index_offset <= U64 for i in t.indexes) for t in o.tracks))
    return True


def load_real(kind, data):
    from mutagen import flac
    cls = {"picture": flac.Picture, "seektable": flac.SeekTable, "cuesheet": flac.CueSheet, "padding": flac.Padding,
           "generic": flac.MetadataBlock}[kind]
    return cls(data)


def describe(kind, obj, data):
    if kind == "picture":
        # the stream variant of the model also reports what follows the picture
        ml = struct.unpack(">I", data[4:8])[0]
        dl = struct.unpack(">I", data[8 + ml:12 + ml])[0]
        used = 32 + ml + dl + struct.unpack(">I", data[28 + ml + dl:32 + ml + dl])[0]
        return "ok %s rest=%d" % (d_picture(obj), len(data) - used)
    if kind == "seektable":
        return "ok " + d_points(obj)
    if kind == "cuesheet":
        return "ok " + d_cue(obj)
    if kind == "padding":
        return "ok length=%d" % obj.length
    return "ok data=%s" % hx(obj.data)


def damaged(rng, kind, good):
    """payloads around a well-formed one"""
    out = [good]
    n = len(good)
    cuts = range(n + 1) if n <= 60 else sorted(set([0, 1, 7, 8, 9, n - 1, n] + [rng.randrange(n) for _ in range(25)]))
    out += [good[:k] for k in cuts]
    out.append(good + bytes(rng.randrange(256) for _ in range(rng.choice([1, 3, 17, 18, 40]))))
    for _ in range(6):
        b = bytearray(good)
        if b:
            for _ in range(rng.choice([1, 1, 2, 4])):
                b[rng.randrange(len(b))] = rng.choice([0, 1, 0x7F, 0x80, 0xFF, rng.randrange(256)])
        out.append(bytes(b))
    out.append(bytes(rng.randrange(256) for _ in range(rng.choice([0, 1, 18, 19, 36, 400, 450]))))
    return out


def flac_file(code, payload, last=True, declared=None):
    """fLaC + STREAMINFO + one block (declared size may lie) + a little audio"""
    si = bytes.fromhex("10001000" "000010" "000010" "0ac442f0" "00000064" + "00" * 16)
    n = len(payload) if declared is None else declared
    return b"fLaC" + b"\x00" + struct.pack(">I", len(si))[1:] + si + bytes([code | (0x80 if last else 0)]) + struct.pack(">I", n & 0xFFFFFF)[1:] + payload + b"\xff\xf8" + b"\0" * 20


def run(ctx):
    """model tie + the statements on the real classes; returns the number of cases"""
    from mutagen import MutagenError, flac
    rng = ctx.rng
    reqs = []
    n = int(os.environ.get("VERIF_FLACBLK_CASES", "0")) or ctx.budget(40, 400)
    # --- decode('UTF-8', 'replace')
    alphabet = [0x41, 0x7F, 0x80, 0xBF, 0xC0, 0xC1, 0xC2, 0xDF, 0xE0, 0xE1, 0xEC, 0xED, 0xEE, 0xEF, 0xF0, 0xF1, 0xF3, 0xF4, 0xF5, 0xFF, 0x8F, 0x90, 0x9F, 0xA0]
    for i in range(n * 3):
        b = bytes(rng.choice(alphabet) if rng.random() < 0.85 else rng.randrange(256) for _ in range(rng.randrange(0, 9)))
        reqs.append(("flacblk op=utf8 kind=x data=%s" % hx(b), "ok v=%s" % cps(b.decode("utf-8", "replace")), dict(what="utf8-replace", data=hx(b))))
    gens = {"picture": g_picture, "seektable": g_seektable, "cuesheet": g_cuesheet}
    for kind in ("picture", "seektable", "cuesheet", "padding", "generic"):
        for i in range(n):
            # --- write: real against model, then the round trip on the real class
            good = None
            if kind in gens:
                obj = gens[kind](rng)
                k, r = timed(obj.write, 20)
                impl = "ok v=%s" % hx(r) if k == "ok" else classify(r)
                case = dict(kind=kind, op="write", fields=write_line(kind, obj)[len("flacblk op=write "):][:600])
                ctx.case(key=("flacblk", kind, "write", i), nontrivial=(k == "ok"), modelled=True, sample=case if i == 1 else None)
                ctx.hist["flacblk:%s:write:%s" % (kind, impl.split(" v=")[0])] += 1
                reqs.append((write_line(kind, obj), impl, case))
                if in_range(kind, obj):
                    if k != "ok":
                        ctx.violation("flacblk:%s:write-raises" % kind, "%s for values in range" % impl, case)
                    else:
                        k2, o2 = timed(lambda: load_real(kind, bytes(r)), 20)
                        if k2 != "ok" or not (o2 == obj):
                            ctx.violation("flacblk:%s:roundtrip" % kind, "load(write(v)) != v for values in range", case)
                        elif bytes(o2.write()) != bytes(r):
                            ctx.violation("flacblk:%s:rewrite-differs" % kind, "write(load(write(v))) != write(v)", case)
                elif k == "exc" and not isinstance(r, (struct.error, UnicodeEncodeError, MutagenError)):
                    ctx.violation("flacblk:%s:write-raises-%s" % (kind, type(r).__name__), "out-of-range value: %r" % (r,), case)
                if k == "ok":
                    good = bytes(r)
            elif kind == "padding":
                good = b"\0" * rng.choice([0, 1, 5, 100])
            else:
                good = bytes(rng.randrange(256) for _ in range(rng.choice([0, 3, 4, 30])))
            if good is None:
                continue
            # --- load of the payload and of damaged variants: real against model; rewrite; C04 on class and on the file
            for data in damaged(rng, kind, good)[: (None if i % 4 == 0 else 6)]:
                k, o = timed(lambda: load_real(kind, data), 20)
                case = dict(kind=kind, op="load", data=hx(data) if len(data) < 900 else "len=%d" % len(data))
                ctx.case(key=("flacblk", kind, "load", i, len(data)), nontrivial=True, modelled=True)
                if k == "hang":
                    ctx.violation("flacblk:%s:hang" % kind, "load did not finish", case); continue
                if k == "exc" and not isinstance(o, MutagenError):
                    ctx.violation("flacblk:%s:load-raises-%s" % (kind, type(o).__name__), "%r from %s(data)" % (o, kind), case)
                impl = describe(kind, o, data) if k == "ok" else classify(o)
                ctx.hist["flacblk:%s:load:%s" % (kind, "ok" if k == "ok" else impl)] += 1
                reqs.append(("flacblk op=load kind=%s data=%s" % (kind, hx(data)), impl, case))
                if k == "ok":
                    k3, w = timed(o.write, 20)
                    reqs.append(("flacblk op=rewrite kind=%s data=%s" % (kind, hx(data)), "ok v=%s" % hx(bytes(w)) if k3 == "ok" else classify(w), dict(case, op="rewrite")))
                # the same payload inside a FLAC file, block size right and wrong: only MutagenError
                code = {"picture": 6, "seektable": 3, "cuesheet": 5, "padding": 1, "generic": rng.choice([2, 7, 100, 126])}[kind]
                for declared in (None, max(0, len(data) - 3), len(data) + 5):
                    f = flac_file(code, data, declared=declared)
                    k4, r4 = timed(lambda: flac.FLAC(io.BytesIO(f)), 20)
                    if k4 == "hang":
                        ctx.violation("flacblk:%s:file-hang" % kind, "FLAC(fileobj) did not finish", dict(case, file=hx(f)[:400]))
                    elif k4 == "exc" and not isinstance(r4, MutagenError):
                        ctx.violation("flacblk:%s:file-load-raises-%s" % (kind, type(r4).__name__), "%r from FLAC(fileobj)" % (r4,), dict(case, declared=declared, file=hx(f)[:1200]))
                    # the dispatch of __read_metadata_block (class by code, trusted / distrusted size) against the model
                    if (i + (declared or 0)) % 3 == 0:
                        nsz = (len(data) if declared is None else declared) & 0xFFFFFF
                        stream = f[4 + 4 + 34 + 4:]
                        if k4 == "ok":
                            blk = r4.metadata_blocks[1]
                            bk = {1: "padding", 3: "seektable", 5: "cuesheet", 6: "picture"}.get(code, "generic")
                            dd = stream if bk == "picture" else stream[:nsz]
                            body_impl = describe(bk, blk, dd)
                            if bk != "picture":
                                body_impl += " rest=%d" % (len(stream) - nsz)
                            else:
                                body_impl = body_impl.rsplit(" rest=", 1)[0] + " rest=%d" % int(body_impl.rsplit(" rest=", 1)[1])
                        else:
                            body_impl = classify(r4)
                        reqs.append(("flacblk op=body kind=x code=%d size=%d data=%s" % (code, nsz, hx(stream)), body_impl, dict(case, op="body", code=code, declared=nsz)))
    if not ctx.model_ok():
        ctx.notes.append("flacblocks_tie: model driver unavailable, tie skipped")
        return len(reqs)
    answers = ctx.driver.ask([r[0] for r in reqs])
    if any(a == "bad-op" for a in answers):
        ctx.notes.append("flacblocks_tie: the driver does not know the `flacblk` command; tie skipped")
        return len(reqs)
    for (line, impl, case), ans in zip(reqs, answers):
        ctx.traces_validated += 1
        if ans != impl:
            ctx.disagree("flac metadata block classes", case, model=ans[:500], impl=impl[:500])
    return len(reqs)
